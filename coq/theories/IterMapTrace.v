(* IterMapTrace.v — protocol encoding of IterMap.v (engine "itermap").

   The harness dumps the slab tree of a committed map (hook VerifMapTreeDump: every cached field), says
   in which slab every key / value storable lives and which digests the keys have, then — for several
   sets of loaded slabs — drains the implementation's loaded-value iterator.  The engine PARSES the
   dump into an [mtree] (the parse is checked to be lossless by re-encoding it with MapTreeTrace.tdump)
   and answers with the model's yield on that tree under that loaded set.

   Configuration line: [T; levels].
   Operations                                                     Answers
     0 :: count :: nk :: (kid; slab)*nk ++ nv :: (vid; slab)*nv    [0; rt; wf; agree; n; (kid; vid)*n]   | [3] (no parse)
       ++ nd :: (kid; d_0 .. d_{levels-1})*nd ++ TREE
          set the tree.  count = MapExtraData.Count of the root; (kid; slab): key identity -> index of
          the slab its storable references (absent = 0 = stored inline); the same for values;
          rt: re-encoding the parsed tree gives back TREE; wf: the executable invariant checker
          (MapTreeInv: mwf_rootb, count, sibling chain, distinct slab identifiers) accepts it — the
          hypothesis [mtwf] of the theorems; agree: the header copies name the children;
          then the full enumeration [to_list_tree] (compared with the read-only iterator).
     1 :: nl :: id*nl                                              [0; n; (kid; vid)*n]                  | [3] (no tree)
          IterateReadOnlyLoadedValues with exactly the slabs id* loaded: [m_iter_loaded].
     2 :: nl :: id*nl                                              [0; n; (kid; vid)*n]                  | [3]
          ReadOnlyLoadedValueIterator + Next until nil: the iterator object [m_iter_object].
     3 :: nl :: id*nl                                              [0; n; (kid; npath; path..) x n]         | [3]
          the entries whose whole path is loaded, with their paths ([m_paths] filtered): compared with
          the harness' own walk (hook VerifMapIterDump).
   TREE: see MapTreeTrace.v. *)
From Coq Require Import ZArith NArith List Bool.
From AtreeGen Require Import Consts.
From AtreeModel Require Import Proto Settings MapElems MapElemsInv MapTrace MapTree MapTreeInv MapTreeTrace IterMap.
Import ListNotations.
Local Open Scope Z_scope.

(** * parsing a dump *)

(* n items with parser p *)
Fixpoint p_many {A : Type} (p : line -> option (A * line)) (n : nat) (l : line) : option (list A * line) :=
  match n with
  | O => Some ([], l)
  | S n' =>
    match p l with
    | None => None
    | Some (x, r) =>
      match p_many p n' r with
      | None => None
      | Some (xs, r') => Some (x :: xs, r')
      end
    end
  end.

Definition p_quad (l : line) : option ((kv * kv) * line) :=
  match l with
  | k :: ks :: v :: vs :: r => Some ((mkkv (zN k) (zN ks), mkkv (zN v) (zN vs)), r)
  | _ => None
  end.

Definition p_int (l : line) : option (N * line) :=
  match l with x :: r => Some (zN x, r) | [] => None end.

(* elements: the cached element sizes of the dump are recomputed by the model ([esize]); the
   round-trip check compares them *)
Fixpoint p_elems (fuel : nat) (l : line) : option (melems * line) :=
  match fuel with
  | O => None
  | S f =>
    let p_elem (l : line) : option (melem * line) :=
      match l with
      | 0 :: k :: ks :: v :: vs :: _ :: r => Some (ESingle (mkkv (zN k) (zN ks)) (mkkv (zN v) (zN vs)), r)
      | 1 :: _ :: r => match p_elems f r with Some (g, r') => Some (EGroup None g, r') | None => None end
      | 2 :: id :: _ :: r => match p_elems f r with Some (g, r') => Some (EGroup (Some (zN id)) g, r') | None => None end
      | _ => None
      end in
    match l with
    | 0 :: lv :: n :: sz :: r =>
      match p_many p_int (znat n) r with
      | None => None
      | Some (hks, r1) =>
        match p_many p_elem (znat n) r1 with
        | None => None
        | Some (es, r2) => Some (HKey (znat lv) hks es (zN sz), r2)
        end
      end
    | 1 :: lv :: n :: sz :: r =>
      match p_many p_quad (znat n) r with
      | None => None
      | Some (kvs, r1) => Some (SList (znat lv) kvs (zN sz), r1)
      end
    | _ => None
    end
  end.

Definition p_hdr (l : line) : option (mhdr * line) :=
  match l with
  | i :: s :: f :: r => Some (mkmhdr (zN i) (zN s) (zN f), r)
  | _ => None
  end.

Fixpoint p_node (fuel : nat) (l : line) : option (mnode * line) :=
  match fuel with
  | O => None
  | S f =>
    match l with
    | 0 :: i :: s :: fk :: nx :: r =>
      match p_elems (length r) r with
      | None => None
      | Some (g, r') => Some (MD (mkmhdr (zN i) (zN s) (zN fk)) (zN nx) g, r')
      end
    | 1 :: i :: s :: fk :: n :: r =>
      match p_many p_hdr (znat n) r with
      | None => None
      | Some (hs, r1) =>
        match p_many (p_node f) (znat n) r1 with
        | None => None
        | Some (cs, r2) => Some (MM (mkmhdr (zN i) (zN s) (zN fk)) hs cs, r2)
        end
      end
    | _ => None
    end
  end.

Definition p_tree (l : line) : option mnode :=
  match p_node (length l) l with
  | Some (n, []) => Some n
  | _ => None
  end.

(** * tables *)

Definition p_ref (l : line) : option ((N * N) * line) :=
  match l with k :: s :: r => Some ((zN k, zN s), r) | _ => None end.

Definition p_table (l : line) : option (list (N * N) * line) :=
  match l with
  | n :: r => p_many p_ref (znat n) r
  | [] => None
  end.

Definition ref_table (rows : list (N * N)) : ptrie :=
  fold_left (fun t row => ptadd t (fst row) [snd row]) rows PLeaf.

Definition ref_of (t : ptrie) (x : kv) : N :=
  match plookup (N.succ_pos (kid x)) t with Some (s :: _) => s | _ => 0%N end.

Definition p_digrow (levels : nat) (l : line) : option ((N * list N) * line) :=
  match l with
  | k :: r =>
    match p_many p_int levels r with
    | Some (ds, r') => Some ((zN k, ds), r')
    | None => None
    end
  | [] => None
  end.

Definition dig_table (rows : list (N * list N)) : ptrie :=
  fold_left (fun t row => ptadd t (fst row) (snd row)) rows PLeaf.

(** * the engine *)

Fixpoint m_hdrs_agreeb (n : mnode) : bool :=
  match n with
  | MD _ _ _ => true
  | MM _ hs cs =>
    list_eqb N.eqb (map mh_id hs) (map (fun c => mh_id (hdr_of c)) cs) &&
    (fix go (l : list mnode) : bool := match l with [] => true | c :: r => m_hdrs_agreeb c && go r end) cs
  end.

(* mtwf of MapTreeInv plus sibling chain and distinct identifiers; the allocator bound of mtwfb is left
   out (the dump does not carry the allocator) *)
Definition wf_dumpb (dgf : N -> nat -> N) (levels : nat) (c : cfg) (root : mnode) (count : N) : bool :=
  mwf_rootb dgf levels c root && (count =? N.of_nat (length (to_list_tree root)))%N &&
  chainb root 0 && nodupb (slab_ids root).

Record imstate : Type := mkim { im_tree : option mtree; im_kref : ptrie; im_vref : ptrie }.

Inductive imop : Type :=
| IMSet (raw : line)
| IMIter (mode : Z) (ids : list N).

Definition dec_imop (l : line) : option imop :=
  match l with
  | 0 :: r => Some (IMSet r)
  | m :: n :: ids =>
    if ((1 <=? m) && (m <=? 3) && (Z.of_nat (length ids) =? n))%bool%Z then Some (IMIter m (map zN ids)) else None
  | _ => None
  end.

Definition loaded_of (ids : list N) : N -> bool :=
  let t := fold_left (fun t i => ptadd t i []) ids PLeaf in
  fun id => match plookup (N.succ_pos id) t with Some _ => true | None => false end.

Definition enc_path (x : (kv * kv) * list N) : line :=
  Nz (kid (fst (fst x))) :: natz (length (snd x)) :: map Nz (snd x).

Section engine.
  Variable levels : nat.
  Variable c : cfg.

  Definition im_set (raw : line) : option (imstate * line) :=
    match raw with
    | count :: r0 =>
      match p_table r0 with
      | None => None
      | Some (krows, r1) =>
        match p_table r1 with
        | None => None
        | Some (vrows, r2) =>
          match r2 with
          | nd :: r3 =>
            match p_many (p_digrow levels) (znat nd) r3 with
            | None => None
            | Some (drows, tree) =>
              match p_tree tree with
              | None => None
              | Some root =>
                let dgf := ptdg (dig_table drows) in
                let t := mkmt root 0 (zN count) in
                Some (mkim (Some t) (ref_table krows) (ref_table vrows),
                      0 :: boolz (zlist_eqb (tdump root) tree)
                        :: boolz (wf_dumpb dgf levels c root (zN count))
                        :: boolz (m_hdrs_agreeb root)
                        :: enc_pairs (to_list_tree root))
              end
            end
          | [] => None
          end
        end
      end
    | [] => None
    end.

  Definition itermap_step (s : imstate) (o : imop) : imstate * line :=
    match o with
    | IMSet raw =>
      match im_set raw with
      | Some (s', a) => (s', a)
      | None => (mkim None PLeaf PLeaf, [3])
      end
    | IMIter m ids =>
      match im_tree s with
      | None => (s, [3])
      | Some t =>
        let kr := ref_of (im_kref s) in
        let vr := ref_of (im_vref s) in
        let ld := loaded_of ids in
        (s, if m =? 1 then 0 :: enc_pairs (m_iter_loaded kr vr ld t)
            else if m =? 2 then 0 :: enc_pairs (m_iter_object kr vr ld t)
            else let ps := filter (path_loaded ld) (m_paths kr vr t) in
                 0 :: natz (length ps) :: flat_map enc_path ps)
      end
    end.
End engine.

Definition chk_itermap (cfgl : line) (tr : list (line * line)) : verdict :=
  match cfgl with
  | [t; lv] =>
    check_from dec_imop (itermap_step (znat lv) (set_threshold (zN t))) (mkim None PLeaf PLeaf) tr 0
  | _ => VBadOp 0 cfgl
  end.
