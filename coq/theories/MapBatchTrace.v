(* MapBatchTrace.v — protocol encoding of MapBatch.v (engine "mapbatch").

   Configuration line: [T; max_inline_elem; limit; levels].
   The engine state is ONE current map (a MapTree.mtree, initially an empty map with root index 0
   that no history uses) and the digest table accumulated from the trace (as in MapTreeTrace.v).

   Operations
     [20; alloc0; seed; n; (kid; ksz; vid; vsz; d_0 .. d_{levels-1})*n]
         NewMapFromBatchData on the stream of n elements, allocator of the target address = alloc0;
         the current map becomes the result
         answer  [0] ++ TAIL(with TREE)      |  [1; code]   (1 seed, 2 digest not sorted, 3 duplicate key, 4 other)
     [21; alloc0; inlined; switch; same; np; npid*np]
         CanCopyNonRefSimple / CopyNonRefSimple of the current map to an address whose allocator is
         alloc0; a key or value is plain unless its identity is one of the np listed ones;
         inlined = 1: the source is inlined in a parent (its cached size carries the inlined prefix);
         switch = 1: the copy becomes the current map (if it succeeds);
         same = 1: the target address is the current map's own address, so the allocator that the
         current map's further operations draw from has advanced
         answer  [0; offered] ++ TAIL(with TREE) of the copy  |  [1; offered; code; allocator after]
                 (code 1 multi-slab, 2 sibling link, 3 element)
     [1..8; ...]  the operations of MapTreeTrace.v (Set/Get/Has/Remove/Count/Iterate/Iterate/PopIterate)
         on the current map, same answers: a batch-built or copied map must go on behaving as the
         operation-by-operation model says.
   TAIL, TREE and the dump of elements: exactly MapTreeTrace.v (enc_tail with dump = 1). *)
From Coq Require Import ZArith NArith List Bool.
From AtreeGen Require Import Consts.
From AtreeModel Require Import Proto Settings MapElems MapTrace MapTree MapTreeInv MapTreeTrace MapBatch.
Import ListNotations.
Local Open Scope Z_scope.

Inductive bop : Type :=
| BBuild (alloc seed : N) (st : list (kv * kv * list N))
| BCopy (alloc : N) (inlined switch same : bool) (nps : list N)
| BOp (o : ttop).

(* n elements of 4 + lv integers each *)
Fixpoint take_n (n : nat) (l : line) : option (list N * line) :=
  match n with
  | O => Some ([], l)
  | S m =>
    match l with
    | [] => None
    | x :: r => match take_n m r with Some (ds, rest) => Some (zN x :: ds, rest) | None => None end
    end
  end.

Fixpoint dec_stream (lv : nat) (fuel : nat) (l : line) : option (list (kv * kv * list N)) :=
  match l with
  | [] => Some []
  | k :: ks :: v :: vs :: r =>
    match fuel with
    | O => None
    | S f =>
      match take_n lv r with
      | None => None
      | Some (ds, rest) =>
        match dec_stream lv f rest with
        | Some es => Some ((mkkv (zN k) (zN ks), mkkv (zN v) (zN vs), ds) :: es)
        | None => None
        end
      end
    end
  | _ => None
  end.

Definition dec_bop (lv : nat) (l : line) : option bop :=
  match l with
  | 20 :: alloc :: seed :: n :: r =>
    match dec_stream lv (S (length r)) r with
    | Some es => if Z.eqb (natz (length es)) n then Some (BBuild (zN alloc) (zN seed) es) else None
    | None => None
    end
  | 21 :: alloc :: inlz :: sw :: sm :: np :: r =>
    if Z.eqb (natz (length r)) np then Some (BCopy (zN alloc) (zbool inlz) (zbool sw) (zbool sm) (map zN r)) else None
  | _ => match dec_ttop l with Some o => Some (BOp o) | None => None end
  end.

Definition berr_code (e : berr) : Z :=
  match e with BSeed => 1 | BUnsorted => 2 | BDuplicate => 3 | _ => 4 end.
Definition cerr_code (e : cerr) : Z :=
  match e with ECopyMultiSlab => 1 | ECopyNext => 2 | ECopyElement => 3 end.

Section engine.
  Variable levels : nat.
  Variable max_inline_elem limit : N.
  Variable c : cfg.

  Definition bstate : Type := (ptrie * mtree)%type.

  (* an inlined source: the cached size of its data slab counts the inlined prefix instead of the
     root prefix *)
  Definition as_inlined (n : mnode) : mnode :=
    match n with
    | MD h nx es => MD (mkmhdr (mh_id h) (mh_size h - RP + IMP) (mh_first h)) nx es
    | _ => n
    end.

  Definition set_alloc (t : mtree) (a : N) : mtree := mkmt (t_root t) a (t_count t).

  Definition mapbatch_step (bs : bstate) (o : bop) : bstate * line :=
    let '(tb, t) := bs in
    match o with
    | BBuild alloc seed st =>
      let tb' := fold_left (fun acc x => ptadd acc (kid (fst (fst x))) (snd x)) st tb in
      let dgf := ptdg tb' in
      match map_from_batch_res dgf levels max_inline_elem limit c alloc seed (map fst st) with
      | BOk (t', lg) => ((tb', t'), 0 :: enc_tail levels c dgf t' lg true)
      | BErr e => ((tb', t), [1; berr_code e])
      end
    | BCopy alloc inlb sw sm nps =>
      let pl := fun x : kv => negb (existsb (N.eqb (kid x)) nps) in
      let dgf := ptdg tb in
      let src := if inlb then as_inlined (t_root t) else t_root t in
      let offered := boolz (can_copy pl src) in
      match copy_map pl src inlb (t_count t) alloc with
      | (inl (t', lg), a) =>
        ((tb, if sw then t' else if sm then set_alloc t a else t), 0 :: offered :: enc_tail levels c dgf t' lg true)
      | (inr e, a) => ((tb, if sm then set_alloc t a else t), [1; offered; cerr_code e; Nz a])
      end
    | BOp op =>
      let '(bs', ans) := maptree_step levels max_inline_elem limit c (tb, t) op in (bs', ans)
    end.
End engine.

Definition chk_mapbatch (cfgl : line) (tr : list (line * line)) : verdict :=
  match cfgl with
  | [t; mi; lim; lv] =>
    check_from (dec_bop (znat lv)) (mapbatch_step (znat lv) (zN mi) (zN lim) (set_threshold (zN t)))
               (PLeaf, fst (mt_init 0%N)) tr 0
  | _ => VBadOp 0 cfgl
  end.
