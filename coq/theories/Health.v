(* Health.v — executable model of atree's storage health check (storage_health_check.go,
   CheckStorageHealth) and of PersistentSlabStorage.GetAllChildReferences (storage.go).

   Abstraction.  A storage with every slab loaded is a finite map from slab identifiers
   to the list of slab references found in the slab, in the order in which the Go loops
   meet them.  "Found in the slab" already goes through inlined children and wrappers:
   in Go that is the `for len(childStorables) > 0` loop over `ChildStorables()`, which
   only descends through storables that are NOT SlabIDStorable; what those storables are
   is the business of C07/C09, here the graph gives the result of that loop directly.
   The owner of a slab is the address part of its identifier ([fst]).

   The slab iterator of Go yields the slabs in map-iteration order, which is arbitrary:
   [order] is a parameter of [check_health] and the theorems quantify over it.

   The walk from a leaf to its root has no cycle guard in Go (a cycle that has a leaf
   hanging off it makes the real function loop forever); the model gives the walk
   [number of slabs + 1] steps of fuel and reports exhaustion as the distinct error
   [EFuel].  Likewise for GetAllChildReferences ([GFuel]).

   [check_health] is the CURRENT algorithm of /repo, i.e. with the repair "every
   referenced slab must exist in storage"; [check_health_old] is the algorithm before
   that repair and is kept only to document the finding (C20_sound_refuted_old).

   Model only; proofs are in proofs/Health_proofs.v. *)
From stdpp Require Import gmap sorting.
From Coq Require Import ZArith NArith.
From AtreeModel Require Import Storage.

(** * Graphs *)

Notation graph := (gmap sid (list sid)) (only parsing).

Definition refs_of (g : graph) (i : sid) : list sid := default [] (g !! i).

(* the owner of a slab: the address part of its identifier (Go: slab.SlabID().address) *)
Definition owner (i : sid) : N := fst i.

(** * Results *)

Inductive herr : Type :=
| EDuplicate        (* "duplicate slab %s"                                    *)
| ETwoParents       (* "two parents are captured for the slab %s"             *)
| EMissingRef       (* "referenced slab is missing in storage" (the repair)   *)
| ELeafTwice        (* "at least two references found to the leaf slab %s"    *)
| EChildNotFound    (* "failed to get child slab"                             *)
| EParentNotFound   (* "failed to get parent slab"                            *)
| EOwner            (* "parent and child are not owned by the same account"   *)
| EUnreachable      (* "slab was not reachable from leaves"                   *)
| ERootCount        (* "number of root slabs doesn't match"                   *)
| EFuel.            (* the Go loop would not terminate                        *)

Inductive hres : Type :=
| Ok (roots : list sid)
| Err (e : herr).

Global Instance herr_eq_dec : EqDecision herr.
Proof. solve_decision. Defined.

(** * The scan loop: slabs, parentOf, leaves *)

(* the loop over the references of one slab [id]:
     if _, found := parentOf[sid]; found { return "two parents" }; parentOf[sid] = id *)
Fixpoint scan_refs (id : sid) (refs : list sid) (par : gmap sid sid) : option (gmap sid sid) :=
  match refs with
  | [] => Some par
  | c :: rest =>
    match par !! c with
    | Some _ => None
    | None => scan_refs id rest (<[c := id]> par)
    end
  end.

Record scan_st : Type := mk_scan {
  sc_slabs  : gset sid;        (* keys of the Go map `slabs`      *)
  sc_par    : gmap sid sid;    (* `parentOf`                      *)
  sc_leaves : list sid         (* `leaves`, in order of discovery *)
}.

Definition scan_init : scan_st := mk_scan ∅ ∅ [].

Fixpoint scan (g : graph) (order : list sid) (s : scan_st) : herr + scan_st :=
  match order with
  | [] => inr s
  | id :: rest =>
    if decide (id ∈ sc_slabs s) then inl EDuplicate else
    let refs := refs_of g id in
    match scan_refs id refs (sc_par s) with
    | None => inl ETwoParents
    | Some par' =>
      scan g rest (mk_scan ({[id]} ∪ sc_slabs s) par'
                           (match refs with [] => sc_leaves s ++ [id] | _ => sc_leaves s end))
    end
  end.

(** * The repair: every key of parentOf must be a slab *)

Definition missing_ref (slabs : gset sid) (par : gmap sid sid) : bool :=
  existsb (fun c => negb (bool_decide (c ∈ slabs))) (map fst (map_to_list par)).

(** * The walk from a leaf to its root *)

(* the inner `for` of the leaves loop; returns the grown visited set and the root reached *)
Fixpoint walk_up (fuel : nat) (g : graph) (par : gmap sid sid) (id : sid) (visited : gset sid)
  : herr + (gset sid * sid) :=
  match fuel with
  | O => inl EFuel
  | S f =>
    match par !! id with
    | None => inr (visited, id)                               (* we reach the root *)
    | Some p =>
      let visited' := {[p]} ∪ visited in
      match g !! id with
      | None => inl EChildNotFound
      | Some _ =>
        match g !! p with
        | None => inl EParentNotFound
        | Some _ =>
          if N.eqb (owner id) (owner p) then walk_up f g par p visited' else inl EOwner
        end
      end
    end
  end.

Fixpoint walk_leaves (fuel : nat) (g : graph) (par : gmap sid sid) (leaves : list sid)
    (visited roots : gset sid) : herr + (gset sid * gset sid) :=
  match leaves with
  | [] => inr (visited, roots)
  | leaf :: rest =>
    if decide (leaf ∈ visited) then inl ELeafTwice else
    match walk_up fuel g par leaf ({[leaf]} ∪ visited) with
    | inl e => inl e
    | inr (visited', r) => walk_leaves fuel g par rest visited' ({[r]} ∪ roots)
    end
  end.

(** * CheckStorageHealth *)

Definition check_health_gen (repaired : bool) (order : list sid) (g : graph) (expected : option nat)
  : hres :=
  match scan g order scan_init with
  | inl e => Err e
  | inr s =>
    if repaired && missing_ref (sc_slabs s) (sc_par s) then Err EMissingRef else
    match walk_leaves (S (size (sc_slabs s))) g (sc_par s) (sc_leaves s) ∅ ∅ with
    | inl e => Err e
    | inr (visited, roots) =>
      if negb (Nat.eqb (size visited) (size (sc_slabs s))) then Err EUnreachable else
      match expected with
      | Some k => if Nat.eqb (size roots) k then Ok (elements roots) else Err ERootCount
      | None => Ok (elements roots)                (* expectedNumberOfRootSlabs < 0 *)
      end
    end
  end.

Definition check_health : list sid -> graph -> option nat -> hres := check_health_gen true.
Definition check_health_old : list sid -> graph -> option nat -> hres := check_health_gen false.

(** * GetAllChildReferences *)

Inductive gres : Type :=
| GOk (references broken : list sid)
| GNotFound                                   (* the start slab is absent *)
| GFuel.                                      (* the Go loop would not terminate *)

(* one pass of the inner `for _, childStorable := range childStorables`: every pending
   reference is either broken or resolvable; a resolvable one contributes the references of
   its slab to the next level *)
Fixpoint gacr_level (g : graph) (level : list sid) (refs broken next : list sid)
  : list sid * list sid * list sid :=
  match level with
  | [] => (refs, broken, next)
  | c :: rest =>
    match g !! c with
    | None => gacr_level g rest refs (broken ++ [c]) next
    | Some rs => gacr_level g rest (refs ++ [c]) broken (next ++ rs)
    end
  end.

Fixpoint gacr (fuel : nat) (g : graph) (level refs broken : list sid) : gres :=
  match level with
  | [] => GOk refs broken
  | _ =>
    match fuel with
    | O => GFuel
    | S f => let '(refs', broken', next) := gacr_level g level refs broken [] in
             gacr f g next refs' broken'
    end
  end.

Definition get_all_child_refs_fuel (fuel : nat) (g : graph) (id : sid) : gres :=
  match g !! id with
  | None => GNotFound
  | Some rs => gacr fuel g rs [] []
  end.

Definition get_all_child_refs (g : graph) (id : sid) : gres :=
  get_all_child_refs_fuel (S (size (dom g))) g id.

(** * The graph of a listing (used by the trace engine and the examples) *)

Definition graph_of (l : list (sid * list sid)) : graph := list_to_map l.
