(* MapTrace.v — protocol encoding of MapElems.v (engine "mapelems").

   Configuration line: [T; max_inline_elem; limit; levels]  (T is informative only).
   The digest assignment is the finite table accumulated from the trace: every operation that
   names a key carries the key's digests for levels 0..levels-1 as computed by the harness'
   table digester.  External-group slab identifiers are normalised by the harness to the order
   of creation (0, 1, 2, ...), which is what the model's allocator hands out.

   Operations                                  Answers
     [1; kid; ksz; vid; vsz; d0..]  Set        [0; 0] ++ S | [0; 1; pvid; pvsz] ++ S | [2] ++ S | [3]
     [2; kid; d0..]                 Get        [0; vid; vsz] | [1] | [3]
     [3; kid; d0..]                 Has        [0; b] | [3]
     [4; kid; d0..]                 Remove     [0; kid; ksz; vid; vsz] ++ S | [1] ++ S | [3]
     [5]                            Count      [0; n]
     [6]                            Iterate    0 :: n :: (kid; vid)*           (read-only iterator)
     [7]                            Iterate    0 :: n :: (kid; vid)*           (mutable iterator: next-key hand-off)
     [8]                            PopIterate 0 :: n :: (kid; vid)* ++ S
   S = dump of the element structure ++ [r; id_1 .. id_r]  (external slabs removed by the step, ascending)
   dump(HKey l hks es sz)  = [0; l; n; sz] ++ hks ++ dump(es_1) ++ .. ++ dump(es_n)
   dump(SList l kvs sz)    = [1; l; n; sz] ++ (kid; ksz; vid; vsz)*
   dump(ESingle k v)       = [0; kid; ksz; vid; vsz; size]
   dump(EInline g)         = [1; size] ++ dump(g)
   dump(EExternal id g)    = [2; id; size] ++ dump(g)                                          *)
From Coq Require Import ZArith NArith List Bool.
From AtreeGen Require Import Consts.
From AtreeModel Require Import Proto MapElems.
Import ListNotations.
Local Open Scope Z_scope.

Fixpoint dump_e (e : melem) : line :=
  match e with
  | ESingle k v => [0; Nz (kid k); Nz (ksz k); Nz (kid v); Nz (ksz v); Nz (esize e)]
  | EGroup None g => 1 :: Nz (esize e) :: dump g
  | EGroup (Some id) g => 2 :: Nz id :: Nz (esize e) :: dump g
  end
with dump (g : melems) : line :=
  match g with
  | HKey l hks es sz => [0; natz l; natz (length es); Nz sz] ++ map Nz hks ++ flat_map dump_e es
  | SList l kvs sz =>
    [1; natz l; natz (length kvs); Nz sz] ++
    flat_map (fun p : kv * kv => [Nz (kid (fst p)); Nz (ksz (fst p)); Nz (kid (snd p)); Nz (ksz (snd p))]) kvs
  end.

Fixpoint ins_sorted (x : N) (l : list N) : list N :=
  match l with [] => [x] | y :: r => if N.leb x y then x :: l else y :: ins_sorted x r end.

Definition removed_ids (evs : list wev) : list N :=
  fold_right (fun e acc => match e with WRemove id => ins_sorted id acc | WStore _ => acc end) [] evs.

Definition enc_state (g : melems) (evs : list wev) : line :=
  let r := removed_ids evs in dump g ++ natz (length r) :: map Nz r.

Definition enc_pairs (d : dict) : line :=
  natz (length d) :: flat_map (fun p : kv * kv => [Nz (kid (fst p)); Nz (kid (snd p))]) d.

(* digest table *)
Definition dtable : Type := list (N * list N).
Fixpoint tlookup (t : dtable) (k : N) : option (list N) :=
  match t with [] => None | (k', ds) :: r => if N.eqb k' k then Some ds else tlookup r k end.
Definition tdg (t : dtable) (k : N) (l : nat) : N :=
  match tlookup t k with Some ds => nth l ds 0%N | None => 0%N end.
Definition tadd (t : dtable) (k : N) (ds : list N) : dtable :=
  match tlookup t k with Some _ => t | None => (k, ds) :: t end.

Inductive top : Type :=
| TKey (o : mop) (k : N) (ds : list N)       (* operation naming a key, with the key's digests *)
| TPlain (o : mop).

Definition dec_top (l : line) : option top :=
  match l with
  | 1 :: k :: ks :: v :: vs :: ds => Some (TKey (OSet (mkkv (zN k) (zN ks)) (mkkv (zN v) (zN vs))) (zN k) (map zN ds))
  | 2 :: k :: ds => Some (TKey (OGet (zN k)) (zN k) (map zN ds))
  | 3 :: k :: ds => Some (TKey (OHas (zN k)) (zN k) (map zN ds))
  | 4 :: k :: ds => Some (TKey (ORemove (zN k)) (zN k) (map zN ds))
  | [5] => Some (TPlain OCount)
  | [6] => Some (TPlain OIterate)
  | [7] => Some (TPlain OIterNext)
  | [8] => Some (TPlain OPop)
  | _ => None
  end.

Section engine.
  Variable levels : nat.
  Variable max_inline_elem limit : N.

  Definition tstate : Type := (dtable * mstate)%type.

  Definition enc_out (o : mop) (s' : mstate) (x : mout) (evs : list wev) : line :=
    match o, x with
    | OSet _ _, RPrev None => 0 :: 0 :: enc_state (m_root s') evs
    | OSet _ _, RPrev (Some p) => 0 :: 1 :: Nz (kid p) :: Nz (ksz p) :: enc_state (m_root s') evs
    | OSet _ _, RErr ECollisionLimit => 2 :: enc_state (m_root s') evs
    | ORemove _, RPair k v => 0 :: Nz (kid k) :: Nz (ksz k) :: Nz (kid v) :: Nz (ksz v) :: enc_state (m_root s') evs
    | ORemove _, RErr EKeyNotFound => 1 :: enc_state (m_root s') evs
    | OGet _, RVal v => [0; Nz (kid v); Nz (ksz v)]
    | OGet _, RErr EKeyNotFound => [1]
    | OHas _, RBool b => [0; boolz b]
    | OCount, RCount n => [0; Nz n]
    | OIterate, RList d => 0 :: enc_pairs d
    | OIterNext, RList d => 0 :: enc_pairs d
    | OPop, RList d => 0 :: enc_pairs d ++ enc_state (m_root s') evs
    | _, _ => [3]
    end.

  Definition mapelems_step (ts : tstate) (o : top) : tstate * line :=
    let '(t, s) := ts in
    let '(t', op) := match o with TKey op k ds => (tadd t k ds, op) | TPlain op => (t, op) end in
    let '(s', x, evs) := m_step (tdg t') levels max_inline_elem limit s op in
    ((t', s'), enc_out op s' x evs).
End engine.

Definition chk_mapelems (cfg : line) (tr : list (line * line)) : verdict :=
  match cfg with
  | _ :: mi :: lim :: lv :: _ =>
    check_from dec_top (mapelems_step (znat lv) (zN mi) (zN lim)) ([], m_init 0%N) tr 0
  | _ => VBadOp 0 cfg
  end.
