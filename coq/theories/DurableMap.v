(* DurableMap.v — definitions for the container-level statement of C03 for ORDERED MAPS; the map
   analogue of Durable.v.

   The map model (MapTree.v) LOGS its storeSlab / Storage.Remove calls; the storage model
   (Storage.v) holds opaque slab values.  The glue:

   M1  [mflatten n]   every slab of the map tree n with its OWN content (MapFrame_proofs.shallow):
                      data slab = header, sibling link, elements in which an external collision
                      group is only a REFERENCE to its slab ([strip_g]); external collision-group
                      slab (at any depth of the element structure) = its elements; index slab =
                      header and child-header copies;
       [mload fuel m id]  the reader: rebuilds a tree from a slab map by following the child
                      identifiers of index slabs AND the slab references of external collision
                      groups ([unstrip_g]) — it uses nothing but the map;
   M2  [mapply_log content lg m]  replay of a write log against a slab map (a store publishes the
                      slab's content at the END of the operation that issued it: Go stores pointers
                      to slab objects);
       [mcontent t id]  that content: own content of slab id plus, for the root slab, the element
                      count (Go: MapExtraData.Count lives in the slab that carries the root id);
       [mrep m t]     "the slab map m holds exactly the map t": every slab of t (external
                      collision groups included) with its exact content, and NOTHING else;
   M3  [mslab_codec]  an encoding of slab contents into storage values with a left inverse;
       [msops]/[mhist_sops]/[minit_sops] the storage calls of a log / a history / NewMap;
       the concrete codec [mg_enc]/[mg_dec] (prefix code of the content as a token list, then the
       self-delimiting bit code of Durable.v; DurableMap_proofs proves [mg_dec (mg_enc x) = Some x]
       for EVERY x);
   M4  [mdop]/[mdrun]  map histories with commits in between.

   [shallow], [mnode_at], [mslab_ids], [strip_g] ... are the definitions of
   proofs/MapFrame_proofs.v (to be compiled before this file).  List helpers [assoc], [all_some],
   [upd], the ledger views [view_map]/[ledger_map] and the bit code [enc_list]/[dec_list] are those of
   Durable.v. *)
From stdpp Require Import gmap.
From Coq Require Import ZArith NArith List Bool.
From AtreeGen Require Import Consts.
From AtreeModel Require Import Storage Settings MapElems MapTree MapTreeInv.
From AtreeModel Require Durable.
From AtreeProofs Require Import MapFrame_proofs.
Local Open Scope N_scope.

Notation assoc := Durable.assoc.
Notation all_some := Durable.all_some.
Notation upd := Durable.upd.
Notation view_map := Durable.view_map.
Notation ledger_map := Durable.ledger_map.

(** * M1. Slabs of a map tree; loading a tree from a slab map *)

(* the external collision-group slabs below an element / an elements list, outermost first *)
Fixpoint eflat_e (e : melem) : list (N * shallow) :=
  match e with
  | ESingle _ _ => []
  | EGroup loc g =>
    match loc with Some i => [(i, SG (strip_g g))] | None => [] end ++ eflat_g g
  end
with eflat_g (g : melems) : list (N * shallow) :=
  match g with
  | HKey _ _ es _ => flat_map eflat_e es
  | SList _ _ _ => []
  end.

Fixpoint mflatten (n : mnode) : list (N * shallow) :=
  match n with
  | MD h nx es => (mh_id h, SD h nx (strip_g es)) :: eflat_g es
  | MM h hs cs => (mh_id h, SM h hs) :: flat_map mflatten cs
  end.

(* the inverse of [strip_g] relative to a slab map: an external group reference (slab index only)
   is replaced by the elements found in that slab, recursively.  The recursion is on fuel because
   the content of a referenced slab is not a subterm. *)
Fixpoint unstrip_e (fuel : nat) (m : N -> option shallow) (e : melem) {struct fuel} : option melem :=
  match fuel with
  | O => None
  | S f =>
    match e with
    | ESingle k v => Some (ESingle k v)
    | EGroup (Some i) _ =>
      match m i with
      | Some (SG g) =>
        match unstrip_g f m g with Some g' => Some (EGroup (Some i) g') | None => None end
      | _ => None
      end
    | EGroup None g =>
      match unstrip_g f m g with Some g' => Some (EGroup None g') | None => None end
    end
  end
with unstrip_g (fuel : nat) (m : N -> option shallow) (g : melems) {struct fuel} : option melems :=
  match fuel with
  | O => None
  | S f =>
    match g with
    | HKey l hks es sz =>
      match all_some (map (unstrip_e f m) es) with
      | Some es' => Some (HKey l hks es' sz)
      | None => None
      end
    | SList l kvs sz => Some (SList l kvs sz)
    end
  end.

(* getMapSlab + the recursive descent of a reader *)
Fixpoint mload (fuel : nat) (m : N -> option shallow) (id : N) : option mnode :=
  match fuel with
  | O => None
  | S f =>
    match m id with
    | Some (SD h nx es) =>
      match unstrip_g f m es with Some es' => Some (MD h nx es') | None => None end
    | Some (SM h hs) =>
      match all_some (map (fun hh => mload f m (mh_id hh)) hs) with
      | Some cs => Some (MM h hs cs)
      | None => None
      end
    | _ => None
    end
  end.

(* fuel that suffices: nesting depth of the element structure / of the tree *)
Fixpoint edepth_e (e : melem) : nat :=
  match e with
  | ESingle _ _ => 1
  | EGroup _ g => S (edepth_g g)
  end
with edepth_g (g : melems) : nat :=
  match g with
  | HKey _ _ es _ => S (list_max (map edepth_e es))
  | SList _ _ _ => 1
  end.

Fixpoint mdepth (n : mnode) : nat :=
  match n with
  | MD _ _ es => S (edepth_g es)
  | MM _ _ cs => S (list_max (map mdepth cs))
  end.

(* every child-header copy names its child (part of MapTreeInv.mwfn: hs = map hdr_of cs) *)
Fixpoint mhdrs_ok (n : mnode) : Prop :=
  match n with
  | MD _ _ _ => True
  | MM _ hs cs =>
    map mh_id hs = map nid cs /\
    (fix go (l : list mnode) : Prop := match l with [] => True | c :: r => mhdrs_ok c /\ go r end) cs
  end.

(** * M2. Replay of a write log against a slab map *)

Fixpoint mapply_log {V : Type} (content : N -> V) (lg : MapTree.wlog) (m : N -> option V) : N -> option V :=
  match lg with
  | [] => m
  | WStore id :: r => mapply_log content r (upd m id (Some (content id)))
  | WRemove id :: r => mapply_log content r (upd m id None)
  end.

(* what one slab holds: its own content and the element count (root slab only) *)
Definition mcell : Type := (shallow * N)%type.
Definition dummy_cell : mcell := (SG (SList 0 [] 0), 0).

Section map.
  Variable dg : N -> nat -> N.
  Variable levels : nat.
  Variable max_inline_elem : N.
  Variable limit : N.
  Variable c : cfg.

  Definition cntof (t : mtree) (id : N) : N := if N.eqb id (t_rootid t) then t_count t else 0.

  Definition mcontent (t : mtree) (id : N) : option mcell :=
    match mnode_at (t_root t) id with Some s => Some (s, cntof t id) | None => None end.

  (* total version for the replay: a store of a slab that does not exist at the end of the
     operation is always followed by its removal (frame theorem), the value is then irrelevant *)
  Definition mcell_of (t : mtree) (id : N) : mcell :=
    match mcontent t id with Some x => x | None => dummy_cell end.

  (* m holds every slab of t (tree slabs and external collision groups) with its exact content,
     and nothing else *)
  Definition mrep (m : N -> option mcell) (t : mtree) : Prop := forall id, m id = mcontent t id.

  Definition mapply_log_tree (t' : mtree) (lg : MapTree.wlog) (m : N -> option mcell) : N -> option mcell :=
    mapply_log (mcell_of t') lg m.

  Notation mt_step := (mt_step dg levels max_inline_elem limit c).
  Notation mt_run := (mt_run dg levels max_inline_elem limit c).

  (* replay of a whole history: every operation's log with the contents at the end of that operation *)
  Fixpoint mreplay {V : Type} (cont : mtree -> N -> V) (t : mtree) (ops : list mop)
           (m : N -> option V) : N -> option V :=
    match ops with
    | [] => m
    | o :: r =>
      match mt_step t o with
      | (t1, _, lg) => mreplay cont t1 r (mapply_log (cont t1) lg m)
      end
    end.

  Definition minit_map {V : Type} (cont : mtree -> N -> V) (rootid : N) : N -> option V :=
    mapply_log (cont (fst (mt_init rootid))) (snd (mt_init rootid)) (fun _ => None).

  (** * M3. Connection to the storage model *)

  Record mslab_codec : Type := mk_mcodec {
    menc : mcell -> val;
    mdec : val -> option mcell;
    mdec_enc : forall x, mdec (menc x) = Some x
  }.

  (* the value handed to Storage.Store for slab id of map t *)
  Definition msval (K : mslab_codec) (t : mtree) (id : N) : val := menc K (mcell_of t id).

  Definition msops (addr : N) (cont : N -> val) (lg : MapTree.wlog) : list sop :=
    map (fun w => match w with
                  | WStore id => SStore (addr, id) (cont id)
                  | WRemove id => SRemove (addr, id)
                  end) lg.

  Fixpoint mhist_sops (K : mslab_codec) (addr : N) (t : mtree) (ops : list mop) : list sop :=
    match ops with
    | [] => []
    | o :: r =>
      match mt_step t o with
      | (t1, _, lg) => msops addr (msval K t1) lg ++ mhist_sops K addr t1 r
      end
    end.

  Definition minit_sops (K : mslab_codec) (addr rootid : N) : list sop :=
    msops addr (msval K (fst (mt_init rootid))) (snd (mt_init rootid)).

  (* commit-time contents (pointer semantics taken literally), as Durable.final_sops *)
  Fixpoint mall_logs (t : mtree) (ops : list mop) : MapTree.wlog :=
    match ops with
    | [] => []
    | o :: r => match mt_step t o with (t1, _, lg) => lg ++ mall_logs t1 r end
    end.

  Definition mfinal_sops (K : mslab_codec) (addr rootid : N) (ops : list mop) : list sop :=
    let t0 := fst (mt_init rootid) in
    msops addr (msval K (fst (mt_run t0 ops))) (snd (mt_init rootid) ++ mall_logs t0 ops).

  Definition mdecode_map (K : mslab_codec) (M : N -> option val) : N -> option mcell :=
    fun id => match M id with Some v => mdec K v | None => None end.

  (** * M4. Map histories with commits in between *)

  Inductive mdop : Type := MOp (o : mop) | MCommit.

  Definition mops_of (l : list mdop) : list mop :=
    flat_map (fun d => match d with MOp o => [o] | MCommit => [] end) l.
  Definition mno_commit (l : list mdop) : bool :=
    forallb (fun d => match d with MOp _ => true | MCommit => false end) l.

  Fixpoint mdrun (K : mslab_codec) (addr : N) (t : mtree) (s : st) (l : list mdop) : mtree * st :=
    match l with
    | [] => (t, s)
    | MOp o :: r =>
      match mt_step t o with
      | (t1, _, lg) => mdrun K addr t1 (fst (run s (msops addr (msval K t1) lg))) r
      end
    | MCommit :: r => mdrun K addr t (fst (step s (SFastCommit None))) r
    end.
End map.

(* the reader: the tree from the root identifier, the element count from the root slab *)
Definition mload_map (fuel : nat) (m : N -> option mcell) (rootid : N) : option (mnode * N) :=
  match mload fuel (fun id => match m id with Some x => Some (fst x) | None => None end) rootid, m rootid with
  | Some n, Some x => Some (n, snd x)
  | _, _ => None
  end.

(** * The concrete codec: a prefix code of the content as a list of numbers, then Durable.enc_list *)

Definition kv_to (k : kv) : list N := [kid k; ksz k].
Definition pair_to (p : kv * kv) : list N := kv_to (fst p) ++ kv_to (snd p).

Fixpoint melem_to (e : melem) : list N :=
  match e with
  | ESingle k v => 0 :: kv_to k ++ kv_to v
  | EGroup None g => 1 :: melems_to g
  | EGroup (Some i) g => 2 :: i :: melems_to g
  end
with melems_to (g : melems) : list N :=
  match g with
  | HKey l hks es sz =>
    0 :: N.of_nat l :: sz :: N.of_nat (length hks) :: hks ++ N.of_nat (length es) :: flat_map melem_to es
  | SList l kvs sz =>
    1 :: N.of_nat l :: sz :: N.of_nat (length kvs) :: flat_map pair_to kvs
  end.

(* k numbers, then the rest *)
Fixpoint take_n (k : nat) (l : list N) : option (list N * list N) :=
  match k with
  | O => Some ([], l)
  | S k' =>
    match l with
    | a :: r => match take_n k' r with Some (x, rest) => Some (a :: x, rest) | None => None end
    | [] => None
    end
  end.

Fixpoint take_pairs (k : nat) (l : list N) : option (list (kv * kv) * list N) :=
  match k with
  | O => Some ([], l)
  | S k' =>
    match l with
    | a :: b :: c :: d :: r =>
      match take_pairs k' r with
      | Some (x, rest) => Some ((mkkv a b, mkkv c d) :: x, rest)
      | None => None
      end
    | _ => None
    end
  end.

(* k items, each read by parser p *)
Fixpoint many {A : Type} (p : list N -> option (A * list N)) (k : nat) (l : list N)
  : option (list A * list N) :=
  match k with
  | O => Some ([], l)
  | S k' =>
    match p l with
    | Some (e, rest) =>
      match many p k' rest with Some (es, rest') => Some (e :: es, rest') | None => None end
    | None => None
    end
  end.

(* the parsers; every recursive call consumes at least one number, fuel = length of the input + 1 *)
Fixpoint melem_of (fuel : nat) (l : list N) {struct fuel} : option (melem * list N) :=
  match fuel with
  | O => None
  | S f =>
    match l with
    | t :: r =>
      if N.eqb t 0 then
        match r with
        | a :: b :: c :: d :: r' => Some (ESingle (mkkv a b) (mkkv c d), r')
        | _ => None
        end
      else if N.eqb t 1 then
        match melems_of f r with Some (g, rest) => Some (EGroup None g, rest) | None => None end
      else if N.eqb t 2 then
        match r with
        | i :: r' =>
          match melems_of f r' with Some (g, rest) => Some (EGroup (Some i) g, rest) | None => None end
        | [] => None
        end
      else None
    | [] => None
    end
  end
with melems_of (fuel : nat) (l : list N) {struct fuel} : option (melems * list N) :=
  match fuel with
  | O => None
  | S f =>
    match l with
    | t :: lv :: sz :: k :: r =>
      if N.eqb t 0 then
        match take_n (N.to_nat k) r with
        | Some (hks, ne :: r2) =>
          match many (melem_of f) (N.to_nat ne) r2 with
          | Some (es, rest) => Some (HKey (N.to_nat lv) hks es sz, rest)
          | None => None
          end
        | _ => None
        end
      else if N.eqb t 1 then
        match take_pairs (N.to_nat k) r with
        | Some (kvs, rest) => Some (SList (N.to_nat lv) kvs sz, rest)
        | None => None
        end
      else None
    | _ => None
    end
  end.

Definition mhdr_to (h : mhdr) : list N := [mh_id h; mh_size h; mh_first h].
Fixpoint mhdrs_of (k : nat) (l : list N) : option (list mhdr * list N) :=
  match k with
  | O => Some ([], l)
  | S k' =>
    match l with
    | a :: b :: c :: r =>
      match mhdrs_of k' r with Some (hs, rest) => Some (mkmhdr a b c :: hs, rest) | None => None end
    | _ => None
    end
  end.

Definition mfields_to (x : mcell) : list N :=
  match x with
  | (SD h nx es, cnt) => 0 :: cnt :: mhdr_to h ++ nx :: melems_to es
  | (SG g, cnt) => 1 :: cnt :: melems_to g
  | (SM h hs, cnt) => 2 :: cnt :: mhdr_to h ++ N.of_nat (length hs) :: flat_map mhdr_to hs
  end.

Definition mfields_of (l : list N) : option mcell :=
  match l with
  | t :: cnt :: r =>
    if N.eqb t 0 then
      match r with
      | a :: b :: c :: nx :: r' =>
        match melems_of (S (length r')) r' with
        | Some (es, []) => Some (SD (mkmhdr a b c) nx es, cnt)
        | _ => None
        end
      | _ => None
      end
    else if N.eqb t 1 then
      match melems_of (S (length r)) r with
      | Some (g, []) => Some (SG g, cnt)
      | _ => None
      end
    else if N.eqb t 2 then
      match r with
      | a :: b :: c :: k :: r' =>
        match mhdrs_of (N.to_nat k) r' with
        | Some (hs, []) => Some (SM (mkmhdr a b c) hs, cnt)
        | _ => None
        end
      | _ => None
      end
    else None
  | _ => None
  end.

Definition msh_size (s : shallow) : N :=
  match s with SD h _ _ => mh_size h | SG g => c_mapDataSlabPrefixSize + msize g | SM h _ => mh_size h end.

(* the register content as one number (v_id) and the slab's byte size (v_sz) *)
Definition mg_enc (x : mcell) : val := mkval (Npos (Durable.enc_list (mfields_to x))) (msh_size (fst x)).
Definition mg_dec (v : val) : option mcell :=
  match v_id v with
  | Npos q => match Durable.dec_list q with Some l => mfields_of l | None => None end
  | N0 => None
  end.
