(* NestedTrace.v — protocol encoding for the forest model Nested.v (engine "nested").

   Configuration line of a history (written by harness/nested_cmd.go):
     [T; maxInlineArrayElementSize; maxInlineMapElementSize; wp1; wp2;
      inlinedArrayDataSlabPrefixSize; inlinedMapDataSlabPrefixSize; hkeyElementsPrefixSize;
      digestSize + singleElementPrefixSize; slabIDStorableSize; fuel]
   wp1 / wp2 = encoded prefix size of one / two SomeValue levels.  The five size constants must
   equal gen/Consts.v (otherwise the history is rejected as VBadOp at step 0).

   Containers are addressed by vid = slab index of their value ID (one address per history).
   Operation line:  code :: nobs :: obs_1 .. obs_nobs :: args
     1 NEW      v kind                    kind: 0 array, 1 map
     2 AINS     p i ELEM                  Array.Insert / Append
     3 ASET     p i ELEM                  Array.Set
     4 AREM     p i                       Array.Remove
     5 POP      p                         PopIterate (array or map)
     6 MSET     p kid ksz ELEM            OrderedMap.Set (kid: key identity, ksz: key storable size)
     7 MREM     p kid                     OrderedMap.Remove
     8 GET      p loc                     parent.Get(index) / map.Get(key) / value yielded by a mutable
                                          iterator: setCallbackWithChild on the existing element
     9 TOUCH    v                         SetType
    10 COMMIT                             write log cleared
    11 REOPEN                             new storage object over the same ledger: write log cleared
                                          (the harness then emits FRESH / GET for every re-obtained wrapper)
    12 FRESH    v                         a new wrapper object for v (no callback, no tracked indexes)
   ELEM = 0 id 0 size   (scalar with identity id and stored size)
        | 1 vid w 0     (existing container vid wrapped in w SomeValue levels)
   Answer line:  err :: dump(obs_1) ++ .. ++ dump(obs_nobs)        err: 0 ok, 1 error
     dump(v) = [v; kind; inlined; hasParentUpdater; cached data size; dirty; n]
               ++ n * [kid; ksz; ekind; id-or-vid; w; live stored size of the element]
               ++ [m] ++ m * [vid; index]        (mutableElementIndex sorted by vid; maps: m = 0)
     dirty: 0 root slab not in the write set, 1 stored, 2 removed.   Unknown v: [v; -1]. *)
From Coq Require Import ZArith NArith List Bool.
From AtreeGen Require Import Consts.
From AtreeModel Require Import Proto Nested.
Import ListNotations.
Local Open Scope Z_scope.

Definition dec_elem (l : line) : option elem :=
  match l with
  | [0; id; _; sz] => Some (NScalar (zN id) (zN sz))
  | [1; v; w; _] => Some (NChild (zN v) (zN w))
  | _ => None
  end.

Definition dec_kind (z : Z) : option kind :=
  if z =? 0 then Some KArr else if z =? 1 then Some KMap else None.

Definition dec_args (code : Z) (a : line) : option nop :=
  match code, a with
  | 1, [v; k] => match dec_kind k with Some kd => Some (ONew (zN v) kd) | None => None end
  | 2, p :: i :: e => match dec_elem e with Some x => Some (OArrInsert (zN p) (znat i) x) | None => None end
  | 3, p :: i :: e => match dec_elem e with Some x => Some (OArrSet (zN p) (znat i) x) | None => None end
  | 4, [p; i] => Some (OArrRemove (zN p) (znat i))
  | 5, [p] => Some (OPop (zN p))
  | 6, p :: kid :: ksz :: e =>
    match dec_elem e with Some x => Some (OMapSet (zN p) (zN kid) (zN ksz) x) | None => None end
  | 7, [p; kid] => Some (OMapRemove (zN p) (zN kid))
  | 8, [p; loc] => Some (OGet (zN p) (zN loc))
  | 9, [v] => Some (OTouch (zN v))
  | 10, [] => Some OCommit
  | 11, [] => Some OCommit
  | 12, [v] => Some (OFresh (zN v))
  | _, _ => None
  end.

Definition dec_nop (l : line) : option (list N * nop) :=
  match l with
  | code :: nobs :: r =>
    let k := znat nobs in
    if Nat.ltb (length r) k then None else
    match dec_args code (skipn k r) with
    | Some o => Some (map zN (firstn k r), o)
    | None => None
    end
  | _ => None
  end.

Fixpoint ins_sorted (p : N * nat) (l : list (N * nat)) : list (N * nat) :=
  match l with
  | [] => [p]
  | q :: r => if N.leb (fst p) (fst q) then p :: l else q :: ins_sorted p r
  end.
Definition sort_idx (l : list (N * nat)) : list (N * nat) := fold_right ins_sorted [] l.

Definition enc_slot (g : ncfg) (f : forest) (s : slot) : line :=
  match s_val s with
  | NScalar id sz => [Nz (s_kid s); Nz (s_ksz s); 0; Nz id; 0; Nz sz]
  | NChild v w => [Nz (s_kid s); Nz (s_ksz s); 1; Nz v; Nz w; Nz (esize g f (s_val s))]
  end.

Definition enc_dirty (f : forest) (v : N) : Z :=
  match dirty f v with None => 0 | Some true => 1 | Some false => 2 end.

Definition dump (g : ncfg) (f : forest) (v : N) : line :=
  match fget f v with
  | None => [Nz v; -1]
  | Some c =>
    [Nz v; (match c_kind c with KArr => 0 | KMap => 1 end); boolz (c_inl c);
     (match c_upd c with Some _ => 1 | None => 0 end); Nz (c_csize c); enc_dirty f v;
     natz (length (c_slots c))]
    ++ flat_map (enc_slot g f) (c_slots c)
    ++ natz (length (c_idx c)) :: flat_map (fun p : N * nat => [Nz (fst p); natz (snd p)]) (sort_idx (c_idx c))
  end.

Definition nested_step (fuel : nat) (g : ncfg) (f : forest) (o : list N * nop) : forest * line :=
  let '(f', ok) := step fuel g f (snd o) in
  (f', (if ok then 0 else 1) :: flat_map (dump g f') (fst o)).

Definition consts_ok (ia im hk ov sid : Z) : bool :=
  (ia =? Nz c_inlinedArrayDataSlabPrefixSize) && (im =? Nz c_inlinedMapDataSlabPrefixSize) &&
  (hk =? Nz c_hkeyElementsPrefixSize) && (ov =? Nz (c_digestSize + c_singleElementPrefixSize)%N) &&
  (sid =? Nz c_slabIDStorableSize).

Definition chk_nested (cfg : line) (tr : list (line * line)) : verdict :=
  match cfg with
  | [_; al; ml; w1; w2; ia; im; hk; ov; sid; fuel] =>
    if consts_ok ia im hk ov sid
    then check_from dec_nop (nested_step (znat fuel) (mkCfg (zN al) (zN ml) (zN w1) (zN w2))) empty_forest tr 0
    else VBadOp 0 cfg
  | _ => VBadOp 0 cfg
  end.
