(* MapTreeInv.v — the invariants of the map slab tree (C05 / C02) as definitions; the map
   analogue of ArrayInv.v.  Definitions and executable checkers only (preservation is proved in
   proofs/MapTree_proofs.v, MapRebalance_proofs.v, MapFixup_proofs.v, MapTreeOps_proofs.v, Map_proofs.v).

   [mwfn d n]: subtree n of height d is internally consistent:
   - leaf: its elements are a well-formed level-0 hkeyElements in the sense of MapElemsInv.ewf_g
     (hkeys strictly ascending, element i holds exactly the keys with that digest, groups one
     level deeper, collapsed, cached sizes = recomputed sizes); every element respects the inline
     limit; header.firstKey = first hkey; header.size = prefix + elements size;
   - index slab: the header copies are the children's headers; all children are well-formed of
     the same height and inside the size band; size = prefix + n * 18; firstKey = first child's;
     key ranges: every hkey below child i is >= firstKey_i and < firstKey_{i+1}.
   [mwf_root]: the root is a data slab with the root prefix, no sibling and no lower bound, or an
   index slab with at least two children; never above the maximum. *)
From Coq Require Import NArith ZArith List Bool Arith.
From AtreeGen Require Import Consts.
From AtreeModel Require Import Settings MapElems MapElemsInv MapTree.
Import ListNotations.
Local Open Scope N_scope.

(* all level-0 digests stored below a node, left to right *)
Fixpoint keys_of (n : mnode) : list N :=
  match n with
  | MD _ _ es => g_hkeys es
  | MM _ _ cs => flat_map keys_of cs
  end.

Fixpoint ranges_ok (cs : list mnode) : Prop :=
  match cs with
  | [] => True
  | ch :: r =>
    Forall (fun k => mh_first (hdr_of ch) <= k) (keys_of ch) /\
    match r with
    | c2 :: _ => Forall (fun k => k < mh_first (hdr_of c2)) (keys_of ch)
    | [] => True
    end /\
    ranges_ok r
  end.

Section inv.
  Variable dg : N -> nat -> N.
  Variable levels : nat.
  Variable c : cfg.

  (* every level-0 element fits the inline-element limit: a single element by the key/value limits
     (precondition on operations), an inline group because it is spilled otherwise, an external
     group because it is a fixed-size reference *)
  Definition elem_ok (e : melem) : Prop := esize e <= cinl_melem c.

  Definition in_band (n : mnode) : Prop :=
    cmin c <= mh_size (hdr_of n) /\ mh_size (hdr_of n) <= cmax c.

  Inductive mwfn : nat -> mnode -> Prop :=
  | wf_MD : forall h next hks els sz,
      ewf_g dg levels 0 (HKey 0 hks els sz) ->
      Forall elem_ok els ->
      mh_first h = hd 0 hks ->
      mh_size h = P + sz ->
      mwfn 0 (MD h next (HKey 0 hks els sz))
  | wf_MM : forall d h hs cs,
      Forall (mwfn d) cs ->
      Forall in_band cs ->
      hs = map hdr_of cs ->
      cs <> [] ->
      mh_size h = PM + N.of_nat (length cs) * HS ->
      mh_first h = hfirst hs ->
      ranges_ok cs ->
      mwfn (S d) (MM h hs cs).

  Inductive mwf_root : mnode -> Prop :=
  | wfr_MD : forall h hks els sz,
      ewf_g dg levels 0 (HKey 0 hks els sz) ->
      Forall elem_ok els ->
      mh_first h = hd 0 hks ->
      mh_size h = RP + sz ->
      mh_size h <= cmax c ->
      mwf_root (MD h 0 (HKey 0 hks els sz))
  | wfr_MM : forall d h hs cs,
      mwfn (S d) (MM h hs cs) ->
      (2 <= length cs)%nat ->
      mh_size h <= cmax c ->
      mwf_root (MM h hs cs).

  (** the map invariant: well-formed tree, count in the extra data = number of stored pairs *)
  Definition mtwf (t : mtree) : Prop :=
    mwf_root (t_root t) /\ t_count t = N.of_nat (length (to_list_tree (t_root t))).

  (** sibling links *)
  Fixpoint first_leaf_id (n : mnode) : N :=
    match n with
    | MD h _ _ => mh_id h
    | MM _ _ cs => match cs with ch :: _ => first_leaf_id ch | [] => 0 end
    end.

  Fixpoint chain (n : mnode) (nxt : N) : Prop :=
    match n with
    | MD _ next _ => next = nxt
    | MM _ _ cs =>
      (fix go (l : list mnode) : Prop :=
         match l with
         | [] => True
         | [ch] => chain ch nxt
         | ch :: ((c2 :: _) as r) => chain ch (first_leaf_id c2) /\ go r
         end) cs
    end.

  (** identifiers: every slab of the tree and every external collision-group slab *)
  Definition ext_ids (g : melems) : list N :=
    flat_map (fun e => match e with EGroup (Some id) _ => [id] | _ => [] end) (g_elems g).

  Fixpoint slab_ids (n : mnode) : list N :=
    match n with
    | MD h _ es => mh_id h :: ext_ids es
    | MM h _ cs => mh_id h :: flat_map slab_ids cs
    end.

  Definition ids_ok (t : mtree) : Prop :=
    NoDup (slab_ids (t_root t)) /\ Forall (fun i => 0 < i /\ i <= t_alloc t) (slab_ids (t_root t)).

  Definition mtwf_full (t : mtree) : Prop :=
    mtwf t /\ chain (t_root t) 0 /\ ids_ok t.

  (** * Executable checkers (used by the trace engine as a model-independent oracle on dumps;
      soundness w.r.t. [mtwf_full]: MapTree_proofs.mtwfb_sound) *)

  Fixpoint ssortedb (l : list N) : bool :=
    match l with
    | [] => true
    | x :: r => match r with [] => true | y :: _ => (x <? y) && ssortedb r end
    end.

  Fixpoint nodupb (l : list N) : bool :=
    match l with [] => true | x :: r => negb (existsb (N.eqb x) r) && nodupb r end.

  Definition loc_okb (l : nat) (loc : option N) : bool :=
    match loc with Some _ => (l =? 0)%nat | None => true end.

  Fixpoint ewf_eb (l : nat) (h : N) (e : melem) {struct e} : bool :=
    match e with
    | ESingle k _ => dg (kid k) l =? h
    | EGroup loc g =>
      ewf_gb (S l) g && (2 <=? length (to_list g))%nat &&
      forallb (fun p : kv * kv => dg (kid (fst p)) l =? h) (to_list g) && loc_okb l loc
    end
  with ewf_gb (l : nat) (g : melems) {struct g} : bool :=
    match g with
    | HKey l' hks es sz =>
      (l' =? l)%nat && (l <? levels)%nat && ssortedb hks && (sz =? hk_recompute es) &&
      (fix go (hs : list N) (es : list melem) {struct es} : bool :=
         match hs, es with
         | [], [] => true
         | h :: hs', e :: es' => ewf_eb l h e && go hs' es'
         | _, _ => false
         end) hks es
    | SList l' kvs sz =>
      (l' =? l)%nat && (l =? levels)%nat && (sz =? sl_recompute kvs) && nodupb (dkeys kvs)
    end.

  Definition elem_okb (e : melem) : bool := esize e <=? cinl_melem c.
  Definition in_bandb (n : mnode) : bool :=
    (cmin c <=? mh_size (hdr_of n)) && (mh_size (hdr_of n) <=? cmax c).

  Definition mhdr_eqb (a b : mhdr) : bool :=
    (mh_id a =? mh_id b) && (mh_size a =? mh_size b) && (mh_first a =? mh_first b).

  Fixpoint list_eqb {A} (eqb : A -> A -> bool) (l1 l2 : list A) : bool :=
    match l1, l2 with
    | [], [] => true
    | x :: r1, y :: r2 => eqb x y && list_eqb eqb r1 r2
    | _, _ => false
    end.

  Fixpoint ranges_okb (cs : list mnode) : bool :=
    match cs with
    | [] => true
    | ch :: r =>
      forallb (fun k => mh_first (hdr_of ch) <=? k) (keys_of ch) &&
      match r with
      | c2 :: _ => forallb (fun k => k <? mh_first (hdr_of c2)) (keys_of ch)
      | [] => true
      end &&
      ranges_okb r
    end.

  Definition leaf_okb (pfx : N) (h : mhdr) (es : melems) : bool :=
    match es with
    | HKey O hks els sz =>
      ewf_gb 0 es && forallb elem_okb els && (mh_first h =? hd 0 hks) && (mh_size h =? pfx + sz)
    | _ => false
    end.

  (* returns the height if well-formed *)
  Fixpoint mwfnb (n : mnode) : option nat :=
    match n with
    | MD h _ es => if leaf_okb P h es then Some O else None
    | MM h hs cs =>
      let hts := map mwfnb cs in
      match hts with
      | Some d :: _ =>
        if forallb (fun x => match x with Some d' => Nat.eqb d d' | None => false end) hts
           && forallb in_bandb cs
           && list_eqb mhdr_eqb hs (map hdr_of cs)
           && (mh_size h =? PM + N.of_nat (length cs) * HS)
           && (mh_first h =? hfirst hs)
           && ranges_okb cs
        then Some (S d) else None
      | _ => None
      end
    end.

  Definition mwf_rootb (n : mnode) : bool :=
    match n with
    | MD h nx es => leaf_okb RP h es && (mh_size h <=? cmax c) && (nx =? 0)
    | MM h _ cs =>
      match mwfnb n with Some _ => Nat.leb 2 (length cs) && (mh_size h <=? cmax c) | None => false end
    end.

  Fixpoint chainb (n : mnode) (nxt : N) : bool :=
    match n with
    | MD _ next _ => next =? nxt
    | MM _ _ cs =>
      (fix go (l : list mnode) : bool :=
         match l with
         | [] => true
         | [ch] => chainb ch nxt
         | ch :: ((c2 :: _) as r) => chainb ch (first_leaf_id c2) && go r
         end) cs
    end.

  Definition mtwfb (t : mtree) : bool :=
    mwf_rootb (t_root t) && (t_count t =? N.of_nat (length (to_list_tree (t_root t)))) &&
    chainb (t_root t) 0 && nodupb (slab_ids (t_root t)) &&
    forallb (fun i => (0 <? i) && (i <=? t_alloc t)) (slab_ids (t_root t)).
End inv.
