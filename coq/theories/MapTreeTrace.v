(* MapTreeTrace.v — protocol encoding of MapTree.v (engine "maptree").

   Configuration line: [T; max_inline_elem; limit; levels; root slab index].
   The digest assignment is the finite table accumulated from the trace: every operation that
   names a key carries the key's digests for levels 0..levels-1 as computed by the harness' table
   digester.  Slab identifiers (tree slabs and external collision groups) are the real slab
   indexes of the map's address: the model's allocator must hand out the same ones.

   Operations                                        Answers
     [1; kid; ksz; vid; vsz; dump; d0..]  Set        [0; 0] ++ TAIL | [0; 1; pvid; pvsz] ++ TAIL | [2] ++ TAIL (refused) | [3]
     [2; kid; d0..]                       Get        [0; vid; vsz] | [1] (not found) | [3]
     [3; kid; d0..]                       Has        [0; b] | [3]
     [4; kid; dump; d0..]                 Remove     [0; kid; ksz; vid; vsz] ++ TAIL | [1] ++ TAIL (not found) | [3]
     [5]                                  Count      [0; n]
     [6]                                  Iterate    0 :: n :: (kid; vid)*        (read-only iterator)
     [7]                                  Iterate    0 :: n :: (kid; vid)*        (mutable iterator: next-key hand-off)
     [8; dump]                            PopIterate 0 :: n :: (kid; vid)* ++ TAIL
   dump: 1 = compare the whole tree.
   TAIL = [nlog; (kind; id)*; alloc; root id; root size; root firstKey; count] ++ (if dump) TREE ++ [wf]
     (kind; id): the storeSlab (1) / Storage.Remove (0) calls of the step, in order;
     alloc: last slab index handed out; count: MapExtraData.Count;
     wf: the extracted invariant checker MapTreeInv.mtwfb on the tree (the harness writes 1: as TREE is
         compared in the same answer, a 0 says that the implementation's tree violates the invariant).
   TREE (pre-order):
     data slab   [0; id; size; firstKey; next] ++ E     E = MapTrace.dump of the leaf's hkeyElements:
                   dump(HKey l hks es sz) = [0; l; n; sz] ++ hks ++ dump(es_1) ++ .. ++ dump(es_n)
                   dump(SList l kvs sz)   = [1; l; n; sz] ++ (kid; ksz; vid; vsz)*
                   dump(ESingle k v)      = [0; kid; ksz; vid; vsz; size]
                   dump(EInline g)        = [1; size] ++ dump(g)
                   dump(EExternal id g)   = [2; id; size] ++ dump(g)          (id = slab index)
     index slab  [1; id; size; firstKey; n; (cid; csize; cfirst)*] ++ TREE(child_1) ++ .. ++ TREE(child_n) *)
From Coq Require Import ZArith NArith List Bool.
From AtreeGen Require Import Consts.
From AtreeModel Require Import Proto Settings MapElems MapTrace MapTree MapTreeInv.
Import ListNotations.
Local Open Scope Z_scope.

Definition enc_mhdr (h : mhdr) : line := [Nz (mh_id h); Nz (mh_size h); Nz (mh_first h)].

Fixpoint tdump (n : mnode) : line :=
  match n with
  | MD h nx es => 0 :: enc_mhdr h ++ [Nz nx] ++ dump es
  | MM h hs cs => 1 :: enc_mhdr h ++ [natz (length hs)] ++ flat_map enc_mhdr hs ++ flat_map tdump cs
  end.

Definition enc_wev (w : wev) : line := match w with WStore i => [1; Nz i] | WRemove i => [0; Nz i] end.

(* digest table: binary trie over the key identity *)
Inductive ptrie : Type := PLeaf | PNode (l : ptrie) (v : option (list N)) (r : ptrie).

Fixpoint plookup (p : positive) (t : ptrie) : option (list N) :=
  match t with
  | PLeaf => None
  | PNode l v r =>
    match p with
    | xH => v
    | xO q => plookup q l
    | xI q => plookup q r
    end
  end.

Fixpoint pinsert (p : positive) (x : list N) (t : ptrie) : ptrie :=
  let '(l, v, r) := match t with PLeaf => (PLeaf, None, PLeaf) | PNode l v r => (l, v, r) end in
  match p with
  | xH => PNode l (match v with Some y => Some y | None => Some x end) r     (* first binding wins *)
  | xO q => PNode (pinsert q x l) v r
  | xI q => PNode l v (pinsert q x r)
  end.

Definition ptdg (t : ptrie) (k : N) (l : nat) : N :=
  match plookup (N.succ_pos k) t with Some ds => nth l ds 0%N | None => 0%N end.
Definition ptadd (t : ptrie) (k : N) (ds : list N) : ptrie := pinsert (N.succ_pos k) ds t.

(* operation, the key it names with its digests, whether the whole tree is compared afterwards *)
Inductive ttop : Type :=
| TTKey (o : mop) (k : N) (ds : list N) (d : bool)
| TTPlain (o : mop) (d : bool).

Definition dec_ttop (l : line) : option ttop :=
  match l with
  | 1 :: k :: ks :: v :: vs :: d :: ds =>
    Some (TTKey (OSet (mkkv (zN k) (zN ks)) (mkkv (zN v) (zN vs))) (zN k) (map zN ds) (zbool d))
  | 2 :: k :: ds => Some (TTKey (OGet (zN k)) (zN k) (map zN ds) false)
  | 3 :: k :: ds => Some (TTKey (OHas (zN k)) (zN k) (map zN ds) false)
  | 4 :: k :: d :: ds => Some (TTKey (ORemove (zN k)) (zN k) (map zN ds) (zbool d))
  | [5] => Some (TTPlain OCount false)
  | [6] => Some (TTPlain OIterate false)
  | [7] => Some (TTPlain OIterNext false)
  | [8; d] => Some (TTPlain OPop (zbool d))
  | _ => None
  end.

Section engine.
  Variable levels : nat.
  Variable max_inline_elem limit : N.
  Variable c : cfg.

  Definition ttstate : Type := (ptrie * mtree)%type.

  Definition enc_tail (dgf : N -> nat -> N) (t : mtree) (lg : wlog) (d : bool) : line :=
    natz (length lg) :: flat_map enc_wev lg ++
    [Nz (t_alloc t)] ++ enc_mhdr (hdr_of (t_root t)) ++ [Nz (t_count t)] ++
    (if d then tdump (t_root t) ++ [boolz (mtwfb dgf levels c t)] else []).

  Definition enc_tout (dgf : N -> nat -> N) (o : mop) (t' : mtree) (x : mout) (lg : wlog) (d : bool) : line :=
    match o, x with
    | OSet _ _, RPrev None => 0 :: 0 :: enc_tail dgf t' lg d
    | OSet _ _, RPrev (Some p) => 0 :: 1 :: Nz (kid p) :: Nz (ksz p) :: enc_tail dgf t' lg d
    | OSet _ _, RErr ECollisionLimit => 2 :: enc_tail dgf t' lg d
    | ORemove _, RPair k v => 0 :: Nz (kid k) :: Nz (ksz k) :: Nz (kid v) :: Nz (ksz v) :: enc_tail dgf t' lg d
    | ORemove _, RErr EKeyNotFound => 1 :: enc_tail dgf t' lg d
    | OGet _, RVal v => [0; Nz (kid v); Nz (ksz v)]
    | OGet _, RErr EKeyNotFound => [1]
    | OHas _, RBool b => [0; boolz b]
    | OCount, RCount n => [0; Nz n]
    | OIterate, RList dd => 0 :: enc_pairs dd
    | OIterNext, RList dd => 0 :: enc_pairs dd
    | OPop, RList dd => 0 :: enc_pairs dd ++ enc_tail dgf t' lg d
    | _, _ => [3]
    end.

  Definition maptree_step (ts : ttstate) (o : ttop) : ttstate * line :=
    let '(tb, t) := ts in
    let '(tb', op, d) :=
      match o with TTKey op k ds d => (ptadd tb k ds, op, d) | TTPlain op d => (tb, op, d) end in
    let dgf := ptdg tb' in
    let '(t', x, lg) := mt_step dgf levels max_inline_elem limit c t op in
    ((tb', t'), enc_tout dgf op t' x lg d).
End engine.

Definition chk_maptree (cfgl : line) (tr : list (line * line)) : verdict :=
  match cfgl with
  | [t; mi; lim; lv; rootid] =>
    check_from dec_ttop (maptree_step (znat lv) (zN mi) (zN lim) (set_threshold (zN t)))
               (PLeaf, fst (mt_init (zN rootid))) tr 0
  | _ => VBadOp 0 cfgl
  end.
