(* Pool.v — C16 (pool part): interleaving semantics of process-wide object pools (sync.Pool).

   What the Go code does (read at the pinned commit):
   * hash.go:65-81    basicDigesterPool; getBasicDigester() = Pool.Get (New = &basicDigester{});
                      putDigester(e) = e.Reset(); Pool.Put(e)       (the ONLY caller of Pool.Put)
   * hash.go:120-124  Reset clears circleHash64, blake3Hash, msg — NOT scratch
   * hash.go:105-115  basicDigesterBuilder.Digest = get; hip(value, scratch[:]); sets msg and
                      circleHash64 — NOT blake3Hash: the lazy cache (hash.go:154 "== emptyBlake3Hash")
                      is valid only because every pooled object went through Reset (or is New)
   * buffer.go:34-41, extradata.go:411-418  getBuffer/getTypeIDBuffer = Pool.Get (no reset on get);
                      putBuffer/putTypeIDBuffer = e.Reset(); Pool.Put(e)   (length 0, capacity kept)
   So: Put clears SOME fields ([reset]), Init sets the others ([init]); an object in the pool is
   "dirty" in every field that nothing reads before writing (scratch, buffer capacity).  [clean]
   describes exactly what Init relies on; [sim] is equality of the fields that Use reads.

   Objects have identity (heap index): a thread keeps its pointer after Put, so use-after-put
   is expressible — that is the defect the bracketing excludes. *)
From Coq Require Import List Arith Bool NArith.
Import ListNotations.

Section Pool.
Variables ostate input uop result G : Type.
Variable fresh : ostate.                                  (* sync.Pool.New *)
Variable reset : ostate -> ostate.                        (* what the put function clears *)
Variable init  : input -> ostate -> ostate.               (* fields set between get and first use *)
Variable use   : G -> uop -> ostate -> ostate * result.   (* reads/updates only the held object (+ global settings G) *)

Inductive action := AGet | AInit (v : input) | AUse (f : uop) | APut | ASetG (x : G).

Record tst := mk_tst { todo : list action; ptr : option nat; out : list result }.
Record gst := mk_gst { heap : nat -> ostate; next : nat; pool : list nat; glob : G; ths : nat -> tst }.

(* remove the c-th entry of the pool (a multiset of object ids) *)
Fixpoint take_nth (c : nat) (l : list nat) : option (nat * list nat) :=
  match l, c with
  | [], _ => None
  | p :: r, O => Some (p, r)
  | q :: r, S c' => match take_nth c' r with Some (p, r') => Some (p, q :: r') | None => None end
  end.

Definition set_heap (h : nat -> ostate) (p : nat) (o : ostate) : nat -> ostate :=
  fun q => if Nat.eqb q p then o else h q.
Definition set_th (T : nat -> tst) (i : nat) (t : tst) : nat -> tst :=
  fun j => if Nat.eqb j i then t else T j.

(* One scheduler step: thread i executes its next action; c is the oracle's choice for Get:
   c < |pool| takes the c-th pooled object AS IT IS, otherwise sync.Pool calls New (always allowed).
   Put applies [reset] and does NOT clear the thread's pointer. *)
Definition step (g : gst) (i c : nat) : gst :=
  let t := ths g i in
  match todo t with
  | [] => g
  | a :: rest =>
    let fin h n pl gl p o := mk_gst h n pl gl (set_th (ths g) i (mk_tst rest p o)) in
    let skip := fin (heap g) (next g) (pool g) (glob g) (ptr t) (out t) in
    match a with
    | AGet => match take_nth c (pool g) with
              | Some (p, pl) => fin (heap g) (next g) pl (glob g) (Some p) (out t)
              | None => fin (set_heap (heap g) (next g) fresh) (S (next g)) (pool g) (glob g) (Some (next g)) (out t)
              end
    | AInit v => match ptr t with
                 | Some p => fin (set_heap (heap g) p (init v (heap g p))) (next g) (pool g) (glob g) (ptr t) (out t)
                 | None => skip end
    | AUse f => match ptr t with
                | Some p => let '(o, r) := use (glob g) f (heap g p) in
                            fin (set_heap (heap g) p o) (next g) (pool g) (glob g) (ptr t) (out t ++ [r])
                | None => skip end
    | APut => match ptr t with
              | Some p => fin (set_heap (heap g) p (reset (heap g p))) (next g) (p :: pool g) (glob g) (ptr t) (out t)
              | None => skip end
    | ASetG x => fin (heap g) (next g) (pool g) x (ptr t) (out t)
    end
  end.

Definition sched := list (nat * nat).   (* (thread index, Get choice) *)
Definition run (s : sched) (g : gst) : gst := fold_left (fun g ic => step g (fst ic) (snd ic)) s g.

(* pool0: arbitrary objects left behind by earlier users *)
Definition start (progs : list (list action)) (pool0 : list ostate) (g0 : G) : gst :=
  mk_gst (fun p => nth p pool0 fresh) (length pool0) (seq 0 (length pool0)) g0
         (fun i => mk_tst (nth i progs []) None []).

Definition run_interleaved (s : sched) progs pool0 g0 : list (list result) :=
  let g := run s (start progs pool0 g0) in map (fun i => out (ths g i)) (seq 0 (length progs)).
Definition all_done (s : sched) progs pool0 g0 : bool :=
  let g := run s (start progs pool0 g0) in
  forallb (fun i => match todo (ths g i) with [] => true | _ => false end) (seq 0 (length progs)).
Definition final_glob (s : sched) progs pool0 g0 : G := glob (run s (start progs pool0 g0)).

(* the same thread by itself, empty pool (its own Gets reuse the object it put back, if any) *)
Definition run_alone (g0 : G) (prog : list action) : list result :=
  nth 0 (run_interleaved (repeat (0, 0) (length prog)) [prog] [] g0) [].

(* Syntactic bracketing: Get; Init; Use*; Put (or Get; Put — the error path hash.go:108-110).
   No Use/Init/Put outside the thread's own Get..Put, no Use before Init, no second Init.
   A trailing unfinished segment is allowed (object never returned: map_verify.go:699, harmless). *)
Inductive phase := PIdle | PGot | PInit.
Fixpoint wb_from (ph : phase) (acts : list action) : bool :=
  match acts with
  | [] => true
  | a :: r =>
    match ph, a with
    | PIdle, AGet => wb_from PGot r
    | PGot, AInit _ => wb_from PInit r
    | PGot, APut => wb_from PIdle r
    | PInit, AUse _ => wb_from PInit r
    | PInit, APut => wb_from PIdle r
    | _, ASetG _ => wb_from ph r
    | _, _ => false
    end
  end.
Definition well_bracketed (prog : list action) : bool := wb_from PIdle prog.

(* callers' obligation for the global settings: SetThreshold is not called in the concurrent phase *)
Definition no_set_threshold (prog : list action) : bool :=
  forallb (fun a => match a with ASetG _ => false | _ => true end) prog.

(* What the object type must satisfy.  clean = what Init relies on (established by New and by the
   put function); sim = agreement on everything Use reads. *)
Record pool_laws (clean : ostate -> Prop) (sim : ostate -> ostate -> Prop) : Prop := {
  clean_fresh : clean fresh;
  clean_reset : forall o, clean (reset o);
  init_sim : forall v o o', clean o -> clean o' -> sim (init v o) (init v o');
  use_sim : forall g f o o', sim o o' ->
            sim (fst (use g f o)) (fst (use g f o')) /\ snd (use g f o) = snd (use g f o')
}.
End Pool.

Arguments mk_tst {input uop result G}.
Arguments todo {input uop result G}.
Arguments ptr {input uop result G}.
Arguments out {input uop result G}.
Arguments mk_gst {ostate input uop result G}.
Arguments heap {ostate input uop result G}.
Arguments next {ostate input uop result G}.
Arguments pool {ostate input uop result G}.
Arguments glob {ostate input uop result G}.
Arguments ths {ostate input uop result G}.
Arguments set_heap {ostate}.
Arguments set_th {input uop result G}.
Arguments step {ostate input uop result G}.
Arguments run {ostate input uop result G}.
Arguments start {ostate input uop result G}.
Arguments run_interleaved {ostate input uop result G}.
Arguments all_done {ostate input uop result G}.
Arguments final_glob {ostate input uop result G}.
Arguments run_alone {ostate input uop result G}.
Arguments wb_from {input uop G}.
Arguments well_bracketed {input uop G}.
Arguments no_set_threshold {input uop G}.
Arguments pool_laws {ostate input uop result G}.
Arguments AGet {input uop G}.
Arguments AInit {input uop G} v.
Arguments AUse {input uop G} f.
Arguments APut {input uop G}.
Arguments ASetG {input uop G} x.

(* ---------- instance 1: basicDigester (hash.go:57-62) ---------- *)
Local Open Scope N_scope.
Record dig := mk_dig { d_c64 : N; d_b3 : list N; d_scratch : list N; d_msg : list N }.
Definition empty_b3 : list N := [0; 0; 0; 0].                       (* emptyBlake3Hash *)
Definition b3_is_empty (b : list N) : bool := if list_eq_dec N.eq_dec b empty_b3 then true else false.

Section Digester.
Variable circle : N -> list N -> N.        (* circlehash.Hash64(msg, k0) *)
Variable blake : list N -> list N.         (* the four big-endian words of blake3.Sum256(msg) *)

Definition dig_fresh : dig := mk_dig 0 empty_b3 (repeat 0 32) [].
(* hash.go:120-124 *)
Definition dig_reset (o : dig) : dig := mk_dig 0 empty_b3 (d_scratch o) [].
(* hash.go:105-115; input = (k0, hash input bytes produced by hip).  hip may write the message into
   scratch; the rest of scratch keeps the previous user's bytes.  blake3Hash is NOT touched.
   (k1 of SetSeed is stored but never read by the Go code.) *)
Definition dig_init (v : N * list N) (o : dig) : dig :=
  let '(k0, m) := v in
  mk_dig (circle k0 m) (d_b3 o) (firstn 32 (m ++ skipn (length m) (d_scratch o))) m.
(* hash.go:143-166 Digest(level); None = HashLevelError *)
Definition dig_use (_ : unit) (level : N) (o : dig) : dig * option N :=
  if 4 <=? level then (o, None)
  else if level =? 0 then (o, Some (d_c64 o))
  else let o' := if b3_is_empty (d_b3 o) then mk_dig (d_c64 o) (blake (d_msg o)) (d_scratch o) (d_msg o) else o in
       (o', Some (nth (N.to_nat (level - 1)) (d_b3 o') 0)).

Definition dig_clean (o : dig) : Prop := d_b3 o = empty_b3.
Definition dig_sim (o o' : dig) : Prop := d_c64 o = d_c64 o' /\ d_b3 o = d_b3 o' /\ d_msg o = d_msg o'.
End Digester.

(* ---------- instance 2: bytes.Buffer from bufferPool / typeIDBufferPool ---------- *)
Record buf := mk_buf { b_bytes : list N; b_cap : list N (* stale bytes beyond len: never readable *) }.
Definition buf_fresh : buf := mk_buf [] [].
Definition buf_reset (o : buf) : buf := mk_buf [] (b_bytes o ++ b_cap o).        (* Buffer.Reset: len := 0 *)
Definition buf_init (_ : unit) (o : buf) : buf := o.                             (* nothing is done on get *)
(* Write(bs); observed: the contents (Bytes()/String()) and "fits the current max slab size"
   (stands for every size decision the encoders take from the global thresholds, G = N) *)
Definition buf_use (g : N) (bs : list N) (o : buf) : buf * (list N * bool) :=
  let b := b_bytes o ++ bs in (mk_buf b (skipn (length bs) (b_cap o)), (b, N.of_nat (length b) <=? g)).
Definition buf_clean (o : buf) : Prop := b_bytes o = [].
Definition buf_sim (o o' : buf) : Prop := b_bytes o = b_bytes o'.

(* toy hash functions for the executable examples *)
Definition toy_circle (k0 : N) (m : list N) : N := fold_left (fun a b => (a * 31 + b) mod 2 ^ 64) m k0.
Definition toy_blake (m : list N) : list N := let s := toy_circle 7 m in [s + 1; s + 2; s + 3; s + 4].
