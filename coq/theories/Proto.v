(* Proto.v — the integer-list protocol shared by the Go harness, the OCaml runner and the
   in-Coq [vm_compute] sample.  A history is a list of steps; a step is the pair of the
   operation that was asked (as a list of integers) and what the implementation was
   observed to answer (as a list of integers).  The checker replays the operations on the
   executable model and reports the first step where the answers differ. *)
From Coq Require Import ZArith NArith List Bool.
Import ListNotations.

Definition line : Type := list Z.

Inductive verdict : Type :=
| VOk (steps : nat)
| VDiff (step : nat) (model impl : line)     (* model and implementation answered differently *)
| VBadOp (step : nat) (op : line).           (* the operation line does not parse: harness error *)

Section checker.
  Context {S O : Type}.
  Variable dec : line -> option O.
  Variable stp : S -> O -> S * line.

  Fixpoint zlist_eqb (a b : line) : bool :=
    match a, b with
    | [], [] => true
    | x :: a', y :: b' => Z.eqb x y && zlist_eqb a' b'
    | _, _ => false
    end.

  Fixpoint check_from (s : S) (tr : list (line * line)) (k : nat) : verdict :=
    match tr with
    | [] => VOk k
    | (o, r) :: tr' =>
      match dec o with
      | None => VBadOp k o
      | Some op =>
        let '(s', m) := stp s op in
        if zlist_eqb m r then check_from s' tr' (Datatypes.S k) else VDiff k m r
      end
    end.
End checker.

Lemma zlist_eqb_eq a b : zlist_eqb a b = true <-> a = b.
Proof.
  revert b; induction a as [|x a IH]; intros [|y b]; cbn; try (split; congruence).
  rewrite andb_true_iff, Z.eqb_eq, IH. split; [intros [-> ->]; reflexivity | intros H; inversion H; auto].
Qed.

Definition zN (z : Z) : N := Z.to_N z.
Definition Nz (n : N) : Z := Z.of_N n.
Definition znat (z : Z) : nat := Z.to_nat z.
Definition natz (n : nat) : Z := Z.of_nat n.
Definition zbool (z : Z) : bool := negb (Z.eqb z 0).
Definition boolz (b : bool) : Z := if b then 1%Z else 0%Z.

(* mismatching histories of a batch: indices of the histories whose verdict is not VOk *)
Fixpoint mismatches_from {H : Type} (chk : H -> verdict) (hs : list H) (k : nat) : list (nat * verdict) :=
  match hs with
  | [] => []
  | h :: r =>
    match chk h with
    | VOk _ => mismatches_from chk r (Datatypes.S k)
    | v => (k, v) :: mismatches_from chk r (Datatypes.S k)
    end
  end.
