(* TwoMaps.v — C17 "independent" for maps: two OrderedMaps living in ONE slab storage at one address.
   Same construction as TwoArrays.v over the map slab-tree model MapTree.v: the maps share the slab
   store and the identifier counter (storage.GenerateSlabID(address)), nothing else; an operation
   on either map starts from the world's counter ([mwith_alloc]) and its effect on the store is its
   log of storeSlab / Storage.Remove calls.

   The store maps identifiers to registers of an arbitrary type R; [reg_of t' id] is what a Store
   of id publishes, read off the map AFTER the operation (Go slab objects are shared by pointer).
   The model is parametric in [reg_of]; the statements (props/C17_map_independent.v) instantiate it
   with the slab's own content [MapFrame_proofs.mnode_at] (data slab: header, sibling link, elements
   with external collision groups as references; external collision group slab: its elements; index
   slab: header and child-header copies) — the vocabulary of C03_map / C09_map. *)
From Coq Require Import NArith ZArith List Bool.
From AtreeGen Require Import Consts.
From AtreeModel Require Import Settings MapElems MapTree MapBatch.
Import ListNotations.
Local Open Scope N_scope.

Section world.
  Variable R : Type.
  Variable reg_of : mtree -> N -> R.

  Definition mstore : Type := N -> option R.
  Definition mst_set (st : mstore) (i : N) (r : option R) : mstore := fun x => if x =? i then r else st x.
  Definition mst_empty : mstore := fun _ => None.

  Fixpoint mapply_log (t' : mtree) (st : mstore) (lg : wlog) : mstore :=
    match lg with
    | [] => st
    | WStore i :: r => mapply_log t' (mst_set st i (Some (reg_of t' i))) r
    | WRemove i :: r => mapply_log t' (mst_set st i None) r
    end.

  Record mworld : Type := mkMW { mw_a : mtree; mw_b : mtree; mw_alloc : N; mw_store : mstore }.
End world.
Arguments mkMW {R}.
Arguments mw_a {R}.
Arguments mw_b {R}.
Arguments mw_alloc {R}.
Arguments mw_store {R}.
Arguments mst_set {R}.
Arguments mst_empty {R}.
Arguments mapply_log {R}.

Definition mwith_alloc (t : mtree) (n : N) : mtree := mkmt (t_root t) n (t_count t).

Inductive mside : Type := MA | MB.
Definition mother (X : mside) : mside := match X with MA => MB | MB => MA end.

Definition mw_get {R} (w : mworld R) (X : mside) : mtree := match X with MA => mw_a w | MB => mw_b w end.

Section steps.
  Variable R : Type.
  Variable reg_of : mtree -> N -> R.
  Variable dg : N -> nat -> N.
  Variable levels : nat.
  Variable max_inline_elem limit : N.
  Variable c : cfg.

  Definition mwstep (w : mworld R) (X : mside) (o : mop) : mworld R * mout :=
    let '(t', out, lg) := mt_step dg levels max_inline_elem limit c (mwith_alloc (mw_get w X) (mw_alloc w)) o in
    let st' := mapply_log reg_of t' (mw_store w) lg in
    (match X with
     | MA => mkMW t' (mw_b w) (t_alloc t') st'
     | MB => mkMW (mw_a w) t' (t_alloc t') st'
     end, out).

  Fixpoint mwrun (w : mworld R) (ops : list (mside * mop)) : mworld R * list mout :=
    match ops with
    | [] => (w, [])
    | (X, o) :: r =>
      let '(w1, x) := mwstep w X o in
      let '(w2, xs) := mwrun w1 r in (w2, x :: xs)
    end.

  (* two NewMap calls *)
  Definition mw_new2 (alloc : N) : mworld R :=
    let '(a, lga) := mt_init (alloc + 1) in
    let '(b, lgb) := mt_init (alloc + 2) in
    mkMW a b (alloc + 2) (mapply_log reg_of b (mapply_log reg_of a mst_empty lga) lgb).

  (* B := NewMapFromBatchData(stream) in the storage that holds A (MapBatch.v), from the world's
     counter [alloc] *)
  Definition mw_batch (a : mtree) (alloc : N) (st : mstore R) (seed : N) (stream : dict) : mworld R :=
    let '(b, lg) := map_from_batch dg levels max_inline_elem limit c alloc seed stream in
    mkMW a b (t_alloc b) (mapply_log reg_of b st lg).
End steps.

(* the requests addressed to X, and the answers to them *)
Definition mproj (X : mside) (ops : list (mside * mop)) : list mop :=
  flat_map (fun p : mside * mop => match X, fst p with MA, MA | MB, MB => [snd p] | _, _ => [] end) ops.

Fixpoint mproj_out (X : mside) (ops : list (mside * mop)) (outs : list mout) : list mout :=
  match ops, outs with
  | (Y, _) :: r, x :: xs =>
    match X, Y with MA, MA | MB, MB => x :: mproj_out X r xs | _, _ => mproj_out X r xs end
  | _, _ => []
  end.
