(* MapBatch.v — executable model of the bulk constructor and the single-slab copy of atree's
   OrderedMap:
     NewMapFromBatchData + nextLevelMapSlabs            (map.go 159-482)
     OrderedMap.CanCopyNonRefSimple / CopyNonRefSimple  (map.go 1534-1576, map_data_slab.go 43-106,
                                                         map_metadata_slab.go 40-56, map_element.go
                                                         134-154/324-336/522-528, map_elements_*.go)
   on top of the slab-tree model MapTree.v (same node type, same cached fields, same allocator and
   write-log conventions: [alloc] is the last slab index handed out for the address, every
   GenerateSlabID returns alloc+1) and of the element-level model MapElems.v (a colliding element
   is added with the very [set_elem] that OrderedMap.Set uses — element.Set at level 0).

   What NewMapFromBatchData does, as coded:
     0. seed = 0 is refused (HashSeedUninitializedError) before anything is allocated;
     1. the identifier of the first data slab is allocated;
     2. per element of the stream, hkey = digest at level 0:
        - hkey < previous hkey: HashError "digest isn't sorted";
        - hkey = previous hkey and at least one element was appended: COLLISION: the LAST element
          of the current data slab is replaced by [element.Set] of it (level 0; no collision-limit
          check here: that check lives in hkeyElements.Set); a returned previous value means the
          key is already there: DuplicateKeyError; the cached elements size is adjusted by the
          size difference; the slab is NOT closed however large the group grows;
        - otherwise a singleElement is created; if the current data slab has reached the target
          size (prefix + elements size >= targetThreshold) or the new element would push it over
          the maximum, the NEXT data slab's identifier is allocated, the current one is closed
          (header size, firstKey = first hkey or 0, next = the new identifier) and a new, empty one
          is started; the element is appended; previous hkey := hkey;
     3. the last data slab is closed with next = 0;
     4. level loop while more than one slab: if the last slab underflows, its left sibling lends
        (CanLendToRight/LendToRight) or absorbs it (Merge); if one slab remains it is the root;
        otherwise all slabs of the level are stored left to right and nextLevelMapSlabs groups
        them, left to right, into index slabs of at most (maxThreshold - 12) / 18 headers, one
        fresh identifier each;
     5. the root is the single remaining slab and KEEPS the identifier it was created with; a root
        data slab gets the root prefix; the extra data (count = number of elements) is attached;
        the root is stored.
   A data slab merged away by the tail rebalance keeps its (never stored) identifier allocated.

   Modelling boundary: keys and values are (identity, encoded size) pairs already in their stored
   form, i.e. within the inline limits, so that newSingleElement allocates nothing (a larger key or
   value would be moved to a StorableSlab by Storable() and draw an identifier from the same
   counter).  The digester, comparator and element provider never fail.

   No proofs in this file. *)
From Coq Require Import NArith ZArith List Bool Arith.
From AtreeGen Require Import Consts.
From AtreeModel Require Import Settings MapElems MapTree.
Import ListNotations.
Local Open Scope N_scope.

Inductive berr : Type :=
| BSeed                 (* HashSeedUninitializedError *)
| BUnsorted             (* HashError: digest isn't sorted *)
| BDuplicate            (* DuplicateKeyError *)
| BElem (e : merr)      (* error of element.Set *)
| BTree (e : terr)      (* error of LendToRight / Merge *)
| BPanic                (* a Go runtime panic: index out of range on an empty slice *)
| BFuel.                (* the model's level loop ran out of fuel: unreachable, see MapBatch_proofs *)

Inductive bres (A : Type) : Type := BOk (a : A) | BErr (e : berr).
Arguments BOk {A} a.
Arguments BErr {A} e.

Section batch.
  Variable dg : N -> nat -> N.          (* digest of key identity at level *)
  Variable levels : nat.                (* Digester.Levels() *)
  Variable max_inline_elem : N.         (* maxInlineMapElementSize *)
  Variable limit : N.                   (* maxCollisionLimitPerDigest: NOT consulted by the batch path *)
  Variable c : cfg.                     (* thresholds *)

  (** * Level 0: append-only filling of data slabs (map.go 190-330) *)

  (* the data slab under construction: [rhks]/[rels] are hkeys/elems REVERSED (head = last) *)
  Definition close_leaf (id next : N) (rhks : list N) (rels : list melem) (size : N) : mnode :=
    let g := HKey 0 (rev rhks) (rev rels) size in
    MD (mkmhdr id (P + size) (efirst g)) next g.

  (* [mfill st id rhks rels size prev count alloc]: the current data slab has identifier [id],
     cached elements size [size]; [prev] = prevHkey, [count] = elements consumed so far.
     Returns the data slabs in order (the last one with next = 0), the count, the allocator and
     the Store calls (external collision groups only). *)
  Fixpoint mfill (st : dict) (id : N) (rhks : list N) (rels : list melem) (size prev count alloc : N)
    : bres (list mnode * N * N * wlog) :=
    match st with
    | [] => BOk ([close_leaf id 0 rhks rels size], count, alloc, [])
    | (k, v) :: r =>
      let h := dg (kid k) 0 in
      if h <? prev then BErr BUnsorted
      else if (h =? prev) && (0 <? count) then
        (* collision: elements.elems[len-1].Set(...) *)
        match rels with
        | [] => BErr BPanic
        | pe :: rels' =>
          match set_elem dg levels max_inline_elem limit (op_fuel levels) pe 0 k v (alloc + 1) with
          | inl e => BErr (BElem e)
          | inr (_, Some _, _, _) => BErr BDuplicate
          | inr (e', None, a', evs) =>
            match mfill r id rhks (e' :: rels') ((size + esize e') - esize pe) prev (count + 1) (a' - 1) with
            | BOk (slabs, cnt, a, lg) => BOk (slabs, cnt, a, evs ++ lg)
            | BErr x => BErr x
            end
          end
        end
      else
        let e := ESingle k v in
        let cur := P + size in
        let new := c_digestSize + esize e in
        if (cT c <=? cur) || (cmax c <? cur + new) then
          (* finalize the current data slab: the next identifier is generated first *)
          let nid := alloc + 1 in
          match mfill r nid [h] [e] (HP + new) h (count + 1) nid with
          | BOk (slabs, cnt, a, lg) => BOk (close_leaf id nid rhks rels size :: slabs, cnt, a, lg)
          | BErr x => BErr x
          end
        else mfill r id (h :: rhks) (e :: rels) (size + new) h (count + 1) alloc
    end.

  (** * Tail rebalance (map.go 334-363): the last slab borrows from or merges into its left sibling *)

  Definition fix_pair (l r : mnode) : tres (list mnode) :=
    match n_underflow c r with
    | None => TOk [l; r]
    | Some need =>
      if n_can_lend_to_right c l need then
        match n_lend_to_right c l r with
        | TOk (l', r') => TOk [l'; r']
        | TErr e => TErr e
        end
      else
        match n_merge l r with
        | TOk m => TOk [m]
        | TErr e => TErr e
        end
    end.

  Fixpoint tail_fix (slabs : list mnode) : tres (list mnode) :=
    match slabs with
    | [] => TOk []
    | x :: rest =>
      match rest with
      | [] => TOk [x]
      | y :: rest2 =>
        match rest2 with
        | [] => fix_pair x y
        | _ :: _ =>
          match tail_fix rest with
          | TOk rest' => TOk (x :: rest')
          | TErr e => TErr e
          end
        end
      end
    end.

  (** * nextLevelMapSlabs (map.go 419-482) *)

  Definition max_headers : N := (cmax c - PM) / HS.

  (* the index slab under construction: identifier, cached size, firstKey, and (reversed) the header
     copies and the children; [k] = number of headers so far *)
  Record meta_acc : Type := mkma {
    ma_id : N; ma_size : N; ma_first : N;
    ma_hs : list mhdr; ma_cs : list mnode; ma_k : nat
  }.

  Definition ma_new (id first : N) : meta_acc := mkma id PM first [] [] 0.
  Definition ma_add (m : meta_acc) (s : mnode) : meta_acc :=
    mkma (ma_id m) (ma_size m + HS) (ma_first m) (hdr_of s :: ma_hs m) (s :: ma_cs m) (S (ma_k m)).
  Definition ma_close (m : meta_acc) : mnode :=
    MM (mkmhdr (ma_id m) (ma_size m) (ma_first m)) (rev (ma_hs m)) (rev (ma_cs m)).

  Fixpoint next_level_go (maxn : nat) (slabs : list mnode) (m : meta_acc) (alloc : N) : list mnode * N :=
    match slabs with
    | [] => ([ma_close m], alloc)
    | s :: r =>
      if Nat.eqb (ma_k m) maxn then
        let '(rest, a) := next_level_go maxn r (ma_add (ma_new (alloc + 1) (mh_first (hdr_of s))) s) (alloc + 1) in
        (ma_close m :: rest, a)
      else next_level_go maxn r (ma_add m s) alloc
    end.

  (* slabs[0] on an empty slice panics; the function is only called with at least two slabs *)
  Definition next_level (slabs : list mnode) (alloc : N) : option (list mnode * N) :=
    match slabs with
    | [] => None
    | s0 :: _ =>
      Some (next_level_go (N.to_nat max_headers) slabs (ma_new (alloc + 1) (mh_first (hdr_of s0))) (alloc + 1))
    end.

  (** * The level loop (map.go 332-388) *)

  Definition store_all (slabs : list mnode) : wlog := map (fun s => WStore (mh_id (hdr_of s))) slabs.

  Fixpoint mlevels (fuel : nat) (slabs : list mnode) (alloc : N) (lg : wlog) : bres (mnode * N * wlog) :=
    match fuel with
    | O => BErr BFuel
    | S f =>
      match slabs with
      | [] => BErr BPanic                      (* slabs[0] on an empty slice *)
      | [root] => BOk (root, alloc, lg)
      | _ =>
        match tail_fix slabs with
        | TErr e => BErr (BTree e)
        | TOk [] => BErr BPanic
        | TOk [root] => BOk (root, alloc, lg)
        | TOk slabs' =>
          match next_level slabs' alloc with
          | None => BErr BPanic
          | Some (next, alloc') => mlevels f next alloc' (lg ++ store_all slabs')
          end
        end
      end
    end.

  (* root is a data slab: adjust its size to the root prefix (map.go 393-396) *)
  Definition rebase_root (n : mnode) : mnode :=
    match n with
    | MD h nx es => MD (mkmhdr (mh_id h) (mh_size h - P + RP) (mh_first h)) nx es
    | _ => n
    end.

  Definition map_from_batch_res (alloc seed : N) (st : dict) : bres (mtree * wlog) :=
    if seed =? 0 then BErr BSeed
    else
      let id := alloc + 1 in
      match mfill st id [] [] HP 0 0 id with
      | BErr e => BErr e
      | BOk (leaves, cnt, alloc1, lg1) =>
        match mlevels (length st + 2) leaves alloc1 lg1 with
        | BErr e => BErr e
        | BOk (root, alloc2, lg2) =>
          let root' := rebase_root root in
          BOk (mkmt root' alloc2 cnt, lg2 ++ [WStore (mh_id (hdr_of root'))])
        end
      end.

  (* total version: the error branch is unreachable for legal slab sizes on a digest-sorted,
     duplicate-free stream within the size contract (MapBatch_proofs.mbatch_ok) *)
  Definition map_from_batch (alloc seed : N) (st : dict) : mtree * wlog :=
    match map_from_batch_res alloc seed st with
    | BOk x => x
    | BErr _ => (mkmt (MD (mkmhdr 0 0 0) 0 (HKey 0 [] [] 0)) alloc 0, [])
    end.

  (** * Copy of a single-slab map of plain keys and values *)

  (* [pl x]: the stored key or value is a plain non-reference storable (Storable.CanCopyNonRefSimple) *)
  Variable pl : kv -> bool.

  (* singleElement / inlineCollisionGroup / externalCollisionGroup .canCopyNonRefSimple,
     hkeyElements / singleElements .canCopyNonRefSimple *)
  Fixpoint can_copy_e (e : melem) : bool :=
    match e with
    | ESingle k v => pl k && pl v
    | EGroup None g => can_copy_g g
    | EGroup (Some _) _ => false
    end
  with can_copy_g (g : melems) : bool :=
    match g with
    | HKey _ _ es _ => forallb can_copy_e es
    | SList _ kvs _ => forallb (fun p : kv * kv => pl (fst p) && pl (snd p)) kvs
    end.

  (* MapDataSlab.canCopyWithoutSlabID / MapMetaDataSlab.canCopyWithoutSlabID *)
  Definition can_copy (root : mnode) : bool :=
    match root with
    | MD _ next es => (next =? 0) && can_copy_g es
    | MM _ _ _ => false
    end.

  Inductive cerr : Type := ECopyMultiSlab | ECopyNext | ECopyElement.

  Definition IMP : N := c_inlinedMapDataSlabPrefixSize.

  (* OrderedMap.CopyNonRefSimple on a source whose root slab is [root] and whose extra data says
     [count] ([inlined]: the source lives inside its parent's slab, its cached size then counts the
     inlined prefix).  The identifier is allocated BEFORE the slab is inspected, so a refusal for a
     sibling link or an element still advances the allocator; a multi-slab source is refused before.
     The copy shares nothing with the source: hkeys are cloned, every element is rebuilt with the
     same cached sizes. *)
  Definition copy_map (root : mnode) (inlined : bool) (count alloc : N) : (mtree * wlog + cerr) * N :=
    match root with
    | MM _ _ _ => (inr ECopyMultiSlab, alloc)
    | MD h next es =>
      let newid := alloc + 1 in
      if negb (next =? 0) then (inr ECopyNext, newid)
      else if negb (can_copy_g es) then (inr ECopyElement, newid)
      else
        let size := if inlined then mh_size h - IMP + RP else mh_size h in
        (inl (mkmt (MD (mkmhdr newid size (mh_first h)) 0 es) newid count, [WStore newid]), newid)
    end.
End batch.
