(* DecodeSafe.v — C19: the slab decoders of onflow/atree with Go's PARTIAL operations explicit.

   Every Go operation that can panic is a partial primitive here and yields [Panic]:
     data[a:b], data[a:], data[:b], data[i], binary.BigEndian.UintN(data[off:]),
     inlinedExtraData[i], checked type assertions are [Error] (the Go code uses the `x, ok :=` form).
   Every `make([]T, n)` adds n allocation units.  An [Error] is a returned Go error.
   Termination: all functions are total Gallina functions (structural recursion on a counter that the Go
   loop also counts, on the byte list, or on fuel) — that is the "never loops" part, by construction.

   Part 1 (fixed-offset code, transcribed line by line, same checks in the same order):
     decode.go DecodeSlab dispatch; flag.go head accessors; slab.go header queries;
     slab_id.go NewSlabIDFromRawBytes; array_metadata_slab_decode.go and map_metadata_slab_decode.go
     (v0 and v1); the fixed-offset prefix of array_data_slab_decode.go / map_data_slab_decode.go (v0, v1)
     up to the point where the CBOR stream decoder takes over.
     The CBOR-decoded extra data section is an abstract step: a Section variable returns either an error or
     `dec.NumBytesDecoded()`; the following `data[n:]` is an explicit partial slice, and the only assumption
     (Section hypothesis, used by the proofs, instantiated and proved for the concrete parser of the trace
     engine) is the fxamacker/cbor property  NumBytesDecoded() <= len(data).
   Part 2 (CBOR-driven code) works on a validated item tree [citem]: this is what cbor.StreamDecoder hands
     out (the whole next data item is checked well-formed before any head is returned, so an array head's
     count is the number of children really present).  Transcribed: the element loops of the array data slab,
     newElementsFromData, newElementFromData, newSingleElementFromData, the collision groups, the three
     inlined-container decoders with their extra-data index / kind / slab-index checks, the inlined extra data
     section and compact-map extra data, math_utils' overflow-safe additions, and the harness' hardened
     storable decoder (the StorableDecoder callback).  Recursion is on fuel; fuel exhaustion is [Error]. *)
From Coq Require Import NArith ZArith List Bool Lia.
From AtreeGen Require Import Consts.
Import ListNotations.
Local Open Scope N_scope.

(* ------------------------------------------------------------------------------------------ *)
(* outcomes and the allocation-counting computation                                            *)
(* ------------------------------------------------------------------------------------------ *)

Inductive outcome (A : Type) : Type := Val (a : A) | Error | Panic.
Arguments Val {A} a.
Arguments Error {A}.
Arguments Panic {A}.

Definition obind {A B} (o : outcome A) (f : A -> outcome B) : outcome B :=
  match o with Val a => f a | Error => Error | Panic => Panic end.

Record M (A : Type) : Type := mkM { out : outcome A; units : N }.
Arguments mkM {A} out units.
Arguments out {A} m.
Arguments units {A} m.

Definition ret {A} (a : A) : M A := mkM (Val a) 0.
Definition err {A} : M A := mkM Error 0.
Definition panic {A} : M A := mkM Panic 0.
Definition bind {A B} (m : M A) (f : A -> M B) : M B :=
  match out m with
  | Val a => let r := f a in mkM (out r) (units m + units r)
  | Error => mkM Error (units m)
  | Panic => mkM Panic (units m)
  end.
Notation "x <- m ;; k" := (bind m (fun x => k)) (at level 61, m at next level, right associativity).
Notation "' p <- m ;; k" := (bind m (fun x => let p := x in k)) (at level 61, p pattern, m at next level, right associativity).

(* make([]T, n) *)
Definition make_units (n : N) : M unit := mkM (Val tt) n.
Definition lift_opt {A} (o : option A) : M A := match o with Some a => ret a | None => err end.

(* ------------------------------------------------------------------------------------------ *)
(* bytes and Go's partial slice operations                                                     *)
(* ------------------------------------------------------------------------------------------ *)

Definition bytes := list N.                 (* a byte is an N; < 256 is not needed for safety *)
Definition lenN {A} (d : list A) : N := N.of_nat (length d).

(* d[a:b]   (Go allows b up to cap(d); using len(d) is the conservative reading: more panics, never fewer) *)
Definition slice (d : bytes) (a b : N) : M bytes :=
  if (a <=? b) && (b <=? lenN d) then ret (firstn (N.to_nat (b - a)) (skipn (N.to_nat a) d)) else panic.
(* d[a:] *)
Definition slice_from (d : bytes) (a : N) : M bytes :=
  if a <=? lenN d then ret (skipn (N.to_nat a) d) else panic.
(* d[:b] *)
Definition slice_to (d : bytes) (b : N) : M bytes :=
  if b <=? lenN d then ret (firstn (N.to_nat b) d) else panic.
(* d[i] *)
Definition index {A} (d : list A) (i : N) : M A :=
  match nth_error d (N.to_nat i) with Some x => ret x | None => panic end.

Definition be_val (l : bytes) : N := fold_left (fun acc x => acc * 256 + x) l 0.
(* binary.BigEndian.Uint16/32/64(d): `_ = b[k-1]` bounds check first *)
Definition be_uint (k : N) (d : bytes) : M N :=
  if k <=? lenN d then ret (be_val (firstn (N.to_nat k) d)) else panic.
Definition be16 := be_uint 2.
Definition be32 := be_uint 4.
Definition be64 := be_uint 8.
(* copy(dst[:], src) into a zeroed fixed-size array: never panics *)
Definition copy_fixed (k : nat) (src : bytes) : bytes := firstn k (src ++ repeat 0 k).

Definition maxUint32 : N := 4294967295.
(* math_utils.go *)
Definition safeAdd2Uint32 (a b : N) : option N :=
  let sum := a + b in if maxUint32 <? sum then None else Some sum.
Definition safeAdd3Uint32 (a b c : N) : option N :=
  let sum := a + b + c in if maxUint32 <? sum then None else Some sum.

(* ------------------------------------------------------------------------------------------ *)
(* flag.go                                                                                     *)
(* ------------------------------------------------------------------------------------------ *)

Inductive slabType := slabTypeUndefined | slabArray | slabMap | slabStorable.
Inductive slabArrayType := slabArrayUndefined | slabArrayData | slabArrayMeta | slabLargeImmutableArray.
Inductive slabMapType := slabMapUndefined | slabMapData | slabMapMeta | slabMapLargeEntry | slabMapCollisionGroup.

Definition head : Type := (N * N)%type.     (* type head [2]byte *)

(* newHeadFromData: length check, then data[0], data[1] *)
Definition newHeadFromData (d : bytes) : M head :=
  if negb (lenN d =? 2) then err else
  b0 <- index d 0 ;;
  b1 <- index d 1 ;;
  ret (b0, b1).

Definition h_version (h : head) : N := N.shiftr (N.land (fst h) 240) 4.       (* (h[0] & maskVersion) >> 4 *)
Definition h_isRoot (h : head) : bool := 0 <? N.land (snd h) 128.              (* h[1]&maskSlabRoot > 0 *)
Definition h_hasPointers (h : head) : bool := 0 <? N.land (snd h) 64.
Definition h_hasSizeLimit (h : head) : bool := N.land (snd h) 32 =? 0.         (* h[1]&maskSlabAnySize == 0 *)
Definition h_hasInlinedSlabs (h : head) : bool := 0 <? N.land (fst h) 1.
Definition h_hasNextSlabID (h : head) : bool :=
  if h_version h =? 0 then negb (h_isRoot h) else 0 <? N.land (fst h) 2.

Definition getSlabType (h : head) : slabType :=
  let dataType := N.shiftr (N.land (snd h) 24) 3 in
  if dataType =? 0 then slabArray
  else if dataType =? 1 then slabMap
  else if dataType =? 3 then slabStorable
  else slabTypeUndefined.

Definition getSlabArrayType (h : head) : slabArrayType :=
  match getSlabType h with
  | slabArray =>
    let dataType := N.land (snd h) 7 in
    if dataType =? 0 then slabArrayData
    else if dataType =? 1 then slabArrayMeta
    else if dataType =? 2 then slabLargeImmutableArray
    else slabArrayUndefined
  | _ => slabArrayUndefined
  end.

Definition getSlabMapType (h : head) : slabMapType :=
  match getSlabType h with
  | slabMap =>
    let dataType := N.land (snd h) 7 in
    if dataType =? 0 then slabMapData
    else if dataType =? 1 then slabMapMeta
    else if dataType =? 2 then slabMapLargeEntry
    else if dataType =? 3 then slabMapCollisionGroup
    else slabMapUndefined
  | _ => slabMapUndefined
  end.

(* ------------------------------------------------------------------------------------------ *)
(* slab.go: the three header queries on raw bytes                                              *)
(* ------------------------------------------------------------------------------------------ *)

Definition header_query (f : head -> bool) (slabData : bytes) : M bool :=
  if lenN slabData <? c_versionAndFlagSize then err else
  hd <- slice_to slabData c_versionAndFlagSize ;;
  h <- newHeadFromData hd ;;
  ret (f h).

Definition is_root_go (d : bytes) : outcome bool := out (header_query h_isRoot d).
Definition has_pointers_go (d : bytes) : outcome bool := out (header_query h_hasPointers d).
Definition has_size_limit_go (d : bytes) : outcome bool := out (header_query h_hasSizeLimit d).

(* ------------------------------------------------------------------------------------------ *)
(* slab_id.go                                                                                  *)
(* ------------------------------------------------------------------------------------------ *)

Record SlabID := mkSlabID { sid_address : bytes; sid_index : bytes }.   (* 8 + 8 bytes *)
Definition slabIDUndefined : SlabID := mkSlabID (repeat 0 8%nat) (repeat 0 8%nat).

Definition newSlabIDFromRawBytes (b : bytes) : M SlabID :=
  if lenN b <? c_slabIDLength then err else
  let address := copy_fixed 8 b in
  rest <- slice_from b c_slabAddressLength ;;          (* b[SlabAddressLength:] *)
  let index := copy_fixed 8 rest in
  ret (mkSlabID address index).

(* ------------------------------------------------------------------------------------------ *)
(* decoded metadata slabs                                                                      *)
(* ------------------------------------------------------------------------------------------ *)

Record ArraySlabHeader := mkAH { ah_id : SlabID; ah_size : N; ah_count : N }.
Record MapSlabHeader := mkMH { mh_id : SlabID; mh_size : N; mh_firstKey : N }.

Record ArrayMetaDataSlab := mkAM {
  am_header : ArraySlabHeader;
  am_children : list ArraySlabHeader;
  am_countSum : list N;
  am_hasExtra : bool }.

Record MapMetaDataSlab := mkMM {
  mm_header : MapSlabHeader;
  mm_children : list MapSlabHeader;
  mm_hasExtra : bool }.

(* what the fixed-offset part of DecodeSlab produces *)
Inductive fixed_result :=
| FArrayMeta (s : ArrayMetaDataSlab)
| FMapMeta (s : MapMetaDataSlab)
  (* control passes to the CBOR stream decoder on [content]; [inl] = the bytes newInlinedExtraDataFromData was
     called on (the inlined extra data section and everything after it), if the head announces inlined slabs *)
| FArrayData (h : head) (next : SlabID) (inl : option bytes) (content : bytes)
| FMapData (h : head) (next : SlabID) (inl : option bytes) (content : bytes)
| FStorable (content : bytes).

Section Fixed.
  (* newArrayExtraDataFromData / newMapExtraDataFromData / newInlinedExtraDataFromData decode CBOR with the
     stream decoder and return `data[dec.NumBytesDecoded():]`.  Abstract: None = a decoding error,
     Some n = success with NumBytesDecoded() = n. *)
  Variable array_extra_len : bytes -> option N.
  Variable map_extra_len : bytes -> option N.
  Variable inlined_extra_len : bytes -> option N.

  Definition after_extra (extra_len : bytes -> option N) (data : bytes) : M bytes :=
    n <- lift_opt (extra_len data) ;;
    slice_from data n.                                   (* data[dec.NumBytesDecoded():] *)

  (* ---------------- array_metadata_slab_decode.go ---------------- *)

  (* the child-header loop of version 0; n = remaining iterations of `for i := range childrenHeaders` *)
  Fixpoint array_headers_v0 (n : nat) (data : bytes) (offset totalCount : N)
    : M (list (ArraySlabHeader * N) * N) :=
    match n with
    | O => ret ([], totalCount)
    | S n' =>
      s <- slice_from data offset ;;
      slabID <- newSlabIDFromRawBytes s ;;
      let countOffset := offset + c_slabIDLength in
      s <- slice_from data countOffset ;;
      count <- be32 s ;;
      let sizeOffset := countOffset + 4 in
      s <- slice_from data sizeOffset ;;
      size <- be32 s ;;
      match safeAdd2Uint32 totalCount count with
      | None => err
      | Some totalCount' =>
        r <- array_headers_v0 n' data (offset + 24) totalCount' ;;
        ret ((mkAH slabID size count, totalCount') :: fst r, snd r)
      end
    end.

  Definition newArrayMetaDataSlabFromDataV0 (id : SlabID) (h : head) (data : bytes) : M ArrayMetaDataSlab :=
    let arrayMetaDataArrayHeadSizeV0 := 2 in
    let arraySlabHeaderSizeV0 := c_slabIDLength + 4 + 4 in
    data <- (if h_isRoot h then
               data <- after_extra array_extra_len data ;;
               if lenN data <? c_versionAndFlagSize then err else
               slice_from data c_versionAndFlagSize
             else ret data) ;;
    if lenN data <? arrayMetaDataArrayHeadSizeV0 then err else
    childHeaderCount <- be16 data ;;
    data <- slice_from data arrayMetaDataArrayHeadSizeV0 ;;
    let expectedDataLength := arraySlabHeaderSizeV0 * childHeaderCount in
    if negb (lenN data =? expectedDataLength) then err else
    _ <- make_units childHeaderCount ;;                  (* childrenHeaders *)
    _ <- make_units childHeaderCount ;;                  (* childrenCountSum *)
    r <- array_headers_v0 (N.to_nat childHeaderCount) data 0 0 ;;
    let slabSize := c_arrayMetaDataSlabPrefixSize + c_arraySlabHeaderSize * childHeaderCount in
    ret (mkAM (mkAH id slabSize (snd r)) (map fst (fst r)) (map snd (fst r)) (h_isRoot h)).

  Fixpoint array_headers_v1 (n : nat) (address : bytes) (data : bytes) (offset totalCount : N)
    : M (list (ArraySlabHeader * N) * N) :=
    match n with
    | O => ret ([], totalCount)
    | S n' =>
      s <- slice_from data offset ;;
      let index := copy_fixed 8 s in
      let slabID := mkSlabID address index in
      let offset := offset + c_slabIndexLength in
      s <- slice_from data offset ;;
      count <- be32 s ;;
      let offset := offset + 4 in
      s <- slice_from data offset ;;
      size <- be16 s ;;
      let offset := offset + 2 in
      match safeAdd2Uint32 totalCount count with
      | None => err
      | Some totalCount' =>
        r <- array_headers_v1 n' address data offset totalCount' ;;
        ret ((mkAH slabID size count, totalCount') :: fst r, snd r)
      end
    end.

  Definition newArrayMetaDataSlabFromDataV1 (id : SlabID) (h : head) (data : bytes) : M ArrayMetaDataSlab :=
    data <- (if h_isRoot h then after_extra array_extra_len data else ret data) ;;
    let minLength := c_arrayMetaDataSlabPrefixSize - c_versionAndFlagSize in
    if lenN data <? minLength then err else
    let offset := 0 in
    s <- slice_from data offset ;;
    let address := copy_fixed 8 s in
    let offset := offset + c_slabAddressLength in
    s <- slice_from data offset ;;
    childHeaderCount <- be16 s ;;
    let offset := offset + 2 in
    let expectedDataLength := c_arraySlabHeaderSize * childHeaderCount in
    s <- slice_from data offset ;;
    if negb (lenN s =? expectedDataLength) then err else
    _ <- make_units childHeaderCount ;;
    _ <- make_units childHeaderCount ;;
    r <- array_headers_v1 (N.to_nat childHeaderCount) address data offset 0 ;;
    let slabSize := c_arrayMetaDataSlabPrefixSize + c_arraySlabHeaderSize * childHeaderCount in
    ret (mkAM (mkAH id slabSize (snd r)) (map fst (fst r)) (map snd (fst r)) (h_isRoot h)).

  Definition newArrayMetaDataSlabFromData (id : SlabID) (data : bytes) : M ArrayMetaDataSlab :=
    if lenN data <? c_versionAndFlagSize then err else
    hd <- slice_to data c_versionAndFlagSize ;;
    h <- newHeadFromData hd ;;
    match getSlabArrayType h with
    | slabArrayMeta =>
      data <- slice_from data c_versionAndFlagSize ;;
      let v := h_version h in
      if v =? 0 then newArrayMetaDataSlabFromDataV0 id h data
      else if v =? 1 then newArrayMetaDataSlabFromDataV1 id h data
      else err
    | _ => err
    end.

  (* ---------------- map_metadata_slab_decode.go ---------------- *)

  Fixpoint map_headers_v0 (n : nat) (data : bytes) (offset : N) : M (list MapSlabHeader) :=
    match n with
    | O => ret []
    | S n' =>
      s <- slice_from data offset ;;
      slabID <- newSlabIDFromRawBytes s ;;
      let firstKeyOffset := offset + c_slabIDLength in
      s <- slice_from data firstKeyOffset ;;
      firstKey <- be64 s ;;
      let sizeOffset := firstKeyOffset + c_digestSize in
      s <- slice_from data sizeOffset ;;
      size <- be32 s ;;
      r <- map_headers_v0 n' data (offset + 28) ;;
      ret (mkMH slabID size firstKey :: r)
    end.

  Definition first_key_of (hs : list MapSlabHeader) : N :=
    match hs with [] => 0 | h :: _ => mh_firstKey h end.     (* guarded by len(childrenHeaders) > 0 *)

  Definition newMapMetaDataSlabFromDataV0 (id : SlabID) (h : head) (data : bytes) : M MapMetaDataSlab :=
    let mapMetaDataArrayHeadSizeV0 := 2 in
    let mapSlabHeaderSizeV0 := c_slabIDLength + 4 + c_digestSize in
    data <- (if h_isRoot h then
               data <- after_extra map_extra_len data ;;
               if lenN data <? c_versionAndFlagSize then err else
               slice_from data c_versionAndFlagSize
             else ret data) ;;
    if lenN data <? mapMetaDataArrayHeadSizeV0 then err else
    childHeaderCount <- be16 data ;;
    data <- slice_from data mapMetaDataArrayHeadSizeV0 ;;
    let expectedDataLength := mapSlabHeaderSizeV0 * childHeaderCount in
    if negb (lenN data =? expectedDataLength) then err else
    _ <- make_units childHeaderCount ;;
    hs <- map_headers_v0 (N.to_nat childHeaderCount) data 0 ;;
    let slabSize := c_mapMetaDataSlabPrefixSize + c_mapSlabHeaderSize * childHeaderCount in
    ret (mkMM (mkMH id slabSize (first_key_of hs)) hs (h_isRoot h)).

  Fixpoint map_headers_v1 (n : nat) (address : bytes) (data : bytes) (offset : N) : M (list MapSlabHeader) :=
    match n with
    | O => ret []
    | S n' =>
      s <- slice_from data offset ;;
      let index := copy_fixed 8 s in
      let offset := offset + c_slabIndexLength in
      s <- slice_from data offset ;;
      firstKey <- be64 s ;;
      let offset := offset + c_digestSize in
      s <- slice_from data offset ;;
      size <- be16 s ;;
      let offset := offset + 2 in
      r <- map_headers_v1 n' address data offset ;;
      ret (mkMH (mkSlabID address index) size firstKey :: r)
    end.

  Definition newMapMetaDataSlabFromDataV1 (id : SlabID) (h : head) (data : bytes) : M MapMetaDataSlab :=
    data <- (if h_isRoot h then after_extra map_extra_len data else ret data) ;;
    let minLength := c_mapMetaDataSlabPrefixSize - c_versionAndFlagSize in
    if lenN data <? minLength then err else
    let offset := 0 in
    s <- slice_from data offset ;;
    let address := copy_fixed 8 s in
    let offset := offset + c_slabAddressLength in
    s <- slice_from data offset ;;
    childHeaderCount <- be16 s ;;
    let offset := offset + 2 in
    let expectedDataLength := c_mapSlabHeaderSize * childHeaderCount in
    s <- slice_from data offset ;;
    if negb (lenN s =? expectedDataLength) then err else
    _ <- make_units childHeaderCount ;;
    hs <- map_headers_v1 (N.to_nat childHeaderCount) address data offset ;;
    let slabSize := c_mapMetaDataSlabPrefixSize + c_mapSlabHeaderSize * childHeaderCount in
    ret (mkMM (mkMH id slabSize (first_key_of hs)) hs (h_isRoot h)).

  Definition newMapMetaDataSlabFromData (id : SlabID) (data : bytes) : M MapMetaDataSlab :=
    if lenN data <? c_versionAndFlagSize then err else
    hd <- slice_to data c_versionAndFlagSize ;;
    h <- newHeadFromData hd ;;
    match getSlabMapType h with
    | slabMapMeta =>
      data <- slice_from data c_versionAndFlagSize ;;
      let v := h_version h in
      if v =? 0 then newMapMetaDataSlabFromDataV0 id h data
      else if v =? 1 then newMapMetaDataSlabFromDataV1 id h data
      else err
    | _ => err
    end.

  (* ---------------- array_data_slab_decode.go: fixed-offset prefix ---------------- *)

  Definition arrayDataPrefixV0 (h : head) (data : bytes) : M fixed_result :=
    data <- (if h_isRoot h then
               data <- after_extra array_extra_len data ;;
               if lenN data <? c_versionAndFlagSize then err else
               slice_from data c_versionAndFlagSize
             else ret data) ;;
    '(next, data) <- (if negb (h_isRoot h) then
               if lenN data <? c_slabIDLength then err else
               next <- newSlabIDFromRawBytes data ;;
               data <- slice_from data c_slabIDLength ;;
               ret (next, data)
             else ret (slabIDUndefined, data)) ;;
    if lenN data <? c_arrayDataSlabElementHeadSize then err else
    ret (FArrayData h next None data).

  Definition arrayDataPrefixV1 (h : head) (data : bytes) : M fixed_result :=
    data <- (if h_isRoot h then after_extra array_extra_len data else ret data) ;;
    '(inlb, data) <- (if h_hasInlinedSlabs h then
               n <- lift_opt (inlined_extra_len data) ;;
               rest <- slice_from data n ;;
               ret (Some data, rest)
             else ret (None, data)) ;;
    '(next, data) <- (if h_hasNextSlabID h then
               next <- newSlabIDFromRawBytes data ;;
               data <- slice_from data c_slabIDLength ;;
               ret (next, data)
             else ret (slabIDUndefined, data)) ;;
    if lenN data <? c_arrayDataSlabElementHeadSize then err else
    ret (FArrayData h next inlb data).

  Definition newArrayDataSlabFromData_prefix (data : bytes) : M fixed_result :=
    if lenN data <? c_versionAndFlagSize then err else
    hd <- slice_to data c_versionAndFlagSize ;;
    h <- newHeadFromData hd ;;
    match getSlabArrayType h with
    | slabArrayData =>
      data <- slice_from data c_versionAndFlagSize ;;
      let v := h_version h in
      if v =? 0 then arrayDataPrefixV0 h data
      else if v =? 1 then arrayDataPrefixV1 h data
      else err
    | _ => err
    end.

  (* ---------------- map_data_slab_decode.go: fixed-offset prefix ---------------- *)

  Definition mapDataPrefixV0 (h : head) (data : bytes) : M fixed_result :=
    data <- (if h_isRoot h then
               data <- after_extra map_extra_len data ;;
               if lenN data <? c_versionAndFlagSize then err else
               slice_from data c_versionAndFlagSize
             else ret data) ;;
    '(next, data) <- (if negb (h_isRoot h) then
               if lenN data <? c_slabIDLength then err else
               next <- newSlabIDFromRawBytes data ;;
               data <- slice_from data c_slabIDLength ;;
               ret (next, data)
             else ret (slabIDUndefined, data)) ;;
    ret (FMapData h next None data).

  Definition mapDataPrefixV1 (h : head) (data : bytes) : M fixed_result :=
    data <- (if h_isRoot h then after_extra map_extra_len data else ret data) ;;
    '(inlb, data) <- (if h_hasInlinedSlabs h then
               n <- lift_opt (inlined_extra_len data) ;;
               rest <- slice_from data n ;;
               ret (Some data, rest)
             else ret (None, data)) ;;
    '(next, data) <- (if h_hasNextSlabID h then
               if lenN data <? c_slabIDLength then err else
               next <- newSlabIDFromRawBytes data ;;
               data <- slice_from data c_slabIDLength ;;
               ret (next, data)
             else ret (slabIDUndefined, data)) ;;
    ret (FMapData h next inlb data).

  Definition newMapDataSlabFromData_prefix (data : bytes) : M fixed_result :=
    if lenN data <? c_versionAndFlagSize then err else
    hd <- slice_to data c_versionAndFlagSize ;;
    h <- newHeadFromData hd ;;
    match getSlabMapType h with
    | slabMapData | slabMapCollisionGroup =>
      data <- slice_from data c_versionAndFlagSize ;;
      let v := h_version h in
      if v =? 0 then mapDataPrefixV0 h data
      else if v =? 1 then mapDataPrefixV1 h data
      else err
    | _ => err
    end.

  (* ---------------- decode.go: DecodeSlab ---------------- *)

  Definition decode_slab_fixed_m (id : SlabID) (data : bytes) : M fixed_result :=
    if lenN data <? c_versionAndFlagSize then err else
    hd <- slice_to data c_versionAndFlagSize ;;
    h <- newHeadFromData hd ;;
    match getSlabType h with
    | slabArray =>
      match getSlabArrayType h with
      | slabArrayData => newArrayDataSlabFromData_prefix data
      | slabArrayMeta => s <- newArrayMetaDataSlabFromData id data ;; ret (FArrayMeta s)
      | _ => err
      end
    | slabMap =>
      match getSlabMapType h with
      | slabMapData => newMapDataSlabFromData_prefix data
      | slabMapMeta => s <- newMapMetaDataSlabFromData id data ;; ret (FMapMeta s)
      | slabMapCollisionGroup => newMapDataSlabFromData_prefix data
      | _ => err
      end
    | slabStorable =>
      c <- slice_from data c_versionAndFlagSize ;;
      ret (FStorable c)
    | slabTypeUndefined => err
    end.

  Definition decode_slab_fixed (id : SlabID) (data : bytes) : outcome fixed_result :=
    out (decode_slab_fixed_m id data).
  Definition alloc_units_fixed (id : SlabID) (data : bytes) : N := units (decode_slab_fixed_m id data).
End Fixed.

(* accessors of a decoded metadata slab: total functions of the decoded record
   (array_metadata_slab.go ByteSize / ChildStorables: `return a.header.size`,
    `childIDs := make([]Storable, len(a.childrenHeaders)); for i, h := range ... childIDs[i] = SlabIDStorable(h.slabID)`) *)
Definition array_meta_byte_size (s : ArrayMetaDataSlab) : M N := ret (ah_size (am_header s)).
Definition array_meta_child_storables (s : ArrayMetaDataSlab) : M (list SlabID) :=
  _ <- make_units (N.of_nat (length (am_children s))) ;;
  ret (map ah_id (am_children s)).
Definition map_meta_byte_size (s : MapMetaDataSlab) : M N := ret (mh_size (mm_header s)).
Definition map_meta_child_storables (s : MapMetaDataSlab) : M (list SlabID) :=
  _ <- make_units (N.of_nat (length (mm_children s))) ;;
  ret (map mh_id (mm_children s)).

(* ------------------------------------------------------------------------------------------ *)
(* Part 2: CBOR-driven decoders over a validated item tree                                      *)
(* ------------------------------------------------------------------------------------------ *)

Inductive citem :=
| CUint (n : N)
| CBytes (b : bytes)
| CText (b : bytes)
| CArray (l : list citem)
| CTag (t : N) (c : citem)
| COther.     (* negative ints, maps, floats, simple values, indefinite-length items: every DecodeXxx used
                 by atree answers with an error on them *)

Fixpoint csize (it : citem) : N :=
  match it with
  | CUint _ => 1
  | CBytes b => 1 + lenN b
  | CText b => 1 + lenN b
  | CArray l => 1 + fold_right (fun x acc => csize x + acc) 0 l
  | CTag _ c => 1 + csize c
  | COther => 1
  end.
Definition csize_list (l : list citem) : N := fold_right (fun x acc => csize x + acc) 0 l.

(* StreamDecoder calls on the next item *)
Definition decodeArrayHead (it : citem) : M (list citem) := match it with CArray l => ret l | _ => err end.
Definition decodeUint64 (it : citem) : M N := match it with CUint n => ret n | _ => err end.
Definition decodeBytes (it : citem) : M bytes := match it with CBytes b => ret b | _ => err end.

(* decoded values *)
Inductive storable :=
| SScalar (size : N) (comparable : bool)     (* tagged unsigned integers and text strings of the harness decoder *)
| SSome (s : storable) (size : N)
| SSlabID (id : SlabID)
| SArraySlab (id : SlabID) (size count : N) (elems : list storable)
| SMapSlab (id : SlabID) (size firstKey count : N) (e : elements)
with elements :=
| HkeyElements (hkeys : list N) (elems : list element) (level size : N)
| SingleElements (elems : list element) (level size : N)
with element :=
| ESingle (k v : storable) (size : N)
| EInlineGroup (e : elements)
| EExternalGroup (id : SlabID) (size : N).

Definition byte_size (s : storable) : N :=
  match s with
  | SScalar sz _ => sz
  | SSome _ sz => sz
  | SSlabID _ => c_slabIDStorableSize
  | SArraySlab _ sz _ _ => sz
  | SMapSlab _ sz _ _ _ => sz
  end.
Definition elements_size (e : elements) : N :=
  match e with HkeyElements _ _ _ sz => sz | SingleElements _ _ sz => sz end.
Definition element_size (e : element) : N :=
  match e with
  | ESingle _ _ sz => sz
  | EInlineGroup g => c_inlineCollisionGroupPrefixSize + elements_size g
  | EExternalGroup _ sz => sz
  end.
Definition elements_firstKey (e : elements) : N :=
  match e with
  | HkeyElements (k :: _) _ _ _ => k          (* if len(e.hkeys) > 0 { return e.hkeys[0] } *)
  | _ => 0
  end.

(* inlined extra data entries *)
Inductive extra :=
| EArrayExtra
| EMapExtra (count seed : N)
| ECompactExtra (count seed : N) (hkeys : list N) (keys : list storable).

Definition uintCBORSize (v : N) : N :=
  if v <=? 23 then 1 else if v <=? 255 then 2 else if v <=? 65535 then 3 else if v <=? maxUint32 then 5 else 9.

(* digests: `for i := range hkeys { hkeys[i] = Digest(binary.BigEndian.Uint64(digestBytes[i*digestSize:])) }` *)
Fixpoint digests_loop (n : nat) (i : N) (digestBytes : bytes) : M (list N) :=
  match n with
  | O => ret []
  | S n' =>
    s <- slice_from digestBytes (i * c_digestSize) ;;
    d <- be64 s ;;
    r <- digests_loop n' (i + 1) digestBytes ;;
    ret (d :: r)
  end.

(* generic element loop: `for i := range elements { x, err := f(...); ...; size, safe = safeAdd...(size, x.Size()) }` *)
Fixpoint loop_acc {A} (f : citem -> M A) (sz : A -> N) (extraPer : N) (l : list citem) (size : N) : M (list A * N) :=
  match l with
  | [] => ret ([], size)
  | x :: r =>
    a <- f x ;;
    match safeAdd3Uint32 size extraPer (sz a) with
    | None => err
    | Some size' =>
      t <- loop_acc f sz extraPer r size' ;;
      ret (a :: fst t, snd t)
    end
  end.

Section Items.
  Variable decode_type_info : citem -> bool.       (* the TypeInfoDecoder callback: consumes one item, may fail *)
  Variable utf8_valid : bytes -> bool.             (* DecodeString rejects invalid UTF-8 *)

  Definition tagInlinedArray := 250.
  Definition tagInlinedMap := 251.
  Definition tagInlinedCompactMap := 252.
  Definition tagInlineCollisionGroup := 253.
  Definition tagExternalCollisionGroup := 254.
  Definition tagSlabID := 255.
  Definition tagInlinedArrayExtraData := 247.
  Definition tagInlinedMapExtraData := 248.
  Definition tagInlinedCompactMapExtraData := 249.

  (* slab_id_storable.go DecodeSlabIDStorable *)
  Definition decodeSlabIDStorable (c : citem) : M storable :=
    b <- decodeBytes c ;;
    id <- newSlabIDFromRawBytes b ;;
    ret (SSlabID id).

  (* compact map values: `key, err := extraData.keys[i].CopyNonRefSimple()` inside `for i := range elems` *)
  Fixpoint compact_loop (f : citem -> M storable) (keys : list storable) (i : N) (l : list citem) (size : N)
    : M (list element * N) :=
    match l with
    | [] => ret ([], size)
    | x :: r =>
      value <- f x ;;
      key <- index keys i ;;                                           (* extraData.keys[i] *)
      match safeAdd3Uint32 c_singleElementPrefixSize (byte_size key) (byte_size value) with
      | None => err
      | Some elemSize =>
        match safeAdd3Uint32 size c_digestSize elemSize with
        | None => err
        | Some size' =>
          t <- compact_loop f keys (i + 1) r size' ;;
          ret (ESingle key value elemSize :: fst t, snd t)
        end
      end
    end.

  Fixpoint wrap_some (n : nat) (s : storable) (size : N) : storable :=
    match n with O => s | S n' => wrap_some n' (SSome s size) size end.

  (* The seven mutually recursive decoders.  Each body is the transcription of one Go function, with the
     functions it calls as parameters; the knot is tied below by recursion on fuel. *)
  Definition dec_t := SlabID -> list extra -> citem -> M storable.
  Definition els_t := SlabID -> list extra -> citem -> M elements.
  Definition el_t := SlabID -> list extra -> citem -> M element.

  (* The StorableDecoder callback (harness decodeStorableSafe = test_utils.DecodeStorable with the nesting
     count bounded). *)
  Definition decodeStorable_body (recStorable recInlinedArray recInlinedMap recInlinedCompact : dec_t)
             (id : SlabID) (ied : list extra) (it : citem) : M storable :=
    match it with
    | CText b => if utf8_valid b then ret (SScalar (uintCBORSize (lenN b) + lenN b) true) else err
    | CTag t c =>
      if t =? tagInlinedArray then recInlinedArray id ied c
      else if t =? tagInlinedMap then recInlinedMap id ied c
      else if t =? tagInlinedCompactMap then recInlinedCompact id ied c
      else if t =? tagSlabID then decodeSlabIDStorable c
      else if t =? 161 then n <- decodeUint64 c ;; if 255 <? n then err else ret (SScalar (2 + uintCBORSize n) false)
      else if t =? 162 then n <- decodeUint64 c ;; if 65535 <? n then err else ret (SScalar (2 + uintCBORSize n) false)
      else if t =? 163 then n <- decodeUint64 c ;; if maxUint32 <? n then err else ret (SScalar (2 + uintCBORSize n) false)
      else if t =? 164 then n <- decodeUint64 c ;; ret (SScalar (2 + uintCBORSize n) false)
      else if t =? 165 then s <- recStorable id ied c ;; ret (SSome s (2 + byte_size s))
      else if t =? 167 then
        l <- decodeArrayHead c ;;
        if negb (lenN l =? 2) then err else
        match l with
        | [lv; inner] =>
          levels <- decodeUint64 lv ;;
          if (levels <=? 1) || (64 <? levels) then err else
          s <- recStorable id ied inner ;;
          let size := 2 + 1 + uintCBORSize levels + byte_size s in
          ret (wrap_some (N.to_nat levels) s size)
        | _ => err
        end
      else err
    | _ => err
    end.

  (* array_data_slab_decode.go DecodeInlinedArrayStorable *)
  Definition decodeInlinedArrayStorable_body (recStorable : dec_t)
             (parentSlabID : SlabID) (ied : list extra) (c : citem) : M storable :=
    l <- decodeArrayHead c ;;
    if negb (lenN l =? 3) then err else
    match l with
    | [i0; i1; i2] =>
      extraDataIndex <- decodeUint64 i0 ;;
      if lenN ied <=? extraDataIndex then err else
      e <- index ied extraDataIndex ;;                       (* inlinedExtraData[extraDataIndex] *)
      match e with
      | EArrayExtra =>
        b <- decodeBytes i1 ;;
        if negb (lenN b =? c_slabIndexLength) then err else
        let slabID := mkSlabID (sid_address parentSlabID) (copy_fixed 8 b) in
        elems <- decodeArrayHead i2 ;;
        let elemCount := lenN elems in
        if maxUint32 <? elemCount then err else
        _ <- make_units elemCount ;;                         (* make([]Storable, elemCount) *)
        r <- loop_acc (recStorable slabID ied) byte_size 0 elems c_inlinedArrayDataSlabPrefixSize ;;
        ret (SArraySlab slabID (snd r) elemCount (fst r))
      | _ => err                                            (* type assertion, `ok` form *)
      end
    | _ => err
    end.

  (* map_data_slab_decode.go DecodeInlinedMapStorable *)
  Definition decodeInlinedMapStorable_body (recElements : els_t)
             (parentSlabID : SlabID) (ied : list extra) (c : citem) : M storable :=
    l <- decodeArrayHead c ;;
    if negb (lenN l =? 3) then err else
    match l with
    | [i0; i1; i2] =>
      extraDataIndex <- decodeUint64 i0 ;;
      if lenN ied <=? extraDataIndex then err else
      e <- index ied extraDataIndex ;;
      match e with
      | EMapExtra count seed =>
        b <- decodeBytes i1 ;;
        if negb (lenN b =? c_slabIndexLength) then err else
        let slabID := mkSlabID (sid_address parentSlabID) (copy_fixed 8 b) in
        els <- recElements slabID ied i2 ;;
        match safeAdd2Uint32 c_inlinedMapDataSlabPrefixSize (elements_size els) with
        | None => err
        | Some size => ret (SMapSlab slabID size (elements_firstKey els) count els)
        end
      | _ => err
      end
    | _ => err
    end.

  (* map_data_slab_decode.go DecodeInlinedCompactMapStorable *)
  Definition decodeInlinedCompactMapStorable_body (recStorable : dec_t)
             (parentSlabID : SlabID) (ied : list extra) (c : citem) : M storable :=
    l <- decodeArrayHead c ;;
    if negb (lenN l =? 3) then err else
    match l with
    | [i0; i1; i2] =>
      extraDataIndex <- decodeUint64 i0 ;;
      if lenN ied <=? extraDataIndex then err else
      e <- index ied extraDataIndex ;;
      match e with
      | ECompactExtra count seed hkeys0 keys =>
        b <- decodeBytes i1 ;;
        if negb (lenN b =? c_slabIndexLength) then err else
        let slabID := mkSlabID (sid_address parentSlabID) (copy_fixed 8 b) in
        elems <- decodeArrayHead i2 ;;
        let elemCount := lenN elems in
        if negb (elemCount =? lenN keys) then err else
        _ <- make_units (lenN hkeys0) ;;                     (* hkeys := make([]Digest, len(extraData.hkeys)) *)
        _ <- make_units elemCount ;;                         (* elems := make([]element, elemCount) *)
        r <- compact_loop (recStorable slabID ied) keys 0 elems c_hkeyElementsPrefixSize ;;
        let els := HkeyElements hkeys0 (fst r) 0 (snd r) in
        match safeAdd2Uint32 c_inlinedMapDataSlabPrefixSize (elements_size els) with
        | None => err
        | Some size => ret (SMapSlab slabID size (elements_firstKey els) count els)
        end
      | _ => err
      end
    | _ => err
    end.

  (* map_elements_decode.go newElementsFromData *)
  Definition newElementsFromData_body (recElement recSingleElement : el_t)
             (slabID : SlabID) (ied : list extra) (it : citem) : M elements :=
    l <- decodeArrayHead it ;;
    if negb (lenN l =? 3) then err else
    match l with
    | [lv; dg; el] =>
      level <- decodeUint64 lv ;;
      digestBytes <- decodeBytes dg ;;
      if negb (N.modulo (lenN digestBytes) c_digestSize =? 0) then err else
      let digestCount := N.div (lenN digestBytes) c_digestSize in
      _ <- make_units digestCount ;;                         (* hkeys := make([]Digest, digestCount) *)
      hkeys <- digests_loop (N.to_nat digestCount) 0 digestBytes ;;
      elems <- decodeArrayHead el ;;
      let elemCount := lenN elems in
      if maxUint32 <? elemCount then err else
      if negb (digestCount =? 0) && negb (digestCount =? elemCount) then err else
      if (digestCount =? 0) && (0 <? elemCount) then
        _ <- make_units elemCount ;;                         (* elems := make([]*singleElement, elemCount) *)
        r <- loop_acc (recSingleElement slabID ied) element_size 0 elems c_singleElementsPrefixSize ;;
        ret (SingleElements (fst r) level (snd r))
      else
        _ <- make_units elemCount ;;                         (* elems := make([]element, elemCount) *)
        r <- loop_acc (recElement slabID ied) element_size c_digestSize elems c_hkeyElementsPrefixSize ;;
        ret (HkeyElements hkeys (fst r) level (snd r))
    | _ => err
    end.

  (* map_element_decode.go newElementFromData *)
  Definition newElementFromData_body (recStorable : dec_t) (recElements : els_t) (recSingleElement : el_t)
             (slabID : SlabID) (ied : list extra) (it : citem) : M element :=
    match it with
    | CArray _ => recSingleElement slabID ied it
    | CTag t c =>
      if t =? tagInlineCollisionGroup then
        els <- recElements slabID ied c ;; ret (EInlineGroup els)
      else if t =? tagExternalCollisionGroup then
        s <- recStorable slabID ied c ;;
        match s with
        | SSlabID sid =>                                     (* idStorable, ok := storable.(SlabIDStorable) *)
          match safeAdd2Uint32 c_externalCollisionGroupPrefixSize (byte_size s) with
          | None => err
          | Some size => ret (EExternalGroup sid size)
          end
        | _ => err
        end
      else err
    | _ => err
    end.

  (* map_element_decode.go newSingleElementFromData *)
  Definition newSingleElementFromData_body (recStorable : dec_t)
             (slabID : SlabID) (ied : list extra) (it : citem) : M element :=
    l <- decodeArrayHead it ;;
    if negb (lenN l =? 2) then err else
    match l with
    | [k; v] =>
      key <- recStorable slabID ied k ;;
      value <- recStorable slabID ied v ;;
      match safeAdd3Uint32 c_singleElementPrefixSize (byte_size key) (byte_size value) with
      | None => err
      | Some size => ret (ESingle key value size)
      end
    | _ => err
    end.

  Definition no_fuel {A} : SlabID -> list extra -> citem -> M A := fun _ _ _ => err.

  Fixpoint decodeStorable (fuel : nat) {struct fuel} : dec_t :=
    match fuel with
    | O => no_fuel
    | S f => decodeStorable_body (decodeStorable f) (decodeInlinedArrayStorable f)
                                 (decodeInlinedMapStorable f) (decodeInlinedCompactMapStorable f)
    end
  with decodeInlinedArrayStorable (fuel : nat) {struct fuel} : dec_t :=
    match fuel with O => no_fuel | S f => decodeInlinedArrayStorable_body (decodeStorable f) end
  with decodeInlinedMapStorable (fuel : nat) {struct fuel} : dec_t :=
    match fuel with O => no_fuel | S f => decodeInlinedMapStorable_body (newElementsFromData f) end
  with decodeInlinedCompactMapStorable (fuel : nat) {struct fuel} : dec_t :=
    match fuel with O => no_fuel | S f => decodeInlinedCompactMapStorable_body (decodeStorable f) end
  with newElementsFromData (fuel : nat) {struct fuel} : els_t :=
    match fuel with O => no_fuel | S f => newElementsFromData_body (newElementFromData f) (newSingleElementFromData f) end
  with newElementFromData (fuel : nat) {struct fuel} : el_t :=
    match fuel with
    | O => no_fuel
    | S f => newElementFromData_body (decodeStorable f) (newElementsFromData f) (newSingleElementFromData f)
    end
  with newSingleElementFromData (fuel : nat) {struct fuel} : el_t :=
    match fuel with O => no_fuel | S f => newSingleElementFromData_body (decodeStorable f) end.

  (* ---------------- extradata.go / array_extradata.go / map_extradata.go / compactmap_extradata.go ---------------- *)

  Definition newArrayExtraData (c : citem) : M extra :=
    l <- decodeArrayHead c ;;
    if negb (lenN l =? 1) then err else
    match l with
    | [ti] => if decode_type_info ti then ret EArrayExtra else err
    | _ => err
    end.

  Definition newMapExtraData (c : citem) : M extra :=
    l <- decodeArrayHead c ;;
    if negb (lenN l =? 3) then err else
    match l with
    | [ti; cnt; sd] =>
      if decode_type_info ti then
        count <- decodeUint64 cnt ;;
        seed <- decodeUint64 sd ;;
        ret (EMapExtra count seed)
      else err
    | _ => err
    end.

  (* keys of compact map extra data: decodeStorable(dec, SlabIDUndefined, nil) + ComparableStorable assertion *)
  Fixpoint compact_keys_loop (fuel : nat) (l : list citem) : M (list storable) :=
    match l with
    | [] => ret []
    | x :: r =>
      key <- decodeStorable fuel slabIDUndefined [] x ;;
      match key with
      | SScalar _ true =>
        t <- compact_keys_loop fuel r ;; ret (key :: t)
      | _ => err
      end
    end.

  Definition newCompactMapExtraData (fuel : nat) (c : citem) : M extra :=
    l <- decodeArrayHead c ;;
    if negb (lenN l =? 3) then err else
    match l with
    | [me; dg; ks] =>
      m <- newMapExtraData me ;;
      match m with
      | EMapExtra count seed =>
        digestBytes <- decodeBytes dg ;;
        if negb (N.modulo (lenN digestBytes) c_digestSize =? 0) then err else
        let digestCount := N.div (lenN digestBytes) c_digestSize in
        if maxUint32 <? digestCount then err else
        keyItems <- decodeArrayHead ks ;;
        let keyCount := lenN keyItems in
        if negb (keyCount =? digestCount) then err else
        _ <- make_units digestCount ;;
        hkeys <- digests_loop (N.to_nat digestCount) 0 digestBytes ;;
        _ <- make_units keyCount ;;
        keys <- compact_keys_loop fuel keyItems ;;
        ret (ECompactExtra count seed hkeys keys)
      | _ => err
      end
    | _ => err
    end.

  Fixpoint type_infos_loop (l : list citem) : M unit :=
    match l with
    | [] => ret tt
    | x :: r => if decode_type_info x then type_infos_loop r else err
    end.

  Fixpoint extras_loop (fuel : nat) (l : list citem) : M (list extra) :=
    match l with
    | [] => ret []
    | x :: r =>
      match x with
      | CTag t c =>
        e <- (if t =? tagInlinedArrayExtraData then newArrayExtraData c
              else if t =? tagInlinedMapExtraData then newMapExtraData c
              else if t =? tagInlinedCompactMapExtraData then newCompactMapExtraData fuel c
              else err) ;;
        t <- extras_loop fuel r ;;
        ret (e :: t)
      | _ => err
      end
    end.

  (* extradata.go newInlinedExtraDataFromData; [dataLen] = len(data), [it] = the first data item of data *)
  Definition newInlinedExtraData (fuel : nat) (dataLen : N) (it : citem) : M (list extra) :=
    l <- decodeArrayHead it ;;
    if negb (lenN l =? 2) then err else
    match l with
    | [tis; eds] =>
      typeInfos <- decodeArrayHead tis ;;
      let typeInfoCount := lenN typeInfos in
      if dataLen <? typeInfoCount then err else
      _ <- make_units typeInfoCount ;;
      _ <- type_infos_loop typeInfos ;;
      extraItems <- decodeArrayHead eds ;;
      let extraDataCount := lenN extraItems in
      if extraDataCount =? 0 then err else
      if dataLen <? extraDataCount then err else
      _ <- make_units extraDataCount ;;
      extras_loop fuel extraItems
    | _ => err
    end.

  (* ---------------- element loops of the standalone data slabs ---------------- *)

  (* array_data_slab_decode.go newArrayDataSlabFromDataV0/V1 from `cborDec.DecodeArrayHead()` on;
     [it] = first data item of the content, [restLen] = bytes after it (v1 rejects extraneous data) *)
  Definition arrayDataElements (fuel : nat) (id : SlabID) (ied : list extra) (isRoot : bool) (checkRest : bool)
             (it : citem) (restLen : N) : M storable :=
    elems <- decodeArrayHead it ;;
    let elemCount := lenN elems in
    if maxUint32 <? elemCount then err else
    let slabSize := if isRoot then c_arrayRootDataSlabPrefixSize else c_arrayDataSlabPrefixSize in
    _ <- make_units elemCount ;;
    r <- loop_acc (decodeStorable fuel id ied) byte_size 0 elems slabSize ;;
    if checkRest && (0 <? restLen) then err else
    ret (SArraySlab id (snd r) elemCount (fst r)).

  (* map_data_slab_decode.go newMapDataSlabFromDataV0/V1 from `newElementsFromData` on *)
  Definition mapDataElements (fuel : nat) (id : SlabID) (ied : list extra) (isRoot : bool) (it : citem) : M storable :=
    els <- newElementsFromData fuel id ied it ;;
    match safeAdd2Uint32 c_versionAndFlagSize (elements_size els) with
    | None => err
    | Some slabSize =>
      match (if negb isRoot then safeAdd2Uint32 slabSize c_slabIDLength else Some slabSize) with
      | None => err
      | Some slabSize => ret (SMapSlab id slabSize (elements_firstKey els) 0 els)
      end
    end.

  (* ChildStorables of decoded data slabs (map_elements.go elementsStorables / elementStorables,
     array_data_slab.go slices.Clone): total functions of the decoded value.  The Go `panic(NewUnreachableError())`
     of elementStorables is the default branch of a type switch over the three element kinds, which are exactly
     the three constructors here. *)
  Fixpoint elements_storables (fuel : nat) (e : elements) : list storable :=
    match fuel with
    | O => []
    | S f =>
      let one (x : element) : list storable :=
        match x with
        | ESingle k v _ => [k; v]
        | EInlineGroup g => elements_storables f g
        | EExternalGroup id _ => [SSlabID id]
        end in
      match e with
      | HkeyElements _ elems _ _ => flat_map one elems
      | SingleElements elems _ _ => flat_map one elems
      end
    end.
End Items.

(* ------------------------------------------------------------------------------------------ *)
(* Part 3: the whole DecodeSlab = fixed-offset part + cbor validation + item decoders          *)
(* ------------------------------------------------------------------------------------------ *)

Inductive slab :=
| SlabArrayMeta (s : ArrayMetaDataSlab)
| SlabMapMeta (s : MapMetaDataSlab)
| SlabArrayData (next : SlabID) (s : storable)
| SlabMapData (next : SlabID) (s : storable)
| SlabStorable (s : storable).

Section Whole.
  (* fxamacker/cbor StreamDecoder: the next data item of the byte string, validated as a whole before any
     head is handed out, together with its encoded length; None = malformed / truncated / limits exceeded *)
  Variable wellformed : bytes -> option (citem * N).
  Variable decode_type_info : citem -> bool.
  Variable utf8_valid : bytes -> bool.

  Definition is_val {A} (m : M A) : bool := match out m with Val _ => true | _ => false end.

  (* every call consumes fuel while a nesting level of the item consumes at most two calls, and an item of
     n bytes has fewer than n levels (cbor itself stops at 32) *)
  Definition fuel_of (d : bytes) : nat := 2 * length d + 8.

  Definition go_array_extra_len (d : bytes) : option N :=
    match wellformed d with
    | Some (it, n) => if is_val (newArrayExtraData decode_type_info it) then Some n else None
    | None => None
    end.
  Definition go_map_extra_len (d : bytes) : option N :=
    match wellformed d with
    | Some (it, n) => if is_val (newMapExtraData decode_type_info it) then Some n else None
    | None => None
    end.
  Definition go_inlined_extra_len (fuel : nat) (d : bytes) : option N :=
    match wellformed d with
    | Some (it, n) => if is_val (newInlinedExtraData decode_type_info utf8_valid fuel (lenN d) it) then Some n else None
    | None => None
    end.

  Definition decode_inlined (fuel : nat) (inlb : option bytes) : M (list extra) :=
    match inlb with
    | None => ret []
    | Some ib =>
      match wellformed ib with
      | Some (it, _) => newInlinedExtraData decode_type_info utf8_valid fuel (lenN ib) it
      | None => err
      end
    end.

  Definition decode_slab_go_m (id : SlabID) (data : bytes) : M slab :=
    let fuel := fuel_of data in
    r <- decode_slab_fixed_m go_array_extra_len go_map_extra_len (go_inlined_extra_len fuel) id data ;;
    match r with
    | FArrayMeta s => ret (SlabArrayMeta s)
    | FMapMeta s => ret (SlabMapMeta s)
    | FArrayData h next inlb content =>
      ied <- decode_inlined fuel inlb ;;
      match wellformed content with
      | None => err
      | Some (it, n) =>
        s <- arrayDataElements utf8_valid fuel id ied (h_isRoot h) (h_version h =? 1) it (lenN content - n) ;;
        ret (SlabArrayData next s)
      end
    | FMapData h next inlb content =>
      ied <- decode_inlined fuel inlb ;;
      match wellformed content with
      | None => err
      | Some (it, _) =>
        s <- mapDataElements utf8_valid fuel id ied (h_isRoot h) it ;;
        ret (SlabMapData next s)
      end
    | FStorable content =>
      match wellformed content with
      | None => err
      | Some (it, _) => s <- decodeStorable utf8_valid fuel id [] it ;; ret (SlabStorable s)
      end
    end.

  Definition decode_slab_go (id : SlabID) (data : bytes) : outcome slab := out (decode_slab_go_m id data).
  Definition alloc_units (id : SlabID) (data : bytes) : N := units (decode_slab_go_m id data).
End Whole.

(* ByteSize / ChildStorables of whatever DecodeSlab returned *)
Definition byte_size_go (s : slab) : outcome N :=
  match s with
  | SlabArrayMeta m => out (array_meta_byte_size m)
  | SlabMapMeta m => out (map_meta_byte_size m)
  | SlabArrayData _ st | SlabMapData _ st => Val (byte_size st)         (* return a.header.size *)
  | SlabStorable st => Val (c_versionAndFlagSize + byte_size st)         (* versionAndFlagSize + s.storable.ByteSize() *)
  end.

Definition child_storables_go (fuel : nat) (s : slab) : outcome (list storable) :=
  match s with
  | SlabArrayMeta m => obind (out (array_meta_child_storables m)) (fun ids => Val (map SSlabID ids))
  | SlabMapMeta m => obind (out (map_meta_child_storables m)) (fun ids => Val (map SSlabID ids))
  | SlabArrayData _ (SArraySlab _ _ _ elems) => Val elems                 (* slices.Clone(a.elements) *)
  | SlabMapData _ (SMapSlab _ _ _ _ e) => Val (elements_storables fuel e)
  | SlabStorable st => Val [st]
  | _ => Val []
  end.
