(* NestedSelfSet.v — C10: writing the child container a slot ALREADY HOLDS back into that slot
   ("self-set"): Array.Set(i, child) / OrderedMap.Set(key, child) where [child] is the array / map
   (wrapped as it is stored) that sits at index i / under key.

   The operation language of Nested.v cannot express it: a container handed to insert / set must be
   currently UNATTACHED ([elem_ok]).  The library supports it explicitly (array.go Array.Set:
   "new value is array/map with different value ID" for the index map, and the guard
   [isInlinedSlabOfValue] of inline_utils.go, added by the repair "fix: keep an inlined child
   container inlined when it is set back into its own slot" = finding F4).

   What Go does (array.go Array.Set -> a.set, map.go OrderedMap.Set -> m.set):
     root.Set(index / key, value):   value.Storable(limit of the slot)  -- the inline / uninline
                                     decision for the child, for THIS slot: the same decision as
                                     the one in force; the element is replaced by the child's
                                     current storable (same slot, same size); header.size is
                                     recomputed; the slab is stored unless it is inlined
     notifyParentIfNeeded()          the parent's own parent chain is re-synchronised
     setCallbackWithChild(..)        the child's callback is registered again (same data), the
                                     index-map entry of the child is written again (same index)
     Array.Set / OrderedMap.Set:     the overwritten storable IS the child's inlined slab (or its
                                     SlabIDStorable): with the repair it is handed back as it is
                                     (no uninline, the index-map entry stays);
                                     BEFORE the repair: uninlineStorableIfNeeded(overwritten).
   This is [cset_body] of Nested.v — the private a.set / m.set, used by [arr_set], [map_set] and by
   the parent callback — applied to the element the slot holds, WITHOUT the post steps of
   [arr_set] / [map_set] ([uninline_old], [del_idx]).  Nothing is added to the model: the step is a
   composition of its primitives ([storable], [commit_slots], [set_callback], [notify]).

   [self_set_old] is the code before the repair: the same, followed by [uninline_old] of the
   overwritten element — literally [arr_set] / [map_set] given the slot's own element
   (proofs/NestedSelfSet_proofs.v: self_set_old_arr_set, self_set_old_map_set).

   The history language [reach2] adds [HSelfSet par loc] on top of [reach'] of NestedFresh.v
   (loc: the argument of Get for the slot = index for arrays, key identity for maps). *)
From Coq Require Import ZArith NArith List Bool.
From AtreeModel Require Import Nested NestedErr NestedFresh.
Import ListNotations.
Local Open Scope N_scope.

(* the slot position addressed by [loc] (as in [get_child]) *)
Definition loc_index (c : cstate) (loc : N) : option nat :=
  match c_kind c with KArr => Some (N.to_nat loc) | KMap => find_key (c_slots c) loc end.

(* forest, "no error", the element handed back to the caller *)
Definition self_set_full (n : nat) (g : ncfg) (f : forest) (p loc : N) : forest * bool * option elem :=
  match fget f p with
  | None => (f, false, None)
  | Some c =>
    match loc_index c loc with
    | None => (f, false, None)
    | Some i =>
      match nth_error (c_slots c) i with
      | None => (f, false, None)
      | Some s =>
        match s_val s with
        | NScalar _ _ => (f, false, None)            (* not a self-set: an ordinary OArrSet / OMapSet of a scalar *)
        | NChild v w => cset_body (notify n g) g f p i (NChild v w)
        end
      end
    end
  end.

Definition self_set (n : nat) (g : ncfg) (f : forest) (p loc : N) : forest * bool :=
  let '(f', ok, _) := self_set_full n g f p loc in (f', ok).

(* the code before the repair: the overwritten element is uninlined *)
Definition self_set_old (n : nat) (g : ncfg) (f : forest) (p loc : N) : forest * bool :=
  let '(f1, ok, old) := self_set_full n g f p loc in
  match old with
  | Some o => (uninline_old f1 o, ok)
  | None => (f1, false)
  end.

(* ---------- the history language ---------- *)
Inductive hop2 :=
| H2 (h : hop)
| HSelfSet (par loc : N).

Definition hstep2 (n : nat) (g : ncfg) (f : forest) (h : hop2) : forest * bool :=
  match h with
  | H2 h' => hstep n g f h'
  | HSelfSet p loc => self_set n g f p loc
  end.

(* a valid request: the slot exists and holds a child container *)
Definition selfset_ok (f : forest) (p loc : N) : Prop :=
  exists c i s v w, fget f p = Some c /\ loc_index c loc = Some i /\ nth_error (c_slots c) i = Some s /\ s_val s = NChild v w.

Definition hop2_ok (n : nat) (f : forest) (h : hop2) : Prop :=
  match h with
  | H2 h' => hop_ok n f h'
  | HSelfSet p loc => selfset_ok f p loc
  end.

Inductive reach2 (n : nat) (g : ncfg) : forest -> Prop :=
| reach2_empty : reach2 n g empty_forest
| reach2_step f h f' : reach2 n g f -> hop2_ok n f h -> hstep2 n g f h = (f', true) -> reach2 n g f'.

Fixpoint hrun2 (n : nat) (g : ncfg) (f : forest) (hs : list hop2) : forest * bool :=
  match hs with
  | [] => (f, true)
  | h :: r => let '(f1, ok) := hstep2 n g f h in if ok then hrun2 n g f1 r else (f1, false)
  end.

(* what a self-set may change: store entries are added to the write log; every container keeps its
   kind, elements, inline flag, cached size, index map (as a list) and callback — only a stale
   callback of a container that sits in no slot is dropped (the first notification of an
   outermost container unsets a callback whose lookup fails: array.go / map.go
   notifyParentIfNeeded "found = false") *)
Definition selfset_equiv (f f' : forest) : Prop :=
  (exists l, f_log f' = l ++ f_log f /\ forall e, In e l -> snd e = true) /\
  forall x, match fget f x, fget f' x with
            | Some c, Some c' => cs_equiv f x c c' /\ c_idx c' = c_idx c
            | None, None => True
            | _, _ => False
            end.
