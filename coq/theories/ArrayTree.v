(* ArrayTree.v — executable model of atree's Array (array.go, array_data_slab.go,
   array_metadata_slab.go, slice_utils.go).

   A tree node carries every cached field of the Go slab: its header (slab index, cached byte
   size, cached element count), the sibling link of data slabs, and — for index (metadata)
   slabs — the parent's COPY of every child header and the cumulative child counts.  These are
   updated incrementally exactly as the Go code does, never recomputed, so that "index data
   agrees with the data it summarises" is a theorem, not true by construction.

   Every mutating operation threads the slab-index allocator (Go: GenerateSlabID on the array's
   address) and returns the exact sequence of storeSlab / Storage.Remove calls it issues.

   uint32 arithmetic is modelled with unbounded N and truncated subtraction; every subtraction
   in the Go code is of the form (cached size) - (part of it) and is non-negative under the
   invariant [awf] (ArrayTree_proofs), where Go's wrap-around and N's truncation coincide. *)
From Coq Require Import NArith ZArith List Bool.
From AtreeGen Require Import Consts.
From AtreeModel Require Import Settings.
Import ListNotations.
Local Open Scope N_scope.

(** * Data *)

(* an element as the array sees it: identity of the value, the byte size its storable reports,
   and, for values stored in their own StorableSlab, that slab's index (0 = stored inline) *)
Record elem : Type := mkelem { e_id : Z; e_sz : N; e_ext : N }.

Record hdr : Type := mkhdr { h_id : N; h_size : N; h_count : N }.

Inductive anode : Type :=
| AD (h : hdr) (next : N) (es : list elem)                          (* ArrayDataSlab *)
| AM (h : hdr) (hs : list hdr) (sums : list N) (cs : list anode).   (* ArrayMetaDataSlab *)

Inductive wr : Type := WStore (id : N) | WRemove (id : N).
Definition wlog : Type := list wr.

Inductive aerr : Type :=
| EIndexOOB            (* IndexOutOfBoundsError: UserError *)
| ESliceOOB            (* SliceOutOfBoundsError: UserError *)
| EInvalidSlice        (* InvalidSliceIndexError: UserError *)
| EMaxCount            (* ArrayElementCannotExceedMaxElementCountError *)
| ESplit               (* SlabSplitError: fewer than two elements/children *)
| ESlabNotFound        (* child header without child: cannot happen in a well-formed tree *)
| EPanic.              (* a Go runtime panic (nil sibling, kind mismatch, index out of range) *)

Inductive res (A : Type) : Type := Ok (a : A) | Err (e : aerr).
Arguments Ok {A} a.
Arguments Err {A} e.

Definition hdr_of (n : anode) : hdr := match n with AD h _ _ => h | AM h _ _ _ => h end.
Definition is_data (n : anode) : bool := match n with AD _ _ _ => true | AM _ _ _ _ => false end.

(** * List helpers *)

Fixpoint sum_sz (es : list elem) : N := match es with [] => 0 | e :: r => e_sz e + sum_sz r end.
Fixpoint sum_cnt (hs : list hdr) : N := match hs with [] => 0 | h :: r => h_count h + sum_cnt r end.

Fixpoint replace_nth {A} (k : nat) (x : A) (l : list A) : list A :=
  match l, k with
  | [], _ => []
  | _ :: r, O => x :: r
  | a :: r, S k' => a :: replace_nth k' x r
  end.
Fixpoint insert_nth {A} (k : nat) (x : A) (l : list A) : list A :=
  match k, l with
  | O, _ => x :: l
  | S k', a :: r => a :: insert_nth k' x r
  | S _, [] => [x]
  end.
Fixpoint remove_nth {A} (k : nat) (l : list A) : list A :=
  match l, k with
  | [], _ => []
  | _ :: r, O => r
  | a :: r, S k' => a :: remove_nth k' r
  end.

(* element at an N index; the bound is tested on N so that a huge index is never converted to nat *)
Definition nth_N {A} (l : list A) (i : N) : option A :=
  if N.of_nat (length l) <=? i then None else nth_error l (N.to_nat i).

(* running sums of child counts starting from [base] *)
Fixpoint psums (base : N) (hs : list hdr) : list N :=
  match hs with [] => [] | h :: r => (base + h_count h) :: psums (base + h_count h) r end.

(* the recursion combinator: apply f to the k-th child (lets the guard checker see that the
   recursive call is on a sub-term) *)
Definition on_kth {A B} (f : A -> B) : list A -> nat -> option B :=
  fix go (l : list A) (k : nat) : option B :=
    match l, k with
    | [], _ => None
    | a :: _, O => Some (f a)
    | _ :: r, S k' => go r k'
    end.

(** * Routing: ArrayMetaDataSlab.childSlabIndexInfo *)

(* linear scan: first k with index < sums[k]; if none, Go leaves childHeaderIndex = 0 *)
Fixpoint scan (sums : list N) (i : N) (k : nat) : option nat :=
  match sums with
  | [] => None
  | s :: r => if i <? s then Some k else scan r i (S k)
  end.

(* binary search exactly as written (with the early exit on equality); fuel = length *)
Fixpoint bsearch (fuel : nat) (sums : list N) (i : N) (low high : nat) : nat :=
  match fuel with
  | O => low
  | S f =>
    if Nat.ltb low high then
      let mid := Nat.div2 (low + high) in
      let m := nth mid sums 0 in
      if m <? i then bsearch f sums i (S mid) high
      else if i <? m then bsearch f sums i low mid
      else S mid
    else low
  end.

Definition route_index (sums : list N) (i : N) : nat :=
  if Nat.ltb (length sums) (N.to_nat c_linearScanThreshold)
  then match scan sums i 0 with Some k => k | None => O end
  else bsearch (S (length sums)) sums i 0 (length sums).

(* (childHeaderIndex, adjustedIndex) *)
Definition route (hs : list hdr) (sums : list N) (i : N) : option (nat * N) :=
  let k := route_index sums i in
  match nth_error hs k, nth_error sums k with
  | Some h, Some s => Some (k, i + h_count h - s)
  | _, _ => None
  end.

(** * Data slab: size-driven split / lend / borrow (array_data_slab.go) *)

Fixpoint split_point (es : list elem) (dataSize mid leftSize : N) (i : nat) : nat * N :=
  match es with
  | [] => (0%nat, leftSize)
  | e :: r =>
    let z := e_sz e in
    if mid <=? leftSize + z then
      if leftSize <=? dataSize - leftSize - z then (S i, leftSize + z) else (i, leftSize)
    else split_point r dataSize mid (leftSize + z) (S i)
  end.

(* LendToRight loop over the left slab's elements from the END; returns (leftCount, leftSize) *)
Fixpoint lend_loop (res : list elem) (size mid m : N) (leftCount : nat) (leftSize : N) : nat * N :=
  match res with
  | [] => (leftCount, leftSize)
  | e :: r =>
    let z := e_sz e in
    if (leftSize - z <? mid) && (m <=? size - leftSize) then (leftCount, leftSize)
    else lend_loop r size mid m (pred leftCount) (leftSize - z)
  end.

(* BorrowFromRight loop over the right slab's elements from the FRONT *)
Fixpoint borrow_loop (es : list elem) (size mid m : N) (leftCount : nat) (leftSize : N) : nat * N :=
  match es with
  | [] => (leftCount, leftSize)
  | e :: r =>
    let z := e_sz e in
    if mid <? leftSize + z then
      if m <=? size - leftSize - z then (S leftCount, leftSize + z) else (leftCount, leftSize)
    else borrow_loop r size mid m (S leftCount) (leftSize + z)
  end.

(* CanLendToLeft walks from the front, CanLendToRight from the end; [es] is given in walk order *)
Fixpoint can_lend_loop (es : list elem) (hsize m need lend : N) : bool :=
  match es with
  | [] => false
  | e :: r =>
    let lend' := lend + e_sz e in
    if hsize - lend' <? m then false
    else if need <=? lend' then true
    else can_lend_loop r hsize m need lend'
  end.
Definition d_can_lend (es_walk : list elem) (hsize m need : N) : bool :=
  if Nat.ltb (length es_walk) 2 then false
  else if hsize - need <? m then false
  else can_lend_loop es_walk hsize m need 0.

(** * Node-level slab operations (dispatch on the slab kind) *)

Definition P : N := c_arrayDataSlabPrefixSize.
Definition PM : N := c_arrayMetaDataSlabPrefixSize.
Definition HS : N := c_arraySlabHeaderSize.

Definition n_is_full (c : cfg) (n : anode) : bool := cmax c <? h_size (hdr_of n).
Definition n_underflow (c : cfg) (n : anode) : option N :=
  if h_size (hdr_of n) <? cmin c then Some (cmin c - h_size (hdr_of n)) else None.

Definition ceil_div (a b : N) : N := (a + b - 1) / b.

Definition n_can_lend_to_left (c : cfg) (n : anode) (need : N) : bool :=
  match n with
  | AD h _ es => d_can_lend es (h_size h) (cmin c) need
  | AM h _ _ _ =>
    let k := ceil_div need HS in
    if HS * k <=? h_size h then cmin c <? h_size h - HS * k else false
  end.
Definition n_can_lend_to_right (c : cfg) (n : anode) (need : N) : bool :=
  match n with
  | AD h _ es => d_can_lend (rev es) (h_size h) (cmin c) need
  | AM h _ _ _ =>
    let k := ceil_div need HS in
    if HS * k <=? h_size h then cmin c <? h_size h - HS * k else false
  end.

(* Split: the receiver keeps its identity, the right half gets [newid] *)
Definition n_split (n : anode) (newid : N) : res (anode * anode) :=
  match n with
  | AD h next es =>
    if Nat.ltb (length es) 2 then Err ESplit
    else
      let dataSize := h_size h - P in
      let '(lc, ls) := split_point es dataSize ((dataSize + 1) / 2) 0 0 in
      Ok (AD (mkhdr (h_id h) (P + ls) (N.of_nat lc)) newid (firstn lc es),
          AD (mkhdr newid (P + dataSize - ls) (N.of_nat (length es - lc))) next (skipn lc es))
  | AM h hs sums cs =>
    if Nat.ltb (length hs) 2 then Err ESplit
    else
      let lc := Nat.div2 (S (length hs)) in               (* ceil(n/2) *)
      let leftSize := N.of_nat lc * HS in
      let leftCount := sum_cnt (firstn lc hs) in
      Ok (AM (mkhdr (h_id h) (PM + leftSize) leftCount) (firstn lc hs) (firstn lc sums) (firstn lc cs),
          AM (mkhdr newid (h_size h - leftSize) (h_count h - leftCount))
             (skipn lc hs) (psums 0 (skipn lc hs)) (skipn lc cs))
  end.

Definition last_or0 (l : list N) : N := last l 0.

Definition n_merge (l r : anode) : res anode :=
  match l, r with
  | AD h _ es, AD h2 next2 es2 =>
    Ok (AD (mkhdr (h_id h) (h_size h + h_size h2 - P) (h_count h + h_count h2)) next2 (es ++ es2))
  | AM h hs sums cs, AM h2 hs2 _ cs2 =>
    Ok (AM (mkhdr (h_id h) (h_size h + (h_size h2 - PM)) (h_count h + h_count h2))
           (hs ++ hs2) (sums ++ psums (last_or0 sums) hs2) (cs ++ cs2))
  | _, _ => Err EPanic
  end.

Definition n_lend_to_right (c : cfg) (l r : anode) : res (anode * anode) :=
  match l, r with
  | AD h next es, AD h2 next2 es2 =>
    let count := h_count h + h_count h2 in
    let size := h_size h + h_size h2 in
    let '(lc, ls) := lend_loop (rev es) size ((size + 1) / 2) (cmin c) (N.to_nat (h_count h)) (h_size h) in
    Ok (AD (mkhdr (h_id h) ls (N.of_nat lc)) next (firstn lc es),
        AD (mkhdr (h_id h2) (size - ls) (count - N.of_nat lc)) next2 (skipn lc es ++ es2))
  | AM h hs sums cs, AM h2 hs2 sums2 cs2 =>
    let lc := Nat.div2 (length hs + length hs2) in
    let hsr := skipn lc hs ++ hs2 in
    Ok (AM (mkhdr (h_id h) (PM + N.of_nat lc * HS) (sum_cnt (firstn lc hs))) (firstn lc hs) (firstn lc sums) (firstn lc cs),
        AM (mkhdr (h_id h2) (PM + N.of_nat (length hsr) * HS) (sum_cnt hsr)) hsr (psums 0 hsr) (skipn lc cs ++ cs2))
  | _, _ => Err EPanic
  end.

Definition n_borrow_from_right (c : cfg) (l r : anode) : res (anode * anode) :=
  match l, r with
  | AD h next es, AD h2 next2 es2 =>
    let count := h_count h + h_count h2 in
    let size := h_size h + h_size h2 in
    let '(lc, ls) := borrow_loop es2 size ((size + 1) / 2) (cmin c) (N.to_nat (h_count h)) (h_size h) in
    let mv := (lc - N.to_nat (h_count h))%nat in
    Ok (AD (mkhdr (h_id h) ls (N.of_nat lc)) next (es ++ firstn mv es2),
        AD (mkhdr (h_id h2) (size - ls) (count - N.of_nat lc)) next2 (skipn mv es2))
  | AM h hs sums cs, AM h2 hs2 sums2 cs2 =>
    let lc := Nat.div2 (length hs + length hs2) in
    let mv := (lc - length hs)%nat in
    let hsl := hs ++ firstn mv hs2 in
    let hsr := skipn mv hs2 in
    Ok (AM (mkhdr (h_id h) (PM + N.of_nat lc * HS) (h_count h + sum_cnt (firstn mv hs2)))
           hsl (sums ++ psums (h_count h) (firstn mv hs2)) (cs ++ firstn mv cs2),
        AM (mkhdr (h_id h2) (PM + N.of_nat (length hsr) * HS) (sum_cnt hsr)) hsr (psums 0 hsr) (skipn mv cs2))
  | _, _ => Err EPanic
  end.

(** * Index slab: child split, merge-or-rebalance (array_metadata_slab.go 347-618) *)

Definition set_id (n : anode) (id : N) : anode :=
  match n with
  | AD h nx es => AD (mkhdr id (h_size h) (h_count h)) nx es
  | AM h hs sums cs => AM (mkhdr id (h_size h) (h_count h)) hs sums cs
  end.

(* SplitChildSlab: child k (already replaced by its updated version in cs/hs) is split *)
Definition split_child (h : hdr) (hs : list hdr) (sums : list N) (cs : list anode)
           (k : nat) (child : anode) (alloc : N) : res (anode * N * wlog) :=
  let base := nth k sums 0 - h_count (hdr_of child) in
  match n_split child (alloc + 1) with
  | Err e => Err e
  | Ok (l, r) =>
    let lsum := base + h_count (hdr_of l) in
    let rsum := lsum + h_count (hdr_of r) in
    Ok (AM (mkhdr (h_id h) (h_size h + HS) (h_count h))
           (insert_nth (S k) (hdr_of r) (replace_nth k (hdr_of l) hs))
           (insert_nth (S k) rsum (replace_nth k lsum sums))
           (insert_nth (S k) r (replace_nth k l cs)),
        alloc + 1,
        [WStore (h_id (hdr_of l)); WStore (h_id (hdr_of r)); WStore (h_id h)])
  end.

Definition rebalance_children (c : cfg) (h : hdr) (hs : list hdr) (sums : list N) (cs : list anode)
           (li : nat) (l r : anode) (borrow : bool) : res (anode * wlog) :=
  let base := nth li sums 0 - h_count (hdr_of l) in
  match (if borrow then n_borrow_from_right c l r else n_lend_to_right c l r) with
  | Err e => Err e
  | Ok (l', r') =>
    Ok (AM h (replace_nth (S li) (hdr_of r') (replace_nth li (hdr_of l') hs))
           (replace_nth li (base + h_count (hdr_of l')) sums)
           (replace_nth (S li) r' (replace_nth li l' cs)),
        [WStore (h_id (hdr_of l')); WStore (h_id (hdr_of r')); WStore (h_id h)])
  end.

Definition merge_children (h : hdr) (hs : list hdr) (sums : list N) (cs : list anode)
           (li : nat) (l r : anode) : res (anode * wlog) :=
  match n_merge l r with
  | Err e => Err e
  | Ok m =>
    Ok (AM (mkhdr (h_id h) (h_size h - HS) (h_count h))
           (remove_nth (S li) (replace_nth li (hdr_of m) hs))
           (remove_nth (S li) (replace_nth li (nth (S li) sums 0) sums))
           (remove_nth (S li) (replace_nth li m cs)),
        [WStore (h_id (hdr_of m)); WStore (h_id h); WRemove (h_id (hdr_of r))])
  end.

(* MergeOrRebalanceChildSlab: the decision table *)
Definition merge_or_rebalance (c : cfg) (h : hdr) (hs : list hdr) (sums : list N) (cs : list anode)
           (k : nat) (child : anode) (need : N) : res (anode * wlog) :=
  let lsib := match k with O => None | S k' => nth_error cs k' end in
  let rsib := nth_error cs (S k) in
  let lcan := match lsib with Some s => n_can_lend_to_right c s need | None => false end in
  let rcan := match rsib with Some s => n_can_lend_to_left c s need | None => false end in
  if lcan || rcan then
    match lsib, rsib with
    | Some ls, Some rs =>
      if negb lcan then rebalance_children c h hs sums cs k child rs true
      else if negb rcan then rebalance_children c h hs sums cs (pred k) ls child false
      else if h_size (hdr_of rs) <? h_size (hdr_of ls) then rebalance_children c h hs sums cs (pred k) ls child false
      else rebalance_children c h hs sums cs k child rs true
    | Some ls, None => rebalance_children c h hs sums cs (pred k) ls child false
    | None, Some rs => rebalance_children c h hs sums cs k child rs true
    | None, None => Err EPanic
    end
  else
    match lsib, rsib with
    | None, Some rs => merge_children h hs sums cs k child rs
    | Some ls, None => merge_children h hs sums cs (pred k) ls child
    | Some ls, Some rs =>
      if h_size (hdr_of ls) <? h_size (hdr_of rs) then merge_children h hs sums cs (pred k) ls child
      else merge_children h hs sums cs k child rs
    | None, None => Err EPanic        (* the "panic" cell: a non-root index slab with a single child *)
    end.

(** * Recursive operations on a subtree *)

Fixpoint n_get (n : anode) (i : N) : res elem :=
  match n with
  | AD _ _ es => match nth_N es i with Some e => Ok e | None => Err EIndexOOB end
  | AM h hs sums cs =>
    if h_count h <=? i then Err EIndexOOB
    else match route hs sums i with
         | None => Err EPanic
         | Some (k, j) =>
           match on_kth (fun ch => n_get ch j) cs k with
           | Some r => r
           | None => Err ESlabNotFound
           end
         end
  end.

(* what a leaf does to a new value: large values have been moved to their own StorableSlab by the
   value's Storable() (storable_slab.go:36-77), which allocates a slab index and stores that slab *)
Definition externalise (e : elem) (alloc : N) : elem * N * wlog :=
  if e_ext e =? 0 then (e, alloc, [])
  else (mkelem (e_id e) (e_sz e) (alloc + 1), alloc + 1, [WStore (alloc + 1)]).

(* n_set pfx n i e alloc = (n', old element, alloc', log); pfx = prefix size of n if it is a data slab *)
Fixpoint n_set (c : cfg) (pfx : N) (n : anode) (i : N) (e : elem) (alloc : N)
  : res (anode * elem * N * wlog) :=
  match n with
  | AD h next es =>
    match nth_N es i with
    | None => Err EIndexOOB
    | Some old =>
      let '(e', alloc', lg) := externalise e alloc in
      let es' := replace_nth (N.to_nat i) e' es in
      Ok (AD (mkhdr (h_id h) (pfx + sum_sz es') (h_count h)) next es', old, alloc', lg ++ [WStore (h_id h)])
    end
  | AM h hs sums cs =>
    if h_count h <=? i then Err EIndexOOB
    else match route hs sums i with
         | None => Err EPanic
         | Some (k, j) =>
           match on_kth (fun ch => n_set c P ch j e alloc) cs k with
           | None => Err ESlabNotFound
           | Some (Err x) => Err x
           | Some (Ok (ch', old, alloc', lg)) =>
             let hs' := replace_nth k (hdr_of ch') hs in
             let cs' := replace_nth k ch' cs in
             if n_is_full c ch' then
               match split_child h hs' sums cs' k ch' alloc' with
               | Err x => Err x
               | Ok (n', alloc'', lg') => Ok (n', old, alloc'', lg ++ lg')
               end
             else match n_underflow c ch' with
                  | Some need =>
                    match merge_or_rebalance c h hs' sums cs' k ch' need with
                    | Err x => Err x
                    | Ok (n', lg') => Ok (n', old, alloc', lg ++ lg')
                    end
                  | None => Ok (AM h hs' sums cs', old, alloc', lg ++ [WStore (h_id h)])
                  end
           end
         end
  end.

Definition incr_from (k : nat) (sums : list N) : list N :=
  firstn k sums ++ map (fun s => s + 1) (skipn k sums).
Definition decr_from (k : nat) (sums : list N) : list N :=
  firstn k sums ++ map (fun s => s - 1) (skipn k sums).

Fixpoint n_insert (c : cfg) (n : anode) (i : N) (e : elem) (alloc : N)
  : res (anode * N * wlog) :=
  match n with
  | AD h next es =>
    if N.of_nat (length es) <? i then Err EIndexOOB
    else
      let '(e', alloc', lg) := externalise e alloc in
      Ok (AD (mkhdr (h_id h) (h_size h + e_sz e') (h_count h + 1)) next (insert_nth (N.to_nat i) e' es),
          alloc', lg ++ [WStore (h_id h)])
  | AM h hs sums cs =>
    if h_count h <? i then Err EIndexOOB
    else
      let target :=
        if i =? h_count h then
          match length hs with
          | O => None
          | S k => match nth_error hs k with Some hh => Some (k, h_count hh) | None => None end
          end
        else route hs sums i in
      match target with
      | None => Err EPanic
      | Some (k, j) =>
        match on_kth (fun ch => n_insert c ch j e alloc) cs k with
        | None => Err ESlabNotFound
        | Some (Err x) => Err x
        | Some (Ok (ch', alloc', lg)) =>
          let h' := mkhdr (h_id h) (h_size h) (h_count h + 1) in
          let sums' := incr_from k sums in
          let hs' := replace_nth k (hdr_of ch') hs in
          let cs' := replace_nth k ch' cs in
          if n_is_full c ch' then
            match split_child h' hs' sums' cs' k ch' alloc' with
            | Err x => Err x
            | Ok (n', alloc'', lg') => Ok (n', alloc'', lg ++ lg')
            end
          else Ok (AM h' hs' sums' cs', alloc', lg ++ [WStore (h_id h)])
        end
      end
  end.

Fixpoint n_remove (c : cfg) (n : anode) (i : N) : res (anode * elem * wlog) :=
  match n with
  | AD h next es =>
    match nth_N es i with
    | None => Err EIndexOOB
    | Some old =>
      Ok (AD (mkhdr (h_id h) (h_size h - e_sz old) (h_count h - 1)) next (remove_nth (N.to_nat i) es),
          old, [WStore (h_id h)])
    end
  | AM h hs sums cs =>
    if h_count h <=? i then Err EIndexOOB
    else match route hs sums i with
         | None => Err EPanic
         | Some (k, j) =>
           match on_kth (fun ch => n_remove c ch j) cs k with
           | None => Err ESlabNotFound
           | Some (Err x) => Err x
           | Some (Ok (ch', old, lg)) =>
             let h' := mkhdr (h_id h) (h_size h) (h_count h - 1) in
             let sums' := decr_from k sums in
             let hs' := replace_nth k (hdr_of ch') hs in
             let cs' := replace_nth k ch' cs in
             match n_underflow c ch' with
             | Some need =>
               match merge_or_rebalance c h' hs' sums' cs' k ch' need with
               | Err x => Err x
               | Ok (n', lg') => Ok (n', old, lg ++ lg' ++ [WStore (h_id h)])
               end
             | None => Ok (AM h' hs' sums' cs', old, lg ++ [WStore (h_id h)])
             end
           end
         end
  end.

Fixpoint to_list (n : anode) : list elem :=
  match n with
  | AD _ _ es => es
  | AM _ _ _ cs => flat_map to_list cs
  end.

(* PopIterate: elements are handed to the callback last to first; every non-root slab is removed,
   children before... each child is emptied, then removed, from the last child to the first *)
Fixpoint n_pop_log (n : anode) : wlog :=
  match n with
  | AD _ _ _ => []
  | AM _ _ _ cs => concat (rev (map (fun ch => n_pop_log ch ++ [WRemove (h_id (hdr_of ch))]) cs))
  end.

(** * The array *)

Record arr : Type := mkarr {
  a_root : anode;
  a_alloc : N;        (* last slab index handed out for the array's address *)
  a_type : N          (* type info *)
}.

Definition RP : N := c_arrayRootDataSlabPrefixSize.

Definition arr_init (rootid : N) (ti : N) : arr * wlog :=
  (mkarr (AD (mkhdr rootid RP 0) 0 []) rootid ti, [WStore rootid]).

Definition root_pfx : N := RP.
Definition a_count (a : arr) : N := h_count (hdr_of (a_root a)).
Definition a_rootid (a : arr) : N := h_id (hdr_of (a_root a)).

(* Array.splitRoot *)
Definition split_root (a : arr) : res arr * wlog :=
  let rootid := a_rootid a in
  let old :=
    match a_root a with
    | AD h nx es => AD (mkhdr (h_id h) (h_size h - RP + P) (h_count h)) nx es
    | n => n
    end in
  let id1 := a_alloc a + 1 in
  match n_split (set_id old id1) (id1 + 1) with
  | Err e => (Err e, [])
  | Ok (l, r) =>
    let lc := h_count (hdr_of l) in
    let rc := h_count (hdr_of r) in
    (Ok (mkarr (AM (mkhdr rootid (PM + HS * 2) (lc + rc)) [hdr_of l; hdr_of r] [lc; lc + rc] [l; r])
               (id1 + 1) (a_type a)),
     [WStore (h_id (hdr_of l)); WStore (h_id (hdr_of r)); WStore rootid])
  end.

(* Array.promoteChildAsNewRoot, when the root index slab is left with a single child *)
Definition promote_if_single (a : arr) : arr * wlog :=
  match a_root a with
  | AM h [_] _ [ch] =>
    let rootid := h_id h in
    let ch' :=
      match ch with
      | AD hh nx es => AD (mkhdr rootid (h_size hh - P + RP) (h_count hh)) nx es
      | AM hh hs sums cs => AM (mkhdr rootid (h_size hh) (h_count hh)) hs sums cs
      end in
    (mkarr ch' (a_alloc a) (a_type a), [WStore rootid; WRemove (h_id (hdr_of ch))])
  | _ => (a, [])
  end.

Definition max_count : N := c_maxArrayElementCount.

Inductive aop : Type :=
| OGet (i : N)
| OSet (i : N) (e : elem)
| OInsert (i : N) (e : elem)
| OAppend (e : elem)
| ORemove (i : N)
| OPop
| OCount
| OType
| OSetType (t : N)
| OIterate
| ORange (a b : N).

Inductive aout : Type :=
| RElem (e : elem)            (* Get / previous element of Set / removed element *)
| RUnit
| RCount (n : N)
| RType (t : N)
| RList (l : list elem)       (* iteration / pop order *)
| RErr (e : aerr).

Definition a_get (a : arr) (i : N) : aout :=
  match n_get (a_root a) i with Ok e => RElem e | Err x => RErr x end.

Definition a_set (c : cfg) (a : arr) (i : N) (e : elem) : arr * aout * wlog :=
  match n_set c RP (a_root a) i e (a_alloc a) with
  | Err x => (a, RErr x, [])
  | Ok (r', old, alloc', lg) =>
    let a1 := mkarr r' alloc' (a_type a) in
    let '(ra2, lg2) := if n_is_full c r' then split_root a1 else (Ok a1, []) in
    match ra2 with
    | Err x => (a, RErr x, [])
    | Ok a2 =>
      let '(a3, lg3) := promote_if_single a2 in
      (a3, RElem old, lg ++ lg2 ++ lg3)
    end
  end.

Definition a_insert (c : cfg) (a : arr) (i : N) (e : elem) : arr * aout * wlog :=
  if a_count a =? max_count then (a, RErr EMaxCount, [])
  else
    match n_insert c (a_root a) i e (a_alloc a) with
    | Err x => (a, RErr x, [])
    | Ok (r', alloc', lg) =>
      let a1 := mkarr r' alloc' (a_type a) in
      let '(ra2, lg2) := if n_is_full c r' then split_root a1 else (Ok a1, []) in
      match ra2 with
      | Err x => (a, RErr x, [])
      | Ok a2 => (a2, RUnit, lg ++ lg2)
      end
    end.

Definition a_remove (c : cfg) (a : arr) (i : N) : arr * aout * wlog :=
  match n_remove c (a_root a) i with
  | Err x => (a, RErr x, [])
  | Ok (r', old, lg) =>
    let '(a2, lg2) := promote_if_single (mkarr r' (a_alloc a) (a_type a)) in
    (a2, RElem old, lg ++ lg2)
  end.

Definition a_pop (a : arr) : arr * aout * wlog :=
  (mkarr (AD (mkhdr (a_rootid a) RP 0) 0 []) (a_alloc a) (a_type a),
   RList (rev (to_list (a_root a))),
   n_pop_log (a_root a) ++ [WStore (a_rootid a)]).

(* range validation of Array.RangeIterator (array.go 1035-1045, 1088-1096) *)
Definition a_range (a : arr) (s e : N) : aout :=
  let n := a_count a in
  if n <? s then RErr ESliceOOB
  else if n <? e then RErr ESliceOOB
  else if e <? s then RErr EInvalidSlice
  else RList (firstn (N.to_nat (e - s)) (skipn (N.to_nat s) (to_list (a_root a)))).

Definition a_step (c : cfg) (a : arr) (o : aop) : arr * aout * wlog :=
  match o with
  | OGet i => (a, a_get a i, [])
  | OSet i e => a_set c a i e
  | OInsert i e => a_insert c a i e
  | OAppend e => a_insert c a (a_count a) e
  | ORemove i => a_remove c a i
  | OPop => a_pop a
  | OCount => (a, RCount (a_count a), [])
  | OType => (a, RType (a_type a), [])
  | OSetType t => (mkarr (a_root a) (a_alloc a) t, RUnit, [WStore (a_rootid a)])
  | OIterate => (a, RList (to_list (a_root a)), [])
  | ORange s e => (a, a_range a s e, [])
  end.

Fixpoint a_run (c : cfg) (a : arr) (ops : list aop) : arr * list aout :=
  match ops with
  | [] => (a, [])
  | o :: r =>
    let '(a1, x, _) := a_step c a o in
    let '(a2, xs) := a_run c a1 r in (a2, x :: xs)
  end.

(** * Specification: a plain sequence *)

Record seqst : Type := mkseq { s_elems : list elem; s_type : N }.

Definition seq_step (s : seqst) (o : aop) : seqst * aout :=
  let l := s_elems s in
  let n := N.of_nat (length l) in
  match o with
  | OGet i => (s, match nth_N l i with Some e => RElem e | None => RErr EIndexOOB end)
  | OSet i e =>
    match nth_N l i with
    | Some old => (mkseq (replace_nth (N.to_nat i) e l) (s_type s), RElem old)
    | None => (s, RErr EIndexOOB)
    end
  | OInsert i e =>
    if n =? max_count then (s, RErr EMaxCount)
    else if n <? i then (s, RErr EIndexOOB)
    else (mkseq (insert_nth (N.to_nat i) e l) (s_type s), RUnit)
  | OAppend e =>
    if n =? max_count then (s, RErr EMaxCount)
    else (mkseq (l ++ [e]) (s_type s), RUnit)
  | ORemove i =>
    match nth_N l i with
    | Some old => (mkseq (remove_nth (N.to_nat i) l) (s_type s), RElem old)
    | None => (s, RErr EIndexOOB)
    end
  | OPop => (mkseq [] (s_type s), RList (rev l))
  | OCount => (s, RCount n)
  | OType => (s, RType (s_type s))
  | OSetType t => (mkseq l t, RUnit)
  | OIterate => (s, RList l)
  | ORange a b =>
    (s, if n <? a then RErr ESliceOOB else if n <? b then RErr ESliceOOB else if b <? a then RErr EInvalidSlice
        else RList (firstn (N.to_nat (b - a)) (skipn (N.to_nat a) l)))
  end.

Fixpoint seq_run (s : seqst) (ops : list aop) : seqst * list aout :=
  match ops with
  | [] => (s, [])
  | o :: r => let '(s1, x) := seq_step s o in let '(s2, xs) := seq_run s1 r in (s2, x :: xs)
  end.
