(* NestedErr.v — C18 for nested containers: vocabulary for "rejected request" over the forest
   model Nested.v.

   A request is REJECTED when the operation answers with an error ([step] returns [false]).
   What Go does (array.go / array_data_slab.go / map.go): the index / key / kind test is the
   first thing the root slab's Set / Insert / Remove does — before value.Storable() (which could
   inline the new child and Remove its slab), before any element is written, before storeSlab,
   before notifyParentIfNeeded and before setCallbackWithChild; Array.Set / Array.Remove return
   before uninlineStorableIfNeeded and before touching mutableElementIndex.  The model has the same
   order: [cset_body] / [arr_insert] / [arr_remove] / [map_remove] / [get_child] test first.

   [req_valid f o]   the argument test as a boolean (container exists, has the right kind, index in
                     range / key present) — exactly the tests of [op_ok] that are not discipline.
   [req_pre n f o]   the caller's discipline (DESIGN 2.5), independent of index / key validity: a
                     new container identifier is unused; a container given as a value exists, is
                     attached nowhere and keeps the nesting acyclic and below the fuel.
   [run_all]         a history that continues after rejected requests (as a caller does);
   [keep_accepted]   the same history without its rejected requests.

   Not modelled in Nested.v (hence not covered here): OrderedMap.Set refused by the collision
   limit (covered at element level by C18_map_no_trace), errors of caller-supplied components. *)
From Coq Require Import ZArith NArith List Bool.
From AtreeModel Require Import Nested.
Import ListNotations.
Local Open Scope N_scope.

Definition has_slot (c : cstate) (i : nat) : bool :=
  match nth_error (c_slots c) i with Some _ => true | None => false end.

Definition req_valid (f : forest) (o : nop) : bool :=
  match o with
  | ONew _ _ => true
  | OArrInsert p i _ =>
    match fget f p with Some c => is_arr c && Nat.leb i (length (c_slots c)) | None => false end
  | OArrSet p i _ | OArrRemove p i =>
    match fget f p with Some c => is_arr c && Nat.ltb i (length (c_slots c)) | None => false end
  | OPop p => match fget f p with Some _ => true | None => false end
  | OMapSet p _ _ _ => match fget f p with Some c => negb (is_arr c) | None => false end
  | OMapRemove p kid =>
    match fget f p with
    | Some c => negb (is_arr c) && match find_key (c_slots c) kid with Some _ => true | None => false end
    | None => false
    end
  | OGet p loc =>
    match fget f p with
    | Some c =>
      match (match c_kind c with KArr => Some (N.to_nat loc) | KMap => find_key (c_slots c) loc end) with
      | Some i => has_slot c i
      | None => false
      end
    | None => false
    end
  | OTouch v => match fget f v with Some _ => true | None => false end
  | OCommit => true
  | OFresh _ => true
  end.

Definition req_pre (n : nat) (f : forest) (o : nop) : Prop :=
  match o with
  | ONew v _ => fget f v = None
  | OArrInsert p _ e | OArrSet p _ e | OMapSet p _ _ e => elem_ok n f p e
  | OFresh _ => False
  | _ => True
  end.

(* histories that go on after an error *)
Fixpoint run_all (n : nat) (g : ncfg) (f : forest) (os : list nop) : forest * list bool :=
  match os with
  | [] => (f, [])
  | o :: r =>
    let '(f1, ok) := step n g f o in
    let '(f2, oks) := run_all n g f1 r in (f2, ok :: oks)
  end.

Fixpoint keep_accepted (n : nat) (g : ncfg) (f : forest) (os : list nop) : list nop :=
  match os with
  | [] => []
  | o :: r =>
    let '(f1, ok) := step n g f o in
    if ok then o :: keep_accepted n g f1 r else keep_accepted n g f1 r
  end.

(* every request of the history respects the discipline in the state it is issued in *)
Fixpoint hist_pre (n : nat) (g : ncfg) (f : forest) (os : list nop) : Prop :=
  match os with
  | [] => True
  | o :: r => req_pre n f o /\ hist_pre n g (fst (step n g f o)) r
  end.
