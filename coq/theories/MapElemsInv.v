(* MapElemsInv.v — the structural invariant of the element level (definitions only). *)
From Coq Require Import ZArith NArith List Bool Arith Sorted.
From AtreeGen Require Import Consts.
From AtreeModel Require Import MapElems.
Import ListNotations.
Local Open Scope N_scope.

Definition ssorted : list N -> Prop := StronglySorted N.lt.

Definition dkeys (d : dict) : list N := map (fun p : kv * kv => kid (fst p)) d.

Section inv.
  Variable dg : N -> nat -> N.
  Variable levels : nat.

  (* every key of d has digest h at level l *)
  Definition keys_dg (l : nat) (h : N) (d : dict) : Prop := Forall (fun p : kv * kv => dg (kid (fst p)) l = h) d.

  (* external groups exist at the first level only *)
  Definition loc_ok (l : nat) (loc : option N) : Prop := match loc with Some _ => l = 0%nat | None => True end.

  (* [ewf_e l h e]: e is a well-formed element stored under digest h in an hkeyElements of level l.
     [ewf_g l g]:   g is a well-formed elements list whose level is l.
     - hkeys strictly ascending, one element per hkey;
     - element i holds exactly keys whose level-l digest is hkeys[i] (recursively for all keys below);
     - a group's elements are one level deeper; list mode exactly at level = levels;
     - a group holds at least two keys (so it is never a group around one single element:
       see [group_not_collapsed] in the proofs);
     - cached sizes are the recomputed sizes;
     - key identities in a list-mode group are pairwise different. *)
  Inductive ewf_e : nat -> N -> melem -> Prop :=
  | wf_single l k v : ewf_e l (dg (kid k) l) (ESingle k v)
  | wf_group l h loc g :
      ewf_g (S l) g -> (2 <= length (to_list g))%nat -> keys_dg l h (to_list g) -> loc_ok l loc ->
      ewf_e l h (EGroup loc g)
  with ewf_g : nat -> melems -> Prop :=
  | wf_hkey l hks es sz :
      (l < levels)%nat -> ssorted hks -> sz = hk_recompute es -> Forall2 (ewf_e l) hks es ->
      ewf_g l (HKey l hks es sz)
  | wf_slist kvs sz :
      sz = sl_recompute kvs -> NoDup (dkeys kvs) ->
      ewf_g levels (SList levels kvs sz).

  Definition ewf (g : melems) : Prop := ewf_g 0 g.

  Definition mwf (s : mstate) : Prop :=
    ewf (m_root s) /\ m_count s = N.of_nat (length (to_list (m_root s))).

  (* the shape of the element stored under a first-level digest, as the code produces it *)
  Definition not_collapsed (g : melems) : Prop :=
    match g with
    | HKey _ _ [e] _ => is_group e = true
    | HKey _ _ [] _ => False
    | SList _ [] _ | SList _ [_] _ => False
    | _ => True
    end.

  (* first-level inline groups fit the inline-element limit (they are spilled otherwise) *)
  Variable max_inline_elem : N.
  Definition inl_ok_e (e : melem) : Prop :=
    match e with EGroup None g => c_inlineCollisionGroupPrefixSize + msize g <= max_inline_elem | _ => True end.
  Definition inl_ok (g : melems) : Prop :=
    match g with HKey _ _ es _ => Forall inl_ok_e es | SList _ _ _ => True end.
End inv.
