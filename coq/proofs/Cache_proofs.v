(* Cache_proofs.v — the read cache is transparent (C08, storage level): inserting commits,
   cache drops, preloads, cache-bypassing reads and re-creation after a commit at arbitrary
   positions of a client history changes no client-visible answer, and the ledger after a final
   commit is the same. *)
From stdpp Require Import gmap sorting.
From Coq Require Import ZArith NArith Lia.
From AtreeModel Require Import Storage StorageSpec.
From AtreeProofs Require Import Storage_proofs Commit_proofs StorageProps_proofs.
Local Open Scope N_scope.

(* operations a container performs on its storage *)
Definition is_client (o : sop) : bool :=
  match o with SStore _ _ | SRemove _ | SRetrieve _ => true | _ => false end.

(* operations a schedule may insert between client operations *)
Definition is_sched (s : st) (o : sop) : bool :=
  match o with
  | SFastCommit None | SDropCache | SBatchPreload _ | SRetrieveIgnoringDeltas _ _ | SRetrieveIfLoaded _ => true
  | SNondetCommit order None => order_ok s order true
  | SRecreate => bool_decide (deltas s = ∅)            (* reopen directly after a commit that left nothing pending *)
  | _ => false
  end.

(* two storages that show the same slab under every identifier *)
Definition same_view (s1 s2 : st) : Prop := coherent s1 /\ coherent s2 /\ forall i, view s1 i = view s2 i.

Lemma sched_preserves_view s o :
  coherent s -> is_sched s o = true ->
  coherent (fst (step s o)) /\ forall i, view (fst (step s o)) i = view s i.
Proof.
  intros Hs Ho.
  destruct o as [i v|i|i|i|i c|[k|]|order [k|]| | |ids| |a| |i]; cbn [is_sched] in Ho; try discriminate.
  - (* retrieve if loaded *) split; [exact Hs|reflexivity].
  - destruct (reads_pure s (SRetrieveIgnoringDeltas i c) Hs eq_refl) as [H1 _].
    pose proof (step_refines s (SRetrieveIgnoringDeltas i c) Hs) as H.
    destruct (step s (SRetrieveIgnoringDeltas i c)) as [s' m]. destruct (spec_step _ _). cbn [fst] in *. tauto.
  - destruct (commit_step_effect s (SFastCommit None) (0,0) Hs eq_refl) as (H1 & H2 & _). auto.
  - destruct (commit_step_effect s (SNondetCommit order None) (0,0) Hs eq_refl) as (H1 & H2 & _). auto.
  - destruct (reads_pure s SDropCache Hs eq_refl) as [H1 _].
    pose proof (step_refines s SDropCache Hs) as H.
    destruct (step s SDropCache) as [s' m]. destruct (spec_step _ _). cbn [fst] in *. tauto.
  - destruct (reads_pure s (SBatchPreload ids) Hs eq_refl) as [H1 _].
    pose proof (step_refines s (SBatchPreload ids) Hs) as H.
    destruct (step s (SBatchPreload ids)) as [s' m]. destruct (spec_step _ _). cbn [fst] in *. tauto.
  - apply bool_decide_eq_true in Ho. cbn [step fst]. split.
    + destruct Hs as [Hc Ht]. split; cbn; [intros j x; rewrite lookup_empty; discriminate|exact Ht].
    + intros i. unfold view; cbn. rewrite Ho, !lookup_empty.
      destruct Hs as [Hc _]. destruct (cache s !! i) eqn:E; [symmetry; apply Hc, E|reflexivity].
Qed.

Lemma client_step_same_view s1 s2 o :
  same_view s1 s2 -> is_client o = true ->
  snd (step s1 o) = snd (step s2 o) /\ same_view (fst (step s1 o)) (fst (step s2 o)).
Proof.
  intros (H1 & H2 & Hv) Ho.
  assert (Hco : forall s, coherent s -> coherent (fst (step s o))).
  { intros s Hs. pose proof (step_refines s o Hs) as H. destruct (step s o), (spec_step _ _). cbn [fst]. tauto. }
  destruct o as [i v|i|i| | | | | | | | | | |]; try discriminate.
  - split.
    + cbn [step]. destruct (is_undefined i); reflexivity.
    + split; [apply Hco, H1|]. split; [apply Hco, H2|]. intros j.
      destruct (is_undefined i) eqn:Hu.
      * cbn [step]. rewrite Hu. cbn [fst]. apply Hv.
      * rewrite !store_view by assumption. destruct (decide (j = i)); [reflexivity|apply Hv].
  - split.
    + cbn [step]. destruct (is_undefined i); reflexivity.
    + split; [apply Hco, H1|]. split; [apply Hco, H2|]. intros j.
      destruct (is_undefined i) eqn:Hu.
      * cbn [step]. rewrite Hu. cbn [fst]. apply Hv.
      * rewrite !remove_view by assumption. destruct (decide (j = i)); [reflexivity|apply Hv].
  - destruct (retrieve_returns_view s1 i H1) as [A1 B1]. destruct (retrieve_returns_view s2 i H2) as [A2 B2].
    split; [rewrite A1, A2, Hv; reflexivity|].
    split; [apply Hco, H1|]. split; [apply Hco, H2|]. intros j. rewrite B1, B2. apply Hv.
Qed.

(* a scheduled history: client operations with schedule operations inserted anywhere *)
Inductive scheduled : st -> list sop -> list sop -> Prop :=
| sch_nil s : scheduled s [] []
| sch_client s o ops sops : is_client o = true -> scheduled (fst (step s o)) ops sops -> scheduled s (o :: ops) (o :: sops)
| sch_sched s o ops sops : is_sched s o = true -> scheduled (fst (step s o)) ops sops -> scheduled s ops (o :: sops).

Fixpoint client_outs (ops : list sop) (outs : list sout) : list sout :=
  match ops, outs with
  | o :: r, x :: xs => if is_client o then x :: client_outs r xs else client_outs r xs
  | _, _ => []
  end.

Theorem schedule_transparent s2 ops sops : scheduled s2 ops sops -> forall s1,
  same_view s1 s2 ->
  client_outs ops (snd (run s1 ops)) = client_outs sops (snd (run s2 sops)) /\
  same_view (fst (run s1 ops)) (fst (run s2 sops)).
Proof.
  induction 1 as [s|s o ops sops Ho Hsch IH|s o ops sops Ho Hsch IH]; intros s1 Hsv.
  - cbn. auto.
  - destruct (client_step_same_view s1 s o Hsv Ho) as [Hout Hsv'].
    specialize (IH _ Hsv'). cbn [run].
    destruct (step s1 o) as [s1' x1]. destruct (step s o) as [s' x2]. cbn [fst snd] in *.
    destruct (run s1' ops) as [sa xa]. destruct (run s' sops) as [sb xb]. cbn [fst snd client_outs] in *.
    rewrite Ho. destruct IH as [IH1 IH2]. split; [congruence|exact IH2].
  - destruct Hsv as (H1 & H2 & Hv).
    destruct (sched_preserves_view s o H2 Ho) as [Hc Hv'].
    assert (Hsv' : same_view s1 (fst (step s o))) by (split; [exact H1|split; [exact Hc|intros i; rewrite Hv'; apply Hv]]).
    specialize (IH _ Hsv'). cbn [run]. destruct (step s o) as [s' x2]. cbn [fst] in *.
    destruct (run s' sops) as [sb xb]. cbn [fst snd client_outs] in *.
    assert (Hnc : is_client o = false).
    { destruct o as [| | | | |[?|]|? [?|]| | | | | | |]; try discriminate; reflexivity. }
    rewrite Hnc. exact IH.
Qed.

(* same registers at the end: a commit makes the ledger equal to the view on owned identifiers,
   and never touches others, so equal views give equal ledgers on owned identifiers *)
Theorem schedule_same_registers s1 s2 :
  same_view s1 s2 -> forall i, is_temp i = false ->
  base (fst (step s1 (SFastCommit None))) !! i = base (fst (step s2 (SFastCommit None))) !! i.
Proof.
  intros (H1 & H2 & Hv) i Hi.
  pose proof (fast_commit_state s1 H1) as A. pose proof (fast_commit_state s2 H2) as B. cbn [step].
  destruct (fast_commit s1 None) as [[a1 ok1] l1]. destruct (fast_commit s2 None) as [[a2 ok2] l2]. cbn [fst].
  destruct A as (_ & _ & A & _). destruct B as (_ & _ & B & _).
  destruct (A i Hi) as [A1 _]. destruct (B i Hi) as [B1 _]. rewrite A1, B1. apply Hv.
Qed.
