(* ArrayTree_proofs.v — T3: one-step preservation at subtree level for Set / Insert / Remove:
   the operation succeeds exactly when the position is in range, the sequence of elements changes
   as the plain-list update, the returned previous element is the right one, and the subtree stays
   internally consistent ([wfn], same height) with its size at most one pending fix-up away from
   where it was — the fix-up its parent performs ([split_child], [merge_or_rebalance]). *)
From Coq Require Import ZArith NArith List Bool Lia ZifyBool ZifyN ZifyNat.
From AtreeGen Require Import Consts.
From AtreeModel Require Import Settings ArrayTree ArrayInv.
From AtreeProofs Require Import Settings_proofs ArrayList_lemmas Rebalance_proofs ArrayRoute_proofs
  ArrayFixup_proofs.
Import ListNotations.
Local Open Scope N_scope.
Ltac Zify.zify_post_hook ::= Z.div_mod_to_equations.

(** * characterising equations *)
Lemma n_set_AM c pfx h hs sums cs i e alloc :
  n_set c pfx (AM h hs sums cs) i e alloc =
    if h_count h <=? i then Err EIndexOOB
    else match route hs sums i with
         | None => Err EPanic
         | Some (k, j) =>
           match on_kth (fun ch => n_set c P ch j e alloc) cs k with
           | None => Err ESlabNotFound
           | Some (Err x) => Err x
           | Some (Ok (ch', old, alloc', lg)) =>
             let hs' := replace_nth k (hdr_of ch') hs in
             let cs' := replace_nth k ch' cs in
             if n_is_full c ch' then
               match split_child h hs' sums cs' k ch' alloc' with
               | Err x => Err x
               | Ok (n', alloc'', lg') => Ok (n', old, alloc'', lg ++ lg')
               end
             else match n_underflow c ch' with
                  | Some need =>
                    match merge_or_rebalance c h hs' sums cs' k ch' need with
                    | Err x => Err x
                    | Ok (n', lg') => Ok (n', old, alloc', lg ++ lg')
                    end
                  | None => Ok (AM h hs' sums cs', old, alloc', lg ++ [WStore (h_id h)])
                  end
           end
         end.
Proof. reflexivity. Qed.

Lemma n_insert_AM c h hs sums cs i e alloc :
  n_insert c (AM h hs sums cs) i e alloc =
    if h_count h <? i then Err EIndexOOB
    else
      let target :=
        if i =? h_count h then
          match length hs with
          | O => None
          | S k => match nth_error hs k with Some hh => Some (k, h_count hh) | None => None end
          end
        else route hs sums i in
      match target with
      | None => Err EPanic
      | Some (k, j) =>
        match on_kth (fun ch => n_insert c ch j e alloc) cs k with
        | None => Err ESlabNotFound
        | Some (Err x) => Err x
        | Some (Ok (ch', alloc', lg)) =>
          let h' := mkhdr (h_id h) (h_size h) (h_count h + 1) in
          let sums' := incr_from k sums in
          let hs' := replace_nth k (hdr_of ch') hs in
          let cs' := replace_nth k ch' cs in
          if n_is_full c ch' then
            match split_child h' hs' sums' cs' k ch' alloc' with
            | Err x => Err x
            | Ok (n', alloc'', lg') => Ok (n', alloc'', lg ++ lg')
            end
          else Ok (AM h' hs' sums' cs', alloc', lg ++ [WStore (h_id h)])
        end
      end.
Proof. reflexivity. Qed.

Lemma n_remove_AM c h hs sums cs i :
  n_remove c (AM h hs sums cs) i =
    if h_count h <=? i then Err EIndexOOB
    else match route hs sums i with
         | None => Err EPanic
         | Some (k, j) =>
           match on_kth (fun ch => n_remove c ch j) cs k with
           | None => Err ESlabNotFound
           | Some (Err x) => Err x
           | Some (Ok (ch', old, lg)) =>
             let h' := mkhdr (h_id h) (h_size h) (h_count h - 1) in
             let sums' := decr_from k sums in
             let hs' := replace_nth k (hdr_of ch') hs in
             let cs' := replace_nth k ch' cs in
             match n_underflow c ch' with
             | Some need =>
               match merge_or_rebalance c h' hs' sums' cs' k ch' need with
               | Err x => Err x
               | Ok (n', lg') => Ok (n', old, lg ++ lg' ++ [WStore (h_id h)])
               end
             | None => Ok (AM h' hs' sums' cs', old, lg ++ [WStore (h_id h)])
             end
           end
         end.
Proof. reflexivity. Qed.

Lemma externalise_spec e alloc e' alloc' lg :
  externalise e alloc = (e', alloc', lg) -> e_sz e' = e_sz e /\ strip e' = strip e.
Proof.
  unfold externalise. destruct (e_ext e =? 0) eqn:H; intros [= <- <- <-]; [auto|].
  cbn [e_sz]. split; [reflexivity|]. unfold strip. cbn [e_id e_sz e_ext]. rewrite H.
  destruct (alloc + 1 =? 0) eqn:H1; [lia|reflexivity].
Qed.

Section WithT.
Variable T : N.
Hypothesis HT : valid_T T.
Local Notation c := (set_threshold T).
Local Notation kids_ok := (kids_ok T).
Local Notation fix_good := (fix_good T).

(** * Leaves (any prefix: P for a data slab below an index slab, RP for a root data slab) *)
Definition leaf_ok (pfx : N) (h : hdr) (es : list elem) : Prop :=
  Forall (elem_ok c) es /\ h_count h = N.of_nat (length es) /\ h_size h = pfx + sum_sz es.

Lemma wfn_leaf h nx es : wfn c 0 (AD h nx es) <-> leaf_ok P h es.
Proof. rewrite wfn_AD_iff. unfold leaf_ok. tauto. Qed.

Lemma elem_ok_nth es k x : Forall (elem_ok c) es -> nth_error es k = Some x -> elem_ok c x.
Proof. intros HF H. rewrite Forall_forall in HF. apply HF. eapply nth_error_In, H. Qed.

Lemma leaf_set pfx h nx es i e alloc :
  leaf_ok pfx h es -> elem_ok c e ->
  (h_count h <= i -> n_set c pfx (AD h nx es) i e alloc = Err EIndexOOB) /\
  (i < h_count h -> exists h' es' old alloc' lg,
     n_set c pfx (AD h nx es) i e alloc = Ok (AD h' nx es', old, alloc', lg) /\
     nth_error es (N.to_nat i) = Some old /\ leaf_ok pfx h' es' /\
     map strip es' = replace_nth (N.to_nat i) (strip e) (map strip es) /\
     h_id h' = h_id h /\ h_count h' = h_count h /\
     h_size h' + e_sz old = h_size h + e_sz e /\ elem_ok c old).
Proof.
  intros (HF & Hc & Hs) He. cbn [n_set]. split; intros Hi.
  - rewrite nth_N_ge by lia. reflexivity.
  - rewrite nth_N_lt by lia.
    destruct (nth_error es (N.to_nat i)) as [old|] eqn:Hold; [|apply nth_error_None in Hold; lia].
    destruct (externalise e alloc) as [[e' alloc'] lg] eqn:Hx.
    destruct (externalise_spec _ _ _ _ _ Hx) as (Hsz & Hst).
    do 5 eexists. split; [reflexivity|]. split; [reflexivity|].
    pose proof (sum_sz_replace_nth (N.to_nat i) e' es old Hold) as Hsum.
    pose proof (elem_ok_nth _ _ _ HF Hold) as Hok.
    repeat split; cbn [h_id h_count h_size].
    + apply Forall_replace_nth; [exact HF|]. unfold elem_ok in *. rewrite Hsz. exact He.
    + rewrite replace_nth_length. exact Hc.
    + rewrite <- Hst. symmetry. apply replace_nth_map.
    + lia.
    + apply Hok.
    + apply Hok.
Qed.

Lemma leaf_insert pfx h nx es i e alloc :
  leaf_ok pfx h es -> elem_ok c e ->
  (h_count h < i -> n_insert c (AD h nx es) i e alloc = Err EIndexOOB) /\
  (i <= h_count h -> exists h' es' alloc' lg,
     n_insert c (AD h nx es) i e alloc = Ok (AD h' nx es', alloc', lg) /\
     leaf_ok pfx h' es' /\
     map strip es' = insert_nth (N.to_nat i) (strip e) (map strip es) /\
     h_id h' = h_id h /\ h_count h' = h_count h + 1 /\ h_size h' = h_size h + e_sz e).
Proof.
  intros (HF & Hc & Hs) He. cbn [n_insert]. split; intros Hi.
  - destruct (N.of_nat (length es) <? i) eqn:H; [reflexivity|lia].
  - destruct (N.of_nat (length es) <? i) eqn:H; [lia|].
    destruct (externalise e alloc) as [[e' alloc'] lg] eqn:Hx.
    destruct (externalise_spec _ _ _ _ _ Hx) as (Hsz & Hst).
    do 4 eexists. split; [reflexivity|].
    repeat split; cbn [h_id h_count h_size].
    + apply Forall_insert_nth; [exact HF|]. unfold elem_ok in *. rewrite Hsz. exact He.
    + rewrite insert_nth_length by lia. lia.
    + rewrite sum_sz_insert_nth. lia.
    + rewrite <- Hst. symmetry. apply insert_nth_map.
    + lia.
Qed.

Lemma leaf_remove pfx h nx es i :
  leaf_ok pfx h es ->
  (h_count h <= i -> n_remove c (AD h nx es) i = Err EIndexOOB) /\
  (i < h_count h -> exists h' old lg,
     n_remove c (AD h nx es) i = Ok (AD h' nx (remove_nth (N.to_nat i) es), old, lg) /\
     nth_error es (N.to_nat i) = Some old /\ leaf_ok pfx h' (remove_nth (N.to_nat i) es) /\
     h_id h' = h_id h /\ h_count h' + 1 = h_count h /\
     h_size h' + e_sz old = h_size h /\ elem_ok c old).
Proof.
  intros (HF & Hc & Hs). cbn [n_remove]. split; intros Hi.
  - rewrite nth_N_ge by lia. reflexivity.
  - rewrite nth_N_lt by lia.
    destruct (nth_error es (N.to_nat i)) as [old|] eqn:Hold; [|apply nth_error_None in Hold; lia].
    do 3 eexists. split; [reflexivity|]. split; [reflexivity|].
    pose proof (sum_sz_remove_nth (N.to_nat i) es old Hold) as Hsum.
    pose proof (remove_nth_length (N.to_nat i) es ltac:(lia)) as Hlen.
    pose proof (elem_ok_nth _ _ _ HF Hold) as Hok.
    repeat split; cbn [h_id h_count h_size]; try lia.
    + apply Forall_remove_nth, HF.
    + apply Hok.
    + apply Hok.
Qed.

(** * Subtrees *)
Definition slack (n : anode) : N := if is_data n then cinl_arr c else HS.
Definition kids2 (n : anode) : Prop :=
  match n with AD _ _ _ => True | AM _ _ _ cs => (2 <= length cs)%nat end.

Lemma in_band_kids2 d n : wfn c d n -> in_band c n -> kids2 n.
Proof.
  intros Hw Hb. destruct d.
  - destruct (wfn_0_inv _ _ Hw) as (h & nx & es & -> & _). exact I.
  - destruct (wfn_S_inv _ _ _ Hw) as (h & hs & sums & cs & -> & _). cbn [kids2].
    eapply in_band_index_two; eauto.
Qed.

Lemma slack_eq d n n' : wfn c d n -> wfn c d n' -> slack n' = slack n.
Proof. intros H1 H2. unfold slack. rewrite (wfn_is_data _ _ _ H1), (wfn_is_data _ _ _ H2). reflexivity. Qed.
Lemma split_slack_ge n : slack n <= split_slack T n.
Proof. unfold slack, split_slack. destruct (is_data n); unfold_sizes; lia. Qed.
Lemma near_not_tiny d n : wfn c d n -> cmin c <= h_size (hdr_of n) + slack n -> PM < h_size (hdr_of n).
Proof.
  intros Hw Hs. unfold slack in Hs. rewrite (wfn_is_data _ _ _ Hw) in Hs. destruct d.
  - destruct (wfn_0_inv _ _ Hw) as (h & nx & es & -> & _ & _ & Hsz). cbn [hdr_of]. unfold_sizes; lia.
  - cfg_lia.
Qed.

Lemma kids_split d pre ch post :
  Forall (wfn c d) (pre ++ ch :: post) -> Forall (in_band c) (pre ++ ch :: post) ->
  kids_ok d pre /\ wfn c d ch /\ in_band c ch /\ kids_ok d post.
Proof.
  intros Hw Hb. apply Forall_app in Hw, Hb. destruct Hw as (W1 & W2). destruct Hb as (B1 & B2).
  inversion W2; subst. inversion B2; subst. unfold ArrayFixup_proofs.kids_ok. tauto.
Qed.

(* the parent's three ways to finish after child [ch'] (at position [length pre]) has changed *)
Lemma parent_fix d h' pre ch' post :
  kids_ok d pre -> kids_ok d post -> wfn c d ch' -> (pre <> [] \/ post <> []) ->
  let cs' := pre ++ ch' :: post in
  let hs' := map hdr_of cs' in
  let sums' := psums 0 hs' in
  h_count h' = sum_cnt hs' -> h_size h' = PM + N.of_nat (length cs') * HS ->
  cmin c <= h_size (hdr_of ch') + slack ch' -> h_size (hdr_of ch') <= cmax c + slack ch' ->
  (n_is_full c ch' = true -> forall alloc, exists n' lg,
     split_child h' hs' sums' cs' (length pre) ch' alloc = Ok (n', alloc + 1, lg) /\
     fix_good d h' cs' n' /\ h_size (hdr_of n') = h_size h' + HS) /\
  (n_is_full c ch' = false -> forall need, n_underflow c ch' = Some need -> exists n' lg,
     merge_or_rebalance c h' hs' sums' cs' (length pre) ch' need = Ok (n', lg) /\
     fix_good d h' cs' n' /\ (h_size (hdr_of n') = h_size h' \/ h_size (hdr_of n') + HS = h_size h')) /\
  (n_is_full c ch' = false -> n_underflow c ch' = None ->
     fix_good d h' cs' (AM h' hs' sums' cs')).
Proof.
  intros Hpre Hpost Hw Hsib cs' hs' sums' Hc Hs Hlo Hhi.
  split; [|split].
  - intros Hfull alloc. unfold n_is_full in Hfull.
    apply (split_child_ok T HT d h' pre ch' post alloc); auto; [lia|].
    pose proof (split_slack_ge ch'). lia.
  - intros Hfull need Hu. unfold n_underflow in Hu.
    destruct (h_size (hdr_of ch') <? cmin c) eqn:Hlt; [|discriminate]. injection Hu as <-.
    apply (merge_or_rebalance_ok T HT d h' ch' (cmin c - h_size (hdr_of ch'))); auto; try lia.
    eapply near_not_tiny; eauto.
  - intros Hfull Hu. unfold n_is_full in Hfull. unfold n_underflow in Hu.
    destruct (h_size (hdr_of ch') <? cmin c) eqn:Hlt; [discriminate|].
    assert (Hk : kids_ok d cs').
    { subst cs'. apply kids_ok_app. split; [exact Hpre|]. apply kids_ok_cons. split; [|exact Hpost].
      split; [exact Hw|]. unfold in_band. lia. }
    unfold ArrayFixup_proofs.fix_good. cbn [hdr_of to_list last_next].
    repeat split. apply wfn_AM_intro; assumption.
Qed.

(** ** Set *)
Definition set_post (d : nat) (n : anode) (i : N) (e : elem) (n' : anode) (old : elem) : Prop :=
  nth_error (to_list n) (N.to_nat i) = Some old /\ wfn c d n' /\
  map strip (to_list n') = replace_nth (N.to_nat i) (strip e) (map strip (to_list n)) /\
  h_id (hdr_of n') = h_id (hdr_of n) /\ last_next n' = last_next n /\
  h_count (hdr_of n') = h_count (hdr_of n) /\
  h_size (hdr_of n) <= h_size (hdr_of n') + slack n /\
  h_size (hdr_of n') <= h_size (hdr_of n) + slack n.

Definition set_spec (d : nat) (n : anode) : Prop :=
  forall i e alloc, elem_ok c e ->
  (h_count (hdr_of n) <= i -> n_set c P n i e alloc = Err EIndexOOB) /\
  (i < h_count (hdr_of n) -> exists n' old alloc' lg,
     n_set c P n i e alloc = Ok (n', old, alloc', lg) /\ set_post d n i e n' old).

(* list algebra for a child updated in place *)
Lemma mid_index d pre ch (i j : N) :
  Forall (wfn c d) pre -> wfn c d ch -> i = sum_cnt (map hdr_of pre) + j ->
  N.to_nat i = (length (flat_map to_list pre) + N.to_nat j)%nat /\
  N.of_nat (length (to_list ch)) = h_count (hdr_of ch).
Proof.
  intros Hp Hc ->. pose proof (kids_length' _ _ _ Hp). pose proof (wfn_length _ _ _ Hc). lia.
Qed.

Lemma last_next_mid pre ch ch' post :
  last_next ch' = last_next ch ->
  last (map last_next (pre ++ ch' :: post)) 0 = last (map last_next (pre ++ ch :: post)) 0.
Proof. intros H. rewrite !map_app. cbn [map]. rewrite H. reflexivity. Qed.

Theorem n_set_ok : forall d n, wfn c d n -> kids2 n -> set_spec d n.
Proof.
  induction d as [|d IH]; intros n Hw H2 i e alloc He.
  - destruct (wfn_0_inv _ _ Hw) as (h & nx & es & -> & _). apply wfn_leaf in Hw.
    destruct (leaf_set P h nx es i e alloc Hw He) as (A & B). cbn [hdr_of]. split; [exact A|].
    intros Hi. destruct (B Hi) as (h' & es' & old & alloc' & lg & E1 & E2 & E3 & E4 & E5 & E6 & E7 & E8).
    exists (AD h' nx es'), old, alloc', lg. split; [exact E1|].
    unfold set_post, slack. cbn [to_list hdr_of last_next is_data].
    unfold elem_ok in He, E8.
    repeat split; auto; try lia. apply wfn_leaf, E3.
  - destruct (wfn_S_inv _ _ _ Hw) as (h & hs & sums & cs & -> & Hws & Hbs & Hhs & Hsums & Hc & Hs).
    cbn [hdr_of kids2] in *. rewrite n_set_AM. split; intros Hi.
    + destruct (h_count h <=? i) eqn:Hle; [reflexivity|lia].
    + destruct (h_count h <=? i) eqn:Hle; [lia|].
      destruct (route_spec T HT d h hs sums cs i Hw Hi) as (pre & ch & post & j & Hcs & Hr & Hij & Hj).
      rewrite Hr, on_kth_spec. subst cs hs sums.
      rewrite (nth_error_at (length pre)) by reflexivity. cbn [option_map].
      destruct (kids_split d pre ch post Hws Hbs) as (Kpre & Wch & Bch & Kpost).
      destruct (IH ch Wch (in_band_kids2 d ch Wch Bch) j e alloc He) as (_ & IHch).
      destruct (IHch Hj) as (ch' & old & alloc' & lg & Eset & Hold & Wch' & Hstr & Hid & Hln & Hcnt & Hlo & Hhi).
      rewrite Eset. cbv beta iota zeta.
      rewrite replace_nth_map, !replace_nth_app_len.
      assert (Esums : psums 0 (map hdr_of (pre ++ ch :: post)) = psums 0 (map hdr_of (pre ++ ch' :: post))).
      { rewrite !map_app. cbn [map]. symmetry. apply psums_same_count. exact Hcnt. }
      rewrite Esums.
      assert (Hsib : pre <> [] \/ post <> []).
      { rewrite app_length in H2. cbn [length] in H2.
        destruct pre; [right; destruct post; [cbn in H2; lia|discriminate]|left; discriminate]. }
      assert (Hc' : h_count h = sum_cnt (map hdr_of (pre ++ ch' :: post))).
      { rewrite Hc, !map_app, !sum_cnt_app. cbn [map sum_cnt]. lia. }
      assert (Hs' : h_size h = PM + N.of_nat (length (pre ++ ch' :: post)) * HS).
      { rewrite Hs, !app_length. reflexivity. }
      rewrite (slack_eq d ch' ch Wch' Wch) in Hlo, Hhi.
      unfold in_band in Bch.
      destruct (parent_fix d h pre ch' post Kpre Kpost Wch' Hsib Hc' Hs'
                  ltac:(lia) ltac:(lia)) as (F1 & F2 & F3).
      destruct (mid_index d pre ch i j (proj1 Kpre) Wch Hij) as (Hidx & Hlen).
      assert (Hfin : forall n', fix_good d h (pre ++ ch' :: post) n' ->
                (h_size (hdr_of n') = h_size h + HS \/ h_size (hdr_of n') = h_size h \/
                 h_size (hdr_of n') + HS = h_size h) ->
                set_post (S d) (AM h (map hdr_of (pre ++ ch :: post))
                                 (psums 0 (map hdr_of (pre ++ ch' :: post))) (pre ++ ch :: post)) i e n' old).
      { intros n' (G1 & G2 & G3 & G4 & G5) Hsz. unfold set_post, slack.
        cbn [to_list hdr_of last_next is_data].
        repeat split; auto.
        - rewrite to_list_mid, Hidx. rewrite nth_error_mid by lia. exact Hold.
        - rewrite G2, !to_list_mid, !map_app, Hstr, Hidx.
          rewrite <- (map_length strip (flat_map to_list pre)).
          apply eq_sym, replace_nth_mid. rewrite map_length. lia.
        - rewrite G5. apply last_next_mid, Hln.
        - lia.
        - lia. }
      destruct (n_is_full c ch') eqn:Hfull.
      * destruct (F1 eq_refl alloc') as (n' & lg' & E & G & Sz). rewrite E.
        do 4 eexists. split; [reflexivity|]. apply Hfin; auto.
      * destruct (n_underflow c ch') as [need|] eqn:Hu.
        -- destruct (F2 eq_refl need eq_refl) as (n' & lg' & E & G & Sz). rewrite E.
           do 4 eexists. split; [reflexivity|]. apply Hfin; tauto.
        -- do 4 eexists. split; [reflexivity|]. apply Hfin; [apply F3; auto|]. cbn [hdr_of]. auto.
Qed.

(** ** Insert *)
Definition ins_post (d : nat) (n : anode) (i : N) (e : elem) (n' : anode) : Prop :=
  wfn c d n' /\
  map strip (to_list n') = insert_nth (N.to_nat i) (strip e) (map strip (to_list n)) /\
  h_id (hdr_of n') = h_id (hdr_of n) /\ last_next n' = last_next n /\
  h_count (hdr_of n') = h_count (hdr_of n) + 1 /\
  h_size (hdr_of n) <= h_size (hdr_of n') /\
  h_size (hdr_of n') <= h_size (hdr_of n) + slack n.

Definition ins_spec (d : nat) (n : anode) : Prop :=
  forall i e alloc, elem_ok c e ->
  (h_count (hdr_of n) < i -> n_insert c n i e alloc = Err EIndexOOB) /\
  (i <= h_count (hdr_of n) -> exists n' alloc' lg,
     n_insert c n i e alloc = Ok (n', alloc', lg) /\ ins_post d n i e n').

Lemma insert_target_spec d h hs sums cs i :
  wfn c (S d) (AM h hs sums cs) -> (2 <= length cs)%nat -> i <= h_count h ->
  exists pre ch post j, cs = pre ++ ch :: post /\
    (if i =? h_count h then
       match length hs with
       | O => None
       | S k => match nth_error hs k with Some hh => Some (k, h_count hh) | None => None end
       end
     else route hs sums i) = Some (length pre, j) /\
    i = sum_cnt (map hdr_of pre) + j /\ j <= h_count (hdr_of ch).
Proof.
  intros Hw H2 Hi. destruct (i =? h_count h) eqn:He.
  - assert (Hne : cs <> []) by (destruct cs; [cbn in H2; lia|discriminate]).
    destruct (last_child_spec T d h hs sums cs Hw Hne) as (pre & ch & Hcs & Ht & Hc).
    exists pre, ch, [], (h_count (hdr_of ch)). repeat split; auto; lia.
  - destruct (route_spec T HT d h hs sums cs i Hw ltac:(lia)) as (pre & ch & post & j & H1 & H3 & H4 & H5).
    exists pre, ch, post, j. repeat split; auto. lia.
Qed.

Theorem n_insert_ok : forall d n, wfn c d n -> kids2 n -> ins_spec d n.
Proof.
  induction d as [|d IH]; intros n Hw H2 i e alloc He.
  - destruct (wfn_0_inv _ _ Hw) as (h & nx & es & -> & _). apply wfn_leaf in Hw.
    destruct (leaf_insert P h nx es i e alloc Hw He) as (A & B). cbn [hdr_of]. split; [exact A|].
    intros Hi. destruct (B Hi) as (h' & es' & alloc' & lg & E1 & E3 & E4 & E5 & E6 & E7).
    exists (AD h' nx es'), alloc', lg. split; [exact E1|].
    unfold ins_post, slack. cbn [to_list hdr_of last_next is_data].
    unfold elem_ok in He.
    repeat split; auto; try lia. apply wfn_leaf, E3.
  - destruct (wfn_S_inv _ _ _ Hw) as (h & hs & sums & cs & -> & Hws & Hbs & Hhs & Hsums & Hc & Hs).
    cbn [hdr_of kids2] in *. rewrite n_insert_AM. split; intros Hi.
    + destruct (h_count h <? i) eqn:Hle; [reflexivity|lia].
    + destruct (h_count h <? i) eqn:Hle; [lia|]. cbv zeta.
      destruct (insert_target_spec d h hs sums cs i Hw H2 Hi) as (pre & ch & post & j & Hcs & Hr & Hij & Hj).
      rewrite Hr, on_kth_spec. subst cs hs sums.
      rewrite (nth_error_at (length pre)) by reflexivity. cbn [option_map].
      destruct (kids_split d pre ch post Hws Hbs) as (Kpre & Wch & Bch & Kpost).
      destruct (IH ch Wch (in_band_kids2 d ch Wch Bch) j e alloc He) as (_ & IHch).
      destruct (IHch Hj) as (ch' & alloc' & lg & Eins & Wch' & Hstr & Hid & Hln & Hcnt & Hlo & Hhi).
      rewrite Eins. cbv beta iota zeta.
      rewrite replace_nth_map, !replace_nth_app_len.
      assert (Esums : incr_from (length pre) (psums 0 (map hdr_of (pre ++ ch :: post)))
                      = psums 0 (map hdr_of (pre ++ ch' :: post))).
      { rewrite !map_app. cbn [map]. apply incr_from_psums; [symmetry; apply map_length|exact Hcnt]. }
      rewrite Esums.
      assert (Hsib : pre <> [] \/ post <> []).
      { rewrite app_length in H2. cbn [length] in H2.
        destruct pre; [right; destruct post; [cbn in H2; lia|discriminate]|left; discriminate]. }
      set (h' := mkhdr (h_id h) (h_size h) (h_count h + 1)).
      assert (Hc' : h_count h' = sum_cnt (map hdr_of (pre ++ ch' :: post))).
      { subst h'. cbn [h_count]. rewrite Hc, !map_app, !sum_cnt_app. cbn [map sum_cnt]. lia. }
      assert (Hs' : h_size h' = PM + N.of_nat (length (pre ++ ch' :: post)) * HS).
      { subst h'. cbn [h_size]. rewrite Hs, !app_length. reflexivity. }
      rewrite (slack_eq d ch' ch Wch' Wch) in Hhi.
      unfold in_band in Bch.
      destruct (parent_fix d h' pre ch' post Kpre Kpost Wch' Hsib Hc' Hs'
                  ltac:(lia) ltac:(lia)) as (F1 & F2 & F3).
      destruct (mid_index d pre ch i j (proj1 Kpre) Wch Hij) as (Hidx & Hlen).
      assert (Hfin : forall n' sm, fix_good d h' (pre ++ ch' :: post) n' ->
                (h_size (hdr_of n') = h_size h + HS \/ h_size (hdr_of n') = h_size h) ->
                ins_post (S d) (AM h (map hdr_of (pre ++ ch :: post)) sm (pre ++ ch :: post)) i e n').
      { intros n' sm (G1 & G2 & G3 & G4 & G5) Hsz. unfold ins_post, slack.
        cbn [to_list hdr_of last_next is_data].
        repeat split; auto.
        - rewrite G2, !to_list_mid, !map_app, Hstr, Hidx.
          rewrite <- (map_length strip (flat_map to_list pre)).
          apply eq_sym, insert_nth_mid. rewrite map_length. lia.
        - rewrite G5. apply last_next_mid, Hln.
        - lia.
        - lia. }
      destruct (n_is_full c ch') eqn:Hfull.
      * destruct (F1 eq_refl alloc') as (n' & lg' & E & G & Sz). rewrite E.
        do 3 eexists. split; [reflexivity|]. apply Hfin; auto.
      * do 3 eexists. split; [reflexivity|]. apply Hfin; [|cbn [hdr_of]; auto].
        apply F3; auto. unfold n_underflow.
        destruct (h_size (hdr_of ch') <? cmin c) eqn:Hlt; [lia|reflexivity].
Qed.

(** ** Remove *)
Definition rem_post (d : nat) (n : anode) (i : N) (n' : anode) (old : elem) : Prop :=
  nth_error (to_list n) (N.to_nat i) = Some old /\ wfn c d n' /\
  to_list n' = remove_nth (N.to_nat i) (to_list n) /\
  h_id (hdr_of n') = h_id (hdr_of n) /\ last_next n' = last_next n /\
  h_count (hdr_of n') + 1 = h_count (hdr_of n) /\
  h_size (hdr_of n) <= h_size (hdr_of n') + slack n /\
  h_size (hdr_of n') <= h_size (hdr_of n).

Definition rem_spec (d : nat) (n : anode) : Prop :=
  forall i,
  (h_count (hdr_of n) <= i -> n_remove c n i = Err EIndexOOB) /\
  (i < h_count (hdr_of n) -> exists n' old lg,
     n_remove c n i = Ok (n', old, lg) /\ rem_post d n i n' old).

Theorem n_remove_ok : forall d n, wfn c d n -> kids2 n -> rem_spec d n.
Proof.
  induction d as [|d IH]; intros n Hw H2 i.
  - destruct (wfn_0_inv _ _ Hw) as (h & nx & es & -> & _). apply wfn_leaf in Hw.
    destruct (leaf_remove P h nx es i Hw) as (A & B). cbn [hdr_of]. split; [exact A|].
    intros Hi. destruct (B Hi) as (h' & old & lg & E1 & E2 & E3 & E5 & E6 & E7 & E8).
    do 3 eexists. split; [exact E1|].
    unfold rem_post, slack. cbn [to_list hdr_of last_next is_data].
    unfold elem_ok in E8.
    repeat split; auto; try lia. apply wfn_leaf, E3.
  - destruct (wfn_S_inv _ _ _ Hw) as (h & hs & sums & cs & -> & Hws & Hbs & Hhs & Hsums & Hc & Hs).
    cbn [hdr_of kids2] in *. rewrite n_remove_AM. split; intros Hi.
    + destruct (h_count h <=? i) eqn:Hle; [reflexivity|lia].
    + destruct (h_count h <=? i) eqn:Hle; [lia|].
      destruct (route_spec T HT d h hs sums cs i Hw Hi) as (pre & ch & post & j & Hcs & Hr & Hij & Hj).
      rewrite Hr, on_kth_spec. subst cs hs sums.
      rewrite (nth_error_at (length pre)) by reflexivity. cbn [option_map].
      destruct (kids_split d pre ch post Hws Hbs) as (Kpre & Wch & Bch & Kpost).
      destruct (IH ch Wch (in_band_kids2 d ch Wch Bch) j) as (_ & IHch).
      destruct (IHch Hj) as (ch' & old & lg & Erem & Hold & Wch' & Hto & Hid & Hln & Hcnt & Hlo & Hhi).
      rewrite Erem. cbv beta iota zeta.
      rewrite replace_nth_map, !replace_nth_app_len.
      assert (Esums : decr_from (length pre) (psums 0 (map hdr_of (pre ++ ch :: post)))
                      = psums 0 (map hdr_of (pre ++ ch' :: post))).
      { rewrite !map_app. cbn [map]. apply decr_from_psums; [symmetry; apply map_length|exact Hcnt]. }
      rewrite Esums.
      assert (Hsib : pre <> [] \/ post <> []).
      { rewrite app_length in H2. cbn [length] in H2.
        destruct pre; [right; destruct post; [cbn in H2; lia|discriminate]|left; discriminate]. }
      set (h' := mkhdr (h_id h) (h_size h) (h_count h - 1)).
      assert (Hc' : h_count h' = sum_cnt (map hdr_of (pre ++ ch' :: post))).
      { subst h'. cbn [h_count]. rewrite Hc, !map_app, !sum_cnt_app. cbn [map sum_cnt]. lia. }
      assert (Hs' : h_size h' = PM + N.of_nat (length (pre ++ ch' :: post)) * HS).
      { subst h'. cbn [h_size]. rewrite Hs, !app_length. reflexivity. }
      rewrite (slack_eq d ch' ch Wch' Wch) in Hlo.
      unfold in_band in Bch.
      destruct (parent_fix d h' pre ch' post Kpre Kpost Wch' Hsib Hc' Hs'
                  ltac:(lia) ltac:(lia)) as (F1 & F2 & F3).
      destruct (mid_index d pre ch i j (proj1 Kpre) Wch Hij) as (Hidx & Hlen).
      assert (Hnf : n_is_full c ch' = false) by (unfold n_is_full; lia).
      assert (Hfin : forall n' sm, fix_good d h' (pre ++ ch' :: post) n' ->
                (h_size (hdr_of n') = h_size h \/ h_size (hdr_of n') + HS = h_size h) ->
                rem_post (S d) (AM h (map hdr_of (pre ++ ch :: post)) sm (pre ++ ch :: post)) i n' old).
      { intros n' sm (G1 & G2 & G3 & G4 & G5) Hsz. unfold rem_post, slack.
        cbn [to_list hdr_of last_next is_data].
        assert (Hcnt1 : 1 <= h_count h).
        { rewrite Hc, !map_app, !sum_cnt_app. cbn [map sum_cnt]. lia. }
        repeat split; auto.
        - rewrite to_list_mid, Hidx. rewrite nth_error_mid by lia. exact Hold.
        - rewrite G2, !to_list_mid, Hto, Hidx.
          apply eq_sym, remove_nth_mid. lia.
        - rewrite G5. apply last_next_mid, Hln.
        - rewrite G4. subst h'. cbn [h_count]. lia.
        - lia.
        - lia. }
      destruct (n_underflow c ch') as [need|] eqn:Hu.
      * destruct (F2 Hnf need eq_refl) as (n' & lg' & E & G & Sz). rewrite E.
        do 3 eexists. split; [reflexivity|]. apply Hfin; auto.
      * do 3 eexists. split; [reflexivity|]. apply Hfin; [apply F3; auto|]. cbn [hdr_of]. auto.
Qed.

(** ** L5: a subtree that was inside the band is, after one operation, at most one pending fix-up
    away from it: one element ([cinl_arr c]) for a data slab, one child header (HS) for an index slab *)
Corollary n_set_near_band d n i e alloc n' old alloc' lg :
  wfn c d n -> in_band c n -> elem_ok c e -> n_set c P n i e alloc = Ok (n', old, alloc', lg) ->
  wfn c d n' /\ cmin c <= h_size (hdr_of n') + slack n /\ h_size (hdr_of n') <= cmax c + slack n.
Proof.
  intros Hw Hb He E. destruct (n_set_ok d n Hw (in_band_kids2 d n Hw Hb) i e alloc He) as (A & B).
  destruct (N.lt_ge_cases i (h_count (hdr_of n))) as [Hi|Hi]; [|rewrite (A Hi) in E; discriminate].
  destruct (B Hi) as (n1 & o1 & a1 & l1 & E1 & _ & Hw' & _ & _ & _ & _ & Hlo & Hhi).
  rewrite E1 in E. injection E as <- _ _ _. unfold in_band in Hb. repeat split; auto; lia.
Qed.
Corollary n_insert_near_band d n i e alloc n' alloc' lg :
  wfn c d n -> in_band c n -> elem_ok c e -> n_insert c n i e alloc = Ok (n', alloc', lg) ->
  wfn c d n' /\ cmin c <= h_size (hdr_of n') /\ h_size (hdr_of n') <= cmax c + slack n.
Proof.
  intros Hw Hb He E. destruct (n_insert_ok d n Hw (in_band_kids2 d n Hw Hb) i e alloc He) as (A & B).
  destruct (N.le_gt_cases i (h_count (hdr_of n))) as [Hi|Hi]; [|rewrite (A Hi) in E; discriminate].
  destruct (B Hi) as (n1 & a1 & l1 & E1 & Hw' & _ & _ & _ & _ & Hlo & Hhi).
  rewrite E1 in E. injection E as <- _ _. unfold in_band in Hb. repeat split; auto; lia.
Qed.
Corollary n_remove_near_band d n i n' old lg :
  wfn c d n -> in_band c n -> n_remove c n i = Ok (n', old, lg) ->
  wfn c d n' /\ cmin c <= h_size (hdr_of n') + slack n /\ h_size (hdr_of n') <= cmax c.
Proof.
  intros Hw Hb E. destruct (n_remove_ok d n Hw (in_band_kids2 d n Hw Hb) i) as (A & B).
  destruct (N.lt_ge_cases i (h_count (hdr_of n))) as [Hi|Hi]; [|rewrite (A Hi) in E; discriminate].
  destruct (B Hi) as (n1 & o1 & l1 & E1 & _ & Hw' & _ & _ & _ & _ & Hlo & Hhi).
  rewrite E1 in E. injection E as <- _ _. unfold in_band in Hb. repeat split; auto; lia.
Qed.

End WithT.
