(* NestedFresh_proofs.v — re-obtaining the wrappers of a whole subtree (OFresh / OGet sequences,
   NestedFresh.v) preserves the forest invariant of C10, and changes nothing observable. *)
From Coq Require Import ZArith NArith List Bool Lia Arith.
From AtreeGen Require Import Consts.
From AtreeModel Require Import Nested NestedErr NestedFresh.
From AtreeProofs Require Import Nested_base Nested_resync Nested_chain Nested_ops Nested_steps Nested_proofs NestedErr_proofs.
Import ListNotations.
Local Open Scope N_scope.

(* ---------- run ---------- *)
Lemma run_app n g : forall a b f,
  run n g f (a ++ b) = let '(f1, ok) := run n g f a in if ok then run n g f1 b else (f1, false).
Proof.
  induction a as [|o r IH]; intros b f; cbn [run app].
  - reflexivity.
  - destruct (step n g f o) as [f1 ok]. destruct ok; [apply IH|reflexivity].
Qed.

Lemma run_app_ok n g a b f f1 f2 :
  run n g f a = (f1, true) -> run n g f1 b = (f2, true) -> run n g f (a ++ b) = (f2, true).
Proof. intros H1 H2. rewrite run_app, H1. exact H2. Qed.

(* ---------- everything but the index maps ---------- *)
Definition core_eq_u (f0 : forest) (x : N) (c c' : cstate) : Prop :=
  c_kind c' = c_kind c /\ c_slots c' = c_slots c /\ c_inl c' = c_inl c /\ c_csize c' = c_csize c /\
  (c_upd c' = c_upd c \/ (c_upd c' = None /\ ~ attached f0 x)).

Definition same_core (f0 f : forest) : Prop :=
  f_log f = f_log f0 /\
  forall x, match fget f0 x, fget f x with
            | Some c, Some c' => core_eq_u f0 x c c'
            | None, None => True
            | _, _ => False
            end.

Definition complete (f : forest) (x : N) : Prop :=
  forall c i s v w, fget f x = Some c -> c_kind c = KArr -> nth_error (c_slots c) i = Some s ->
                    s_val s = NChild v w -> aget (c_idx c) v = Some i.

Lemma core_eq_u_refl f0 x c : core_eq_u f0 x c c.
Proof. repeat split; auto. Qed.

Lemma same_core_refl f : same_core f f.
Proof. split; auto. intros x. destruct (fget f x); auto. apply core_eq_u_refl. Qed.

Lemma same_core_get f0 f x c : same_core f0 f -> fget f0 x = Some c -> exists c', fget f x = Some c' /\ core_eq_u f0 x c c'.
Proof.
  intros [_ H] Hc. specialize (H x). rewrite Hc in H. destruct (fget f x) as [c'|]; [|contradiction]. eauto.
Qed.

Lemma same_core_get' f0 f x c' : same_core f0 f -> fget f x = Some c' -> exists c, fget f0 x = Some c /\ core_eq_u f0 x c c'.
Proof.
  intros [_ H] Hc. specialize (H x). rewrite Hc in H. destruct (fget f0 x) as [c|]; [|contradiction]. eauto.
Qed.

Lemma same_core_none f0 f x : same_core f0 f -> fget f0 x = None -> fget f x = None.
Proof. intros [_ H] Hc. specialize (H x). rewrite Hc in H. destruct (fget f x); [contradiction|auto]. Qed.

Lemma same_core_edge f0 f p i s v w : same_core f0 f -> (edge f0 p i s v w <-> edge f p i s v w).
Proof.
  intros H. split; intros (c & Hc & Hn & Hv).
  - destruct (same_core_get _ _ _ _ H Hc) as (c' & Hc' & _ & Hs & _). exists c'. rewrite Hs. auto.
  - destruct (same_core_get' _ _ _ _ H Hc) as (c0 & Hc0 & _ & Hs & _). exists c0. rewrite <- Hs. auto.
Qed.

Lemma child_size_core f0 f v : same_core f0 f -> child_size f v = child_size f0 v.
Proof.
  intros H. unfold child_size. destruct (fget f0 v) as [c|] eqn:Ec.
  - destruct (same_core_get _ _ _ _ H Ec) as (c' & -> & Hk & _ & Hi & Hz & _).
    rewrite Hi. unfold inl_size. now rewrite Hk, Hz.
  - now rewrite (same_core_none _ _ _ H Ec).
Qed.

Lemma complete_ext f f' x : fget f' x = fget f x -> complete f x -> complete f' x.
Proof. intros E H c i s v w Hc. rewrite E in Hc. eauto. Qed.

Lemma fwf_complete n g f x : fwf n g f -> complete f x.
Proof.
  intros (HS & _) c i s v w Hc Hk Hn Hv.
  destruct (st_hooked _ _ _ HS x c i s v w Hc Hn Hv) as (_ & _ & _ & H). auto.
Qed.

(* the invariant from the core and the two index properties *)
Lemma fwf_from_core n g f0 f :
  fwf n g f0 -> same_core f0 f -> idx_ok f -> (forall x, complete f x) -> fwf n g f.
Proof.
  intros (HS & _ & Hcs & Hio) Hsc Hidx Hcomp.
  split; [split|split; [exact Hidx|split]].
  - intros p c' i s v w Hc' Hn Hv.
    destruct (same_core_get' _ _ _ _ Hsc Hc') as (c & Hc & Hk & Hs & _).
    rewrite Hs in Hn.
    destruct (st_hooked _ _ _ HS p c i s v w Hc Hn Hv) as (cv & Hcv & Hu & _).
    destruct (same_core_get _ _ _ _ Hsc Hcv) as (cv' & Hcv' & _ & _ & _ & _ & Hupd).
    exists cv'. split; auto. split.
    + destruct Hupd as [Hupd|(_ & Hna)]; [rewrite Hupd, Hk; exact Hu|].
      exfalso. apply Hna. exists p, i, s, w, c. auto.
    + intros Hka. eapply Hcomp; eauto. now rewrite Hs.
  - intros p c' Hc' Hk. destruct (same_core_get' _ _ _ _ Hsc Hc') as (c & Hc & Hk' & Hs & _).
    rewrite Hs. eapply st_keys; eauto. congruence.
  - destruct (st_ranked _ _ _ HS) as (lvl & Hl & Hb). exists lvl. split; auto.
    intros p i s v w E. eapply Hl. apply (same_core_edge f0 f); eauto.
  - intros x c' Hc'. destruct (same_core_get' _ _ _ _ Hsc Hc') as (c & Hc & Hk & Hs & _ & Hz & _).
    rewrite Hz, Hk, Hs, (Hcs x c Hc). symmetry. apply data_size_ext. intros. now apply child_size_core.
  - intros v p c' i s w cv' Hc' Hn Hv Hcv'.
    destruct (same_core_get' _ _ _ _ Hsc Hc') as (c & Hc & Hk & Hs & _).
    destruct (same_core_get' _ _ _ _ Hsc Hcv') as (cv & Hcv & Hkv & _ & Hiv & Hzv & _).
    rewrite Hs in Hn. rewrite Hk, Hiv. unfold inl_size. rewrite Hkv, Hzv.
    apply (Hio v p c i s w cv Hc Hn Hv Hcv).
Qed.

(* as finite maps the index maps are those of before *)
Lemma equiv_of_core n g f0 f : fwf n g f0 -> fwf n g f -> same_core f0 f -> forest_equiv f0 f.
Proof.
  intros Hwf0 Hwf [Hlog Hsc]. split; [exact Hlog|]. intros x. specialize (Hsc x).
  destruct (fget f0 x) as [c|] eqn:Ec, (fget f x) as [c'|] eqn:Ec'; auto.
  destruct Hsc as (Hk & Hs & Hi & Hz & Hu). repeat (split; [assumption|]).
  intros v.
  pose proof (proj1 (proj2 Hwf0)) as Hidx0. pose proof (proj1 (proj2 Hwf)) as Hidx.
  destruct (c_kind c) eqn:Ek.
  - destruct (aget (c_idx c) v) as [j|] eqn:Ea.
    + apply aget_In in Ea. destruct (proj1 (Hidx0 x c Ec) v j Ea) as (s & w & Hn & Hv).
      apply (fwf_complete n g f x Hwf c' j s v w); auto; congruence.
    + destruct (aget (c_idx c') v) as [j|] eqn:Ea'; auto.
      apply aget_In in Ea'. destruct (proj1 (Hidx x c' Ec') v j Ea') as (s & w & Hn & Hv).
      rewrite Hs in Hn. exfalso.
      assert (H : aget (c_idx c) v = Some j) by (apply (fwf_complete n g f0 x Hwf0 c j s v w); auto).
      congruence.
  - rewrite (proj2 (Hidx0 x c Ec) Ek). rewrite (proj2 (Hidx x c' Ec')); [reflexivity|congruence].
Qed.

(* ---------- consequences of the invariant of the base forest ---------- *)
Lemma slot_unique n g f0 v c j s key w j' s' w' :
  fstruct n g f0 -> fget f0 v = Some c ->
  nth_error (c_slots c) j = Some s -> s_val s = NChild key w ->
  nth_error (c_slots c) j' = Some s' -> s_val s' = NChild key w' -> j = j'.
Proof.
  intros HS Hc Hn Hv Hn' Hv'.
  assert (E1 : edge f0 v j s key w) by (exists c; auto).
  assert (E2 : edge f0 v j' s' key w') by (exists c; auto).
  now destruct (edge_unique n g f0 HS _ _ _ _ _ _ _ _ _ E1 E2) as (_ & ? & _).
Qed.

(* ---------- one pair: a new wrapper for ch, obtained through slot i of v ---------- *)
Lemma pair_step n g f0 f v i s ch w cv0 :
  fwf n g f0 -> same_core f0 f -> idx_ok f -> edge f0 v i s ch w -> fget f0 v = Some cv0 ->
  exists f2, run n g f [OFresh ch; OGet v (loc_of (c_kind cv0) i s)] = (f2, true) /\
    same_core f0 f2 /\ idx_ok f2 /\
    (forall x, x <> ch -> x <> v -> fget f2 x = fget f x) /\
    (exists c2, fget f2 ch = Some c2 /\ c_idx c2 = []) /\
    (forall cvf, fget f v = Some cvf -> exists cv2, fget f2 v = Some cv2 /\
        c_idx cv2 = match c_kind cv0 with KArr => aset (c_idx cvf) ch i | KMap => c_idx cvf end) /\
    (forall x, x <> ch -> complete f x -> complete f2 x).
Proof.
  intros Hwf Hsc Hidx E Hcv0. pose proof (proj1 Hwf) as HS.
  destruct (hooked_edge n g f0 HS _ _ _ _ _ E) as (c & cch0 & Hc & Hn & Hcch0 & Hu0 & _).
  rewrite Hcv0 in Hc. injection Hc as <-.
  assert (Hsv : s_val s = NChild ch w).
  { destruct E as (c1 & Hc1 & _ & Hv). auto. }
  assert (Hne : v <> ch).
  { intros ->. eapply no_self_edge; eauto. }
  destruct (same_core_get _ _ _ _ Hsc Hcv0) as (cvf & Hcvf & Hkv & Hsv' & Hiv & Hzv & Huv).
  destruct (same_core_get _ _ _ _ Hsc Hcch0) as (cchf & Hcchf & Hkc & Hsc' & Hic & Hzc & Huc).
  assert (Hucf : c_upd cchf = c_upd cch0).
  { destruct Huc as [?|(_ & Hna)]; auto. exfalso. apply Hna. exists v, i, s, w. exact E. }
  set (cfresh := with_idx (with_upd cchf None) []).
  set (F1 := fset f ch cfresh).
  set (cv2 := match c_kind cv0 with KArr => with_idx cvf (aset (c_idx cvf) ch i) | KMap => cvf end).
  set (U := mkUpd v (s_kid s) (slot_lim g (c_kind cv0) (s_ksz s) w) w).
  set (c2 := with_upd cfresh (Some U)).
  assert (E1 : step n g f (OFresh ch) = (F1, true)).
  { cbn [step]. unfold fresh_wrapper. now rewrite Hcchf. }
  assert (HF1v : fget F1 v = Some cvf).
  { unfold F1. rewrite fget_fset_ne; auto. }
  assert (Hnf : nth_error (c_slots cvf) i = Some s) by (rewrite Hsv'; exact Hn).
  assert (Hloc : match c_kind cvf with KArr => Some (N.to_nat (loc_of (c_kind cv0) i s)) | KMap => find_key (c_slots cvf) (loc_of (c_kind cv0) i s) end = Some i).
  { rewrite Hkv. destruct (c_kind cv0) eqn:Ek; cbn [loc_of].
    - now rewrite Nat2N.id.
    - rewrite Hsv'. apply find_key_nodup; auto. eapply st_keys; eauto. }
  assert (E2 : exists f2, step n g F1 (OGet v (loc_of (c_kind cv0) i s)) = (f2, true) /\
                 f_log f2 = f_log f /\
                 forall x, fget f2 x = if ch =? x then Some c2 else if v =? x then Some cv2 else fget f x).
  { cbn [step]. unfold get_child. rewrite HF1v, Hloc, Hnf. unfold set_callback. rewrite Hsv, HF1v.
    unfold cv2, c2, U. rewrite Hkv. destruct (c_kind cv0) eqn:Ek.
    - rewrite fget_fset_ne by auto. unfold F1 at 1. rewrite fget_fset_eq.
      eexists. split; [reflexivity|]. split; [reflexivity|].
      intros x. rewrite !fget_fset. unfold F1. rewrite fget_fset.
      destruct (ch =? x); auto.
    - unfold F1 at 1. rewrite fget_fset_eq.
      eexists. split; [reflexivity|]. split; [reflexivity|].
      intros x. rewrite fget_fset. unfold F1. rewrite fget_fset.
      destruct (N.eqb_spec ch x); auto. destruct (N.eqb_spec v x) as [<-|]; auto. }
  destruct E2 as (f2 & E2 & Hlog2 & Hget2).
  assert (Hg_ch : fget f2 ch = Some c2) by (rewrite Hget2, N.eqb_refl; reflexivity).
  assert (Hg_v : fget f2 v = Some cv2).
  { rewrite Hget2. destruct (N.eqb_spec ch v); [congruence|]. now rewrite N.eqb_refl. }
  assert (Hg_o : forall x, x <> ch -> x <> v -> fget f2 x = fget f x).
  { intros x H1 H2. rewrite Hget2. destruct (N.eqb_spec ch x); [congruence|]. destruct (N.eqb_spec v x); [congruence|auto]. }
  assert (Hcv2 : c_kind cv2 = c_kind cvf /\ c_slots cv2 = c_slots cvf /\ c_inl cv2 = c_inl cvf /\
                 c_csize cv2 = c_csize cvf /\ c_upd cv2 = c_upd cvf /\
                 c_idx cv2 = match c_kind cv0 with KArr => aset (c_idx cvf) ch i | KMap => c_idx cvf end).
  { unfold cv2. destruct (c_kind cv0); cbn; auto 10. }
  destruct Hcv2 as (K1 & K2 & K3 & K4 & K5 & K6).
  exists f2. split; [cbn [run]; rewrite E1, E2; reflexivity|].
  split; [|split; [|split; [exact Hg_o|split; [|split]]]].
  - (* same_core *)
    split; [rewrite Hlog2; apply Hsc|]. intros x.
    destruct (N.eq_dec x ch) as [->|Hxc].
    { rewrite Hcch0, Hg_ch. unfold c2, cfresh. cbn. repeat (split; [assumption|]). left.
      rewrite Hu0. unfold U, upd_for. reflexivity. }
    destruct (N.eq_dec x v) as [->|Hxv].
    { rewrite Hcv0, Hg_v. unfold core_eq_u. rewrite K1, K2, K3, K4, K5. auto 10. }
    rewrite Hg_o by auto. apply Hsc.
  - (* idx_ok *)
    intros x cx Hx.
    destruct (N.eq_dec x ch) as [->|Hxc].
    { rewrite Hg_ch in Hx. injection Hx as <-. unfold c2, cfresh. cbn. split; [intros ? ? []|auto]. }
    destruct (N.eq_dec x v) as [->|Hxv].
    { rewrite Hg_v in Hx. injection Hx as <-. rewrite K1, K2, K6. destruct (Hidx v cvf Hcvf) as [I1 I2]. split.
      - intros key j Hin. destruct (c_kind cv0) eqn:Ek; [|auto].
        apply In_aset in Hin as [(-> & ->)|Hin]; [eauto|auto].
      - intros Hk. rewrite <- Hkv, Hk. auto. }
    rewrite Hg_o in Hx by auto. exact (Hidx x cx Hx).
  - exists c2. split; auto.
  - intros cvf' Hcvf'. rewrite Hcvf in Hcvf'. injection Hcvf' as <-. exists cv2. auto.
  - (* completeness of the others *)
    intros x Hxc Hcx. destruct (N.eq_dec x v) as [->|Hxv].
    + intros cx j s' key w' Hx Hk Hnj Hvj. rewrite Hg_v in Hx. injection Hx as <-.
      rewrite K1 in Hk. rewrite K2 in Hnj. rewrite K6. rewrite <- Hkv, Hk.
      destruct (N.eq_dec key ch) as [->|Hkch].
      * rewrite Hsv' in Hnj. rewrite (slot_unique n g f0 v cv0 j s' ch w' i s w HS Hcv0 Hnj Hvj Hn Hsv).
        apply aget_aset_eq.
      * rewrite aget_aset_ne by auto. eapply Hcx; eauto.
    + eapply complete_ext; [|exact Hcx]. auto.
Qed.

(* ---------- the whole subtree ---------- *)
Section subtree.
  Variables (n : nat) (g : ncfg) (f0 : forest) (lvl : N -> nat).
  Hypothesis Hwf : fwf n g f0.
  Hypothesis Hl : forall p i s v w, edge f0 p i s v w -> (lvl p < lvl v)%nat.
  Hypothesis Hb : forall v, (lvl v < n)%nat.

  Definition sub_res (f : forest) (v : N) (ops : list nop) (f' : forest) : Prop :=
    run n g f ops = (f', true) /\ same_core f0 f' /\ idx_ok f' /\
    (forall x, (lvl x <= lvl v)%nat -> x <> v -> fget f' x = fget f x) /\
    (forall x, x <> v -> complete f x -> complete f' x).

  (* the slots of v from position [length pre] on *)
  Lemma slots_ok d' v cv0 :
    (forall f ch, same_core f0 f -> idx_ok f -> (n <= d' + lvl ch)%nat ->
        exists f', sub_res f ch (rehandle_children d' f0 ch) f' /\ complete f' ch) ->
    fget f0 v = Some cv0 ->
    forall l pre f, c_slots cv0 = pre ++ l -> same_core f0 f -> idx_ok f -> (n <= S d' + lvl v)%nat ->
    exists f', sub_res f v (rehandle_slots (rehandle_children d' f0) v (c_kind cv0) (length pre) l) f' /\
      (forall cvf cvf', fget f v = Some cvf -> fget f' v = Some cvf' -> c_kind cv0 = KArr ->
         forall j s key w, nth_error (c_slots cv0) j = Some s -> s_val s = NChild key w ->
           (length pre <= j)%nat \/ aget (c_idx cvf) key = Some j -> aget (c_idx cvf') key = Some j).
  Proof.
    intros IH Hcv0. pose proof (proj1 Hwf) as HS.
    induction l as [|s0 r IHl]; intros pre f Hsl Hsc Hidx Hfuel.
    - exists f. split.
      + split; [reflexivity|]. split; [auto|]. split; [auto|]. split; auto.
      + intros cvf cvf' H1 H2 _ j s key w Hn Hv [Hj|Hj].
        * rewrite Hsl, app_nil_r in Hn. assert (j < length pre)%nat by (apply nth_error_Some; congruence). lia.
        * rewrite H1 in H2. injection H2 as <-. exact Hj.
    - assert (Hsl' : c_slots cv0 = (pre ++ [s0]) ++ r) by (rewrite <- app_assoc; exact Hsl).
      assert (Hlen : length (pre ++ [s0]) = S (length pre)) by (rewrite app_length; cbn; lia).
      assert (Hn0 : nth_error (c_slots cv0) (length pre) = Some s0).
      { rewrite Hsl, nth_error_app2 by lia. now rewrite Nat.sub_diag. }
      cbn [rehandle_slots]. destruct (s_val s0) as [id z|ch w0] eqn:Ev0.
      + (* scalar *)
        cbn [app]. destruct (IHl (pre ++ [s0]) f Hsl' Hsc Hidx Hfuel) as (f' & R & B).
        rewrite Hlen in R. exists f'. split; [exact R|].
        intros cvf cvf' H1 H2 Hk j s key w Hn Hv [Hj|Hj]; eapply B; eauto.
        destruct (Nat.eq_dec j (length pre)) as [->|]; [|left; lia].
        rewrite Hn0 in Hn. injection Hn as <-. congruence.
      + (* child ch *)
        assert (E : edge f0 v (length pre) s0 ch w0) by (exists cv0; auto).
        pose proof (Hl _ _ _ _ _ E) as Hlv.
        assert (Hvc : v <> ch) by (intros ->; lia).
        destruct (pair_step n g f0 f v (length pre) s0 ch w0 cv0 Hwf Hsc Hidx E Hcv0)
          as (f2 & R2 & Hsc2 & Hidx2 & Fr2 & (c2 & Hc2 & Hi2) & V2 & C2).
        destruct (IH f2 ch Hsc2 Hidx2) as (f3 & (R3 & Hsc3 & Hidx3 & Fr3 & C3) & Cch); [lia|].
        destruct (IHl (pre ++ [s0]) f3 Hsl' Hsc3 Hidx3 Hfuel) as (f' & (R4 & Hsc4 & Hidx4 & Fr4 & C4) & B4).
        rewrite Hlen in R4. exists f'. split; [split; [|split; [auto|split; [auto|split]]]|].
        * change (OFresh ch :: OGet v (loc_of (c_kind cv0) (length pre) s0) :: rehandle_children d' f0 ch)
            with ([OFresh ch; OGet v (loc_of (c_kind cv0) (length pre) s0)] ++ rehandle_children d' f0 ch).
          rewrite <- app_assoc. eapply run_app_ok; [exact R2|]. eapply run_app_ok; eauto.
        * intros x Hx Hxv. assert (x <> ch) by (intros ->; lia).
          rewrite Fr4, Fr3, Fr2; auto. lia.
        * intros x Hxv Hcx. apply C4; auto. destruct (N.eq_dec x ch) as [->|Hxc]; [exact Cch|].
          apply C3; auto.
        * intros cvf cvf' H1 H2 Hk j s key w Hn Hv Hj.
          destruct (V2 cvf H1) as (cv2 & Hcv2 & Hi). rewrite Hk in Hi.
          assert (Hcv3 : fget f3 v = Some cv2) by (rewrite Fr3; auto; lia).
          eapply (B4 cv2 cvf' Hcv3 H2 Hk j s key w Hn Hv). rewrite Hlen, Hi.
          destruct Hj as [Hj|Hj].
          -- destruct (Nat.eq_dec j (length pre)) as [->|]; [|left; lia].
             rewrite Hn0 in Hn. injection Hn as <-. rewrite Ev0 in Hv. injection Hv as <- <-.
             right. apply aget_aset_eq.
          -- right. destruct (N.eq_dec key ch) as [->|Hkc].
             ++ assert (Hidxf : In (ch, j) (c_idx cvf)) by now apply aget_In.
                rewrite (slot_unique n g f0 v cv0 j s ch w (length pre) s0 w0 HS Hcv0 Hn Hv Hn0 Ev0).
                apply aget_aset_eq.
             ++ rewrite aget_aset_ne; auto.
  Qed.

  Lemma children_ok : forall d f v, same_core f0 f -> idx_ok f -> (n <= d + lvl v)%nat ->
    exists f', sub_res f v (rehandle_children d f0 v) f' /\ complete f' v.
  Proof.
    induction d as [|d' IH]; intros f v Hsc Hidx Hfuel.
    - specialize (Hb v). lia.
    - cbn [rehandle_children]. destruct (fget f0 v) as [cv0|] eqn:Hcv0.
      + destruct (slots_ok d' v cv0 IH Hcv0 (c_slots cv0) [] f eq_refl Hsc Hidx Hfuel) as (f' & R & B).
        exists f'. split; [exact R|].
        intros c i s key w Hc Hk Hn Hv. destruct R as (_ & Hsc' & _).
        destruct (same_core_get' _ _ _ _ Hsc' Hc) as (c0 & Hc0 & Hk0 & Hs0 & _).
        rewrite Hcv0 in Hc0. injection Hc0 as <-.
        destruct (same_core_get _ _ _ _ Hsc Hcv0) as (cvf & Hcvf & _).
        eapply (B cvf c Hcvf Hc); eauto; try congruence. left. cbn. lia.
      + exists f. split; [split; [reflexivity|]; auto 10|].
        intros c i s key w Hc. rewrite (same_core_none _ _ _ Hsc Hcv0) in Hc. discriminate.
  Qed.
End subtree.

(* ---------- the composite operation ---------- *)
Theorem rehandle_fwf n g f v par :
  fwf n g f -> hop_ok n f (HRehandle v par) ->
  exists f', hstep n g f (HRehandle v par) = (f', true) /\ fwf n g f' /\ forest_equiv f f'.
Proof.
  intros Hwf ((cv & Hcv) & Hpar). pose proof (proj1 Hwf) as HS.
  destruct (st_ranked _ _ _ HS) as (lvl & Hl & Hb).
  pose proof (proj1 (proj2 Hwf)) as Hidx.
  cbn [hstep]. unfold rehandle_ops.
  assert (K : forall f2, same_core f f2 -> idx_ok f2 -> (forall x, x <> v -> complete f2 x) ->
              forall pre, run n g f pre = (f2, true) ->
              exists f', run n g f (pre ++ rehandle_children n f v) = (f', true) /\ fwf n g f' /\ forest_equiv f f').
  { intros f2 Hsc2 Hidx2 Hc2 pre Hrun.
    destruct (children_ok n g f lvl Hwf Hl Hb n f2 v Hsc2 Hidx2) as (f' & (R & Hsc' & Hidx' & _ & C) & Cv); [lia|].
    exists f'. split; [eapply run_app_ok; eauto|].
    assert (Hwf' : fwf n g f').
    { eapply fwf_from_core; eauto. intros x. destruct (N.eq_dec x v) as [->|]; auto. }
    split; [exact Hwf'|]. eapply equiv_of_core; eauto. }
  destruct par as [[p loc]|].
  - destruct Hpar as (i & s & w & c & E & Hc & ->).
    destruct (pair_step n g f f p i s v w c Hwf (same_core_refl f) Hidx E Hc)
      as (f2 & R2 & Hsc2 & Hidx2 & _ & _ & _ & C2).
    change (OFresh v :: [OGet p (loc_of (c_kind c) i s)] ++ rehandle_children n f v)
      with ([OFresh v; OGet p (loc_of (c_kind c) i s)] ++ rehandle_children n f v).
    eapply K; eauto. intros x Hx. apply C2; auto. eapply fwf_complete; eauto.
  - cbn [app].
    set (f1 := fset f v (with_idx (with_upd cv None) [])).
    assert (R1 : run n g f [OFresh v] = (f1, true)).
    { cbn [run step]. unfold fresh_wrapper. rewrite Hcv. reflexivity. }
    change (OFresh v :: rehandle_children n f v) with ([OFresh v] ++ rehandle_children n f v).
    eapply (K f1); eauto.
    + split; [reflexivity|]. intros x. unfold f1. rewrite fget_fset.
      destruct (N.eqb_spec v x) as [<-|].
      * rewrite Hcv. cbn. unfold core_eq_u. cbn. auto 10.
      * destruct (fget f x); auto. apply core_eq_u_refl.
    + intros x cx. unfold f1. rewrite fget_fset. destruct (N.eqb_spec v x) as [<-|].
      * intros [= <-]. cbn. split; [intros ? ? []|auto].
      * apply Hidx.
    + intros x Hx. eapply complete_ext; [|eapply fwf_complete; eauto].
      unfold f1. rewrite fget_fset_ne; auto.
Qed.

Lemma hstep_fwf n g f h f' ok :
  fwf n g f -> hop_ok n f h -> hstep n g f h = (f', ok) -> ok = true /\ fwf n g f'.
Proof.
  intros Hwf Hok Hstep. destruct h as [o|v par].
  - eapply step_fwf; eauto.
  - destruct (rehandle_fwf n g f v par Hwf Hok) as (f2 & H2 & Hwf2 & _).
    rewrite H2 in Hstep. injection Hstep as <- <-. auto.
Qed.

Theorem reach'_fwf n g f : (0 < n)%nat -> reach' n g f -> fwf n g f.
Proof.
  intros Hn H. induction H.
  - now apply empty_fwf.
  - destruct (hstep_fwf _ _ _ _ _ _ IHreach' H0 H1). auto.
Qed.

Lemma reach_reach' n g f : reach n g f -> reach' n g f.
Proof.
  intros H. induction H; [constructor|]. eapply (reach'_step n g f (HOp o)); eauto.
Qed.

(* ---------- C18 over the larger language ---------- *)
Lemma hstep_pre n g f h f' ok :
  fwf n g f -> hreq_pre n f h -> hstep n g f h = (f', ok) -> fwf n g f' /\ (ok = false -> f' = f).
Proof.
  intros Hwf Hpre Hstep. destruct h as [o|v par].
  - cbn [hstep hreq_pre] in *. pose proof (step_pre_fwf n g f o Hwf Hpre) as H. rewrite Hstep in H. split; [exact H|].
    intros ->. now destruct (nested_no_trace _ _ _ _ _ Hwf Hpre Hstep).
  - destruct (hstep_fwf _ _ _ _ _ _ Hwf Hpre Hstep) as [-> H]. split; [exact H|discriminate].
Qed.

Theorem nested_history_fresh n g : forall hs f, fwf n g f -> hhist_pre n g f hs ->
  fst (hrun_all n g f (hkeep_accepted n g f hs)) = fst (hrun_all n g f hs) /\
  snd (hrun_all n g f (hkeep_accepted n g f hs)) = filter (fun b => b) (snd (hrun_all n g f hs)) /\
  fwf n g (fst (hrun_all n g f hs)).
Proof.
  induction hs as [|h r IH]; intros f Hwf Hpre.
  - cbn. auto.
  - destruct Hpre as [Hp Hr]. cbn [hrun_all hkeep_accepted].
    destruct (hstep n g f h) as [f1 ok] eqn:Hstep. cbn [fst] in Hr.
    destruct (hstep_pre _ _ _ _ _ _ Hwf Hp Hstep) as [Hwf1 Hid].
    destruct (IH f1 Hwf1 Hr) as (A & B & D).
    destruct ok.
    + cbn [hrun_all]. rewrite Hstep.
      destruct (hrun_all n g f1 (hkeep_accepted n g f1 r)) as [f2 oks].
      destruct (hrun_all n g f1 r) as [f3 oks']. cbn [fst snd filter] in *. subst. auto.
    + rewrite (Hid eq_refl) in *.
      destruct (hrun_all n g f (hkeep_accepted n g f r)) as [f2 oks].
      destruct (hrun_all n g f r) as [f3 oks']. cbn [fst snd filter] in *. auto.
Qed.
