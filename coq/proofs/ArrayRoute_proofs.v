(* ArrayRoute_proofs.v — T1/T2 of the array-tree development:
   counts agree with contents; routing (ArrayMetaDataSlab.childSlabIndexInfo: linear scan and the
   binary search with early exit) finds the child that holds a position; positional reads
   ([n_get]) agree with sequential traversal ([to_list]). *)
From Coq Require Import ZArith NArith List Bool Lia ZifyBool ZifyN ZifyNat.
From AtreeGen Require Import Consts.
From AtreeModel Require Import Settings ArrayTree ArrayInv.
From AtreeProofs Require Import Settings_proofs ArrayList_lemmas Rebalance_proofs.
Import ListNotations.
Local Open Scope N_scope.
Ltac Zify.zify_post_hook ::= Z.div_mod_to_equations.

(** * Counts *)
Lemma kids_length c d cs :
  (forall n, wfn c d n -> N.of_nat (length (to_list n)) = h_count (hdr_of n)) ->
  Forall (wfn c d) cs -> N.of_nat (length (flat_map to_list cs)) = sum_cnt (map hdr_of cs).
Proof.
  intros IH H. induction H as [|a r Ha Hr IHr]; cbn [flat_map map sum_cnt length]; [reflexivity|].
  rewrite app_length, <- (IH a Ha). lia.
Qed.
Lemma wfn_length c d : forall n, wfn c d n -> N.of_nat (length (to_list n)) = h_count (hdr_of n).
Proof.
  induction d as [|d IH]; intros n H.
  - apply wfn_0_inv in H. destruct H as (h & nx & es & -> & _ & Hc & _). cbn [to_list hdr_of]. lia.
  - apply wfn_S_inv in H. destruct H as (h & hs & sums & cs & -> & Hw & _ & -> & _ & Hc & _).
    cbn [to_list hdr_of]. rewrite Hc. apply (kids_length c d); assumption.
Qed.
Lemma kids_length' c d cs :
  Forall (wfn c d) cs -> N.of_nat (length (flat_map to_list cs)) = sum_cnt (map hdr_of cs).
Proof. apply kids_length, wfn_length. Qed.

Lemma nth_N_eq {A} (l : list A) i : nth_N l i = nth_error l (N.to_nat i).
Proof.
  unfold nth_N. destruct (N.of_nat (length l) <=? i) eqn:H; [|reflexivity].
  symmetry. apply nth_error_None. lia.
Qed.

(** * Routing on a strictly increasing list of running sums *)
Definition mono (sums : list N) : Prop :=
  forall a b, (a < b < length sums)%nat -> nth a sums 0 < nth b sums 0.
Definition is_route (sums : list N) (i : N) (k : nat) : Prop :=
  (k < length sums)%nat /\ (forall t, (t < k)%nat -> nth t sums 0 <= i) /\ i < nth k sums 0.

Lemma is_route_unique sums i k k' : is_route sums i k -> is_route sums i k' -> k = k'.
Proof.
  intros (L1 & A1 & B1) (L2 & A2 & B2).
  destruct (Nat.lt_trichotomy k k') as [H|[H|H]]; [|exact H|].
  - specialize (A2 k H). lia.
  - specialize (A1 k' H). lia.
Qed.

Lemma scan_is_route : forall sums i k0,
  (exists t, (t < length sums)%nat /\ i < nth t sums 0) ->
  exists k, scan sums i k0 = Some (k0 + k)%nat /\ is_route sums i k.
Proof.
  induction sums as [|s r IH]; intros i k0 (t & Ht & Hi); cbn [length] in Ht; [lia|].
  cbn [scan]. destruct (i <? s) eqn:Hs.
  - exists 0%nat. split; [f_equal; lia|]. repeat split; cbn [length nth]; [lia| |lia]. intros; lia.
  - destruct t as [|t]; cbn [nth] in Hi; [lia|].
    assert (Ht' : (t < length r)%nat) by lia.
    destruct (IH i (S k0) (ex_intro _ t (conj Ht' Hi))) as (k & Hk & L & A & B).
    exists (S k). split; [rewrite Hk; f_equal; lia|].
    repeat split; cbn [length nth]; [lia| |exact B].
    intros [|u] Hu; [lia|]. apply A. lia.
Qed.

Lemma bsearch_is_route sums i : mono sums ->
  (exists t, (t < length sums)%nat /\ i < nth t sums 0) ->
  forall fuel low high,
  (low <= high <= length sums)%nat -> (high - low < fuel)%nat ->
  (forall t, (t < low)%nat -> nth t sums 0 <= i) ->
  (forall t, (high <= t < length sums)%nat -> i < nth t sums 0) ->
  is_route sums i (bsearch fuel sums i low high).
Proof.
  intros Hm (t0 & Ht0 & Hi0).
  assert (Hweak : forall a b, (a <= b < length sums)%nat -> nth a sums 0 <= nth b sums 0).
  { intros a b Hab. destruct (Nat.eq_dec a b) as [->|Hne]; [lia|]. specialize (Hm a b ltac:(lia)). lia. }
  induction fuel as [|f IH]; intros low high Hlh Hf Hlo Hhi; [lia|].
  cbn [bsearch]. destruct (Nat.ltb low high) eqn:Hlt.
  - apply Nat.ltb_lt in Hlt.
    set (mid := Nat.div2 (low + high)).
    assert (Hmid : (low <= mid < high)%nat) by (subst mid; rewrite div2_half; lia).
    destruct (nth mid sums 0 <? i) eqn:H1.
    + apply IH; [lia|lia| |exact Hhi].
      intros t Ht. specialize (Hweak t mid ltac:(lia)). lia.
    + destruct (i <? nth mid sums 0) eqn:H2.
      * apply IH; [lia|lia|exact Hlo|].
        intros t Ht. specialize (Hweak mid t ltac:(lia)). lia.
      * assert (Heq : nth mid sums 0 = i) by lia.
        assert (Hlt0 : (mid < t0)%nat).
        { destruct (Nat.lt_ge_cases mid t0) as [H|H]; [exact H|].
          specialize (Hweak t0 mid ltac:(lia)). lia. }
        repeat split; [lia| |].
        -- intros t Ht. specialize (Hweak t mid ltac:(lia)). lia.
        -- specialize (Hm mid (S mid) ltac:(lia)). lia.
  - apply Nat.ltb_ge in Hlt. assert (low = high) by lia. subst high.
    assert (Hl0 : (low <= t0)%nat).
    { destruct (Nat.lt_ge_cases t0 low) as [H|H]; [|exact H]. specialize (Hlo t0 H). lia. }
    repeat split; [lia|exact Hlo|]. apply Hhi. lia.
Qed.

Lemma route_index_is_route sums i : mono sums ->
  (exists t, (t < length sums)%nat /\ i < nth t sums 0) ->
  is_route sums i (route_index sums i).
Proof.
  intros Hm Hex. unfold route_index.
  destruct (Nat.ltb (length sums) (N.to_nat c_linearScanThreshold)).
  - destruct (scan_is_route sums i 0%nat Hex) as (k & -> & Hk). exact Hk.
  - apply bsearch_is_route; auto; try lia; intros t Ht; lia.
Qed.

(* the linear scan and the binary search agree *)
Lemma scan_bsearch_agree sums i : mono sums ->
  (exists t, (t < length sums)%nat /\ i < nth t sums 0) ->
  scan sums i 0 = Some (bsearch (S (length sums)) sums i 0 (length sums)).
Proof.
  intros Hm Hex. destruct (scan_is_route sums i 0%nat Hex) as (k & -> & Hk). f_equal. cbn [Nat.add].
  eapply is_route_unique; [exact Hk|].
  apply bsearch_is_route; auto; try lia; intros t Ht; lia.
Qed.

(** running sums of non-empty children are strictly increasing *)
Lemma psums_nth_gt_base : forall hs b t,
  Forall (fun h => 1 <= h_count h) hs -> (t < length hs)%nat -> b < nth t (psums b hs) 0.
Proof.
  induction hs as [|h r IH]; intros b t HF Ht; cbn [length] in Ht; [lia|].
  pose proof (Forall_inv HF) as H1. pose proof (Forall_inv_tail HF) as HF'. cbn beta in H1.
  destruct t as [|t]; cbn [psums nth]; [lia|].
  specialize (IH (b + h_count h) t HF' ltac:(lia)). lia.
Qed.
Lemma psums_mono : forall hs b, Forall (fun h => 1 <= h_count h) hs -> mono (psums b hs).
Proof.
  induction hs as [|h r IH]; intros b HF x y Hxy; rewrite psums_length in Hxy; cbn [length] in Hxy; [lia|].
  pose proof (Forall_inv_tail HF) as HF'.
  destruct y as [|y]; [lia|]. destruct x as [|x]; cbn [psums nth].
  - apply psums_nth_gt_base; [exact HF'|lia].
  - apply (IH (b + h_count h) HF'). rewrite psums_length. lia.
Qed.

Lemma is_route_psums_dec hpre hk hpost i :
  is_route (psums 0 (hpre ++ hk :: hpost)) i (length hpre) ->
  sum_cnt hpre <= i /\ i < sum_cnt hpre + h_count hk.
Proof.
  intros (L & A & B). rewrite psums_cons_app in A, B. split.
  - destruct (length hpre) as [|k'] eqn:Hk.
    + destruct hpre; [cbn; lia|discriminate].
    + specialize (A k' ltac:(lia)).
      rewrite app_nth1 in A by (rewrite psums_length; lia).
      rewrite psums_nth in A by lia. rewrite <- Hk, firstn_all in A. lia.
  - rewrite app_nth2 in B by (rewrite psums_length; lia).
    rewrite psums_length, Nat.sub_diag in B. cbn [nth] in B. lia.
Qed.

Section WithT.
Variable T : N.
Hypothesis HT : valid_T T.
Local Notation c := (set_threshold T).

(* a slab inside the band is not empty *)
Lemma wfn_count_pos : forall d n, wfn c d n -> in_band c n -> 1 <= h_count (hdr_of n).
Proof.
  induction d as [|d IH]; intros n Hw Hb.
  - destruct (wfn_0_inv _ _ Hw) as (h & nx & es & -> & _ & Hc & _).
    pose proof (in_band_data_nonempty T HT h nx es Hw Hb). cbn [hdr_of]. lia.
  - destruct (wfn_S_inv _ _ _ Hw) as (h & hs & sums & cs & -> & Hws & Hbs & -> & _ & Hc & _).
    pose proof (in_band_index_two T HT d h _ _ cs Hw Hb) as H2. cbn [hdr_of]. rewrite Hc.
    destruct cs as [|ch r]; cbn [length] in H2; [lia|]. cbn [map sum_cnt].
    specialize (IH ch (Forall_inv Hws) (Forall_inv Hbs)). lia.
Qed.
Lemma kids_count_pos d cs : Forall (wfn c d) cs -> Forall (in_band c) cs ->
  Forall (fun h => 1 <= h_count h) (map hdr_of cs).
Proof.
  intros Hw Hb. apply Forall_map. rewrite Forall_forall in *. intros x Hx.
  apply (wfn_count_pos d); auto.
Qed.

(** T1 *)
Lemma route_spec d h hs sums cs i :
  wfn c (S d) (AM h hs sums cs) -> i < h_count h ->
  exists pre ch post j, cs = pre ++ ch :: post /\ route hs sums i = Some (length pre, j) /\
    i = sum_cnt (map hdr_of pre) + j /\ j < h_count (hdr_of ch).
Proof.
  intros Hw Hi. apply wfn_AM_inv in Hw. destruct Hw as (d' & [= <-] & Hws & Hbs & -> & -> & Hc & _).
  set (hs := map hdr_of cs) in *.
  assert (Hm : mono (psums 0 hs)) by (apply psums_mono, (kids_count_pos d); assumption).
  assert (Hne : hs <> []) by (intros E; rewrite E in Hc; cbn in Hc; lia).
  assert (Hex : exists t, (t < length (psums 0 hs))%nat /\ i < nth t (psums 0 hs) 0).
  { exists (pred (length hs)). rewrite psums_length.
    assert (0 < length hs)%nat by (destruct hs; [congruence|cbn; lia]).
    split; [lia|]. rewrite psums_nth by lia.
    replace (S (pred (length hs))) with (length hs) by lia. rewrite firstn_all. lia. }
  pose proof (route_index_is_route _ i Hm Hex) as Hr.
  unfold route. remember (route_index (psums 0 hs) i) as k eqn:Hkdef. clear Hkdef.
  assert (Hk : (k < length cs)%nat).
  { destruct Hr as (L & _). rewrite psums_length in L. subst hs. rewrite map_length in L. exact L. }
  destruct (nth_error cs k) as [ch|] eqn:Hch; [|apply nth_error_None in Hch; lia].
  destruct (nth_error_split _ _ Hch) as (pre & post & Hcs & Hlen).
  exists pre, ch, post. subst k.
  assert (Hhs : hs = map hdr_of pre ++ hdr_of ch :: map hdr_of post).
  { subst hs. rewrite Hcs, map_app. reflexivity. }
  assert (Hlen' : length (map hdr_of pre) = length pre) by apply map_length.
  clearbody hs. subst hs.
  rewrite <- Hlen' in Hr. apply is_route_psums_dec in Hr. destruct Hr as (R1 & R2).
  exists (i - sum_cnt (map hdr_of pre)). split; [exact Hcs|]. split; [|lia].
  rewrite <- Hlen' at 1. rewrite nth_error_app2, Nat.sub_diag by lia. cbn [nth_error].
  rewrite psums_cons_app. rewrite <- Hlen' at 1. rewrite <- (psums_length 0 (map hdr_of pre)) at 1.
  rewrite nth_error_app2, Nat.sub_diag by lia. cbn [nth_error].
  f_equal. f_equal. lia.
Qed.

(* the last child, used by Insert at the end *)
Lemma last_child_spec d h hs sums cs :
  wfn c (S d) (AM h hs sums cs) -> cs <> [] ->
  exists pre ch,
    cs = pre ++ [ch] /\
    match length hs with
    | O => None
    | S k => match nth_error hs k with Some hh => Some (k, h_count hh) | None => None end
    end = Some (length pre, h_count (hdr_of ch)) /\
    h_count h = sum_cnt (map hdr_of pre) + h_count (hdr_of ch).
Proof.
  intros Hw Hne. apply wfn_AM_inv in Hw. destruct Hw as (d' & _ & _ & _ & -> & _ & Hc & _).
  destruct (exists_last Hne) as (pre & ch & ->). exists pre, ch. split; [reflexivity|].
  rewrite map_app, app_length. cbn [map length]. rewrite Nat.add_1_r, map_length.
  rewrite <- (map_length hdr_of pre) at 1. rewrite nth_error_app2, Nat.sub_diag by lia. cbn [nth_error].
  split; [reflexivity|]. rewrite Hc, map_app, sum_cnt_app. cbn. lia.
Qed.

(** T2: positional reads agree with sequential traversal *)
Lemma n_get_AM h hs sums cs i :
  n_get (AM h hs sums cs) i =
  if h_count h <=? i then Err EIndexOOB
  else match route hs sums i with
       | None => Err EPanic
       | Some (k, j) =>
         match on_kth (fun ch => n_get ch j) cs k with Some r => r | None => Err ESlabNotFound end
       end.
Proof. reflexivity. Qed.

Lemma to_list_mid pre ch post :
  flat_map to_list (pre ++ ch :: post) = flat_map to_list pre ++ to_list ch ++ flat_map to_list post.
Proof. rewrite flat_map_app. reflexivity. Qed.

Theorem n_get_refines : forall d n i, wfn c d n ->
  n_get n i = match nth_error (to_list n) (N.to_nat i) with Some e => Ok e | None => Err EIndexOOB end.
Proof.
  induction d as [|d IH]; intros n i Hw.
  - destruct (wfn_0_inv _ _ Hw) as (h & nx & es & -> & _). cbn [n_get to_list].
    rewrite nth_N_eq. reflexivity.
  - pose proof (wfn_length _ _ _ Hw) as Hlen.
    destruct (wfn_S_inv _ _ _ Hw) as (h & hs & sums & cs & -> & Hws & Hbs & Hhs & Hsums & Hc & Hs).
    rewrite n_get_AM. cbn [to_list hdr_of] in *.
    destruct (h_count h <=? i) eqn:Hi.
    + replace (nth_error (flat_map to_list cs) (N.to_nat i)) with (@None elem); [reflexivity|].
      symmetry. apply nth_error_None. lia.
    + destruct (route_spec d h hs sums cs i Hw ltac:(lia)) as (pre & ch & post & j & Hcs & Hr & Hij & Hj).
      rewrite Hr, on_kth_spec. subst cs.
      rewrite nth_error_app2, Nat.sub_diag by lia. cbn [nth_error option_map].
      apply Forall_app in Hws. destruct Hws as (Hwpre & Hwch).
      pose proof (Forall_inv Hwch) as Hwc.
      rewrite (IH ch j Hwc). rewrite to_list_mid.
      pose proof (kids_length' _ _ _ Hwpre) as Hpl. pose proof (wfn_length _ _ _ Hwc) as Hcl.
      replace (N.to_nat i) with (length (flat_map to_list pre) + N.to_nat j)%nat by lia.
      rewrite nth_error_mid by lia. reflexivity.
Qed.

End WithT.
