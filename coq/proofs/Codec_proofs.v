(* Codec_proofs.v — lemmas about the byte-level slab codec model (theories/Codec.v).
   Part 1: primitives ("the decoder consumes exactly what the encoder produced and leaves the rest",
           one lemma per syntactic category; append-stability of the readers)
   Part 2: storables, map elements
   Part 3: slabs: round trip, sizes, flags, trailing bytes, canonical form of index slabs *)
From Coq Require Import ZArith NArith List Bool Lia ZifyBool ZifyN ZifyNat.
From AtreeGen Require Import Consts CodecConsts.
From AtreeModel Require Import Codec.
Import ListNotations.
Local Open Scope N_scope.
Ltac Zify.zify_post_hook ::= Z.div_mod_to_equations.

(* ====================================================================== *)
(* Part 1: primitives                                                     *)
(* ====================================================================== *)

Lemma lenN_app {A} (a b : list A) : lenN (a ++ b) = lenN a + lenN b.
Proof. unfold lenN. rewrite app_length. lia. Qed.
Lemma lenN_cons {A} (x : A) (l : list A) : lenN (x :: l) = 1 + lenN l.
Proof. unfold lenN. cbn [length]. lia. Qed.
Lemma lenN_nil {A} : lenN (@nil A) = 0.
Proof. reflexivity. Qed.

Lemma sumN_app a b : sumN (a ++ b) = sumN a + sumN b.
Proof. induction a as [|x a IH]; cbn [app sumN fold_right]; [reflexivity|]. fold (sumN (a ++ b)). fold (sumN a). lia. Qed.

Lemma lenN_flat_map {A} (f : A -> bytes) (g : A -> N) (l : list A) :
  (forall a, In a l -> lenN (f a) = g a) -> lenN (flat_map f l) = sumN (map g l).
Proof.
  induction l as [|x l IH]; intros H; [reflexivity|].
  cbn [flat_map map sumN fold_right]. rewrite lenN_app, H by (left; reflexivity).
  fold (sumN (map g l)). rewrite IH; [reflexivity|]. intros a Ha. apply H. right. exact Ha.
Qed.

Lemma sumN_const {A} (l : list A) (c : N) : sumN (map (fun _ => c) l) = c * lenN l.
Proof.
  induction l as [|x l IH]; [cbn; lia|].
  cbn [map sumN fold_right]. fold (sumN (map (fun _ : A => c) l)). rewrite IH, lenN_cons. lia.
Qed.

(* ---------- big-endian ---------- *)

Lemma rd16_be16 n r : n < 65536 -> rd16 (be16 n ++ r) = Some (n, r).
Proof. intros H. cbn. f_equal. f_equal. lia. Qed.
Lemma rd32_be32 n r : n < 4294967296 -> rd32 (be32 n ++ r) = Some (n, r).
Proof. intros H. cbn. f_equal. f_equal. lia. Qed.
Lemma rd64_be64 n r : n < 18446744073709551616 -> rd64 (be64 n ++ r) = Some (n, r).
Proof.
  intros H. unfold rd64, be64. rewrite <- app_assoc.
  rewrite rd32_be32 by lia. rewrite rd32_be32 by lia. f_equal. f_equal. lia.
Qed.

Lemma be16_len n : lenN (be16 n) = 2. Proof. reflexivity. Qed.
Lemma be32_len n : lenN (be32 n) = 4. Proof. reflexivity. Qed.
Lemma be64_len n : lenN (be64 n) = 8. Proof. reflexivity. Qed.

Lemma be16_ok n : n < 65536 -> bytes_ok (be16 n).
Proof. intros; repeat constructor; unfold byte_ok; lia. Qed.
Lemma be32_ok n : n < 4294967296 -> bytes_ok (be32 n).
Proof. intros; repeat constructor; unfold byte_ok; lia. Qed.
Lemma be64_ok n : n < 18446744073709551616 -> bytes_ok (be64 n).
Proof. intros. unfold be64. apply Forall_app. split; apply be32_ok; lia. Qed.

(* reading then writing gives back well-formed bytes *)
Lemma be16_rd16 l n r : bytes_ok l -> rd16 l = Some (n, r) -> l = be16 n ++ r /\ n < 65536.
Proof.
  intros Hok H. destruct l as [|a [|b l]]; try discriminate. cbn in H. inversion H; subst; clear H.
  inversion Hok as [|? ? Ha Hok1]; subst. inversion Hok1 as [|? ? Hb _]; subst.
  unfold byte_ok in *. cbn. split; [|lia]. f_equal; [lia|]. f_equal. lia.
Qed.
Lemma be32_rd32 l n r : bytes_ok l -> rd32 l = Some (n, r) -> l = be32 n ++ r /\ n < 4294967296.
Proof.
  intros Hok H. destruct l as [|a [|b [|c [|d l]]]]; try discriminate. cbn in H. inversion H; subst; clear H.
  inversion Hok as [|? ? Ha Hok1]; subst. inversion Hok1 as [|? ? Hb Hok2]; subst.
  inversion Hok2 as [|? ? Hc Hok3]; subst. inversion Hok3 as [|? ? Hd _]; subst.
  unfold byte_ok in *. cbn. split; [|lia]. repeat (f_equal; try lia).
Qed.
Lemma bytes_ok_rd32_rest l n r : bytes_ok l -> rd32 l = Some (n, r) -> bytes_ok r.
Proof.
  intros Hok H. destruct l as [|a [|b [|c [|d l]]]]; try discriminate. cbn in H. inversion H; subst.
  inversion Hok as [|? ? _ K1]; subst. inversion K1 as [|? ? _ K2]; subst. inversion K2 as [|? ? _ K3]; subst.
  inversion K3; subst; assumption.
Qed.
Lemma be64_rd64 l n r : bytes_ok l -> rd64 l = Some (n, r) -> l = be64 n ++ r /\ n < 18446744073709551616.
Proof.
  intros Hok H. unfold rd64 in H.
  destruct (rd32 l) as [[hi r1]|] eqn:E1; [|discriminate].
  destruct (rd32 r1) as [[lo r2]|] eqn:E2; [|discriminate]. inversion H; subst; clear H.
  pose proof (bytes_ok_rd32_rest _ _ _ Hok E1) as Hok1.
  destruct (be32_rd32 _ _ _ Hok E1) as [-> Hhi]. destruct (be32_rd32 _ _ _ Hok1 E2) as [-> Hlo].
  split; [|lia]. unfold be64. rewrite <- app_assoc.
  replace ((hi * 4294967296 + lo) / 4294967296) with hi by lia.
  replace ((hi * 4294967296 + lo) mod 4294967296) with lo by lia. reflexivity.
Qed.
Lemma bytes_ok_rd16_rest l n r : bytes_ok l -> rd16 l = Some (n, r) -> bytes_ok r.
Proof.
  intros Hok H. destruct l as [|a [|b l]]; try discriminate. cbn in H. inversion H; subst.
  inversion Hok as [|? ? _ K1]; subst. inversion K1; subst; assumption.
Qed.
Lemma bytes_ok_rd64_rest l n r : bytes_ok l -> rd64 l = Some (n, r) -> bytes_ok r.
Proof.
  intros Hok H. unfold rd64 in H.
  destruct (rd32 l) as [[hi r1]|] eqn:E1; [|discriminate].
  destruct (rd32 r1) as [[lo r2]|] eqn:E2; [|discriminate]. inversion H; subst.
  eapply bytes_ok_rd32_rest; [|exact E2]. eapply bytes_ok_rd32_rest; eassumption.
Qed.

(* append-stability *)
Lemma rd16_app l n r x : rd16 l = Some (n, r) -> rd16 (l ++ x) = Some (n, r ++ x).
Proof. destruct l as [|a [|b l]]; try discriminate. cbn. intros H; inversion H; reflexivity. Qed.
Lemma rd32_app l n r x : rd32 l = Some (n, r) -> rd32 (l ++ x) = Some (n, r ++ x).
Proof. destruct l as [|a [|b [|c [|d l]]]]; try discriminate. cbn. intros H; inversion H; reflexivity. Qed.
Lemma rd64_app l n r x : rd64 l = Some (n, r) -> rd64 (l ++ x) = Some (n, r ++ x).
Proof.
  unfold rd64. intros H.
  destruct (rd32 l) as [[hi r1]|] eqn:E1; [|discriminate].
  destruct (rd32 r1) as [[lo r2]|] eqn:E2; [|discriminate]. inversion H; subst.
  rewrite (rd32_app _ _ _ x E1), (rd32_app _ _ _ x E2). reflexivity.
Qed.

(* ---------- take ---------- *)

Lemma take_app l r : take (lenN l) (l ++ r) = Some (l, r).
Proof.
  unfold take. rewrite lenN_app.
  replace (lenN l <=? lenN l + lenN r) with true by lia.
  unfold lenN. rewrite Nat2N.id, firstn_app, Nat.sub_diag, firstn_all, skipn_app, Nat.sub_diag, skipn_all.
  cbn. rewrite app_nil_r. reflexivity.
Qed.
Lemma take_app' n l r : n = lenN l -> take n (l ++ r) = Some (l, r).
Proof. intros ->. apply take_app. Qed.
Lemma take_0 r : take 0 r = Some ([], r).
Proof. unfold take. replace (0 <=? lenN r) with true by lia. reflexivity. Qed.
Lemma take_spec n l a r : take n l = Some (a, r) -> l = a ++ r /\ lenN a = n.
Proof.
  unfold take. destruct (n <=? lenN l) eqn:E; [|discriminate]. intros H; inversion H; subst; clear H.
  split; [symmetry; apply firstn_skipn|]. unfold lenN in *. rewrite firstn_length. lia.
Qed.
Lemma take_stable n l a r x : take n l = Some (a, r) -> take n (l ++ x) = Some (a, r ++ x).
Proof.
  intros H. destruct (take_spec _ _ _ _ H) as [-> <-]. rewrite <- app_assoc. apply take_app.
Qed.

(* ---------- CBOR heads ---------- *)

Lemma rd_head_cbor_head mt n r : mt < 8 -> n < 18446744073709551616 ->
  rd_head (cbor_head mt n ++ r) = Some (mt, n, r).
Proof.
  intros Hm Hn. unfold cbor_head.
  destruct (n <? 24) eqn:H1.
  { cbn [app rd_head]. replace ((mt*32+n)/32) with mt by lia. replace ((mt*32+n) mod 32) with n by lia. rewrite H1. reflexivity. }
  destruct (n <? 256) eqn:H2.
  { cbn [app rd_head]. replace ((mt*32+24)/32) with mt by lia. replace ((mt*32+24) mod 32) with 24 by lia. reflexivity. }
  destruct (n <? 65536) eqn:H3.
  { cbn [app rd_head]. replace ((mt*32+25)/32) with mt by lia. replace ((mt*32+25) mod 32) with 25 by lia.
    cbn [N.ltb N.eqb N.compare Pos.compare Pos.compare_cont Pos.eqb]. rewrite rd16_be16 by lia. reflexivity. }
  destruct (n <? 4294967296) eqn:H4.
  { cbn [app rd_head]. replace ((mt*32+26)/32) with mt by lia. replace ((mt*32+26) mod 32) with 26 by lia.
    cbn [N.ltb N.eqb N.compare Pos.compare Pos.compare_cont Pos.eqb]. rewrite rd32_be32 by lia. reflexivity. }
  cbn [app rd_head]. replace ((mt*32+27)/32) with mt by lia. replace ((mt*32+27) mod 32) with 27 by lia.
  cbn [N.ltb N.eqb N.compare Pos.compare Pos.compare_cont Pos.eqb]. rewrite rd64_be64 by lia. reflexivity.
Qed.

Lemma cbor_head_length mt n : lenN (cbor_head mt n) = cbor_head_len n.
Proof. unfold cbor_head, cbor_head_len. repeat destruct (_ <? _); reflexivity. Qed.

Lemma cbor_head_ok mt n : mt < 8 -> n < 18446744073709551616 -> bytes_ok (cbor_head mt n).
Proof.
  intros Hm Hn. unfold cbor_head.
  destruct (n <? 24) eqn:H1. { repeat constructor. unfold byte_ok. lia. }
  destruct (n <? 256) eqn:H2. { repeat constructor; unfold byte_ok; lia. }
  destruct (n <? 65536) eqn:H3. { constructor; [unfold byte_ok; lia|]. apply be16_ok. lia. }
  destruct (n <? 4294967296) eqn:H4. { constructor; [unfold byte_ok; lia|]. apply be32_ok. lia. }
  constructor; [unfold byte_ok; lia|]. apply be64_ok. lia.
Qed.

Lemma rd_typed_cbor_head mt n r : mt < 8 -> n < 18446744073709551616 ->
  rd_typed mt (cbor_head mt n ++ r) = Some (n, r).
Proof. intros. unfold rd_typed. rewrite rd_head_cbor_head by assumption. rewrite N.eqb_refl. reflexivity. Qed.

(* the fixed-width forms written by hand *)
Lemma rd_head_tag8 t r : rd_head (tag8 t ++ r) = Some (6, t, r).
Proof. reflexivity. Qed.
Lemma rd_head_arr16 n r : n < 65536 -> rd_head (arr16_head n ++ r) = Some (4, n, r).
Proof.
  intros H. unfold arr16_head. cbn [app rd_head]. change (153 / 32) with 4. change (153 mod 32) with 25.
  cbn [N.ltb N.eqb N.compare Pos.compare Pos.compare_cont Pos.eqb]. rewrite rd16_be16 by lia. reflexivity.
Qed.
Lemma rd_head_bstr16 n r : n < 65536 -> rd_head (bstr16_head n ++ r) = Some (2, n, r).
Proof.
  intros H. unfold bstr16_head. cbn [app rd_head]. change (89 / 32) with 2. change (89 mod 32) with 25.
  cbn [N.ltb N.eqb N.compare Pos.compare Pos.compare_cont Pos.eqb]. rewrite rd16_be16 by lia. reflexivity.
Qed.
Lemma rd_typed_arr16 n r : n < 65536 -> rd_typed 4 (arr16_head n ++ r) = Some (n, r).
Proof. intros. unfold rd_typed. rewrite rd_head_arr16 by assumption. reflexivity. Qed.
Lemma rd_typed_bstr16 n r : n < 65536 -> rd_typed 2 (bstr16_head n ++ r) = Some (n, r).
Proof. intros. unfold rd_typed. rewrite rd_head_bstr16 by assumption. reflexivity. Qed.
Lemma rd_head_small l r : l < 24 -> rd_head (l :: r) = Some (0, l, r).
Proof.
  intros H. cbn [rd_head]. replace (l / 32) with 0 by lia. replace (l mod 32) with l by lia.
  replace (l <? 24) with true by lia. reflexivity.
Qed.
Lemma rd_typed_small l r : l < 24 -> rd_typed 0 (l :: r) = Some (l, r).
Proof. intros. unfold rd_typed. rewrite rd_head_small by assumption. reflexivity. Qed.
Lemma rd_head_uint8_fixed b r : rd_head (uint8_fixed b ++ r) = Some (0, b, r).
Proof. reflexivity. Qed.
Lemma arr16_len n : lenN (arr16_head n) = 3. Proof. reflexivity. Qed.
Lemma bstr16_len n : lenN (bstr16_head n) = 3. Proof. reflexivity. Qed.

Lemma rd_head_app l m n r x : rd_head l = Some (m, n, r) -> rd_head (l ++ x) = Some (m, n, r ++ x).
Proof.
  destruct l as [|b l]; [discriminate|]. cbn [app rd_head].
  destruct (b mod 32 <? 24). { intros H; inversion H; reflexivity. }
  destruct (b mod 32 =? 24). { destruct l; [discriminate|]. intros H; inversion H; reflexivity. }
  destruct (b mod 32 =? 25).
  { destruct (rd16 l) as [[v r']|] eqn:E; [|discriminate]. intros H; inversion H; subst. rewrite (rd16_app _ _ _ x E). reflexivity. }
  destruct (b mod 32 =? 26).
  { destruct (rd32 l) as [[v r']|] eqn:E; [|discriminate]. intros H; inversion H; subst. rewrite (rd32_app _ _ _ x E). reflexivity. }
  destruct (b mod 32 =? 27).
  { destruct (rd64 l) as [[v r']|] eqn:E; [|discriminate]. intros H; inversion H; subst. rewrite (rd64_app _ _ _ x E). reflexivity. }
  discriminate.
Qed.
Lemma rd_typed_app mt l n r x : rd_typed mt l = Some (n, r) -> rd_typed mt (l ++ x) = Some (n, r ++ x).
Proof.
  unfold rd_typed. destruct (rd_head l) as [[[m v] r']|] eqn:E; [|discriminate].
  rewrite (rd_head_app _ _ _ _ x E). destruct (m =? mt); [|discriminate]. intros H; inversion H; reflexivity.
Qed.
Lemma rd_bstr_app l b r x : rd_bstr l = Some (b, r) -> rd_bstr (l ++ x) = Some (b, r ++ x).
Proof.
  unfold rd_bstr. destruct (rd_typed 2 l) as [[n r']|] eqn:E; [|discriminate].
  rewrite (rd_typed_app _ _ _ _ x E). apply take_stable.
Qed.

(* ---------- slab identifiers ---------- *)

Lemma rd_sid_enc a i r : a < two64 -> i < two64 -> rd_sid (enc_sid a i ++ r) = Some (a, i, r).
Proof.
  unfold two64, rd_sid, enc_sid. intros Ha Hi. rewrite <- app_assoc.
  rewrite rd64_be64 by assumption. rewrite rd64_be64 by assumption. reflexivity.
Qed.
Lemma enc_sid_len a i : lenN (enc_sid a i) = 16. Proof. reflexivity. Qed.
Lemma rd_sid_app l a i r x : rd_sid l = Some (a, i, r) -> rd_sid (l ++ x) = Some (a, i, r ++ x).
Proof.
  unfold rd_sid. destruct (rd64 l) as [[a' r1]|] eqn:E1; [|discriminate].
  destruct (rd64 r1) as [[i' r2]|] eqn:E2; [|discriminate]. intros H; inversion H; subst.
  rewrite (rd64_app _ _ _ x E1), (rd64_app _ _ _ x E2). reflexivity.
Qed.

(* ---------- the 2-byte head ---------- *)

Definition head_of (typ : N) (ptr hasnext anysize root hasinl : bool) : head :=
  cond hasinl set_has_inlined_slabs (cond root set_root (cond anysize set_no_size_limit
    (cond hasnext set_has_next_slab_id (cond ptr set_has_pointers (new_head 1 typ))))).

Lemma mk_head_eq typ ptr hasnext anysize root hasinl :
  mk_head typ ptr hasnext anysize root hasinl =
  [fst (head_of typ ptr hasnext anysize root hasinl); snd (head_of typ ptr hasnext anysize root hasinl)].
Proof. reflexivity. Qed.

Lemma rd_headbytes_mk typ ptr hasnext anysize root hasinl r :
  rd_headbytes (mk_head typ ptr hasnext anysize root hasinl ++ r) =
  Some (head_of typ ptr hasnext anysize root hasinl, r).
Proof. rewrite mk_head_eq. cbn [app rd_headbytes]. rewrite <- surjective_pairing. reflexivity. Qed.

Definition typ_ok (typ : N) : Prop :=
  typ = c_maskArrayData \/ typ = c_maskArrayMeta \/ typ = c_maskMapData \/ typ = c_maskMapMeta \/
  typ = c_maskCollisionGroup \/ typ = c_maskStorable.

(* every getter of flag.go reads back what the setters wrote, for all six slab types and all 32
   flag combinations (finite domain, fully enumerated) *)
Lemma head_getters typ ptr hasnext anysize root hasinl : typ_ok typ ->
  let h := head_of typ ptr hasnext anysize root hasinl in
  h_version h = 1 /\ h_is_root h = root /\ h_has_pointers h = ptr /\ h_has_size_limit h = negb anysize /\
  h_has_inlined_slabs h = hasinl /\ h_has_next_slab_id h = hasnext /\
  h_slab_type h = N.shiftr (N.land typ 24) 3 /\ h_sub_type h = N.land typ 7.
Proof.
  intros [->|[->|[->|[->|[->| ->]]]]];
    destruct ptr, hasnext, anysize, root, hasinl; vm_compute; repeat split; reflexivity.
Qed.

Lemma mk_head_len typ ptr hasnext anysize root hasinl : lenN (mk_head typ ptr hasnext anysize root hasinl) = 2.
Proof. reflexivity. Qed.

Lemma mk_head_ok typ ptr hasnext anysize root hasinl : typ_ok typ ->
  bytes_ok (mk_head typ ptr hasnext anysize root hasinl).
Proof.
  intros [->|[->|[->|[->|[->| ->]]]]];
    destruct ptr, hasnext, anysize, root, hasinl; repeat constructor.
Qed.

(* ---------- type info and extra data ---------- *)

Lemma dec_ti_enc t r : ti_swf t = true -> dec_ti (enc_ti t ++ r) = Some (t, r).
Proof.
  unfold ti_swf, two64. destruct t as [n|tag n]; intros H; unfold dec_ti, enc_ti.
  - rewrite rd_head_cbor_head by lia. reflexivity.
  - rewrite <- app_assoc. rewrite rd_head_cbor_head by lia. cbn [N.eqb Pos.eqb].
    rewrite rd_typed_cbor_head by lia. reflexivity.
Qed.
Lemma enc_ti_ok t : ti_swf t = true -> bytes_ok (enc_ti t).
Proof.
  unfold ti_swf, two64. destruct t as [n|tag n]; intros H; unfold enc_ti.
  - apply cbor_head_ok; lia.
  - apply Forall_app. split; apply cbor_head_ok; lia.
Qed.
Lemma dec_ti_app l t r x : dec_ti l = Some (t, r) -> dec_ti (l ++ x) = Some (t, r ++ x).
Proof.
  unfold dec_ti. destruct (rd_head l) as [[[m v] r']|] eqn:E; [|discriminate].
  rewrite (rd_head_app _ _ _ _ x E). destruct (m =? 0). { intros H; inversion H; reflexivity. }
  destruct (m =? 6); [|discriminate].
  destruct (rd_typed 0 r') as [[v' r'']|] eqn:E2; [|discriminate].
  rewrite (rd_typed_app _ _ _ _ x E2). intros H; inversion H; reflexivity.
Qed.

Lemma dec_xarray_enc t r : ti_swf t = true -> dec_xarray (enc_xarray t ++ r) = Some (t, r).
Proof.
  intros H. unfold dec_xarray, enc_xarray. rewrite <- app_assoc.
  rewrite rd_typed_cbor_head by (vm_compute; reflexivity). rewrite N.eqb_refl. apply dec_ti_enc. exact H.
Qed.
Lemma dec_xarray_app l t r x : dec_xarray l = Some (t, r) -> dec_xarray (l ++ x) = Some (t, r ++ x).
Proof.
  unfold dec_xarray. destruct (rd_typed 4 l) as [[n r']|] eqn:E; [|discriminate].
  rewrite (rd_typed_app _ _ _ _ x E). destruct (n =? c_arrayExtraDataLength); [|discriminate]. apply dec_ti_app.
Qed.

Lemma dec_xmap_enc m r : xm_swf (Some m) = true -> dec_xmap (enc_xmap m ++ r) = Some (m, r).
Proof.
  unfold xm_swf, two64. destruct m as [t c s]. cbn [mx_ti mx_count mx_seed]. intros H.
  apply andb_true_iff in H as [H Hs]. apply andb_true_iff in H as [Ht Hc].
  unfold dec_xmap, enc_xmap. cbn [mx_ti mx_count mx_seed]. repeat rewrite <- app_assoc.
  rewrite rd_typed_cbor_head by (vm_compute; reflexivity). rewrite N.eqb_refl.
  rewrite dec_ti_enc by exact Ht. rewrite rd_typed_cbor_head by lia. rewrite rd_typed_cbor_head by lia. reflexivity.
Qed.
Lemma dec_xmap_app l m r x : dec_xmap l = Some (m, r) -> dec_xmap (l ++ x) = Some (m, r ++ x).
Proof.
  unfold dec_xmap. destruct (rd_typed 4 l) as [[n r']|] eqn:E; [|discriminate].
  rewrite (rd_typed_app _ _ _ _ x E). destruct (n =? c_mapExtraDataLength); [|discriminate].
  destruct (dec_ti r') as [[t r1]|] eqn:E1; [|discriminate]. rewrite (dec_ti_app _ _ _ x E1).
  destruct (rd_typed 0 r1) as [[c r2]|] eqn:E2; [|discriminate]. rewrite (rd_typed_app _ _ _ _ x E2).
  destruct (rd_typed 0 r2) as [[s r3]|] eqn:E3; [|discriminate]. rewrite (rd_typed_app _ _ _ _ x E3).
  intros H; inversion H; reflexivity.
Qed.

Lemma dec_opt_enc {A} (enc : A -> bytes) (d : bytes -> option (A * bytes)) (o : option A) r :
  (forall a, o = Some a -> d (enc a ++ r) = Some (a, r)) ->
  dec_opt (is_some o) d (enc_opt enc o ++ r) = Some (o, r).
Proof.
  intros H. destruct o as [a|]; cbn [is_some dec_opt enc_opt]; [|reflexivity]. rewrite H by reflexivity. reflexivity.
Qed.

(* ---------- sequences ---------- *)

Lemma dec_seq_enc {A} (d : bytes -> option (A * bytes)) (enc : A -> bytes) (l : list A) r :
  (forall a, In a l -> forall r', d (enc a ++ r') = Some (a, r')) ->
  dec_seq d (length l) (flat_map enc l ++ r) = Some (l, r).
Proof.
  induction l as [|a l IH]; intros H; [reflexivity|].
  cbn [length flat_map dec_seq]. rewrite <- app_assoc. rewrite H by (left; reflexivity).
  rewrite IH; [reflexivity|]. intros b Hb. apply H. right. exact Hb.
Qed.

Lemma dec_seq_app {A} (d : bytes -> option (A * bytes)) n bs l r x :
  (forall b a r', d b = Some (a, r') -> d (b ++ x) = Some (a, r' ++ x)) ->
  dec_seq d n bs = Some (l, r) -> dec_seq d n (bs ++ x) = Some (l, r ++ x).
Proof.
  intros Hd. revert bs l r. induction n as [|n IH]; intros bs l r; cbn [dec_seq].
  - intros H; inversion H; reflexivity.
  - destruct (d bs) as [[a r1]|] eqn:E; [|discriminate]. rewrite (Hd _ _ _ E).
    destruct (dec_seq d n r1) as [[l' r2]|] eqn:E2; [|discriminate]. rewrite (IH _ _ _ E2).
    intros H; inversion H; reflexivity.
Qed.
(* ====================================================================== *)
(* Part 2: storables and map elements                                     *)
(* ====================================================================== *)

(* one-step computation rules of the storable decoder (closed computations on the tag numbers) *)
Lemma dec_st_uint f w r : dec_storable (S f) (tag8 (width_tag w) ++ r) = dec_uint w r.
Proof. destruct w; reflexivity. Qed.
Lemma dec_st_slabid f r :
  dec_storable (S f) (tag8 c_CBORTagSlabID ++ r) =
  match rd_bstr r with
  | Some (b, r') => match rd_sid b with Some (a, i, _) => Some (SSlabID a i, r') | None => None end
  | None => None
  end.
Proof. reflexivity. Qed.
Lemma dec_st_some f r :
  dec_storable (S f) (tag8 tag_some ++ r) =
  match dec_storable f r with Some (s, r') => Some (SSome s, r') | None => None end.
Proof. reflexivity. Qed.
Lemma dec_st_nested f r :
  dec_storable (S f) (tag8 tag_some_nested ++ r) =
  match rd_typed 4 r with
  | Some (c, r1) =>
    if c =? 2 then
      match rd_typed 0 r1 with
      | Some (lv, r2) =>
        if lv <=? 1 then None
        else match dec_storable f r2 with Some (s, r3) => Some (N.iter lv SSome s, r3) | None => None end
      | None => None
      end
    else None
  | None => None
  end.
Proof. reflexivity. Qed.
Lemma dec_st_string f bs n r :
  rd_head bs = Some (3, n, r) ->
  dec_storable (S f) bs = match take n r with Some (s, r') => Some (SString s, r') | None => None end.
Proof. intros H. cbn [dec_storable]. rewrite H. reflexivity. Qed.

Lemma some_levels_0 s : some_levels s = 0 -> some_inner s = s /\ (forall s', s <> SSome s').
Proof. destruct s; cbn [some_levels some_inner]; intros H; try (split; [reflexivity|congruence]). lia. Qed.

Lemma some_inner_levels s : some_levels (some_inner s) = 0.
Proof. induction s; cbn [some_levels some_inner]; try reflexivity. exact IHs. Qed.
Lemma some_inner_wf s : storable_wf (some_inner s) = storable_wf s.
Proof. induction s; cbn [storable_wf some_inner]; try reflexivity. exact IHs. Qed.
Lemma iter_some s : N.iter (some_levels s) SSome (some_inner s) = s.
Proof.
  induction s; cbn [some_levels some_inner]; try reflexivity.
  replace (1 + some_levels s) with (N.succ (some_levels s)) by lia. rewrite N.iter_succ. rewrite IHs. reflexivity.
Qed.

(* non-wrapper storables *)
Lemma dec_base_enc s f r : some_levels s = 0 -> storable_wf s = true ->
  dec_storable (S f) (enc_base s ++ r) = Some (s, r).
Proof.
  intros Hl Hwf. destruct s as [w n|bs|a i|s']; cbn [enc_base storable_wf] in *.
  - rewrite <- app_assoc, dec_st_uint. unfold dec_uint. rewrite rd_typed_cbor_head by (destruct w; cbn in Hwf; lia).
    replace (width_max w <? n) with false by lia. reflexivity.
  - apply andb_true_iff in Hwf as [_ Hlen]. unfold two64 in Hlen.
    rewrite <- app_assoc. erewrite dec_st_string by (apply rd_head_cbor_head; lia). rewrite take_app. reflexivity.
  - apply andb_true_iff in Hwf as [Ha Hi].
    rewrite <- app_assoc, dec_st_slabid. unfold rd_bstr. rewrite <- app_assoc.
    rewrite rd_typed_cbor_head by (vm_compute; reflexivity).
    rewrite (take_app' _ (enc_sid a i) r) by reflexivity.
    rewrite <- (app_nil_r (enc_sid a i)). rewrite rd_sid_enc by lia. reflexivity.
  - cbn [some_levels] in Hl. lia.
Qed.

(* fuel needed by the decoder on an encoder output: 1 for plain storables, 2 under wrappers *)
Definition st_fuel (s : storable) : nat := if some_levels s =? 0 then 1%nat else 2%nat.

Lemma dec_storable_enc s fuel r : storable_swf s = true -> (st_fuel s <= fuel)%nat ->
  dec_storable fuel (enc_storable s ++ r) = Some (s, r).
Proof.
  unfold storable_swf, st_fuel, enc_storable, two64. intros H Hf. apply andb_true_iff in H as [Hwf Hlv].
  destruct (some_levels s =? 0) eqn:E0.
  { destruct fuel as [|f]; [lia|]. apply dec_base_enc; [lia|exact Hwf]. }
  destruct fuel as [|[|f]]; try lia.
  pose proof (some_inner_levels s) as Hil. pose proof (some_inner_wf s) as Hiw. rewrite Hwf in Hiw.
  destruct (some_levels s =? 1) eqn:E1.
  - rewrite <- app_assoc, dec_st_some. rewrite dec_base_enc by assumption.
    rewrite <- (iter_some s) at 2. replace (some_levels s) with 1 by lia. reflexivity.
  - repeat rewrite <- app_assoc. rewrite dec_st_nested. cbn [app].
    change (rd_typed 4 (130 :: ?x)) with (Some (2, x)). cbn [N.eqb Pos.eqb].
    rewrite rd_typed_cbor_head by lia. replace (some_levels s <=? 1) with false by lia.
    rewrite dec_base_enc by assumption. rewrite iter_some. reflexivity.
Qed.

Lemma enc_base_nonempty s : some_levels s = 0 -> (1 <= length (enc_base s))%nat.
Proof.
  destruct s as [w n|bs|a i|s']; cbn [enc_base some_levels]; intros H; try lia.
  - cbn. lia.
  - rewrite app_length. unfold cbor_head. repeat destruct (_ <? _); cbn [length]; lia.
  - cbn. lia.
Qed.

Lemma st_fuel_le_len s r : (st_fuel s <= length (enc_storable s ++ r))%nat.
Proof.
  unfold st_fuel, enc_storable. rewrite app_length.
  destruct (some_levels s =? 0) eqn:E0. { pose proof (enc_base_nonempty s). lia. }
  destruct (some_levels s =? 1); cbn [tag8 app length]; lia.
Qed.

Lemma dec_storable_top_enc s r : storable_swf s = true -> dec_storable_top (enc_storable s ++ r) = Some (s, r).
Proof. intros H. unfold dec_storable_top. apply dec_storable_enc; [exact H|apply st_fuel_le_len]. Qed.

(* sizes: ByteSize is exactly the encoded length (no hypothesis needed) *)
Lemma enc_base_len s : some_levels s = 0 -> lenN (enc_base s) = base_size s.
Proof.
  destruct s as [w n|bs|a i|s']; cbn [enc_base base_size some_levels]; intros H.
  - rewrite lenN_app, cbor_head_length. reflexivity.
  - rewrite lenN_app, cbor_head_length. reflexivity.
  - reflexivity.
  - lia.
Qed.
Lemma enc_storable_len s : lenN (enc_storable s) = storable_size s.
Proof.
  unfold enc_storable, storable_size, some_prefix_size.
  pose proof (enc_base_len (some_inner s) (some_inner_levels s)) as Hi.
  destruct (some_levels s =? 0) eqn:E0. { apply enc_base_len. lia. }
  destruct (some_levels s =? 1) eqn:E1.
  - rewrite lenN_app, Hi. reflexivity.
  - repeat rewrite lenN_app. rewrite Hi, cbor_head_length.
    change (lenN (tag8 tag_some_nested)) with 2. change (lenN [130]) with 1. lia.
Qed.

(* has-pointer as evaluated by the encoders = "holds a reference" as content *)
Lemma storable_has_ptr_refs s : storable_has_ptr s = negb (match storable_refs s with [] => true | _ => false end).
Proof. induction s; cbn [storable_has_ptr storable_refs]; try reflexivity. exact IHs. Qed.

Definition nonnil {A} (l : list A) : bool := match l with [] => false | _ => true end.
Lemma nonnil_app {A} (a b : list A) : nonnil (a ++ b) = nonnil a || nonnil b.
Proof. destruct a; reflexivity. Qed.
Lemma storable_has_ptr_nonnil s : storable_has_ptr s = nonnil (storable_refs s).
Proof. induction s; cbn [storable_has_ptr storable_refs]; try reflexivity. exact IHs. Qed.
Lemma existsb_flat_map {A B} (p : A -> bool) (f : A -> list B) l :
  (forall a, In a l -> p a = nonnil (f a)) -> existsb p l = nonnil (flat_map f l).
Proof.
  induction l as [|a l IH]; intros H; [reflexivity|].
  cbn [existsb flat_map]. rewrite nonnil_app, H by (left; reflexivity). rewrite IH; [reflexivity|].
  intros b Hb. apply H. right. exact Hb.
Qed.

(* encodings are well-formed bytes *)
Lemma enc_base_ok s : some_levels s = 0 -> storable_wf s = true -> bytes_ok (enc_base s).
Proof.
  intros Hl Hwf. destruct s as [w n|bs|a i|s']; cbn [enc_base storable_wf] in *.
  - apply Forall_app. split. { destruct w; repeat constructor. } apply cbor_head_ok; [lia|destruct w; cbn in Hwf; lia].
  - apply andb_true_iff in Hwf as [Hb Hlen]. unfold two64 in Hlen. apply Forall_app. split.
    + apply cbor_head_ok; lia.
    + apply Forall_forall. intros b Hin. rewrite forallb_forall in Hb. specialize (Hb b Hin). unfold byte_ok. lia.
  - apply andb_true_iff in Hwf as [Ha Hi]. unfold two64 in *.
    apply Forall_app. split. { repeat constructor. }
    apply Forall_app. split. { repeat constructor. }
    unfold enc_sid. apply Forall_app. split; apply be64_ok; lia.
  - cbn [some_levels] in Hl. lia.
Qed.
Lemma enc_storable_ok s : storable_swf s = true -> bytes_ok (enc_storable s).
Proof.
  unfold storable_swf, enc_storable, two64. intros H. apply andb_true_iff in H as [Hwf Hlv].
  pose proof (some_inner_levels s) as Hil. pose proof (some_inner_wf s) as Hiw. rewrite Hwf in Hiw.
  destruct (some_levels s =? 0) eqn:E0. { apply enc_base_ok; [lia|exact Hwf]. }
  destruct (some_levels s =? 1) eqn:E1.
  - apply Forall_app. split. { repeat constructor. } apply enc_base_ok; assumption.
  - apply Forall_app. split. { repeat constructor. }
    apply Forall_app. split. { repeat constructor. }
    apply Forall_app. split. { apply cbor_head_ok; lia. } apply enc_base_ok; assumption.
Qed.
(* append-stability and fuel monotonicity of the storable decoder *)
Lemma dec_uint_app w l s r x : dec_uint w l = Some (s, r) -> dec_uint w (l ++ x) = Some (s, r ++ x).
Proof.
  unfold dec_uint. destruct (rd_typed 0 l) as [[n r']|] eqn:E; [|discriminate].
  rewrite (rd_typed_app _ _ _ _ x E). destruct (width_max w <? n); [discriminate|]. intros H; inversion H; reflexivity.
Qed.

Lemma dec_storable_mono f : forall bs s r, dec_storable f bs = Some (s, r) ->
  forall f' x, (f <= f')%nat -> dec_storable f' (bs ++ x) = Some (s, r ++ x).
Proof.
  induction f as [|f IH]; intros bs s r H f' x Hf; [discriminate|].
  destruct f' as [|f']; [lia|]. cbn [dec_storable] in *.
  destruct (rd_head bs) as [[[mt n] r0]|] eqn:E; [|discriminate]. rewrite (rd_head_app _ _ _ _ x E).
  destruct (mt =? 3).
  { destruct (take n r0) as [[a r1]|] eqn:E1; [|discriminate]. rewrite (take_stable _ _ _ _ x E1).
    inversion H; reflexivity. }
  destruct (mt =? 6); [|discriminate].
  destruct (n =? c_CBORTagSlabID).
  { destruct (rd_bstr r0) as [[b r1]|] eqn:E1; [|discriminate]. rewrite (rd_bstr_app _ _ _ x E1).
    destruct (rd_sid b) as [[[a i] ?]|]; [|discriminate]. inversion H; reflexivity. }
  destruct (n =? 161). { apply dec_uint_app. exact H. }
  destruct (n =? 162). { apply dec_uint_app. exact H. }
  destruct (n =? 163). { apply dec_uint_app. exact H. }
  destruct (n =? 164). { apply dec_uint_app. exact H. }
  destruct (n =? tag_some).
  { destruct (dec_storable f r0) as [[s' r1]|] eqn:E1; [|discriminate].
    rewrite (IH _ _ _ E1 f' x) by lia. inversion H; reflexivity. }
  destruct (n =? tag_some_nested); [|discriminate].
  destruct (rd_typed 4 r0) as [[c r1]|] eqn:E1; [|discriminate]. rewrite (rd_typed_app _ _ _ _ x E1).
  destruct (c =? 2); [|discriminate].
  destruct (rd_typed 0 r1) as [[lv r2]|] eqn:E2; [|discriminate]. rewrite (rd_typed_app _ _ _ _ x E2).
  destruct (lv <=? 1); [discriminate|].
  destruct (dec_storable f r2) as [[s' r3]|] eqn:E3; [|discriminate].
  rewrite (IH _ _ _ E3 f' x) by lia. inversion H; reflexivity.
Qed.

Lemma dec_storable_top_app bs s r x : dec_storable_top bs = Some (s, r) -> dec_storable_top (bs ++ x) = Some (s, r ++ x).
Proof. unfold dec_storable_top. intros H. apply (dec_storable_mono _ _ _ _ H). rewrite app_length. lia. Qed.

(* ---------- map elements ---------- *)

Section element_ind.
  Variable P : element -> Prop.
  Hypothesis HS : forall k v, P (ESingle k v).
  Hypothesis HH : forall l hk es, Forall P es -> P (EGroupH l hk es).
  Hypothesis HG : forall l ps, P (EGroupS l ps).
  Hypothesis HE : forall a i, P (EExt a i).
  Fixpoint element_ind' (e : element) : P e :=
    match e with
    | ESingle k v => HS k v
    | EGroupH l hk es =>
      HH l hk es ((fix go (l : list element) : Forall P l :=
                     match l with [] => Forall_nil _ | x :: r => Forall_cons x (element_ind' x) (go r) end) es)
    | EGroupS l ps => HG l ps
    | EExt a i => HE a i
    end.
End element_ind.

Lemma pair_swf_split p : pair_swf p = true -> storable_swf (fst p) = true /\ storable_swf (snd p) = true.
Proof. unfold pair_swf. intros H. apply andb_true_iff in H. exact H. Qed.

Lemma dec_pair_enc p r : pair_swf p = true -> dec_pair (enc_pair p ++ r) = Some (p, r).
Proof.
  intros H. destruct (pair_swf_split _ H) as [Hk Hv]. destruct p as [k v]. cbn [fst snd] in *.
  unfold dec_pair, enc_pair. cbn [fst snd app].
  change (rd_typed 4 (130 :: ?x)) with (Some (2, x)). cbn [N.eqb Pos.eqb].
  repeat rewrite <- app_assoc. rewrite dec_storable_top_enc by exact Hk. rewrite dec_storable_top_enc by exact Hv. reflexivity.
Qed.

Lemma dec_pair_app b p r x : dec_pair b = Some (p, r) -> dec_pair (b ++ x) = Some (p, r ++ x).
Proof.
  unfold dec_pair. destruct (rd_typed 4 b) as [[c r0]|] eqn:E; [|discriminate]. rewrite (rd_typed_app _ _ _ _ x E).
  destruct (c =? 2); [|discriminate].
  destruct (dec_storable_top r0) as [[k r1]|] eqn:E1; [|discriminate]. rewrite (dec_storable_top_app _ _ _ x E1).
  destruct (dec_storable_top r1) as [[v r2]|] eqn:E2; [|discriminate]. rewrite (dec_storable_top_app _ _ _ x E2).
  intros H; inversion H; reflexivity.
Qed.

Lemma enc_pair_len p : lenN (enc_pair p) = pair_size p.
Proof.
  unfold enc_pair, pair_size. rewrite lenN_cons, lenN_app, !enc_storable_len. unfold c_singleElementPrefixSize. lia.
Qed.

Lemma lenN_flat_be64 hk : lenN (flat_map be64 hk) = 8 * lenN hk.
Proof. rewrite (lenN_flat_map be64 (fun _ => 8)) by (intros; reflexivity). apply sumN_const. Qed.

Lemma rd_hkeys_enc hk r : forallb (fun h => h <? two64) hk = true ->
  rd_hkeys (length hk) (flat_map be64 hk ++ r) = Some hk.
Proof.
  unfold two64. induction hk as [|h hk IH]; intros H; [reflexivity|].
  cbn [forallb] in H. apply andb_true_iff in H as [Hh Hr].
  cbn [length flat_map rd_hkeys]. rewrite <- app_assoc. rewrite rd64_be64 by lia. rewrite IH by exact Hr. reflexivity.
Qed.

Lemma to_nat_lenN {A} (l : list A) : N.to_nat (lenN l) = length l.
Proof. unfold lenN. apply Nat2N.id. Qed.

Lemma dec_elements_with_hkey de l hk es r :
  l <= c_maxDigestLevel -> lenN hk = lenN es -> c_digestSize * lenN hk < two16 -> lenN es < two16 ->
  forallb (fun h => h <? two64) hk = true ->
  (forall e, In e es -> forall r', de (enc_element e ++ r') = Some (e, r')) ->
  dec_elements_with de (enc_hkey_head l hk (lenN es) ++ flat_map enc_element es ++ r) = Some (HkeyElems l hk es, r).
Proof.
  unfold c_maxDigestLevel, c_digestSize, two16. intros Hl Hlen Hhk Hes Hh Hde.
  unfold dec_elements_with, enc_hkey_head. repeat rewrite <- app_assoc. cbn [app].
  change (rd_typed 4 (131 :: ?x)) with (Some (3, x)). cbn [N.eqb Pos.eqb].
  rewrite rd_typed_small by lia.
  unfold rd_bstr. unfold c_digestSize. rewrite rd_typed_bstr16 by lia.
  rewrite (take_app' _ (flat_map be64 hk)) by (rewrite lenN_flat_be64; reflexivity).
  rewrite lenN_flat_be64. cbv zeta.
  replace (8 * lenN hk mod 8 =? 0) with true by lia.
  replace (8 * lenN hk / 8) with (lenN hk) by lia.
  rewrite to_nat_lenN. rewrite <- (app_nil_r (flat_map be64 hk)). rewrite rd_hkeys_enc by exact Hh.
  rewrite rd_typed_arr16 by lia.
  unfold c_maxArrayElementCount. replace (4294967295 <? lenN es) with false by lia.
  replace (negb (lenN hk =? 0) && negb (lenN hk =? lenN es)) with false by lia.
  replace ((lenN hk =? 0) && (0 <? lenN es)) with false by lia.
  rewrite to_nat_lenN. rewrite (dec_seq_enc de enc_element es r Hde). reflexivity.
Qed.

Lemma dec_elements_with_singles de l ps r :
  l <= c_maxDigestLevel -> 0 < lenN ps -> lenN ps < two16 -> forallb pair_swf ps = true ->
  dec_elements_with de (enc_singles_head l (lenN ps) ++ flat_map enc_pair ps ++ r) = Some (SingleElems l ps, r).
Proof.
  unfold c_maxDigestLevel, two16. intros Hl Hpos Hps Hswf.
  unfold dec_elements_with, enc_singles_head. repeat rewrite <- app_assoc. cbn [app].
  change (rd_typed 4 (131 :: ?x)) with (Some (3, x)). cbn [N.eqb Pos.eqb].
  rewrite rd_typed_small by lia.
  unfold rd_bstr. change (rd_typed 2 (64 :: ?x)) with (Some (0, x)). cbv beta iota. rewrite take_0.
  change (lenN (@nil N)) with 0. cbv zeta. change (0 mod c_digestSize =? 0) with true. change (0 / c_digestSize) with 0.
  cbn [N.to_nat rd_hkeys]. rewrite rd_typed_arr16 by lia.
  unfold c_maxArrayElementCount. replace (4294967295 <? lenN ps) with false by lia.
  cbn [N.eqb negb andb]. replace (0 <? lenN ps) with true by lia.
  rewrite to_nat_lenN. rewrite (dec_seq_enc dec_pair enc_pair ps r); [reflexivity|].
  intros p Hp r'. apply dec_pair_enc. rewrite forallb_forall in Hswf. apply Hswf. exact Hp.
Qed.

(* one-step computation rules of the element decoder *)
Lemma dec_el_single f bs n r : rd_head bs = Some (4, n, r) ->
  dec_element (S f) bs = match dec_pair bs with Some (p, r') => Some (ESingle (fst p) (snd p), r') | None => None end.
Proof. intros H. cbn [dec_element]. rewrite H. reflexivity. Qed.
Lemma dec_el_group f r :
  dec_element (S f) (tag8 c_CBORTagInlineCollisionGroup ++ r) =
  match dec_elements_with (dec_element f) r with
  | Some (HkeyElems l hk es, r') => Some (EGroupH l hk es, r')
  | Some (SingleElems l ps, r') => Some (EGroupS l ps, r')
  | None => None
  end.
Proof. reflexivity. Qed.
Lemma dec_el_ext f r :
  dec_element (S f) (tag8 c_CBORTagExternalCollisionGroup ++ r) =
  match dec_storable_top r with
  | Some (SSlabID a i, r') => Some (EExt a i, r')
  | _ => None
  end.
Proof. reflexivity. Qed.

Fixpoint elem_depth (e : element) : nat :=
  match e with
  | EGroupH _ _ es => S (list_max (map elem_depth es))
  | _ => 1%nat
  end.

Lemma list_max_in (l : list nat) n : In n l -> (n <= list_max l)%nat.
Proof.
  intros H. pose proof (proj1 (list_max_le l (list_max l)) (Nat.le_refl _)) as HF.
  rewrite Forall_forall in HF. apply HF. exact H.
Qed.

Lemma element_swf_H l hk es : element_swf (EGroupH l hk es) = true ->
  l <= c_maxDigestLevel /\ lenN hk = lenN es /\ c_digestSize * lenN hk < two16 /\ lenN es < two16 /\
  forallb (fun h => h <? two64) hk = true /\ forallb element_swf es = true.
Proof.
  cbn [element_swf]. intros H.
  repeat (apply andb_true_iff in H as [H ?]). repeat split; try assumption; lia.
Qed.
Lemma element_swf_S l ps : element_swf (EGroupS l ps) = true ->
  l <= c_maxDigestLevel /\ 0 < lenN ps /\ lenN ps < two16 /\ forallb pair_swf ps = true.
Proof.
  cbn [element_swf]. intros H.
  repeat (apply andb_true_iff in H as [H ?]). repeat split; try assumption; lia.
Qed.

Lemma dec_element_enc e : element_swf e = true -> forall f r, (elem_depth e <= f)%nat ->
  dec_element f (enc_element e ++ r) = Some (e, r).
Proof.
  induction e as [k v|l hk es IH|l ps|a i] using element_ind'; intros Hwf f r Hf;
    (destruct f as [|f]; [cbn [elem_depth] in Hf; lia|]).
  - cbn [enc_element element_swf] in *.
    erewrite dec_el_single by (unfold enc_pair; cbn [app]; reflexivity).
    rewrite dec_pair_enc by exact Hwf. reflexivity.
  - destruct (element_swf_H _ _ _ Hwf) as (Hl & Hlen & Hhk & Hes & Hh & Hall).
    cbn [enc_element]. repeat rewrite <- app_assoc. rewrite dec_el_group.
    rewrite dec_elements_with_hkey; try assumption; [reflexivity|].
    intros e He r'. rewrite Forall_forall in IH. apply IH; [exact He| |].
    + rewrite forallb_forall in Hall. apply Hall. exact He.
    + cbn [elem_depth] in Hf. pose proof (list_max_in (map elem_depth es) (elem_depth e) (in_map _ _ _ He)). lia.
  - destruct (element_swf_S _ _ Hwf) as (Hl & Hpos & Hps & Hall).
    cbn [enc_element]. repeat rewrite <- app_assoc. rewrite dec_el_group.
    rewrite dec_elements_with_singles by assumption. reflexivity.
  - cbn [enc_element element_swf] in *. rewrite <- app_assoc. rewrite dec_el_ext.
    rewrite dec_storable_top_enc; [reflexivity|]. unfold storable_swf. cbn [storable_wf some_levels].
    rewrite Hwf. reflexivity.
Qed.

Lemma length_flat_map_in {A} (f : A -> bytes) l a : In a l -> (length (f a) <= length (flat_map f l))%nat.
Proof.
  induction l as [|x l IH]; intros H; [contradiction|]. cbn [flat_map]. rewrite app_length.
  destruct H as [->|H]; [lia|]. specialize (IH H). lia.
Qed.

Lemma elem_depth_le_len e : (elem_depth e <= length (enc_element e))%nat.
Proof.
  induction e as [k v|l hk es IH|l ps|a i] using element_ind'; cbn [elem_depth enc_element].
  - unfold enc_pair. cbn [length]. lia.
  - rewrite !app_length. cbn [tag8 length].
    assert (list_max (map elem_depth es) <= length (flat_map enc_element es))%nat; [|lia].
    apply list_max_le. apply Forall_forall. intros n Hn. apply in_map_iff in Hn as [e [<- He]].
    rewrite Forall_forall in IH. specialize (IH e He).
    pose proof (length_flat_map_in enc_element es e He). lia.
  - rewrite !app_length. cbn [tag8 length]. lia.
  - rewrite app_length. cbn [tag8 length]. lia.
Qed.

Lemma dec_elements_enc els r : elements_swf els = true -> dec_elements (enc_elements els ++ r) = Some (els, r).
Proof.
  intros H. unfold dec_elements. destruct els as [l hk es|l ps]; cbn [enc_elements elements_swf] in *.
  - destruct (element_swf_H l hk es H) as (Hl & Hlen & Hhk & Hes & Hh & Hall).
    rewrite <- app_assoc. apply dec_elements_with_hkey; try assumption.
    intros e He r'. apply dec_element_enc.
    + rewrite forallb_forall in Hall. apply Hall. exact He.
    + pose proof (elem_depth_le_len e). pose proof (length_flat_map_in enc_element es e He).
      rewrite !app_length. lia.
  - destruct (element_swf_S l ps H) as (Hl & Hpos & Hps & Hall).
    rewrite <- app_assoc. apply dec_elements_with_singles; assumption.
Qed.

(* sizes *)
Lemma sumN_map_add {A} (g : A -> N) (c : N) (l : list A) :
  sumN (map (fun a => c + g a) l) = c * lenN l + sumN (map g l).
Proof.
  induction l as [|x l IH]; [cbn; lia|].
  cbn [map sumN fold_right]. fold (sumN (map (fun a => c + g a) l)). fold (sumN (map g l)).
  rewrite IH, lenN_cons. lia.
Qed.

Lemma enc_hkey_head_len l hk n : lenN (enc_hkey_head l hk n) = c_hkeyElementsPrefixSize + c_digestSize * lenN hk.
Proof.
  unfold enc_hkey_head. rewrite !lenN_app, lenN_flat_be64, bstr16_len, arr16_len.
  unfold c_hkeyElementsPrefixSize, c_digestSize. change (lenN [131; l]) with 2. lia.
Qed.
Lemma enc_singles_head_len l n : lenN (enc_singles_head l n) = c_singleElementsPrefixSize.
Proof. reflexivity. Qed.

Lemma enc_element_len e : element_swf e = true -> lenN (enc_element e) = element_size e.
Proof.
  induction e as [k v|l hk es IH|l ps|a i] using element_ind'; intros Hwf; cbn [enc_element element_size].
  - apply enc_pair_len.
  - destruct (element_swf_H _ _ _ Hwf) as (Hl & Hlen & Hhk & Hes & Hh & Hall).
    rewrite !lenN_app, enc_hkey_head_len.
    rewrite (lenN_flat_map enc_element element_size).
    + rewrite sumN_map_add. rewrite Hlen. change (lenN (tag8 c_CBORTagInlineCollisionGroup)) with 2.
      unfold c_inlineCollisionGroupPrefixSize. lia.
    + intros e He. rewrite Forall_forall in IH. apply IH; [exact He|]. rewrite forallb_forall in Hall. apply Hall. exact He.
  - rewrite !lenN_app, enc_singles_head_len. rewrite (lenN_flat_map enc_pair pair_size) by (intros; apply enc_pair_len).
    change (lenN (tag8 c_CBORTagInlineCollisionGroup)) with 2. unfold c_inlineCollisionGroupPrefixSize. lia.
  - rewrite lenN_app, enc_storable_len. reflexivity.
Qed.

Lemma enc_elements_len els : elements_swf els = true -> lenN (enc_elements els) = elements_size els.
Proof.
  intros H. destruct els as [l hk es|l ps]; cbn [enc_elements elements_size elements_swf] in *.
  - destruct (element_swf_H l hk es H) as (Hl & Hlen & Hhk & Hes & Hh & Hall).
    rewrite lenN_app, enc_hkey_head_len. rewrite (lenN_flat_map enc_element element_size).
    + rewrite sumN_map_add. rewrite Hlen. lia.
    + intros e He. apply enc_element_len. rewrite forallb_forall in Hall. apply Hall. exact He.
  - rewrite lenN_app, enc_singles_head_len. rewrite (lenN_flat_map enc_pair pair_size) by (intros; apply enc_pair_len).
    reflexivity.
Qed.

(* has-pointer = holds a reference *)
Lemma pair_has_ptr_nonnil p :
  storable_has_ptr (fst p) || storable_has_ptr (snd p) = nonnil (pair_refs p).
Proof. unfold pair_refs. rewrite nonnil_app, !storable_has_ptr_nonnil. reflexivity. Qed.

Lemma element_has_ptr_nonnil e : element_has_ptr e = nonnil (element_refs e).
Proof.
  induction e as [k v|l hk es IH|l ps|a i] using element_ind'; cbn [element_has_ptr element_refs].
  - apply (pair_has_ptr_nonnil (k, v)).
  - apply existsb_flat_map. intros e He. rewrite Forall_forall in IH. apply IH. exact He.
  - apply existsb_flat_map. intros p _. apply pair_has_ptr_nonnil.
  - reflexivity.
Qed.
Lemma elements_has_ptr_nonnil els : elements_has_ptr els = nonnil (elements_refs els).
Proof.
  destruct els as [l hk es|l ps]; cbn [elements_has_ptr elements_refs].
  - apply existsb_flat_map. intros e _. apply element_has_ptr_nonnil.
  - apply existsb_flat_map. intros p _. apply pair_has_ptr_nonnil.
Qed.
(* ====================================================================== *)
(* Part 3: slabs                                                          *)
(* ====================================================================== *)

Lemma typ_ok_AD : typ_ok c_maskArrayData. Proof. unfold typ_ok; tauto. Qed.
Lemma typ_ok_AM : typ_ok c_maskArrayMeta. Proof. unfold typ_ok; tauto. Qed.
Lemma typ_ok_MD : typ_ok c_maskMapData. Proof. unfold typ_ok; tauto. Qed.
Lemma typ_ok_MM : typ_ok c_maskMapMeta. Proof. unfold typ_ok; tauto. Qed.
Lemma typ_ok_CG : typ_ok c_maskCollisionGroup. Proof. unfold typ_ok; tauto. Qed.
Lemma typ_ok_ST : typ_ok c_maskStorable. Proof. unfold typ_ok; tauto. Qed.

Lemma enc_ahdr_len c : lenN (enc_ahdr c) = c_arraySlabHeaderSize. Proof. reflexivity. Qed.
Lemma enc_mhdr_len c : lenN (enc_mhdr c) = c_mapSlabHeaderSize. Proof. reflexivity. Qed.
Lemma lenN_flat_ahdr cs : lenN (flat_map enc_ahdr cs) = c_arraySlabHeaderSize * lenN cs.
Proof. rewrite (lenN_flat_map enc_ahdr (fun _ => c_arraySlabHeaderSize)) by (intros; reflexivity). apply sumN_const. Qed.
Lemma lenN_flat_mhdr cs : lenN (flat_map enc_mhdr cs) = c_mapSlabHeaderSize * lenN cs.
Proof. rewrite (lenN_flat_map enc_mhdr (fun _ => c_mapSlabHeaderSize)) by (intros; reflexivity). apply sumN_const. Qed.

Lemma dec_ahdrs_enc a cs r : forallb (ahdr_swf a) cs = true ->
  dec_ahdrs a (length cs) (flat_map enc_ahdr cs ++ r) = Some cs.
Proof.
  induction cs as [|c cs IH]; intros H; [reflexivity|].
  cbn [forallb] in H. apply andb_true_iff in H as [Hc Hr].
  unfold ahdr_swf, two64, two32, two16 in Hc. destruct c as [ca ci cc cz]. cbn [ah_addr ah_idx ah_count ah_size] in Hc.
  cbn [length flat_map dec_ahdrs]. unfold enc_ahdr at 1. cbn [ah_idx ah_count ah_size]. repeat rewrite <- app_assoc.
  rewrite rd64_be64 by lia. rewrite rd32_be32 by lia. rewrite rd16_be16 by lia. rewrite IH by exact Hr.
  replace ca with a by lia. reflexivity.
Qed.
Lemma dec_mhdrs_enc a cs r : forallb (mhdr_swf a) cs = true ->
  dec_mhdrs a (length cs) (flat_map enc_mhdr cs ++ r) = Some cs.
Proof.
  induction cs as [|c cs IH]; intros H; [reflexivity|].
  cbn [forallb] in H. apply andb_true_iff in H as [Hc Hr].
  unfold mhdr_swf, two64, two16 in Hc. destruct c as [ca ci cf cz]. cbn [mh_addr mh_idx mh_first mh_size] in Hc.
  cbn [length flat_map dec_mhdrs]. unfold enc_mhdr at 1. cbn [mh_idx mh_first mh_size]. repeat rewrite <- app_assoc.
  rewrite rd64_be64 by lia. rewrite rd64_be64 by lia. rewrite rd16_be16 by lia. rewrite IH by exact Hr.
  replace ca with a by lia. reflexivity.
Qed.

Lemma dec_next_enc na ni r : na < two64 -> ni < two64 ->
  dec_next (has_next na ni) (enc_next na ni ++ r) = Some (na, ni, r).
Proof.
  intros Ha Hi. unfold dec_next, enc_next. destruct (has_next na ni) eqn:E.
  - apply rd_sid_enc; assumption.
  - unfold has_next in E. replace na with 0 by lia. replace ni with 0 by lia. reflexivity.
Qed.

Lemma dec_xa_enc x h r : xa_swf x = true -> h_is_root h = is_some x ->
  dec_opt (h_is_root h) dec_xarray (enc_opt enc_xarray x ++ r) = Some (x, r).
Proof.
  intros Hx ->. apply dec_opt_enc. intros t ->. apply dec_xarray_enc. exact Hx.
Qed.
Lemma dec_xm_enc x h r : xm_swf x = true -> h_is_root h = is_some x ->
  dec_opt (h_is_root h) dec_xmap (enc_opt enc_xmap x ++ r) = Some (x, r).
Proof.
  intros Hx ->. apply dec_opt_enc. intros t ->. apply dec_xmap_enc. exact Hx.
Qed.

Ltac split_swf H := repeat (let H' := fresh "Hw" in apply andb_true_iff in H as [H H']).

(* ---------- C07: decode (encode s) = s ---------- *)

Lemma decode_encode_array_meta a i x cs : swf (SArrayMeta a i x cs) = true ->
  decode_slab (a, i) (encode_slab (SArrayMeta a i x cs)) = Some (SArrayMeta a i x cs).
Proof.
  cbn [swf]. intros H. split_swf H. unfold two64, two16 in *.
  unfold encode_slab, decode_slab. rewrite rd_headbytes_mk.
  destruct (head_getters c_maskArrayMeta false false false (is_some x) false typ_ok_AM) as (Hv & Hr & _ & _ & _ & _ & Ht & Hs).
  cbv zeta. rewrite Ht, Hs, Hv.
  change (N.shiftr (N.land c_maskArrayMeta 24) 3 =? 0) with true. change (N.land c_maskArrayMeta 7 =? 0) with false.
  change (N.land c_maskArrayMeta 7 =? 1) with true. change (1 =? 1) with true. cbv beta iota.
  unfold dec_array_meta. rewrite dec_xa_enc by assumption.
  rewrite rd64_be64 by lia. rewrite rd16_be16 by lia.
  rewrite lenN_flat_ahdr, N.eqb_refl. rewrite to_nat_lenN.
  rewrite <- (app_nil_r (flat_map enc_ahdr cs)). rewrite dec_ahdrs_enc by assumption.
  replace (c_maxArrayElementCount <? sumN (map ah_count cs)) with false by lia. reflexivity.
Qed.

Lemma decode_encode_map_meta a i x cs : swf (SMapMeta a i x cs) = true ->
  decode_slab (a, i) (encode_slab (SMapMeta a i x cs)) = Some (SMapMeta a i x cs).
Proof.
  cbn [swf]. intros H. split_swf H. unfold two64, two16 in *.
  unfold encode_slab, decode_slab. rewrite rd_headbytes_mk.
  destruct (head_getters c_maskMapMeta false false false (is_some x) false typ_ok_MM) as (Hv & Hr & _ & _ & _ & _ & Ht & Hs).
  cbv zeta. rewrite Ht, Hs, Hv.
  change (N.shiftr (N.land c_maskMapMeta 24) 3 =? 0) with false. change (N.shiftr (N.land c_maskMapMeta 24) 3 =? 1) with true.
  change (N.land c_maskMapMeta 7 =? 0) with false. change (N.land c_maskMapMeta 7 =? 3) with false.
  change (N.land c_maskMapMeta 7 =? 1) with true. change (1 =? 1) with true. cbv beta iota. cbn [orb].
  unfold dec_map_meta. rewrite dec_xm_enc by assumption.
  rewrite rd64_be64 by lia. rewrite rd16_be16 by lia.
  rewrite lenN_flat_mhdr, N.eqb_refl. rewrite to_nat_lenN.
  rewrite <- (app_nil_r (flat_map enc_mhdr cs)). rewrite dec_mhdrs_enc by assumption. reflexivity.
Qed.

Lemma decode_encode_storable a i st : swf (SStorable a i st) = true ->
  decode_slab (a, i) (encode_slab (SStorable a i st)) = Some (SStorable a i st).
Proof.
  cbn [swf]. intros H. split_swf H.
  unfold encode_slab, decode_slab. rewrite rd_headbytes_mk.
  destruct (head_getters c_maskStorable (storable_has_ptr st) false true false false typ_ok_ST) as (_ & _ & _ & _ & _ & _ & Ht & Hs).
  cbv zeta. rewrite Ht.
  change (N.shiftr (N.land c_maskStorable 24) 3 =? 0) with false. change (N.shiftr (N.land c_maskStorable 24) 3 =? 1) with false.
  change (N.shiftr (N.land c_maskStorable 24) 3 =? 3) with true. cbv beta iota.
  rewrite <- (app_nil_r (enc_storable st)). rewrite dec_storable_top_enc by assumption. reflexivity.
Qed.

Lemma decode_encode_array_data a i x na ni es : swf (SArrayData a i x na ni es) = true ->
  decode_slab (a, i) (encode_slab (SArrayData a i x na ni es)) = Some (SArrayData a i x na ni es).
Proof.
  cbn [swf]. intros H. split_swf H. unfold two16 in *.
  unfold encode_slab, decode_slab. rewrite rd_headbytes_mk.
  destruct (head_getters c_maskArrayData (existsb storable_has_ptr es) (has_next na ni) false (is_some x) false typ_ok_AD)
    as (Hv & Hr & _ & _ & Hi & Hn & Ht & Hs).
  cbv zeta. rewrite Ht, Hs, Hv.
  change (N.shiftr (N.land c_maskArrayData 24) 3 =? 0) with true. change (N.land c_maskArrayData 7 =? 0) with true.
  change (1 =? 1) with true. cbv beta iota.
  unfold dec_array_data. rewrite dec_xa_enc by assumption. rewrite Hi, Hn.
  rewrite dec_next_enc by lia.
  rewrite lenN_app, arr16_len. unfold c_arrayDataSlabElementHeadSize.
  replace (3 + lenN (flat_map enc_storable es) <? 3) with false by lia.
  rewrite rd_typed_arr16 by lia.
  replace (c_maxArrayElementCount <? lenN es) with false by (unfold c_maxArrayElementCount; lia).
  rewrite to_nat_lenN. rewrite <- (app_nil_r (flat_map enc_storable es)).
  rewrite (dec_seq_enc dec_storable_top enc_storable es []); [reflexivity|].
  intros s Hs' r'. apply dec_storable_top_enc. rewrite forallb_forall in Hw. apply Hw. exact Hs'.
Qed.

Lemma decode_encode_map_data a i x na ni anys cg els : swf (SMapData a i x na ni anys cg els) = true ->
  decode_slab (a, i) (encode_slab (SMapData a i x na ni anys cg els)) = Some (SMapData a i x na ni anys cg els).
Proof.
  cbn [swf]. intros H. split_swf H.
  unfold encode_slab, decode_slab. rewrite rd_headbytes_mk.
  assert (Htyp : typ_ok (if cg then c_maskCollisionGroup else c_maskMapData)) by (destruct cg; [apply typ_ok_CG|apply typ_ok_MD]).
  destruct (head_getters _ (elements_has_ptr els) (has_next na ni) anys (is_some x) false Htyp)
    as (Hv & Hr & _ & Hl & Hi & Hn & Ht & Hs).
  cbv zeta. rewrite Ht, Hs, Hv.
  assert (E1 : N.shiftr (N.land (if cg then c_maskCollisionGroup else c_maskMapData) 24) 3 = 1) by (destruct cg; reflexivity).
  assert (E2 : ((N.land (if cg then c_maskCollisionGroup else c_maskMapData) 7 =? 0)
                || (N.land (if cg then c_maskCollisionGroup else c_maskMapData) 7 =? 3)) = true) by (destruct cg; reflexivity).
  assert (E3 : (N.land (if cg then c_maskCollisionGroup else c_maskMapData) 7 =? 3) = cg) by (destruct cg; reflexivity).
  rewrite E1, E2. change (1 =? 0) with false. change (1 =? 1) with true. cbv beta iota.
  unfold dec_map_data. rewrite dec_xm_enc by assumption. rewrite Hi, Hn, Hl, Hs, E3.
  rewrite dec_next_enc by lia.
  rewrite <- (app_nil_r (enc_elements els)). rewrite dec_elements_enc by assumption.
  rewrite negb_involutive. reflexivity.
Qed.

Lemma decode_encode s : swf s = true -> decode_slab (sid s) (encode_slab s) = Some s.
Proof.
  destruct s; cbn [sid].
  - apply decode_encode_array_meta.
  - apply decode_encode_map_meta.
  - apply decode_encode_storable.
  - apply decode_encode_array_data.
  - apply decode_encode_map_data.
Qed.

Lemma reencode s : swf s = true ->
  option_map encode_slab (decode_slab (sid s) (encode_slab s)) = Some (encode_slab s).
Proof. intros H. rewrite decode_encode by exact H. reflexivity. Qed.
(* ---------- C06: reported size = encoded length ---------- *)

Lemma enc_next_len na ni : lenN (enc_next na ni) = if has_next na ni then c_slabIDLength else 0.
Proof. unfold enc_next. destruct (has_next na ni); reflexivity. Qed.

Lemma size_is_encoded_length s : swf s = true ->
  lenN (encode_slab s) + omitted_next s = slab_size s + lenN (encode_extra s).
Proof.
  destruct s as [a i x cs|a i x cs|a i st|a i x na ni es|a i x na ni anys cg els];
    cbn [swf encode_slab omitted_next slab_size encode_extra]; intros H; split_swf H.
  - rewrite !lenN_app, mk_head_len, be64_len, be16_len, lenN_flat_ahdr. unfold c_arrayMetaDataSlabPrefixSize, c_arraySlabHeaderSize. lia.
  - rewrite !lenN_app, mk_head_len, be64_len, be16_len, lenN_flat_mhdr. unfold c_mapMetaDataSlabPrefixSize, c_mapSlabHeaderSize. lia.
  - rewrite !lenN_app, mk_head_len, enc_storable_len. unfold c_versionAndFlagSize. change (lenN (@nil N)) with 0. lia.
  - rewrite !lenN_app, mk_head_len, arr16_len, enc_next_len.
    rewrite (lenN_flat_map enc_storable storable_size) by (intros; apply enc_storable_len).
    unfold c_arrayRootDataSlabPrefixSize, c_arrayDataSlabPrefixSize, c_slabIDLength.
    destruct (is_some x), (has_next na ni); cbn [negb andb orb] in *; try discriminate; lia.
  - rewrite !lenN_app, mk_head_len, enc_next_len, enc_elements_len by assumption.
    unfold c_mapRootDataSlabPrefixSize, c_mapDataSlabPrefixSize, c_slabIDLength.
    destruct (is_some x), (has_next na ni); cbn [negb andb orb] in *; try discriminate; lia.
Qed.

Lemma omitted_next_cases s :
  (omitted_next s = 0 \/ omitted_next s = 16) /\
  (omitted_next s = 16 <-> (is_data s = true /\ is_root s = false /\
      match s with SArrayData _ _ _ na ni _ | SMapData _ _ _ na ni _ _ _ => has_next na ni = false | _ => False end)).
Proof.
  destruct s as [a i x cs|a i x cs|a i st|a i x na ni es|a i x na ni anys cg els];
    cbn [omitted_next is_data is_root]; try (split; [left; reflexivity|split; [discriminate|intros (H & _); discriminate]]).
  - destruct (is_some x), (has_next na ni); cbn [negb andb]; unfold c_slabIDLength;
      (split; [tauto|split; [try discriminate; tauto|intros (_ & H1 & H2); try discriminate; reflexivity]]).
  - destruct (is_some x), (has_next na ni); cbn [negb andb]; unfold c_slabIDLength;
      (split; [tauto|split; [try discriminate; tauto|intros (_ & H1 & H2); try discriminate; reflexivity]]).
Qed.

Lemma fold_left_add_sum {A} (g : A -> N) l acc : fold_left (fun a e => a + g e) l acc = acc + sumN (map g l).
Proof.
  revert acc. induction l as [|x l IH]; intros acc; cbn [fold_left map sumN fold_right]; [lia|].
  rewrite IH. fold (sumN (map g l)). lia.
Qed.

Lemma decoded_size_eq s : decoded_size s = slab_size s.
Proof.
  destruct s as [a i x cs|a i x cs|a i st|a i x na ni es|a i x na ni anys cg els]; cbn [decoded_size slab_size]; try reflexivity.
  - apply fold_left_add_sum.
  - unfold c_versionAndFlagSize, c_slabIDLength, c_mapRootDataSlabPrefixSize, c_mapDataSlabPrefixSize.
    destruct (is_some x); lia.
Qed.

Lemma decoded_size_ok s : swf s = true ->
  option_map snd (decode_slab_with_size (sid s) (encode_slab s)) = Some (slab_size s).
Proof.
  intros H. unfold decode_slab_with_size. rewrite decode_encode by exact H. cbn [option_map snd].
  rewrite decoded_size_eq. reflexivity.
Qed.

(* ---------- C07: flags readable from the raw bytes describe the content ---------- *)

Lemma holds_refs_array es : existsb storable_has_ptr es = nonnil (flat_map storable_refs es).
Proof. apply existsb_flat_map. intros s _. apply storable_has_ptr_nonnil. Qed.

Lemma flags_describe_content s :
  raw_is_root (encode_slab s) = Some (is_root s) /\
  raw_has_pointers (encode_slab s) = Some (holds_slab_refs s) /\
  raw_has_size_limit (encode_slab s) = Some (negb (any_size s)).
Proof.
  unfold raw_is_root, raw_has_pointers, raw_has_size_limit, holds_slab_refs.
  destruct s as [a i x cs|a i x cs|a i st|a i x na ni es|a i x na ni anys cg els];
    cbn [encode_slab is_root any_size slab_refs]; rewrite rd_headbytes_mk; cbn [option_map fst].
  - destruct (head_getters c_maskArrayMeta false false false (is_some x) false typ_ok_AM) as (_ & Hr & Hp & Hl & _).
    rewrite Hr, Hp, Hl. repeat split; reflexivity.
  - destruct (head_getters c_maskMapMeta false false false (is_some x) false typ_ok_MM) as (_ & Hr & Hp & Hl & _).
    rewrite Hr, Hp, Hl. repeat split; reflexivity.
  - destruct (head_getters c_maskStorable (storable_has_ptr st) false true false false typ_ok_ST) as (_ & Hr & Hp & Hl & _).
    rewrite Hr, Hp, Hl, storable_has_ptr_nonnil. repeat split; reflexivity.
  - destruct (head_getters c_maskArrayData (existsb storable_has_ptr es) (has_next na ni) false (is_some x) false typ_ok_AD)
      as (_ & Hr & Hp & Hl & _).
    rewrite Hr, Hp, Hl, holds_refs_array. repeat split; reflexivity.
  - assert (Htyp : typ_ok (if cg then c_maskCollisionGroup else c_maskMapData)) by (destruct cg; [apply typ_ok_CG|apply typ_ok_MD]).
    destruct (head_getters _ (elements_has_ptr els) (has_next na ni) anys (is_some x) false Htyp) as (_ & Hr & Hp & Hl & _).
    rewrite Hr, Hp, Hl, elements_has_ptr_nonnil. repeat split; reflexivity.
Qed.
(* ---------- C07: trailing bytes are rejected (index slabs, array data slabs) ---------- *)

Lemma dec_opt_app {A} (root : bool) (d : bytes -> option (A * bytes)) l o r x :
  (forall l a r, d l = Some (a, r) -> d (l ++ x) = Some (a, r ++ x)) ->
  dec_opt root d l = Some (o, r) -> dec_opt root d (l ++ x) = Some (o, r ++ x).
Proof.
  intros Hd. unfold dec_opt. destruct root.
  - destruct (d l) as [[a r']|] eqn:E; [|discriminate]. rewrite (Hd _ _ _ E). intros H; inversion H; reflexivity.
  - intros H; inversion H; reflexivity.
Qed.
Lemma dec_next_app hn l na ni r x : dec_next hn l = Some (na, ni, r) -> dec_next hn (l ++ x) = Some (na, ni, r ++ x).
Proof. unfold dec_next. destruct hn; [apply rd_sid_app|]. intros H; inversion H; reflexivity. Qed.

Lemma lenN_pos_nonnil {A} (x : list A) : x <> [] -> 0 < lenN x.
Proof. destruct x; [congruence|]. intros _. rewrite lenN_cons. lia. Qed.

Lemma dec_array_meta_trailing id h data s x : dec_array_meta id h data = Some s -> x <> [] ->
  dec_array_meta id h (data ++ x) = None.
Proof.
  intros H Hx. unfold dec_array_meta in *.
  destruct (dec_opt (h_is_root h) dec_xarray data) as [[o d1]|] eqn:E0; [|discriminate].
  rewrite (dec_opt_app _ _ _ _ _ x (fun l a r => dec_xarray_app l a r x) E0).
  destruct (rd64 d1) as [[addr d2]|] eqn:E1; [|discriminate]. rewrite (rd64_app _ _ _ x E1).
  destruct (rd16 d2) as [[n d3]|] eqn:E2; [|discriminate]. rewrite (rd16_app _ _ _ x E2).
  destruct (lenN d3 =? c_arraySlabHeaderSize * n) eqn:E3; [|discriminate].
  rewrite lenN_app. pose proof (lenN_pos_nonnil x Hx).
  replace (lenN d3 + lenN x =? c_arraySlabHeaderSize * n) with false by lia. reflexivity.
Qed.

Lemma dec_map_meta_trailing id h data s x : dec_map_meta id h data = Some s -> x <> [] ->
  dec_map_meta id h (data ++ x) = None.
Proof.
  intros H Hx. unfold dec_map_meta in *.
  destruct (dec_opt (h_is_root h) dec_xmap data) as [[o d1]|] eqn:E0; [|discriminate].
  rewrite (dec_opt_app _ _ _ _ _ x (fun l a r => dec_xmap_app l a r x) E0).
  destruct (rd64 d1) as [[addr d2]|] eqn:E1; [|discriminate]. rewrite (rd64_app _ _ _ x E1).
  destruct (rd16 d2) as [[n d3]|] eqn:E2; [|discriminate]. rewrite (rd16_app _ _ _ x E2).
  destruct (lenN d3 =? c_mapSlabHeaderSize * n) eqn:E3; [|discriminate].
  rewrite lenN_app. pose proof (lenN_pos_nonnil x Hx).
  replace (lenN d3 + lenN x =? c_mapSlabHeaderSize * n) with false by lia. reflexivity.
Qed.

Lemma dec_array_data_trailing id h data s x : dec_array_data id h data = Some s -> x <> [] ->
  dec_array_data id h (data ++ x) = None.
Proof.
  intros H Hx. unfold dec_array_data in *.
  destruct (dec_opt (h_is_root h) dec_xarray data) as [[o d1]|] eqn:E0; [|discriminate].
  rewrite (dec_opt_app _ _ _ _ _ x (fun l a r => dec_xarray_app l a r x) E0).
  destruct (h_has_inlined_slabs h); [discriminate|].
  destruct (dec_next (h_has_next_slab_id h) d1) as [[[na ni] d2]|] eqn:E1; [|discriminate].
  rewrite (dec_next_app _ _ _ _ _ x E1).
  destruct (lenN d2 <? c_arrayDataSlabElementHeadSize) eqn:E2; [discriminate|].
  rewrite lenN_app. replace (lenN d2 + lenN x <? c_arrayDataSlabElementHeadSize) with false by lia.
  destruct (rd_typed 4 d2) as [[n d3]|] eqn:E3; [|discriminate]. rewrite (rd_typed_app _ _ _ _ x E3).
  destruct (c_maxArrayElementCount <? n); [discriminate|].
  destruct (dec_seq dec_storable_top (N.to_nat n) d3) as [[es rest]|] eqn:E4; [|discriminate].
  destruct rest as [|? ?]; [|discriminate].
  rewrite (dec_seq_app dec_storable_top _ _ _ _ x (fun b a r' => dec_storable_top_app b a r' x) E4).
  cbn [app]. destruct x; [congruence|reflexivity].
Qed.

(* which decoders check for extraneous data (the Go decoders of map data slabs and storable slabs do not) *)
Definition checks_trailing (s : slab) : bool :=
  match s with SArrayMeta _ _ _ _ | SMapMeta _ _ _ _ | SArrayData _ _ _ _ _ _ => true | _ => false end.

Lemma dec_map_data_kind id h data s : dec_map_data id h data = Some s -> checks_trailing s = false.
Proof.
  unfold dec_map_data.
  destruct (dec_opt (h_is_root h) dec_xmap data) as [[o d1]|]; [|discriminate].
  destruct (h_has_inlined_slabs h); [discriminate|].
  destruct (dec_next (h_has_next_slab_id h) d1) as [[[na ni] d2]|]; [|discriminate].
  destruct (dec_elements d2) as [[els ?]|]; [|discriminate]. intros H; inversion H; reflexivity.
Qed.

Lemma no_trailing i b s x : decode_slab i b = Some s -> checks_trailing s = true -> x <> [] ->
  decode_slab i (b ++ x) = None.
Proof.
  intros H Hk Hx. destruct b as [|h0 [|h1 data]]; try discriminate.
  unfold decode_slab in *. cbn [app rd_headbytes] in *. cbv zeta in *.
  destruct (h_slab_type (h0, h1) =? 0).
  { destruct (h_sub_type (h0, h1) =? 0).
    { destruct (h_version (h0, h1) =? 1); [|discriminate]. eapply dec_array_data_trailing; eassumption. }
    destruct (h_sub_type (h0, h1) =? 1); [|discriminate].
    destruct (h_version (h0, h1) =? 1); [|discriminate]. eapply dec_array_meta_trailing; eassumption. }
  destruct (h_slab_type (h0, h1) =? 1).
  { destruct ((h_sub_type (h0, h1) =? 0) || (h_sub_type (h0, h1) =? 3)).
    { destruct (h_version (h0, h1) =? 1); [|discriminate].
      apply dec_map_data_kind in H. congruence. }
    destruct (h_sub_type (h0, h1) =? 1); [|discriminate].
    destruct (h_version (h0, h1) =? 1); [|discriminate]. eapply dec_map_meta_trailing; eassumption. }
  destruct (h_slab_type (h0, h1) =? 3); [|discriminate].
  destruct (dec_storable_top data) as [[st ?]|]; [|discriminate]. inversion H; subst. discriminate.
Qed.

(* ---------- C07: canonical form of non-root index slabs ---------- *)

Lemma bytes_ok_app_r (a b : bytes) : bytes_ok (a ++ b) -> bytes_ok b.
Proof. intros H. apply Forall_app in H. tauto. Qed.

Lemma dec_ahdrs_inv addr n d cs : bytes_ok d -> lenN d = c_arraySlabHeaderSize * N.of_nat n ->
  dec_ahdrs addr n d = Some cs ->
  flat_map enc_ahdr cs = d /\ length cs = n /\ Forall (fun c => ah_addr c = addr) cs.
Proof.
  unfold c_arraySlabHeaderSize. revert d cs. induction n as [|n IH]; intros d cs Hok Hlen H; cbn [dec_ahdrs] in H.
  - inversion H; subst. destruct d; [repeat split; constructor|]. rewrite lenN_cons in Hlen. lia.
  - destruct (rd64 d) as [[idx r1]|] eqn:E1; [|discriminate].
    destruct (rd32 r1) as [[cnt r2]|] eqn:E2; [|discriminate].
    destruct (rd16 r2) as [[sz r3]|] eqn:E3; [|discriminate].
    destruct (dec_ahdrs addr n r3) as [t|] eqn:E4; [|discriminate]. inversion H; subst; clear H.
    pose proof (bytes_ok_rd64_rest _ _ _ Hok E1) as Hok1.
    pose proof (bytes_ok_rd32_rest _ _ _ Hok1 E2) as Hok2.
    pose proof (bytes_ok_rd16_rest _ _ _ Hok2 E3) as Hok3.
    destruct (be64_rd64 _ _ _ Hok E1) as [-> _]. destruct (be32_rd32 _ _ _ Hok1 E2) as [-> _].
    destruct (be16_rd16 _ _ _ Hok2 E3) as [-> _].
    rewrite !lenN_app, be64_len, be32_len, be16_len in Hlen.
    destruct (IH r3 t Hok3 ltac:(lia) E4) as (Hf & Hl & Ha).
    cbn [flat_map length]. unfold enc_ahdr at 1. cbn [ah_idx ah_count ah_size]. rewrite Hf, Hl.
    repeat rewrite <- app_assoc. repeat split. constructor; [reflexivity|exact Ha].
Qed.

Lemma dec_mhdrs_inv addr n d cs : bytes_ok d -> lenN d = c_mapSlabHeaderSize * N.of_nat n ->
  dec_mhdrs addr n d = Some cs ->
  flat_map enc_mhdr cs = d /\ length cs = n /\ Forall (fun c => mh_addr c = addr) cs.
Proof.
  unfold c_mapSlabHeaderSize. revert d cs. induction n as [|n IH]; intros d cs Hok Hlen H; cbn [dec_mhdrs] in H.
  - inversion H; subst. destruct d; [repeat split; constructor|]. rewrite lenN_cons in Hlen. lia.
  - destruct (rd64 d) as [[idx r1]|] eqn:E1; [|discriminate].
    destruct (rd64 r1) as [[fk r2]|] eqn:E2; [|discriminate].
    destruct (rd16 r2) as [[sz r3]|] eqn:E3; [|discriminate].
    destruct (dec_mhdrs addr n r3) as [t|] eqn:E4; [|discriminate]. inversion H; subst; clear H.
    pose proof (bytes_ok_rd64_rest _ _ _ Hok E1) as Hok1.
    pose proof (bytes_ok_rd64_rest _ _ _ Hok1 E2) as Hok2.
    pose proof (bytes_ok_rd16_rest _ _ _ Hok2 E3) as Hok3.
    destruct (be64_rd64 _ _ _ Hok E1) as [-> _]. destruct (be64_rd64 _ _ _ Hok1 E2) as [-> _].
    destruct (be16_rd16 _ _ _ Hok2 E3) as [-> _].
    rewrite !lenN_app, !be64_len, be16_len in Hlen.
    destruct (IH r3 t Hok3 ltac:(lia) E4) as (Hf & Hl & Ha).
    cbn [flat_map length]. unfold enc_mhdr at 1. cbn [mh_idx mh_first mh_size]. rewrite Hf, Hl.
    repeat rewrite <- app_assoc. repeat split. constructor; [reflexivity|exact Ha].
Qed.

(* the children of an index slab live under the slab's own address, and there is at least one *)
Definition meta_addr_ok (s : slab) : Prop :=
  match s with
  | SArrayMeta a _ _ cs => cs <> [] /\ Forall (fun c => ah_addr c = a) cs
  | SMapMeta a _ _ cs => cs <> [] /\ Forall (fun c => mh_addr c = a) cs
  | _ => False
  end.

Lemma canonical_array_meta id h data a i cs : bytes_ok data ->
  dec_array_meta id h data = Some (SArrayMeta a i None cs) -> meta_addr_ok (SArrayMeta a i None cs) ->
  be64 a ++ be16 (lenN cs) ++ flat_map enc_ahdr cs = data.
Proof.
  intros Hok H [Hne Haddr]. unfold dec_array_meta in H.
  destruct (h_is_root h).
  { cbn [dec_opt] in H. destruct (dec_xarray data) as [[t r]|]; [|discriminate].
    destruct (rd64 r) as [[ad d2]|]; [|discriminate]. destruct (rd16 d2) as [[n d3]|]; [|discriminate].
    destruct (lenN d3 =? c_arraySlabHeaderSize * n); [|discriminate].
    destruct (dec_ahdrs _ _ d3); [|discriminate]. destruct (_ <? _); discriminate. }
  cbn [dec_opt] in H.
  destruct (rd64 data) as [[addr d2]|] eqn:E1; [|discriminate].
  destruct (rd16 d2) as [[n d3]|] eqn:E2; [|discriminate].
  destruct (lenN d3 =? c_arraySlabHeaderSize * n) eqn:E3; [|discriminate].
  destruct (dec_ahdrs addr (N.to_nat n) d3) as [cs'|] eqn:E4; [|discriminate].
  destruct (c_maxArrayElementCount <? sumN (map ah_count cs')); [discriminate|]. inversion H; subst; clear H.
  pose proof (bytes_ok_rd64_rest _ _ _ Hok E1) as Hok1. pose proof (bytes_ok_rd16_rest _ _ _ Hok1 E2) as Hok2.
  destruct (be64_rd64 _ _ _ Hok E1) as [-> _]. destruct (be16_rd16 _ _ _ Hok1 E2) as [-> Hn].
  destruct (dec_ahdrs_inv addr (N.to_nat n) d3 cs Hok2 ltac:(rewrite N2Nat.id; lia) E4) as (Hf & Hl & Ha).
  assert (addr = fst id) as ->.
  { destruct cs as [|c cs]; [congruence|]. inversion Ha; subst. inversion Haddr; subst. congruence. }
  rewrite Hf. unfold lenN. rewrite Hl, N2Nat.id. reflexivity.
Qed.

Lemma canonical_map_meta id h data a i cs : bytes_ok data ->
  dec_map_meta id h data = Some (SMapMeta a i None cs) -> meta_addr_ok (SMapMeta a i None cs) ->
  be64 a ++ be16 (lenN cs) ++ flat_map enc_mhdr cs = data.
Proof.
  intros Hok H [Hne Haddr]. unfold dec_map_meta in H.
  destruct (h_is_root h).
  { cbn [dec_opt] in H. destruct (dec_xmap data) as [[t r]|]; [|discriminate].
    destruct (rd64 r) as [[ad d2]|]; [|discriminate]. destruct (rd16 d2) as [[n d3]|]; [|discriminate].
    destruct (lenN d3 =? c_mapSlabHeaderSize * n); [|discriminate].
    destruct (dec_mhdrs _ _ d3); discriminate. }
  cbn [dec_opt] in H.
  destruct (rd64 data) as [[addr d2]|] eqn:E1; [|discriminate].
  destruct (rd16 d2) as [[n d3]|] eqn:E2; [|discriminate].
  destruct (lenN d3 =? c_mapSlabHeaderSize * n) eqn:E3; [|discriminate].
  destruct (dec_mhdrs addr (N.to_nat n) d3) as [cs'|] eqn:E4; [|discriminate]. inversion H; subst; clear H.
  pose proof (bytes_ok_rd64_rest _ _ _ Hok E1) as Hok1. pose proof (bytes_ok_rd16_rest _ _ _ Hok1 E2) as Hok2.
  destruct (be64_rd64 _ _ _ Hok E1) as [-> _]. destruct (be16_rd16 _ _ _ Hok1 E2) as [-> Hn].
  destruct (dec_mhdrs_inv addr (N.to_nat n) d3 cs Hok2 ltac:(rewrite N2Nat.id; lia) E4) as (Hf & Hl & Ha).
  assert (addr = fst id) as ->.
  { destruct cs as [|c cs]; [congruence|]. inversion Ha; subst. inversion Haddr; subst. congruence. }
  rewrite Hf. unfold lenN. rewrite Hl, N2Nat.id. reflexivity.
Qed.

(* only one body decodes to a given non-root index slab (the decoders ignore the undefined bits of
   the 2-byte head, so the head itself is canonical only up to those bits) *)
Lemma decode_canonical i b s : bytes_ok b -> decode_slab i b = Some s ->
  is_meta s = true -> is_root s = false -> meta_addr_ok s ->
  skipn 2 (encode_slab s) = skipn 2 b.
Proof.
  intros Hok H Hm Hr Ha. destruct b as [|h0 [|h1 data]]; try discriminate.
  assert (Hokd : bytes_ok data) by (inversion Hok as [|? ? _ K]; inversion K; assumption).
  unfold decode_slab in H. cbn [rd_headbytes] in H. cbv zeta in H. cbn [skipn].
  destruct s as [a j x cs|a j x cs|a j st|a j x na ni es|a j x na ni anys cg els]; try discriminate;
    cbn [is_root is_some] in Hr; destruct x; try discriminate; cbn [encode_slab enc_opt is_some].
  - change (skipn 2 (mk_head c_maskArrayMeta false false false false false ++ [] ++ ?y)) with y.
    destruct (h_slab_type (h0, h1) =? 0).
    { destruct (h_sub_type (h0, h1) =? 0).
      { destruct (h_version (h0, h1) =? 1); [|discriminate]. unfold dec_array_data in H.
        destruct (dec_opt _ _ _) as [[? ?]|]; [|discriminate]. destruct (h_has_inlined_slabs _); [discriminate|].
        destruct (dec_next _ _) as [[[? ?] ?]|]; [|discriminate]. destruct (_ <? _); [discriminate|].
        destruct (rd_typed 4 _) as [[? ?]|]; [|discriminate]. destruct (_ <? _); [discriminate|].
        destruct (dec_seq _ _ _) as [[? [|? ?]]|]; discriminate. }
      destruct (h_sub_type (h0, h1) =? 1); [|discriminate].
      destruct (h_version (h0, h1) =? 1); [|discriminate].
      eapply canonical_array_meta; eassumption. }
    destruct (h_slab_type (h0, h1) =? 1).
    { destruct (_ || _).
      { destruct (h_version (h0, h1) =? 1); [|discriminate]. apply dec_map_data_kind in H. discriminate. }
      destruct (h_sub_type (h0, h1) =? 1); [|discriminate]. destruct (h_version (h0, h1) =? 1); [|discriminate].
      unfold dec_map_meta in H. destruct (dec_opt _ _ _) as [[? ?]|]; [|discriminate].
      destruct (rd64 _) as [[? ?]|]; [|discriminate]. destruct (rd16 _) as [[? ?]|]; [|discriminate].
      destruct (_ =? _); [|discriminate]. destruct (dec_mhdrs _ _ _); discriminate. }
    destruct (h_slab_type (h0, h1) =? 3); [|discriminate]. destruct (dec_storable_top data) as [[? ?]|]; discriminate.
  - change (skipn 2 (mk_head c_maskMapMeta false false false false false ++ [] ++ ?y)) with y.
    destruct (h_slab_type (h0, h1) =? 0).
    { destruct (h_sub_type (h0, h1) =? 0).
      { destruct (h_version (h0, h1) =? 1); [|discriminate]. unfold dec_array_data in H.
        destruct (dec_opt _ _ _) as [[? ?]|]; [|discriminate]. destruct (h_has_inlined_slabs _); [discriminate|].
        destruct (dec_next _ _) as [[[? ?] ?]|]; [|discriminate]. destruct (_ <? _); [discriminate|].
        destruct (rd_typed 4 _) as [[? ?]|]; [|discriminate]. destruct (_ <? _); [discriminate|].
        destruct (dec_seq _ _ _) as [[? [|? ?]]|]; discriminate. }
      destruct (h_sub_type (h0, h1) =? 1); [|discriminate].
      destruct (h_version (h0, h1) =? 1); [|discriminate].
      unfold dec_array_meta in H. destruct (dec_opt _ _ _) as [[? ?]|]; [|discriminate].
      destruct (rd64 _) as [[? ?]|]; [|discriminate]. destruct (rd16 _) as [[? ?]|]; [|discriminate].
      destruct (_ =? _); [|discriminate]. destruct (dec_ahdrs _ _ _); [|discriminate]. destruct (_ <? _); discriminate. }
    destruct (h_slab_type (h0, h1) =? 1).
    { destruct (_ || _).
      { destruct (h_version (h0, h1) =? 1); [|discriminate]. apply dec_map_data_kind in H. discriminate. }
      destruct (h_sub_type (h0, h1) =? 1); [|discriminate]. destruct (h_version (h0, h1) =? 1); [|discriminate].
      eapply canonical_map_meta; eassumption. }
    destruct (h_slab_type (h0, h1) =? 3); [|discriminate]. destruct (dec_storable_top data) as [[? ?]|]; discriminate.
Qed.
(* ---------- the encoder produces bytes ---------- *)

Lemma bytes_ok_flat_map {A} (f : A -> bytes) l : (forall a, In a l -> bytes_ok (f a)) -> bytes_ok (flat_map f l).
Proof.
  induction l as [|a l IH]; intros H; [constructor|]. cbn [flat_map]. apply Forall_app. split.
  - apply H. left. reflexivity.
  - apply IH. intros b Hb. apply H. right. exact Hb.
Qed.

Lemma enc_pair_ok p : pair_swf p = true -> bytes_ok (enc_pair p).
Proof.
  intros H. destruct (pair_swf_split _ H) as [Hk Hv]. unfold enc_pair. constructor; [unfold byte_ok; lia|].
  apply Forall_app. split; apply enc_storable_ok; assumption.
Qed.

Lemma arr16_ok n : n < two16 -> bytes_ok (arr16_head n).
Proof. unfold two16. intros H. constructor; [unfold byte_ok; lia|]. apply be16_ok. exact H. Qed.
Lemma bstr16_ok n : n < two16 -> bytes_ok (bstr16_head n).
Proof. unfold two16. intros H. constructor; [unfold byte_ok; lia|]. apply be16_ok. exact H. Qed.

Lemma enc_hkey_head_ok l hk n : l <= c_maxDigestLevel -> c_digestSize * lenN hk < two16 -> n < two16 ->
  forallb (fun h => h <? two64) hk = true -> bytes_ok (enc_hkey_head l hk n).
Proof.
  unfold c_maxDigestLevel. intros Hl Hhk Hn Hh. unfold enc_hkey_head.
  apply Forall_app. split. { repeat constructor; unfold byte_ok; lia. }
  apply Forall_app. split. { apply bstr16_ok. exact Hhk. }
  apply Forall_app. split; [|apply arr16_ok; exact Hn].
  apply bytes_ok_flat_map. intros h Hin. rewrite forallb_forall in Hh. specialize (Hh h Hin). unfold two64 in Hh.
  apply be64_ok. lia.
Qed.
Lemma enc_singles_head_ok l n : l <= c_maxDigestLevel -> n < two16 -> bytes_ok (enc_singles_head l n).
Proof.
  unfold c_maxDigestLevel. intros Hl Hn. unfold enc_singles_head.
  apply Forall_app. split. { repeat constructor; unfold byte_ok; lia. } apply arr16_ok. exact Hn.
Qed.

Lemma tag8_ok t : t < 256 -> bytes_ok (tag8 t).
Proof. intros H. repeat constructor; unfold byte_ok; lia. Qed.

Lemma enc_element_ok e : element_swf e = true -> bytes_ok (enc_element e).
Proof.
  induction e as [k v|l hk es IH|l ps|a i] using element_ind'; intros Hwf; cbn [enc_element].
  - apply enc_pair_ok. exact Hwf.
  - destruct (element_swf_H _ _ _ Hwf) as (Hl & Hlen & Hhk & Hes & Hh & Hall).
    apply Forall_app. split. { apply tag8_ok. reflexivity. }
    apply Forall_app. split. { apply enc_hkey_head_ok; assumption. }
    apply bytes_ok_flat_map. intros e He. rewrite Forall_forall in IH. apply IH; [exact He|].
    rewrite forallb_forall in Hall. apply Hall. exact He.
  - destruct (element_swf_S _ _ Hwf) as (Hl & Hpos & Hps & Hall).
    apply Forall_app. split. { apply tag8_ok. reflexivity. }
    apply Forall_app. split. { apply enc_singles_head_ok; assumption. }
    apply bytes_ok_flat_map. intros p Hp. apply enc_pair_ok. rewrite forallb_forall in Hall. apply Hall. exact Hp.
  - cbn [element_swf] in Hwf. apply Forall_app. split. { apply tag8_ok. reflexivity. }
    apply enc_storable_ok. unfold storable_swf. cbn [storable_wf some_levels]. rewrite Hwf. reflexivity.
Qed.

Lemma enc_elements_ok els : elements_swf els = true -> bytes_ok (enc_elements els).
Proof.
  intros H. destruct els as [l hk es|l ps]; cbn [enc_elements elements_swf] in *.
  - destruct (element_swf_H l hk es H) as (Hl & Hlen & Hhk & Hes & Hh & Hall).
    apply Forall_app. split. { apply enc_hkey_head_ok; assumption. }
    apply bytes_ok_flat_map. intros e He. apply enc_element_ok. rewrite forallb_forall in Hall. apply Hall. exact He.
  - destruct (element_swf_S l ps H) as (Hl & Hpos & Hps & Hall).
    apply Forall_app. split. { apply enc_singles_head_ok; assumption. }
    apply bytes_ok_flat_map. intros p Hp. apply enc_pair_ok. rewrite forallb_forall in Hall. apply Hall. exact Hp.
Qed.

Lemma enc_xa_ok x : xa_swf x = true -> bytes_ok (enc_opt enc_xarray x).
Proof.
  destruct x as [t|]; cbn [xa_swf enc_opt]; intros H; [|constructor]. unfold enc_xarray.
  apply Forall_app. split. { apply cbor_head_ok; vm_compute; reflexivity. } apply enc_ti_ok. exact H.
Qed.
Lemma enc_xm_ok x : xm_swf x = true -> bytes_ok (enc_opt enc_xmap x).
Proof.
  destruct x as [[t c s]|]; cbn [xm_swf enc_opt mx_ti mx_count mx_seed]; intros H; [|constructor].
  apply andb_true_iff in H as [H Hs]. apply andb_true_iff in H as [Ht Hc]. unfold two64 in *.
  unfold enc_xmap. cbn [mx_ti mx_count mx_seed].
  apply Forall_app. split. { apply cbor_head_ok; vm_compute; reflexivity. }
  apply Forall_app. split. { apply enc_ti_ok. exact Ht. }
  apply Forall_app. split; apply cbor_head_ok; lia.
Qed.
Lemma enc_next_ok na ni : na < two64 -> ni < two64 -> bytes_ok (enc_next na ni).
Proof.
  unfold two64, enc_next. intros Ha Hi. destruct (has_next na ni); [|constructor].
  unfold enc_sid. apply Forall_app. split; apply be64_ok; assumption.
Qed.

Lemma encode_bytes_ok s : swf s = true -> bytes_ok (encode_slab s).
Proof.
  destruct s as [a i x cs|a i x cs|a i st|a i x na ni es|a i x na ni anys cg els]; cbn [swf encode_slab]; intros H; split_swf H;
    unfold two64, two32, two16 in *.
  - apply Forall_app. split. { apply mk_head_ok, typ_ok_AM. }
    apply Forall_app. split. { apply enc_xa_ok. assumption. }
    apply Forall_app. split. { apply be64_ok. lia. }
    apply Forall_app. split. { apply be16_ok. lia. }
    apply bytes_ok_flat_map. intros c Hc. rewrite forallb_forall in Hw0. specialize (Hw0 c Hc).
    unfold ahdr_swf, two64, two32, two16 in Hw0. unfold enc_ahdr.
    apply Forall_app. split. { apply be64_ok. lia. } apply Forall_app. split; [apply be32_ok|apply be16_ok]; lia.
  - apply Forall_app. split. { apply mk_head_ok, typ_ok_MM. }
    apply Forall_app. split. { apply enc_xm_ok. assumption. }
    apply Forall_app. split. { apply be64_ok. lia. }
    apply Forall_app. split. { apply be16_ok. lia. }
    apply bytes_ok_flat_map. intros c Hc. rewrite forallb_forall in Hw. specialize (Hw c Hc).
    unfold mhdr_swf, two64, two16 in Hw. unfold enc_mhdr.
    apply Forall_app. split. { apply be64_ok. lia. } apply Forall_app. split; [apply be64_ok|apply be16_ok]; lia.
  - apply Forall_app. split. { apply mk_head_ok, typ_ok_ST. } apply enc_storable_ok. assumption.
  - apply Forall_app. split. { apply mk_head_ok, typ_ok_AD. }
    apply Forall_app. split. { apply enc_xa_ok. assumption. }
    apply Forall_app. split. { apply enc_next_ok; unfold two64; lia. }
    apply Forall_app. split. { apply arr16_ok. unfold two16. lia. }
    apply bytes_ok_flat_map. intros e He. apply enc_storable_ok. rewrite forallb_forall in Hw. apply Hw. exact He.
  - apply Forall_app. split. { apply mk_head_ok. destruct cg; [apply typ_ok_CG|apply typ_ok_MD]. }
    apply Forall_app. split. { apply enc_xm_ok. assumption. }
    apply Forall_app. split. { apply enc_next_ok; unfold two64; lia. }
    apply enc_elements_ok. assumption.
Qed.
