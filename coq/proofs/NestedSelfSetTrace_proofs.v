(* NestedSelfSetTrace_proofs.v — the engine "nested2" (NestedSelfSetTrace.v) is a conservative
   extension of the engine "nested" (NestedTrace.v): on a history without operation code 13 both
   return the same verdict. *)
From Coq Require Import ZArith NArith List Bool Lia.
From AtreeGen Require Import Consts.
From AtreeModel Require Import Proto Nested NestedErr NestedFresh NestedSelfSet NestedTrace NestedSelfSetTrace.
Import ListNotations.
Local Open Scope Z_scope.

Lemma check_from_sim {S O1 O2 : Type} (dec1 : line -> option O1) (stp1 : S -> O1 -> S * line)
      (dec2 : line -> option O2) (stp2 : S -> O2 -> S * line) (P : line -> Prop) :
  (forall o, P o -> match dec1 o, dec2 o with
                    | Some a, Some b => forall s, stp1 s a = stp2 s b
                    | None, None => True
                    | _, _ => False
                    end) ->
  forall tr s k, (forall o r, In (o, r) tr -> P o) ->
    check_from dec1 stp1 s tr k = check_from dec2 stp2 s tr k.
Proof.
  intros Hsim. induction tr as [|[o r] tr IH]; intros s k HP; cbn [check_from]; [reflexivity|].
  specialize (Hsim o (HP o r (or_introl eq_refl))).
  destruct (dec1 o) as [a|], (dec2 o) as [b|]; try contradiction; [|reflexivity].
  rewrite Hsim. destruct (stp2 s b) as [s' m]. destruct (zlist_eqb m r); [|reflexivity].
  apply IH. intros o' r' Hin. apply (HP o' r'). now right.
Qed.

Definition not13 (o : line) : Prop := match o with c :: _ => c <> 13 | [] => True end.

Lemma dec_args2_other code a :
  code <> 13 -> dec_args2 code a = match dec_args code a with Some o => Some (H2 (HOp o)) | None => None end.
Proof.
  intros H. unfold dec_args2. destruct code as [|p|p]; try reflexivity.
  destruct p as [p|p|]; try reflexivity.
  destruct p as [p|p|]; try reflexivity.
  destruct p as [p|p|]; try reflexivity.
  destruct p; try reflexivity. exfalso. apply H. reflexivity.
Qed.

Theorem chk_nested2_conservative cfg tr :
  (forall o r, In (o, r) tr -> not13 o) -> chk_nested2 cfg tr = chk_nested cfg tr.
Proof.
  intros HP. unfold chk_nested2, chk_nested.
  do 11 (destruct cfg as [|? cfg]; [reflexivity|]). destruct cfg; [|reflexivity].
  destruct (consts_ok _ _ _ _ _); [|reflexivity].
  apply (check_from_sim _ _ _ _ not13); [|exact HP].
  intros o Ho. unfold dec_hop2, dec_nop. destruct o as [|code [|nobs r]]; auto.
  cbn [not13] in Ho. destruct (Nat.ltb (length r) (znat nobs)); auto.
  rewrite (dec_args2_other _ _ Ho). destruct (dec_args code (skipn (znat nobs) r)) as [op|]; [|exact I].
  intros s. unfold nested_step2, nested_step. cbn [snd fst hstep]. reflexivity.
Qed.
