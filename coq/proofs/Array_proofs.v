(* Array_proofs.v — T4/T5: the array level.  Every operation of [a_step] keeps the array invariant
   ([awf], with the sibling link of the rightmost leaf being 0), keeps the root identifier, and
   answers exactly as the plain sequence [seq_step] does on the abstraction [abs_arr]; hence every
   history from [arr_init] refines the sequence.  Also: soundness of the boolean checker
   [wf_rootb] that the harness applies to dumps of the implementation. *)
From Coq Require Import ZArith NArith List Bool Lia ZifyBool ZifyN ZifyNat.
From AtreeGen Require Import Consts.
From AtreeModel Require Import Settings ArrayTree ArrayInv.
From AtreeProofs Require Import Settings_proofs ArrayList_lemmas Rebalance_proofs ArrayRoute_proofs
  ArrayFixup_proofs ArrayTree_proofs.
Import ListNotations.
Local Open Scope N_scope.
Ltac Zify.zify_post_hook ::= Z.div_mod_to_equations.

(** what the plain sequence sees of an answer: the place where a large value is stored is forgotten *)
Definition strip_out (o : aout) : aout :=
  match o with
  | RElem e => RElem (strip e)
  | RList l => RList (map strip l)
  | x => x
  end.

(** the caller's contract on a new element: within the inline limit (a larger value arrives as a
    reference), and the "stored in its own slab" flag is a flag (0/1) *)
Definition aop_ok (c : cfg) (o : aop) : Prop :=
  match o with
  | OSet _ e | OInsert _ e | OAppend e => elem_ok c e /\ strip e = e
  | _ => True
  end.

(** the inductive invariant: [awf] and the rightmost leaf has no right sibling *)
Definition awfl (c : cfg) (a : arr) : Prop := awf c a /\ last_next (a_root a) = 0.

Lemma nth_error_firstn_lt {A} (l : list A) n k : (k < n)%nat -> nth_error (firstn n l) k = nth_error l k.
Proof.
  revert n k; induction l as [|a r IH]; intros [|n] [|k] H; cbn [firstn nth_error]; try reflexivity; try lia.
  apply IH. lia.
Qed.
Lemma nth_error_skipn_add {A} (l : list A) n k : nth_error (skipn n l) k = nth_error l (n + k).
Proof.
  revert l; induction n as [|n IH]; intros l; [reflexivity|].
  destruct l as [|a r]; cbn [skipn Nat.add nth_error]; [destruct k; reflexivity|apply IH].
Qed.

Lemma strip_idem e : strip (strip e) = strip e.
Proof. unfold strip. cbn [e_id e_sz e_ext]. destruct (e_ext e =? 0); reflexivity. Qed.

Section WithT.
Variable T : N.
Hypothesis HT : valid_T T.
Local Notation c := (set_threshold T).
Local Notation leaf_ok := (leaf_ok T).

(** * The root *)
Lemma wf_root_length r : wf_root c r -> N.of_nat (length (to_list r)) = h_count (hdr_of r).
Proof.
  intros H. inversion H; subst; cbn [to_list hdr_of].
  - lia.
  - match goal with Hw : wfn _ _ _ |- _ => apply (wfn_length _ _ _ Hw) end.
Qed.

Lemma root_get r i : wf_root c r ->
  n_get r i = match nth_error (to_list r) (N.to_nat i) with Some e => Ok e | None => Err EIndexOOB end.
Proof.
  intros H. inversion H; subst.
  - cbn [n_get to_list]. rewrite nth_N_eq. reflexivity.
  - eapply n_get_refines; eauto.
Qed.

(* the root between the recursive update and the root fix-up *)
Inductive root_mid : anode -> Prop :=
| rm_AD h es : leaf_ok RP h es -> h_size h <= cmax c + cinl_arr c -> root_mid (AD h 0 es)
| rm_AM d h hs sums cs :
    wfn c (S d) (AM h hs sums cs) -> (1 <= length cs)%nat -> h_size h <= cmax c + HS ->
    root_mid (AM h hs sums cs).

Lemma root_mid_of_near d h hs sums cs r' :
  wfn c (S d) (AM h hs sums cs) -> (2 <= length cs)%nat -> h_size h <= cmax c ->
  wfn c (S d) r' ->
  h_size h <= h_size (hdr_of r') + HS -> h_size (hdr_of r') <= h_size h + HS ->
  root_mid r'.
Proof.
  intros Hw H2 Hmax Hw' Hlo Hhi.
  apply wfn_AM_inv in Hw. destruct Hw as (d0 & _ & _ & _ & _ & _ & _ & Hs).
  destruct (wfn_S_inv _ _ _ Hw') as (h' & hs' & sums' & cs' & -> & _ & _ & _ & _ & _ & Hs').
  cbn [hdr_of] in *. econstructor; [exact Hw'| |lia]. unfold_sizes; lia.
Qed.

Definition same_arr (a a' : arr) : Prop :=
  to_list (a_root a') = to_list (a_root a) /\ a_rootid a' = a_rootid a /\ a_count a' = a_count a /\
  a_type a' = a_type a /\ last_next (a_root a') = last_next (a_root a).

(* Array.splitRoot *)
Lemma split_root_ok a1 :
  root_mid (a_root a1) -> n_is_full c (a_root a1) = true ->
  exists a2 lg, split_root a1 = (Ok a2, lg) /\ wf_root c (a_root a2) /\ same_arr a1 a2 /\
    promote_if_single a2 = (a2, []).
Proof.
  intros Hm Hfull. unfold n_is_full in Hfull. unfold split_root.
  destruct a1 as [r al ty]. cbn [a_root a_alloc a_type a_rootid] in *.
  assert (Hgen : forall old d, wfn c d old -> cmax c < h_size (hdr_of old) ->
            h_size (hdr_of old) <= cmax c + split_slack T old ->
            to_list old = to_list r -> h_count (hdr_of old) = h_count (hdr_of r) ->
            last_next old = last_next r ->
            exists a2 lg,
              match n_split (set_id old (al + 1)) (al + 1 + 1) with
              | Err e => (Err e, [])
              | Ok (l, r0) =>
                (Ok (mkarr (AM (mkhdr (h_id (hdr_of r)) (PM + HS * 2) (h_count (hdr_of l) + h_count (hdr_of r0)))
                               [hdr_of l; hdr_of r0]
                               [h_count (hdr_of l); h_count (hdr_of l) + h_count (hdr_of r0)] [l; r0])
                           (al + 1 + 1) ty),
                 [WStore (h_id (hdr_of l)); WStore (h_id (hdr_of r0)); WStore (h_id (hdr_of r))])
              end = (Ok a2, lg) /\ wf_root c (a_root a2) /\ same_arr (mkarr r al ty) a2 /\
              promote_if_single a2 = (a2, [])).
  { intros old d Hw Hlo Hhi Hto Hcnt Hln.
    assert (Hw' : wfn c d (set_id old (al + 1))) by (inversion Hw; subst; constructor; auto).
    assert (Hh : h_size (hdr_of (set_id old (al + 1))) = h_size (hdr_of old)) by (destruct old; reflexivity).
    assert (Hss : split_slack T (set_id old (al + 1)) = split_slack T old) by (destruct old; reflexivity).
    assert (Hto' : to_list (set_id old (al + 1)) = to_list old) by (destruct old; reflexivity).
    assert (Hcnt' : h_count (hdr_of (set_id old (al + 1))) = h_count (hdr_of old)) by (destruct old; reflexivity).
    assert (Hln' : last_next (set_id old (al + 1)) = last_next old) by (destruct old; reflexivity).
    destruct (split_ok T HT d _ (al + 1 + 1) Hw' ltac:(lia) ltac:(lia))
      as (l & r0 & Hsp & Hwl & Hwr & Hbl & Hbr & Hlist & Hidl & Hidr & Hc & Hlast).
    rewrite Hsp. do 2 eexists. split; [reflexivity|]. cbn [a_root].
    split; [|split].
    - apply (wfr_AM c d); [|cbn; lia|cbn [h_size]; cfg_lia].
      constructor; auto; cbn [map psums sum_cnt h_count h_size length].
      lia.
    - unfold same_arr, a_rootid, a_count. cbn [a_root a_type hdr_of h_id h_count to_list last_next flat_map map last].
      repeat split; try lia.
      rewrite app_nil_r, Hlist, Hto', Hto. reflexivity.
    - reflexivity. }
  inversion Hm as [h es Hl Hsz Er | d h hs sums cs Hw H1 Hsz Er]; subst r; cbn [hdr_of] in *.
  - destruct Hl as (HF & Hc & Hs).
    apply (Hgen (AD (mkhdr (h_id h) (h_size h - RP + P) (h_count h)) 0 es) 0%nat); cbn [hdr_of h_size h_count to_list last_next is_data split_slack]; auto.
    + apply wfn_AD_iff. repeat split; auto; cbn [h_size]. unfold_sizes; lia.
    + unfold_sizes; lia.
    + unfold split_slack. cbn [is_data]. unfold_sizes; lia.
  - apply (Hgen (AM h hs sums cs) (S d)); auto. cbn [hdr_of]. lia.
Qed.

(* Array.promoteChildAsNewRoot *)
Lemma promote_ok a1 :
  root_mid (a_root a1) -> n_is_full c (a_root a1) = false -> last_next (a_root a1) = 0 ->
  wf_root c (a_root (fst (promote_if_single a1))) /\ same_arr a1 (fst (promote_if_single a1)).
Proof.
  intros Hm Hfull Hln. unfold n_is_full in Hfull.
  destruct a1 as [r al ty]. cbn [a_root] in *. unfold promote_if_single. cbn [a_root a_alloc a_type].
  inversion Hm as [h es Hl Hsz Er | d h hs sums cs Hw H1 Hsz Er]; subst r; cbn [hdr_of] in *.
  - cbn [fst a_root]. split; [|unfold same_arr; auto 6].
    destruct Hl as (HF & Hc & Hs). constructor; auto. lia.
  - pose proof Hw as Hw0.
    apply wfn_AM_inv in Hw. destruct Hw as (d0 & [= <-] & Hws & Hbs & -> & Hsums & Hc & Hs).
    destruct cs as [|ch [|ch2 cs]]; cbn [length] in H1; [lia| |].
    + (* a single child: it becomes the root *)
      cbn [map fst a_root].
      pose proof (Forall_inv Hws) as Wch. pose proof (Forall_inv Hbs) as Bch.
      pose proof Bch as Bch0. unfold in_band in Bch. cbn [map sum_cnt] in Hc.
      cbn [last_next map last] in Hln.
      destruct d as [|d].
      * destruct (wfn_0_inv _ _ Wch) as (hh & nx & es & -> & HF & Hcc & Hss). cbn [hdr_of last_next] in *.
        subst nx. split.
        -- constructor; auto; cbn [h_size h_count]; unfold_sizes; lia.
        -- unfold same_arr, a_rootid, a_count. cbn [a_root a_type hdr_of h_id h_count to_list last_next flat_map map last].
           repeat split; try lia. symmetry. apply app_nil_r.
      * destruct (wfn_S_inv _ _ _ Wch) as (hh & hs2 & sums2 & cs2 & -> & Hws2 & Hbs2 & Hhs2 & Hsums2 & Hc2 & Hs2).
        pose proof (in_band_index_two T HT d hh hs2 sums2 cs2 Wch Bch0) as H2.
        cbn [hdr_of] in *. split.
        -- apply (wfr_AM c d); auto; [constructor; auto|cbn [h_size]; lia].
        -- unfold same_arr, a_rootid, a_count. cbn [a_root a_type hdr_of h_id h_count to_list last_next flat_map map last] in *.
           repeat split; try lia. symmetry. apply app_nil_r.
    + cbn [map fst a_root]. split; [|unfold same_arr; auto 6].
      apply (wfr_AM c d); auto; [cbn; lia|lia].
Qed.

(** * The three recursive operations applied to the root *)
Lemma wf_root_cases r : wf_root c r ->
  (exists h es, r = AD h 0 es /\ leaf_ok RP h es /\ h_size h <= cmax c) \/
  (exists d h hs sums cs, r = AM h hs sums cs /\ wfn c (S d) r /\ (2 <= length cs)%nat /\ h_size h <= cmax c).
Proof.
  intros H. inversion H; subst.
  - left. do 2 eexists. split; [reflexivity|]. unfold ArrayTree_proofs.leaf_ok. auto.
  - right. do 5 eexists. split; [reflexivity|]. eauto.
Qed.

Lemma root_set_ok r i e alloc : wf_root c r -> elem_ok c e ->
  (h_count (hdr_of r) <= i -> n_set c RP r i e alloc = Err EIndexOOB) /\
  (i < h_count (hdr_of r) -> exists r' old alloc' lg,
     n_set c RP r i e alloc = Ok (r', old, alloc', lg) /\
     nth_error (to_list r) (N.to_nat i) = Some old /\ root_mid r' /\
     map strip (to_list r') = replace_nth (N.to_nat i) (strip e) (map strip (to_list r)) /\
     h_id (hdr_of r') = h_id (hdr_of r) /\ last_next r' = last_next r /\
     h_count (hdr_of r') = h_count (hdr_of r)).
Proof.
  intros Hr He. destruct (wf_root_cases r Hr) as [(h & es & -> & Hl & Hsz)|(d & h & hs & sums & cs & -> & Hw & H2 & Hsz)].
  - destruct (leaf_set T RP h 0 es i e alloc Hl He) as (A & B). cbn [hdr_of]. split; [exact A|].
    intros Hi. destruct (B Hi) as (h' & es' & old & alloc' & lg & E1 & E2 & E3 & E4 & E5 & E6 & E7 & E8).
    exists (AD h' 0 es'), old, alloc', lg. cbn [to_list hdr_of last_next].
    repeat split; auto. constructor; [exact E3|]. unfold elem_ok in He, E8. lia.
  - change (n_set c RP (AM h hs sums cs) i e alloc) with (n_set c P (AM h hs sums cs) i e alloc).
    destruct (n_set_ok T HT (S d) _ Hw H2 i e alloc He) as (A & B). split; [exact A|].
    intros Hi. destruct (B Hi) as (r' & old & alloc' & lg & E & Hold & Hw' & Hstr & Hid & Hln & Hc & Hlo & Hhi).
    exists r', old, alloc', lg. repeat split; auto.
    unfold slack in *. cbn [is_data hdr_of] in *.
    eapply root_mid_of_near; eauto.
Qed.

Lemma root_insert_ok r i e alloc : wf_root c r -> elem_ok c e ->
  (h_count (hdr_of r) < i -> n_insert c r i e alloc = Err EIndexOOB) /\
  (i <= h_count (hdr_of r) -> exists r' alloc' lg,
     n_insert c r i e alloc = Ok (r', alloc', lg) /\ root_mid r' /\
     map strip (to_list r') = insert_nth (N.to_nat i) (strip e) (map strip (to_list r)) /\
     h_id (hdr_of r') = h_id (hdr_of r) /\ last_next r' = last_next r /\
     h_count (hdr_of r') = h_count (hdr_of r) + 1 /\
     (n_is_full c r' = false -> wf_root c r')).
Proof.
  intros Hr He. destruct (wf_root_cases r Hr) as [(h & es & -> & Hl & Hsz)|(d & h & hs & sums & cs & -> & Hw & H2 & Hsz)].
  - destruct (leaf_insert T RP h 0 es i e alloc Hl He) as (A & B). cbn [hdr_of]. split; [exact A|].
    intros Hi. destruct (B Hi) as (h' & es' & alloc' & lg & E1 & E3 & E4 & E5 & E6 & E7).
    exists (AD h' 0 es'), alloc', lg. cbn [to_list hdr_of last_next].
    repeat split; auto.
    + constructor; [exact E3|]. unfold elem_ok in He. lia.
    + unfold n_is_full. cbn [hdr_of]. intros Hf. destruct E3 as (L1 & L2 & L3). constructor; auto. lia.
  - destruct (n_insert_ok T HT (S d) _ Hw H2 i e alloc He) as (A & B). split; [exact A|].
    intros Hi. destruct (B Hi) as (r' & alloc' & lg & E & Hw' & Hstr & Hid & Hln & Hc & Hlo & Hhi).
    exists r', alloc', lg. unfold slack in *. cbn [is_data hdr_of] in *. repeat split; auto.
    + eapply root_mid_of_near; eauto. lia.
    + unfold n_is_full. intros Hf.
      pose proof Hw as Hw0. apply wfn_AM_inv in Hw0. destruct Hw0 as (dd & _ & _ & _ & _ & _ & _ & Hs0).
      destruct (wfn_S_inv _ _ _ Hw') as (h' & hs' & sums' & cs' & -> & _ & _ & _ & _ & _ & Hs').
      cbn [hdr_of] in *. apply (wfr_AM c d); auto; [|lia]. unfold_sizes; lia.
Qed.

Lemma root_remove_ok r i : wf_root c r ->
  (h_count (hdr_of r) <= i -> n_remove c r i = Err EIndexOOB) /\
  (i < h_count (hdr_of r) -> exists r' old lg,
     n_remove c r i = Ok (r', old, lg) /\
     nth_error (to_list r) (N.to_nat i) = Some old /\ root_mid r' /\ n_is_full c r' = false /\
     to_list r' = remove_nth (N.to_nat i) (to_list r) /\
     h_id (hdr_of r') = h_id (hdr_of r) /\ last_next r' = last_next r /\
     h_count (hdr_of r') + 1 = h_count (hdr_of r)).
Proof.
  intros Hr. destruct (wf_root_cases r Hr) as [(h & es & -> & Hl & Hsz)|(d & h & hs & sums & cs & -> & Hw & H2 & Hsz)].
  - destruct (leaf_remove T RP h 0 es i Hl) as (A & B). cbn [hdr_of]. split; [exact A|].
    intros Hi. destruct (B Hi) as (h' & old & lg & E1 & E2 & E3 & E5 & E6 & E7 & E8).
    do 3 eexists. split; [exact E1|]. cbn [to_list hdr_of last_next]. unfold n_is_full. cbn [hdr_of].
    repeat split; auto; [|lia]. constructor; [exact E3|]. lia.
  - destruct (n_remove_ok T HT (S d) _ Hw H2 i) as (A & B). split; [exact A|].
    intros Hi. destruct (B Hi) as (r' & old & lg & E & Hold & Hw' & Hto & Hid & Hln & Hc & Hlo & Hhi).
    exists r', old, lg. unfold slack in *. cbn [is_data hdr_of] in *. unfold n_is_full.
    repeat split; auto; [|lia].
    eapply root_mid_of_near; eauto. lia.
Qed.

(** * Array operations *)
Lemma awfl_parts a : awfl c a ->
  wf_root c (a_root a) /\ a_count a <= max_count /\ last_next (a_root a) = 0 /\
  N.of_nat (length (to_list (a_root a))) = a_count a.
Proof. intros ((H1 & H2) & H3). repeat split; auto. apply wf_root_length, H1. Qed.

Lemma a_set_ok a i e : awfl c a -> elem_ok c e ->
  match nth_error (to_list (a_root a)) (N.to_nat i) with
  | Some old => exists a' lg, a_set c a i e = (a', RElem old, lg) /\ awfl c a' /\
      a_rootid a' = a_rootid a /\ a_type a' = a_type a /\
      map strip (to_list (a_root a')) = replace_nth (N.to_nat i) (strip e) (map strip (to_list (a_root a)))
  | None => a_set c a i e = (a, RErr EIndexOOB, [])
  end.
Proof.
  intros Ha He. destruct (awfl_parts a Ha) as (Hr & Hmax & Hln & Hlen).
  destruct (root_set_ok (a_root a) i e (a_alloc a) Hr He) as (A & B). unfold a_count in *.
  destruct (nth_error (to_list (a_root a)) (N.to_nat i)) as [old|] eqn:Hnth.
  - assert (Hi : i < h_count (hdr_of (a_root a))).
    { assert (N.to_nat i < length (to_list (a_root a)))%nat by (apply nth_error_Some; congruence). lia. }
    destruct (B Hi) as (r' & old' & alloc' & lg & E & Hold & Hm & Hstr & Hid & Hln' & Hc).
    assert (old' = old) by congruence. subst old'.
    unfold a_set. rewrite E. cbv beta iota zeta.
    set (a1 := mkarr r' alloc' (a_type a)).
    destruct (n_is_full c r') eqn:Hfull.
    + destruct (split_root_ok a1 Hm Hfull) as (a2 & lg2 & Es & Hr2 & (S1 & S2 & S3 & S4 & S5) & Ep).
      rewrite Es. cbv beta iota zeta. rewrite Ep.
      do 2 eexists. split; [reflexivity|]. subst a1. cbn [a_root a_type] in *. unfold a_rootid, a_count in *.
      cbn [a_root] in *.
      repeat split; auto; try congruence; try lia.
      all: try (unfold a_count; lia).
      all: try (rewrite S1; exact Hstr).
    + pose proof (promote_ok a1 Hm Hfull ltac:(subst a1; cbn [a_root]; congruence)) as (Hr3 & (S1 & S2 & S3 & S4 & S5)).
      destruct (promote_if_single a1) as [a3 lg3]. cbn [fst] in *.
      do 2 eexists. split; [reflexivity|]. subst a1. cbn [a_root a_type] in *. unfold a_rootid, a_count in *.
      cbn [a_root] in *.
      repeat split; auto; try congruence; try lia.
      all: try (unfold a_count; lia).
      all: try (rewrite S1; exact Hstr).
  - assert (Hi : h_count (hdr_of (a_root a)) <= i).
    { apply nth_error_None in Hnth. lia. }
    unfold a_set. rewrite (A Hi). reflexivity.
Qed.

Lemma a_insert_ok a i e : awfl c a -> elem_ok c e ->
  if a_count a =? max_count then a_insert c a i e = (a, RErr EMaxCount, [])
  else if a_count a <? i then a_insert c a i e = (a, RErr EIndexOOB, [])
  else exists a' lg, a_insert c a i e = (a', RUnit, lg) /\ awfl c a' /\
      a_rootid a' = a_rootid a /\ a_type a' = a_type a /\
      map strip (to_list (a_root a')) = insert_nth (N.to_nat i) (strip e) (map strip (to_list (a_root a))).
Proof.
  intros Ha He. destruct (awfl_parts a Ha) as (Hr & Hmax & Hln & Hlen).
  destruct (root_insert_ok (a_root a) i e (a_alloc a) Hr He) as (A & B).
  unfold a_insert. destruct (a_count a =? max_count) eqn:Hmx; [reflexivity|].
  unfold a_count in *.
  destruct (h_count (hdr_of (a_root a)) <? i) eqn:Hi.
  - rewrite (A ltac:(lia)). reflexivity.
  - destruct (B ltac:(lia)) as (r' & alloc' & lg & E & Hm & Hstr & Hid & Hln' & Hc & Hwr).
    rewrite E. cbv beta iota zeta.
    set (a1 := mkarr r' alloc' (a_type a)).
    destruct (n_is_full c r') eqn:Hfull.
    + destruct (split_root_ok a1 Hm Hfull) as (a2 & lg2 & Es & Hr2 & (S1 & S2 & S3 & S4 & S5) & Ep).
      rewrite Es. cbv beta iota zeta.
      do 2 eexists. split; [reflexivity|]. subst a1. cbn [a_root a_type] in *. unfold a_rootid, a_count in *.
      cbn [a_root] in *.
      repeat split; auto; try congruence; try lia.
      all: try (unfold a_count; lia).
      all: try (rewrite S1; exact Hstr).
    + (* Insert never leaves a single child: no promotion *)
      do 2 eexists. split; [reflexivity|]. subst a1. cbn [a_root a_type] in *. unfold a_rootid, a_count in *.
      cbn [a_root] in *.
      repeat split; auto; try congruence; try lia.
      all: try (unfold a_count; cbn [a_root]; lia).
Qed.

Lemma a_remove_ok a i : awfl c a ->
  match nth_error (to_list (a_root a)) (N.to_nat i) with
  | Some old => exists a' lg, a_remove c a i = (a', RElem old, lg) /\ awfl c a' /\
      a_rootid a' = a_rootid a /\ a_type a' = a_type a /\
      to_list (a_root a') = remove_nth (N.to_nat i) (to_list (a_root a))
  | None => a_remove c a i = (a, RErr EIndexOOB, [])
  end.
Proof.
  intros Ha. destruct (awfl_parts a Ha) as (Hr & Hmax & Hln & Hlen).
  destruct (root_remove_ok (a_root a) i Hr) as (A & B). unfold a_count in *.
  destruct (nth_error (to_list (a_root a)) (N.to_nat i)) as [old|] eqn:Hnth.
  - assert (Hi : i < h_count (hdr_of (a_root a))).
    { assert (N.to_nat i < length (to_list (a_root a)))%nat by (apply nth_error_Some; congruence). lia. }
    destruct (B Hi) as (r' & old' & lg & E & Hold & Hm & Hfull & Hto & Hid & Hln' & Hc).
    assert (old' = old) by congruence. subst old'.
    unfold a_remove. rewrite E. cbv beta iota zeta.
    set (a1 := mkarr r' (a_alloc a) (a_type a)).
    pose proof (promote_ok a1 Hm Hfull ltac:(subst a1; cbn [a_root]; congruence)) as (Hr3 & (S1 & S2 & S3 & S4 & S5)).
    destruct (promote_if_single a1) as [a3 lg3]. cbn [fst] in *.
    do 2 eexists. split; [reflexivity|]. subst a1. cbn [a_root a_type] in *. unfold a_rootid, a_count in *.
    cbn [a_root] in *.
    repeat split; auto; try congruence; try lia.
    all: try (unfold a_count; lia).
  - assert (Hi : h_count (hdr_of (a_root a)) <= i).
    { apply nth_error_None in Hnth. lia. }
    unfold a_remove. rewrite (A Hi). reflexivity.
Qed.

(** * One step against the plain sequence *)
Lemma abs_len a : awfl c a -> N.of_nat (length (abs_list (a_root a))) = a_count a.
Proof. intros Ha. unfold abs_list. rewrite map_length. apply (awfl_parts a Ha). Qed.
Lemma abs_nth r i : nth_N (abs_list r) i = option_map strip (nth_error (to_list r) (N.to_nat i)).
Proof. rewrite nth_N_eq. unfold abs_list. apply nth_error_map. Qed.

Lemma awfl_empty rootid al ty : awfl c (mkarr (AD (mkhdr rootid RP 0) 0 []) al ty).
Proof.
  split; [split|reflexivity]; cbn [a_root].
  - constructor; cbn [h_count h_size length sum_sz]; [constructor|reflexivity|lia|cfg_lia].
  - unfold a_count, max_count, c_maxArrayElementCount. cbn. lia.
Qed.

Lemma arr_init_ok rootid ti : awfl c (fst (arr_init rootid ti)) /\ a_rootid (fst (arr_init rootid ti)) = rootid.
Proof. split; [apply awfl_empty|reflexivity]. Qed.

Ltac fin3 :=
  split; [assumption|]; split; [first [assumption|reflexivity]|]; split; try reflexivity.

Theorem a_step_ok a o : awfl c a -> aop_ok c o ->
  awfl c (fst (fst (a_step c a o))) /\ a_rootid (fst (fst (a_step c a o))) = a_rootid a /\
  strip_out (snd (fst (a_step c a o))) = snd (seq_step (abs_arr a) o) /\
  abs_arr (fst (fst (a_step c a o))) = fst (seq_step (abs_arr a) o).
Proof.
  intros Ha Ho. pose proof (abs_len a Ha) as Hlen.
  destruct (awfl_parts a Ha) as (Hr & Hmax & Hln & Hlen0).
  destruct o as [i|i e|i e|e|i| | | |t| |s e]; cbn [a_step aop_ok] in *.
  - (* Get *)
    cbn [fst snd]. fin3.
    unfold seq_step, abs_arr. cbn [s_elems s_type snd]. rewrite abs_nth.
    unfold a_get. rewrite (root_get _ i Hr).
    destruct (nth_error (to_list (a_root a)) (N.to_nat i)); reflexivity.
  - (* Set *)
    destruct Ho as (He & Hse).
    pose proof (a_set_ok a i e Ha He) as H.
    unfold seq_step, abs_arr. cbn [s_elems s_type]. rewrite abs_nth.
    destruct (nth_error (to_list (a_root a)) (N.to_nat i)) as [old|]; cbn [option_map].
    + destruct H as (a' & lg & -> & Ha' & Hid & Hty & Hstr). cbn [fst snd strip_out].
      fin3. unfold abs_list. rewrite Hstr, Hty, Hse. reflexivity.
    + rewrite H. cbn [fst snd strip_out]. fin3.
  - (* Insert *)
    destruct Ho as (He & Hse).
    pose proof (a_insert_ok a i e Ha He) as H.
    unfold seq_step, abs_arr. cbn [s_elems s_type]. rewrite Hlen.
    destruct (a_count a =? max_count).
    + rewrite H. cbn [fst snd strip_out]. fin3.
    + destruct (a_count a <? i).
      * rewrite H. cbn [fst snd strip_out]. fin3.
      * destruct H as (a' & lg & -> & Ha' & Hid & Hty & Hstr). cbn [fst snd strip_out].
        fin3. unfold abs_list. rewrite Hstr, Hty, Hse. reflexivity.
  - (* Append *)
    destruct Ho as (He & Hse).
    pose proof (a_insert_ok a (a_count a) e Ha He) as H.
    unfold seq_step, abs_arr. cbn [s_elems s_type]. rewrite Hlen.
    destruct (a_count a =? max_count).
    + rewrite H. cbn [fst snd strip_out]. fin3.
    + destruct (a_count a <? a_count a) eqn:Hlt; [lia|].
      destruct H as (a' & lg & -> & Ha' & Hid & Hty & Hstr). cbn [fst snd strip_out].
      fin3. unfold abs_list in *. rewrite Hstr, Hty, Hse.
      replace (N.to_nat (a_count a)) with (length (map strip (to_list (a_root a)))) by lia.
      rewrite insert_nth_end. reflexivity.
  - (* Remove *)
    pose proof (a_remove_ok a i Ha) as H.
    unfold seq_step, abs_arr. cbn [s_elems s_type]. rewrite abs_nth.
    destruct (nth_error (to_list (a_root a)) (N.to_nat i)) as [old|]; cbn [option_map].
    + destruct H as (a' & lg & -> & Ha' & Hid & Hty & Hto). cbn [fst snd strip_out].
      fin3. unfold abs_list. rewrite Hto, Hty, remove_nth_map. reflexivity.
    + rewrite H. cbn [fst snd strip_out]. fin3.
  - (* PopIterate *)
    unfold a_pop. cbn [fst snd strip_out]. split; [apply awfl_empty|]. split; [reflexivity|].
    unfold seq_step, abs_arr. cbn [s_elems s_type fst snd a_root a_type to_list]. split; [|reflexivity].
    unfold abs_list. rewrite map_rev. reflexivity.
  - (* Count *)
    cbn [fst snd strip_out]. fin3.
    unfold seq_step, abs_arr. cbn [s_elems s_type snd]. rewrite Hlen. reflexivity.
  - (* Type *)
    cbn [fst snd strip_out]. fin3.
  - (* SetType *)
    cbn [fst snd strip_out]. split; [split; [apply Ha|apply Ha]|]. split; [reflexivity|]. split; reflexivity.
  - (* Iterate *)
    cbn [fst snd strip_out]. fin3.
  - (* Range *)
    cbn [fst snd]. fin3.
    unfold seq_step, abs_arr, a_range. cbn [s_elems s_type snd]. rewrite Hlen.
    destruct (a_count a <? s); [reflexivity|]. destruct (a_count a <? e); [reflexivity|].
    destruct (e <? s); [reflexivity|]. cbn [strip_out]. unfold abs_list.
    rewrite skipn_map, firstn_map. reflexivity.
Qed.

(** * Histories *)
Theorem a_run_ok : forall ops a, awfl c a -> Forall (aop_ok c) ops ->
  awfl c (fst (a_run c a ops)) /\ a_rootid (fst (a_run c a ops)) = a_rootid a /\
  map strip_out (snd (a_run c a ops)) = snd (seq_run (abs_arr a) ops) /\
  abs_arr (fst (a_run c a ops)) = fst (seq_run (abs_arr a) ops).
Proof.
  induction ops as [|o r IH]; intros a Ha Hops; cbn [a_run seq_run].
  - cbn [fst snd map]. auto.
  - pose proof (Forall_inv Hops) as Ho. pose proof (Forall_inv_tail Hops) as Hr.
    destruct (a_step_ok a o Ha Ho) as (S1 & S2 & S3 & S4).
    destruct (a_step c a o) as [[a1 x] lg]. cbn [fst snd] in *.
    destruct (seq_step (abs_arr a) o) as [s1 x']. cbn [fst snd] in *. subst s1 x'.
    destruct (IH a1 S1 Hr) as (R1 & R2 & R3 & R4).
    destruct (a_run c a1 r) as [a2 xs]. cbn [fst snd] in *.
    destruct (seq_run (abs_arr a1) r) as [s2 xs']. cbn [fst snd map] in *.
    split; [exact R1|]. split; [congruence|]. split; [congruence|assumption].
Qed.

(* the statement of C01 *)
Theorem array_refines_sequence rootid ti ops : Forall (aop_ok c) ops ->
  let a0 := fst (arr_init rootid ti) in
  let '(a, outs) := a_run c a0 ops in
  let '(s, outs') := seq_run (abs_arr a0) ops in
  map strip_out outs = outs' /\ abs_arr a = s /\ a_rootid a = rootid /\ awf c a.
Proof.
  intros Hops a0. destruct (arr_init_ok rootid ti) as (H0 & Hid). fold a0 in H0, Hid.
  destruct (a_run_ok ops a0 H0 Hops) as (R1 & R2 & R3 & R4). clearbody a0.
  destruct (a_run c a0 ops) as [a outs]. destruct (seq_run (abs_arr a0) ops) as [s outs'].
  cbn [fst snd] in *. split; [exact R3|]. split; [exact R4|]. split; [congruence|apply R1].
Qed.

Theorem reachable_awf rootid ti ops : Forall (aop_ok c) ops ->
  awf c (fst (a_run c (fst (arr_init rootid ti)) ops)).
Proof.
  intros Hops. destruct (arr_init_ok rootid ti) as (H0 & _).
  apply (a_run_ok ops _ H0 Hops).
Qed.

(* one step keeps the invariant; [awf] alone is not inductive (see [awf_alone_not_inductive]) *)
Theorem array_wf_preserved a o : awf c a -> last_next (a_root a) = 0 -> aop_ok c o ->
  awf c (fst (fst (a_step c a o))) /\ last_next (a_root (fst (fst (a_step c a o)))) = 0.
Proof. intros H1 H2 Ho. apply (a_step_ok a o (conj H1 H2) Ho). Qed.

(** * Iterators (C13): positional reads agree with sequential traversal *)
Theorem array_iterators a : awf c a ->
  snd (fst (a_step c a OIterate)) = RList (to_list (a_root a)) /\
  snd (fst (a_step c a OPop)) = RList (rev (to_list (a_root a))) /\
  N.of_nat (length (to_list (a_root a))) = a_count a /\
  (forall i, a_get a i = match nth_error (to_list (a_root a)) (N.to_nat i) with
                         | Some e => RElem e | None => RErr EIndexOOB end) /\
  (forall i, i < a_count a -> exists e, a_get a i = RElem e /\ nth_error (to_list (a_root a)) (N.to_nat i) = Some e) /\
  (forall s e, a_range a s e =
     if (a_count a <? s) || (a_count a <? e) then RErr ESliceOOB
     else if e <? s then RErr EInvalidSlice
     else RList (firstn (N.to_nat (e - s)) (skipn (N.to_nat s) (to_list (a_root a))))) /\
  (forall s e, s <= e -> e <= a_count a ->
     exists l, a_range a s e = RList l /\ N.of_nat (length l) = e - s /\
       forall k, k < e - s -> exists x, nth_error l (N.to_nat k) = Some x /\ a_get a (s + k) = RElem x).
Proof.
  intros (Hr & Hmax). pose proof (wf_root_length _ Hr) as Hlen. fold (a_count a) in Hlen.
  assert (Hget : forall i, a_get a i = match nth_error (to_list (a_root a)) (N.to_nat i) with
                         | Some e => RElem e | None => RErr EIndexOOB end).
  { intros i. unfold a_get. rewrite (root_get _ i Hr). destruct (nth_error _ _); reflexivity. }
  split; [reflexivity|]. split; [reflexivity|]. split; [exact Hlen|]. split; [exact Hget|].
  split; [|split].
  - intros i Hi. rewrite Hget.
    destruct (nth_error (to_list (a_root a)) (N.to_nat i)) as [x|] eqn:E; [eauto|].
    apply nth_error_None in E. lia.
  - intros s e. unfold a_range. destruct (a_count a <? s); [reflexivity|].
    destruct (a_count a <? e); reflexivity.
  - intros s e Hse He. unfold a_range.
    destruct (a_count a <? s) eqn:H1; [lia|]. destruct (a_count a <? e) eqn:H2; [lia|].
    destruct (e <? s) eqn:H3; [lia|]. eexists. split; [reflexivity|].
    assert (Hl : length (firstn (N.to_nat (e - s)) (skipn (N.to_nat s) (to_list (a_root a)))) = N.to_nat (e - s)).
    { rewrite firstn_length, skipn_length. lia. }
    split; [lia|]. intros k Hk. rewrite Hget.
    rewrite nth_error_firstn_lt by lia.
    rewrite nth_error_skipn_add.
    replace (N.to_nat (s + k)) with (N.to_nat s + N.to_nat k)%nat by lia.
    destruct (nth_error (to_list (a_root a)) (N.to_nat s + N.to_nat k)) as [x|] eqn:E; [eauto|].
    apply nth_error_None in E. lia.
Qed.

(** * Relation to the full sibling chain of ArrayInv: [chain root 0] gives the link of the rightmost leaf *)
Lemma chain_last_next : forall d n nxt, wfn c d n -> kids2 n -> chain n nxt -> last_next n = nxt.
Proof.
  induction d as [|d IH]; intros n nxt Hw H2 Hch.
  - destruct (wfn_0_inv _ _ Hw) as (h & nx & es & -> & _). exact Hch.
  - destruct (wfn_S_inv _ _ _ Hw) as (h & hs & sums & cs & -> & Hws & Hbs & _).
    cbn [kids2] in H2. cbn [last_next]. cbn [chain] in Hch.
    assert (Hne : cs <> []) by (destruct cs; [cbn in H2; lia|discriminate]). clear H2 Hw.
    induction cs as [|x r IHr]; [congruence|].
    pose proof (Forall_inv Hws) as Wx. pose proof (Forall_inv Hbs) as Bx.
    destruct r as [|y r'].
    + cbn [map last]. apply IH; auto. eapply in_band_kids2; eauto.
    + destruct Hch as (_ & Hch). cbn [map]. cbn [map] in IHr.
      change (last (last_next x :: last_next y :: map last_next r') 0) with (last (last_next y :: map last_next r') 0).
      apply IHr; auto; [eapply Forall_inv_tail; eauto|eapply Forall_inv_tail; eauto|discriminate].
Qed.

Lemma awf_full_awfl a : awf_full c a -> awfl c a.
Proof.
  intros (Hawf & Hch & _). split; [exact Hawf|]. destruct Hawf as (Hr & _).
  destruct (wf_root_cases _ Hr) as [(h & es & E & _)|(d & h & hs & sums & cs & E & Hw & H2 & _)]; rewrite E in *.
  - reflexivity.
  - eapply chain_last_next; eauto.
Qed.

End WithT.

(** * Soundness of the boolean checker (any configuration) *)
Section anode_ind.
  Variable Pn : anode -> Prop.
  Hypothesis HD : forall h nx es, Pn (AD h nx es).
  Hypothesis HM : forall h hs sums cs, Forall Pn cs -> Pn (AM h hs sums cs).
  Fixpoint anode_ind' (n : anode) : Pn n :=
    match n with
    | AD h nx es => HD h nx es
    | AM h hs sums cs =>
      HM h hs sums cs ((fix go (l : list anode) : Forall Pn l :=
                          match l with [] => Forall_nil _ | x :: r => Forall_cons x (anode_ind' x) (go r) end) cs)
    end.
End anode_ind.

Lemma elem_okb_sound c e : elem_okb c e = true -> elem_ok c e.
Proof. unfold elem_okb, elem_ok. lia. Qed.
Lemma in_bandb_sound c n : in_bandb c n = true -> in_band c n.
Proof. unfold in_bandb, in_band. lia. Qed.
Lemma hdr_eqb_sound a b : hdr_eqb a b = true -> a = b.
Proof. destruct a as [i1 s1 c1], b as [i2 s2 c2]. unfold hdr_eqb. cbn [h_id h_size h_count]. intros H. f_equal; lia. Qed.
Lemma list_eqb_sound {A} (eqb : A -> A -> bool) :
  (forall x y, eqb x y = true -> x = y) -> forall l1 l2, list_eqb eqb l1 l2 = true -> l1 = l2.
Proof.
  intros Hs. induction l1 as [|x r IH]; intros [|y r2] H; cbn [list_eqb] in H; try discriminate; [reflexivity|].
  apply andb_true_iff in H. destruct H as (H1 & H2). f_equal; auto.
Qed.
Lemma forallb_Forall {A} (f : A -> bool) (Q : A -> Prop) l :
  (forall x, f x = true -> Q x) -> forallb f l = true -> Forall Q l.
Proof.
  intros Hs H. rewrite forallb_forall in H. apply Forall_forall. intros x Hx. apply Hs, H, Hx.
Qed.

Lemma wfnb_sound c : forall n d, wfnb c n = Some d -> wfn c d n.
Proof.
  induction n as [h nx es|h hs sums cs IH] using anode_ind'; intros d H; cbn [wfnb] in H.
  - destruct (forallb (elem_okb c) es && (h_count h =? N.of_nat (length es)) && (h_size h =? P + sum_sz es)) eqn:E;
      [|discriminate].
    injection H as <-. apply andb_true_iff in E. destruct E as (E & E3).
    apply andb_true_iff in E. destruct E as (E1 & E2).
    constructor; [|lia|lia]. eapply forallb_Forall; [|exact E1]. apply elem_okb_sound.
  - destruct (map (wfnb c) cs) as [|[d0|] hts] eqn:Ehts; try discriminate.
    rewrite <- Ehts in H.
    match type of H with (if ?b then _ else _) = _ => destruct b eqn:E end; [|discriminate].
    injection H as <-.
    repeat (apply andb_true_iff in E; let E' := fresh "E" in destruct E as (E & E')).
    rename E into E6.
    constructor.
    + rewrite forallb_forall in E6. rewrite Forall_forall in IH. apply Forall_forall. intros x Hx.
      apply IH; [exact Hx|].
      specialize (E6 (wfnb c x) (in_map _ _ _ Hx)). destruct (wfnb c x) as [d'|]; [|discriminate].
      apply Nat.eqb_eq in E6. congruence.
    + eapply forallb_Forall; [|eassumption]. apply in_bandb_sound.
    + eapply list_eqb_sound; [|eassumption]. apply hdr_eqb_sound.
    + eapply list_eqb_sound; [|eassumption]. intros x y Hxy. apply N.eqb_eq, Hxy.
    + lia.
    + lia.
Qed.

Theorem wf_rootb_sound c n : wf_rootb c n = true -> wf_root c n.
Proof.
  destruct n as [h nx es|h hs sums cs]; cbn [wf_rootb]; intros H.
  - repeat (apply andb_true_iff in H; let H' := fresh "H" in destruct H as (H & H')).
    assert (nx = 0) by lia. subst nx.
    constructor; try lia. eapply forallb_Forall; [|eassumption]. apply elem_okb_sound.
  - destruct (wfnb c (AM h hs sums cs)) as [d|] eqn:E; [|discriminate].
    apply wfnb_sound in E. apply andb_true_iff in H. destruct H as (H1 & H2).
    pose proof E as E'. apply wfn_AM_inv in E'. destruct E' as (d' & -> & _).
    apply (wfr_AM c d'); auto; [|lia]. apply Nat.leb_le, H1.
Qed.

(** * [awf] alone is not inductive: an unreachable state with a wrong sibling link *)
Example awf_alone_not_inductive :
  let c := set_threshold 256 in
  let mk := fun i : Z => mkelem i 20 0 in
  let l := AD (mkhdr 2 141 6) 3 (map mk [1;2;3;4;5;6]%Z) in
  let r := AD (mkhdr 3 141 6) 7 (map mk [7;8;9;10;11;12]%Z) in
  let a := mkarr (AM (mkhdr 1 40 12) [hdr_of l; hdr_of r] [6; 12] [l; r]) 3 0 in
  wf_rootb c (a_root a) = true /\ a_count a <= max_count /\
  let a2 := fst (fst (a_step c (fst (fst (a_step c a (ORemove 0)))) (ORemove 0))) in
  exists h nx es, a_root a2 = AD h nx es /\ nx = 7.
Proof. vm_compute. split; [reflexivity|]. split; [discriminate|]. do 3 eexists. split; reflexivity. Qed.
