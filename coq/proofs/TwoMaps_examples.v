(* TwoMaps_examples.v — a concrete world for C17_map_independent (non-vacuity), slab size 256, heavy
   digest collisions (external collision group slabs).  Worlds are stored in evaluated form. *)
From Coq Require Import NArith ZArith List Bool Lia.
From AtreeGen Require Import Consts.
From AtreeModel Require Import Settings MapElems MapElemsInv MapTree MapTreeInv TwoMaps.
From AtreeProofs Require Import MapFrame_proofs TwoMaps_proofs.
From AtreeProofs Require Map_proofs.
Import ListNotations.
Local Open Scope N_scope.

Definition mex_c := set_threshold 256.
Definition mex_dg (k : N) (l : nat) : N :=
  match l with O => (37 * k) mod 13 | 1%nat => k mod 3 | 2%nat => k mod 2 | _ => 0 end.
Definition mex_ks (_ : N) : N := 9.
Definition mex_set (X : mside) (i : nat) : mside * mop :=
  (X, OSet (mkkv (N.of_nat i) 9) (mkkv (N.of_nat i + 1000) 40)).
(* 24 inserts into A interleaved with 24 inserts into B (other keys), then removals on both *)
Definition mex_ops : list (mside * mop) :=
  flat_map (fun i => [mex_set MA i; mex_set MB (i + 100)]) (seq 1 24)
  ++ [(MA, ORemove 3); (MB, ORemove 105); (MA, OGet 999); (MB, OCount)].
Definition mex_step := mwstep mreg mreg_of mex_dg 4 (cinl_melem mex_c) 1 mex_c.
Definition mex_run := mwrun mreg mreg_of mex_dg 4 (cinl_melem mex_c) 1 mex_c.
Definition mwex : mworld mreg := Eval vm_compute in fst (mex_run (mw_new2 mreg mreg_of 0) mex_ops).
Lemma mwex_eq : mwex = fst (mex_run (mw_new2 mreg mreg_of 0) mex_ops).
Proof. vm_compute. reflexivity. Qed.
(* B emptied by PopIterate while A keeps growing *)
Definition mex_ops2 : list (mside * mop) := [(MB, OPop); mex_set MA 50; mex_set MA 51; mex_set MB 7].

Lemma mex_valid : valid_T 256.
Proof. unfold valid_T; vm_compute; split; discriminate. Qed.

Lemma mex_ops_ok : Forall (fun p : mside * mop => Map_proofs.mop_ok 256 mex_ks (snd p)) mex_ops.
Proof.
  unfold mex_ops. apply Forall_app. split.
  - apply Forall_forall. intros p Hp. apply in_flat_map in Hp as (i & _ & [<-|[<-|[]]]);
      (split; [reflexivity|vm_compute; discriminate]).
  - repeat constructor.
Qed.

Lemma mex_ops2_ok : Forall (fun p : mside * mop => Map_proofs.mop_ok 256 mex_ks (snd p)) mex_ops2.
Proof. repeat constructor; vm_compute; discriminate. Qed.

Lemma mex_world :
  mwinv mwex /\ mwwf mex_dg 4 256 mex_ks mwex /\ mstore_ok mwex MA /\ mstore_ok mwex MB.
Proof.
  destruct (mw_new2_ok 0) as (Hw & Hsa & Hsb & _).
  pose proof (two_maps_main mex_dg 4 256 mex_valid ltac:(lia) 1 mex_ks (mw_new2 mreg mreg_of 0) Hw
                (mw_new2_wwf mex_dg 4 256 mex_valid ltac:(lia) mex_ks 0) mex_ops mex_ops_ok) as H.
  cbv zeta in H. rewrite mwex_eq. unfold mex_run, mex_c.
  destruct H as (H1 & H2 & _ & H3 & _).
  split; [exact H1|]. split; [exact H2|]. split; [apply H3; exact Hsa|apply H3; exact Hsb].
Qed.

Definition has_ext (t : mtree) : bool :=
  existsb (fun e => match e with EGroup (Some _) _ => true | _ => false end) (g_elems (elems_of_tree (t_root t))).

Lemma mex_world_ids :
  mslab_ids (t_root (mw_a mwex)) = [1; 3; 19; 17; 8; 29; 15; 27; 25; 4; 11; 23; 9; 21] /\
  mslab_ids (t_root (mw_b mwex)) = [2; 5; 16; 28; 14; 26; 7; 12; 24; 10; 22; 20; 6; 30] /\ mw_alloc mwex = 30 /\
  has_ext (mw_a mwex) = true /\ has_ext (mw_b mwex) = true /\
  is_data (t_root (mw_a mwex)) = false /\ is_data (t_root (mw_b mwex)) = false.
Proof. vm_compute. repeat split. Qed.

Lemma mex_after :
  let w := fst (mex_run mwex mex_ops2) in
  mslab_ids (t_root (mw_a w)) = [1; 3; 19; 31; 17; 8; 29; 15; 27; 25; 4; 11; 23; 9; 21] /\
  mslab_ids (t_root (mw_b w)) = [2] /\ mw_alloc w = 31 /\
  forallb (fun i => match mw_store w i with Some _ => false | None => true end)
          [5; 16; 28; 14; 26; 7; 12; 24; 10; 22; 20; 6; 30] = true /\
  forallb (fun i => match mw_store w i with Some _ => true | None => false end)
          [1; 3; 19; 31; 17; 8; 29; 15; 27; 25; 4; 11; 23; 9; 21; 2] = true.
Proof. vm_compute. repeat split. Qed.
