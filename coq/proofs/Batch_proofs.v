(* Batch_proofs.v — C17: the bulk constructor NewArrayFromBatchData (model: Batch.array_from_batch),
   the single-slab copy and the byte conversions yield the source's content in a tree that
   satisfies the SAME invariant [awf] that the operation-by-operation proofs preserve, under
   identifiers allocated by the call itself.

   Contents
     1. list and size lemmas
     2. arithmetic of the data-slab tail rebalance (CanLendToRight / LendToRight / Merge), for every
        legal slab size; the index-slab analogue (header counts)
     3. the leaf-filling loop [fill]
     4. [tail_fix] on leaves and on index slabs
     5. [next_level] and the level loop
     6. the theorems about [array_from_batch], [copy_array], [of_bytes]/[to_bytes]. *)
From Coq Require Import ZArith NArith List Bool Lia ZifyBool ZifyN ZifyNat Permutation.
From AtreeGen Require Import Consts.
From AtreeModel Require Import Settings ArrayTree ArrayInv Batch.
Import ListNotations.
Local Open Scope N_scope.
Ltac Zify.zify_post_hook ::= Z.div_mod_to_equations.

(** * 0. The derived settings as arithmetic facts *)

Record cfg_ok (c : cfg) : Prop := mk_cfg_ok {
  ok_T : 256 <= cT c <= 32768;
  ok_min : cmin c = cT c / 2;
  ok_max : cmax c = cT c + cT c / 2;
  ok_inl : cinl_arr c = (cT c - 21) / 2
}.

Lemma set_threshold_ok : forall T, valid_T T -> cfg_ok (set_threshold T).
Proof.
  intros T H. unfold valid_T, c_minSlabSize, c_maxSlabSize in H.
  constructor; unfold set_threshold, c_arrayDataSlabPrefixSize, c_minElementCountInSlab; cbn [cT cmin cmax cinl_arr]; lia.
Qed.

Ltac consts := unfold P, PM, HS, RP, IP, c_arrayDataSlabPrefixSize, c_arrayMetaDataSlabPrefixSize,
  c_arraySlabHeaderSize, c_arrayRootDataSlabPrefixSize, c_inlinedArrayDataSlabPrefixSize in *.

Ltac use_cfg H := destruct H as [?HT ?Hmin ?Hmax ?Hinl].

(** * 1. Lists *)

Lemma sum_sz_app : forall a b, sum_sz (a ++ b) = sum_sz a + sum_sz b.
Proof. induction a as [|x a IH]; intros b; cbn [sum_sz app]; [lia | rewrite IH; lia]. Qed.

Lemma sum_sz_rev : forall a, sum_sz (rev a) = sum_sz a.
Proof. induction a as [|x a IH]; cbn [rev sum_sz]; [reflexivity | rewrite sum_sz_app, IH; cbn [sum_sz]; lia]. Qed.

Lemma sum_sz_split : forall k es, sum_sz es = sum_sz (firstn k es) + sum_sz (skipn k es).
Proof. intros k es. rewrite <- sum_sz_app, firstn_skipn. reflexivity. Qed.

Lemma sum_cnt_app : forall a b, sum_cnt (a ++ b) = sum_cnt a + sum_cnt b.
Proof. induction a as [|x a IH]; intros b; cbn [sum_cnt app]; [lia | rewrite IH; lia]. Qed.

Lemma psums_app : forall a b base, psums base (a ++ b) = psums base a ++ psums (base + sum_cnt a) b.
Proof.
  induction a as [|x a IH]; intros b base; cbn [psums app sum_cnt].
  - f_equal. lia.
  - rewrite IH. do 3 f_equal. lia.
Qed.

Lemma psums_firstn : forall k hs base, firstn k (psums base hs) = psums base (firstn k hs).
Proof.
  induction k as [|k IH]; intros [|h hs] base; cbn [firstn psums]; try reflexivity.
  rewrite IH. reflexivity.
Qed.

Lemma psums_length : forall hs base, length (psums base hs) = length hs.
Proof. induction hs as [|h hs IH]; intros base; cbn [psums length]; [reflexivity | rewrite IH; reflexivity]. Qed.

Lemma Forall_firstn : forall {A} (Q : A -> Prop) k l, Forall Q l -> Forall Q (firstn k l).
Proof. intros A Q k l H. rewrite <- (firstn_skipn k l) in H. apply Forall_app in H. tauto. Qed.
Lemma Forall_skipn : forall {A} (Q : A -> Prop) k l, Forall Q l -> Forall Q (skipn k l).
Proof. intros A Q k l H. rewrite <- (firstn_skipn k l) in H. apply Forall_app in H. tauto. Qed.
Lemma Forall_rev' : forall {A} (Q : A -> Prop) l, Forall Q l -> Forall Q (rev l).
Proof. intros A Q l H. apply Forall_forall. intros x Hx. apply in_rev in Hx. rewrite Forall_forall in H. auto. Qed.

Lemma firstn_rev_skipn : forall {A} k (l : list A), (k <= length l)%nat ->
  firstn k (rev l) = rev (skipn (length l - k) l).
Proof.
  intros A k l Hk. rewrite <- (firstn_skipn (length l - k) l) at 1.
  rewrite rev_app_distr. rewrite firstn_app.
  assert (Hlen : length (rev (skipn (length l - k) l)) = k) by (rewrite rev_length, skipn_length; lia).
  rewrite Hlen, Nat.sub_diag. cbn [firstn]. rewrite app_nil_r.
  rewrite <- Hlen at 1. apply firstn_all.
Qed.

(** * 2. Arithmetic of the data-slab rebalance *)

Definition sz_ok (E : N) (e : elem) : Prop := 0 < e_sz e /\ e_sz e <= E.

(* what LendToRight's loop returns, in terms of the walked list *)
Lemma lend_loop_spec : forall res size mid m lc ls,
  exists k, (k <= length res)%nat /\
    lend_loop res size mid m lc ls = ((lc - k)%nat, ls - sum_sz (firstn k res)).
Proof.
  induction res as [|e r IH]; intros size mid m lc ls; cbn [lend_loop].
  - exists 0%nat. cbn [length firstn sum_sz]. split; [lia|]. f_equal; lia.
  - destruct ((ls - e_sz e <? mid) && (m <=? size - ls)).
    + exists 0%nat. cbn [length firstn sum_sz]. split; [lia|]. f_equal; lia.
    + destruct (IH size mid m (pred lc) (ls - e_sz e)) as [k [Hk Heq]].
      exists (S k). cbn [length firstn sum_sz]. split; [lia|]. rewrite Heq. f_equal; lia.
Qed.

(* phase 2: the right slab already has the minimum *)
Lemma lend_phase2 : forall res size mid m lc ls0,
  m <= mid -> m <= ls0 -> ls0 <= size -> m <= size - ls0 ->
  let ls := snd (lend_loop res size mid m lc ls0) in
  m <= ls /\ ls <= ls0 /\ (ls = ls0 \/ mid <= ls).
Proof.
  induction res as [|e r IH]; intros size mid m lc ls0 Hmm Hl Hs Hr; cbn [lend_loop].
  - cbn [snd]. lia.
  - destruct ((ls0 - e_sz e <? mid) && (m <=? size - ls0)) eqn:Hb.
    + cbn [snd]. lia.
    + assert (mid <= ls0 - e_sz e) by lia.
      specialize (IH size mid m (pred lc) (ls0 - e_sz e) Hmm ltac:(lia) ltac:(lia) ltac:(lia)). cbn zeta in IH. lia.
Qed.

(* phase 1 in lock step with CanLendToRight *)
Lemma lend_phase1 : forall res hL hR m E lend lc,
  Forall (sz_ok E) res ->
  hR < m -> lend < m - hR -> lend + sum_sz res <= hL -> m <= hL - lend ->
  can_lend_loop res hL m (m - hR) lend = true ->
  let size := hL + hR in let mid := (size + 1) / 2 in
  let ls := snd (lend_loop res size mid m lc (hL - lend)) in
  m <= ls /\ ls <= hL /\ m <= size - ls /\ (size - ls <= m - 1 + E \/ mid <= ls).
Proof.
  induction res as [|e r IH]; intros hL hR m E lend lc HF HR Hlend Hsum Hleft Hcan size mid;
    cbn [can_lend_loop lend_loop sum_sz] in *.
  - discriminate.
  - pose proof (Forall_inv HF) as Hz. pose proof (Forall_inv_tail HF) as HF'. unfold sz_ok in Hz.
    destruct (hL - (lend + e_sz e) <? m) eqn:H1; [discriminate|].
    assert (Hnb : ((hL - lend - e_sz e <? mid) && (m <=? size - (hL - lend))) = false) by (subst size; lia).
    rewrite Hnb.
    destruct (m - hR <=? lend + e_sz e) eqn:H2.
    + pose proof (lend_phase2 r size mid m (pred lc) (hL - lend - e_sz e) ltac:(subst mid size; lia) ltac:(lia)
                    ltac:(subst size; lia) ltac:(subst size; lia)) as H. cbn zeta in H.
      subst size. lia.
    + specialize (IH hL hR m E (lend + e_sz e) (pred lc) HF' HR ltac:(lia) ltac:(lia) ltac:(lia) Hcan). cbn zeta in IH.
      replace (hL - (lend + e_sz e)) with (hL - lend - e_sz e) in IH by lia. exact IH.
Qed.

Lemma elem_ok_sz : forall c es, Forall (elem_ok c) es -> Forall (sz_ok (cinl_arr c)) es.
Proof. intros c es H. eapply Forall_impl; [|exact H]. intros e He. exact He. Qed.

(* if the left sibling can lend, both slabs end inside the band *)
Theorem lend_keeps_bands : forall c res hL hR lc,
  cfg_ok c ->
  Forall (elem_ok c) res -> hL = P + sum_sz res -> hL <= cmax c -> P <= hR -> hR < cmin c ->
  d_can_lend res hL (cmin c) (cmin c - hR) = true ->
  let size := hL + hR in
  let ls := snd (lend_loop res size ((size + 1) / 2) (cmin c) lc hL) in
  cmin c <= ls <= cmax c /\ cmin c <= size - ls <= cmax c.
Proof.
  intros c res hL hR lc Hc HF HhL HX HP HR Hcan size ls.
  unfold d_can_lend in Hcan.
  destruct (Nat.ltb (length res) 2); [discriminate|].
  destruct (hL - (cmin c - hR) <? cmin c) eqn:H0; [discriminate|].
  pose proof (lend_phase1 res hL hR (cmin c) (cinl_arr c) 0 lc (elem_ok_sz _ _ HF) HR ltac:(lia)
                ltac:(consts; lia) ltac:(lia) Hcan) as H.
  cbn zeta in H. replace (hL - 0) with hL in H by lia. fold size in H. fold ls in H.
  use_cfg Hc. consts. lia.
Qed.

Lemma cannot_lend_loop_bound : forall res hL m u E lend,
  Forall (sz_ok E) res -> lend < u -> m <= hL - lend ->
  can_lend_loop res hL m u lend = false ->
  hL < m + u - 1 + E + 1 \/ lend + sum_sz res < u.
Proof.
  induction res as [|e r IH]; intros hL m u E lend HF Hl Hleft Hc; cbn [can_lend_loop sum_sz] in *.
  - right; lia.
  - pose proof (Forall_inv HF) as Hz. pose proof (Forall_inv_tail HF) as HF'. unfold sz_ok in Hz.
    destruct (hL - (lend + e_sz e) <? m) eqn:H1.
    + left; lia.
    + destruct (u <=? lend + e_sz e) eqn:H2; [discriminate|].
      specialize (IH hL m u E (lend + e_sz e) HF' ltac:(lia) ltac:(lia) Hc). lia.
Qed.

(* if the left sibling cannot lend, the merged slab does not exceed the maximum *)
Theorem merge_le_max : forall c res hL hR,
  cfg_ok c ->
  Forall (elem_ok c) res -> hL = P + sum_sz res -> cmin c <= hL -> hL <= cmax c -> P <= hR -> hR < cmin c ->
  d_can_lend res hL (cmin c) (cmin c - hR) = false ->
  hL + hR - P <= cmax c.
Proof.
  intros c res hL hR Hc HF HhL Hm HX HP HR Hcan.
  unfold d_can_lend in Hcan.
  destruct (Nat.ltb (length res) 2) eqn:Hlen.
  - destruct res as [|a [|b r]]; cbn in Hlen; try discriminate; cbn [sum_sz] in HhL.
    + use_cfg Hc. consts. lia.
    + pose proof (Forall_inv HF) as Ha. unfold elem_ok in Ha. use_cfg Hc. consts. lia.
  - destruct (hL - (cmin c - hR) <? cmin c) eqn:H0.
    + use_cfg Hc. consts. lia.
    + pose proof (cannot_lend_loop_bound res hL (cmin c) (cmin c - hR) (cinl_arr c) 0 (elem_ok_sz _ _ HF)
                    ltac:(lia) ltac:(lia) Hcan) as [H|H]; use_cfg Hc; consts; lia.
Qed.

(* closing a leaf at size >= T leaves it inside the band: it was below T before its last element *)
Lemma closed_leaf_in_band : forall c size z,
  cfg_ok c -> size < cT c -> z <= cinl_arr c -> cT c <= size + z ->
  cmin c <= size + z /\ size + z <= cmax c.
Proof. intros c size z Hc H1 H2 H3. use_cfg Hc. lia. Qed.

(** index slabs: a full index slab can always lend to an underflowing right sibling, and the
    rebalanced pair is inside the band *)
Lemma meta_full_can_lend : forall c k,
  cfg_ok c -> (1 <= k) -> PM + k * HS < cmin c ->
  let full := PM + max_headers c * HS in
  let need := cmin c - (PM + k * HS) in
  let n := ceil_div need HS in
  (HS * n <=? full) = true /\ (cmin c <? full - HS * n) = true.
Proof.
  intros c k Hc Hk Hu full need n. subst full need n. unfold max_headers, ceil_div.
  use_cfg Hc. consts. rewrite Hmin, Hmax in *. split; lia.
Qed.

Lemma meta_lend_in_band : forall c k,
  cfg_ok c -> (1 <= k) -> PM + k * HS < cmin c ->
  let tot := max_headers c + k in
  let l := tot / 2 in
  cmin c <= PM + l * HS /\ PM + l * HS <= cmax c /\
  cmin c <= PM + (tot - l) * HS /\ PM + (tot - l) * HS <= cmax c /\ l <= max_headers c.
Proof.
  intros c k Hc Hk Hu tot l. subst tot l. unfold max_headers.
  use_cfg Hc. consts. rewrite Hmin, Hmax in *. lia.
Qed.

Lemma max_headers_ge : forall c, cfg_ok c -> 26 <= max_headers c /\ PM + max_headers c * HS <= cmax c /\ cmin c <= PM + max_headers c * HS.
Proof. intros c Hc. unfold max_headers. use_cfg Hc. consts. rewrite Hmin, Hmax in *. lia. Qed.

(** * 3. Inversion of [wfn], general facts *)

Lemma wfn0_inv : forall c n, wfn c 0 n ->
  exists h nx es, n = AD h nx es /\ Forall (elem_ok c) es /\ h_count h = N.of_nat (length es) /\ h_size h = P + sum_sz es.
Proof. intros c n H. inversion H; subst. eauto 10. Qed.

Lemma wfnS_inv : forall c d n, wfn c (S d) n ->
  exists h hs sums cs, n = AM h hs sums cs /\ Forall (wfn c d) cs /\ Forall (in_band c) cs /\ hs = map hdr_of cs /\
    sums = psums 0 hs /\ h_count h = sum_cnt hs /\ h_size h = PM + N.of_nat (length cs) * HS.
Proof. intros c d n H. inversion H; subst. eauto 12. Qed.

Lemma sum_cnt_flat : forall c d cs, (forall n, wfn c d n -> h_count (hdr_of n) = N.of_nat (length (to_list n))) ->
  Forall (wfn c d) cs -> sum_cnt (map hdr_of cs) = N.of_nat (length (flat_map to_list cs)).
Proof.
  intros c d cs IH H. induction H as [|x l Hx Hl IHl]; cbn [map sum_cnt flat_map]; [reflexivity|].
  rewrite app_length, IHl, (IH x Hx). lia.
Qed.

Lemma wfn_count : forall c d n, wfn c d n -> h_count (hdr_of n) = N.of_nat (length (to_list n)).
Proof.
  intros c d. induction d as [|d IH]; intros n H.
  - apply wfn0_inv in H. destruct H as (h & nx & es & -> & _ & Hc & _). exact Hc.
  - apply wfnS_inv in H. destruct H as (h & hs & sums & cs & -> & Hw & _ & -> & _ & Hc & _).
    cbn [hdr_of to_list]. rewrite Hc. apply (sum_cnt_flat c d); assumption.
Qed.

(** identifiers as multisets *)
Definition cnt (l : list N) (x : N) : nat := count_occ N.eq_dec l x.

Lemma cnt_app : forall a b x, cnt (a ++ b) x = (cnt a x + cnt b x)%nat.
Proof. intros. apply count_occ_app. Qed.
Lemma cnt_cons : forall a l x, cnt (a :: l) x = ((if N.eq_dec a x then 1 else 0) + cnt l x)%nat.
Proof. intros. unfold cnt. cbn [count_occ]. destruct (N.eq_dec a x); reflexivity. Qed.
Lemma cnt_nil : forall x, cnt [] x = 0%nat.
Proof. reflexivity. Qed.
Lemma cnt_rev : forall l x, cnt (rev l) x = cnt l x.
Proof. intros. apply count_occ_rev. Qed.
Lemma cnt_In : forall l x, In x l <-> (0 < cnt l x)%nat.
Proof. intros. unfold cnt. rewrite (count_occ_In N.eq_dec). lia. Qed.

Lemma ext_ids_app : forall a b, ext_ids (a ++ b) = ext_ids a ++ ext_ids b.
Proof.
  induction a as [|e a IH]; intros b; cbn [ext_ids app]; [reflexivity|].
  destruct (e_ext e =? 0); rewrite IH; reflexivity.
Qed.

Lemma flat_map_app' : forall {A B} (f : A -> list B) a b, flat_map f (a ++ b) = flat_map f a ++ flat_map f b.
Proof. intros. apply flat_map_app. Qed.

(* the identifier multiset of an element list does not depend on the order *)
Lemma cnt_ext_rev : forall es x, cnt (ext_ids (rev es)) x = cnt (ext_ids es) x.
Proof.
  induction es as [|e es IH]; intros x; cbn [rev]; [reflexivity|].
  rewrite ext_ids_app, cnt_app, IH. cbn [ext_ids]. destruct (e_ext e =? 0); rewrite ?cnt_cons, ?cnt_nil; lia.
Qed.

Lemma cnt_flat_rev : forall (cs : list anode) x,
  cnt (flat_map slab_ids (rev cs)) x = cnt (flat_map slab_ids cs) x.
Proof.
  induction cs as [|s cs IH]; intros x; cbn [rev]; [reflexivity|].
  rewrite flat_map_app, cnt_app, IH. cbn [flat_map]. rewrite app_nil_r, cnt_app. lia.
Qed.

(* strictly increasing above [lo] *)
Fixpoint incr (lo : N) (l : list N) : Prop :=
  match l with [] => True | x :: r => lo < x /\ incr x r end.

Lemma incr_weaken : forall l lo lo', lo' <= lo -> incr lo l -> incr lo' l.
Proof. intros [|x r] lo lo' H; cbn [incr]; [tauto|]. intros [H1 H2]. split; [lia|exact H2]. Qed.

Lemma incr_app : forall a b lo mid, incr lo a -> Forall (fun i => i <= mid) a -> lo <= mid -> incr mid b -> incr lo (a ++ b).
Proof.
  induction a as [|x a IH]; intros b lo mid Ha Hb Hlm Hi; cbn [app incr] in *.
  - eapply incr_weaken; eassumption.
  - destruct Ha as [H1 H2]. split; [exact H1|].
    pose proof (Forall_inv Hb) as Hx. cbn beta in Hx. apply (IH b x mid H2 (Forall_inv_tail Hb) Hx Hi).
Qed.

Lemma incr_cnt0 : forall l lo x, incr lo l -> x <= lo -> cnt l x = 0%nat.
Proof.
  induction l as [|y r IH]; intros lo x Hi Hx; [reflexivity|]. cbn [incr] in Hi. destruct Hi as [H1 H2].
  rewrite cnt_cons. destruct (N.eq_dec y x); [lia|]. rewrite (IH y x H2); lia.
Qed.

Lemma incr_cnt1 : forall l lo x, incr lo l -> (cnt l x <= 1)%nat.
Proof.
  induction l as [|y r IH]; intros lo x Hi; [cbn; lia|]. cbn [incr] in Hi. destruct Hi as [H1 H2].
  rewrite cnt_cons. destruct (N.eq_dec y x).
  - subst. rewrite (incr_cnt0 r x x H2); lia.
  - specialize (IH y x H2). lia.
Qed.

Lemma incr_gt : forall l lo x, incr lo l -> (0 < cnt l x)%nat -> lo < x.
Proof.
  intros l lo x Hi Hc. destruct (N.ltb_spec lo x) as [H|H]; [exact H|].
  rewrite (incr_cnt0 l lo x Hi H) in Hc. lia.
Qed.

Lemma incr_bounds : forall l lo hi x, incr lo l -> Forall (fun i => i <= hi) l -> In x l -> lo < x /\ x <= hi.
Proof.
  intros l lo hi x Hi Hf Hin. split.
  - apply (incr_gt l lo x Hi). apply cnt_In. exact Hin.
  - rewrite Forall_forall in Hf. exact (Hf x Hin).
Qed.

(** * 4. The leaf-filling loop *)

Definition band (c : cfg) (d : nat) (n : anode) : Prop := wfn c d n /\ in_band c n.
Definition lvl (c : cfg) (d : nat) (n : anode) : Prop := wfn c d n /\ h_size (hdr_of n) <= cmax c.

(* all but the last satisfy A, the last satisfies B; the list is not empty *)
Fixpoint abl (A B : anode -> Prop) (l : list anode) : Prop :=
  match l with
  | [] => False
  | x :: r => match r with [] => B x | _ :: _ => A x /\ abl A B r end
  end.

(* sibling links of a list of subtrees, as in [chain] *)
Definition chain_l (l : list anode) (nxt : N) : Prop :=
  (fix go (l : list anode) : Prop :=
     match l with
     | [] => True
     | [c] => chain c nxt
     | c :: ((c2 :: _) as r) => chain c (first_leaf_id c2) /\ go r
     end) l.

Lemma externalise_spec : forall e alloc e' alloc' lg,
  externalise e alloc = (e', alloc', lg) ->
  e_id e' = e_id e /\ e_sz e' = e_sz e /\ strip e' = strip e /\ alloc <= alloc' /\
  incr alloc (ext_ids [e']) /\ Forall (fun i => i <= alloc') (ext_ids [e']).
Proof.
  intros e alloc e' alloc' lg H. unfold externalise in H. destruct (e_ext e =? 0) eqn:He.
  - inversion H; subst. cbn [ext_ids]. rewrite He. cbn [incr]. repeat split; auto; lia.
  - inversion H; subst. cbn [e_id e_sz ext_ids e_ext]. unfold strip. cbn [e_id e_sz e_ext].
    destruct (alloc + 1 =? 0) eqn:H1; [lia|]. rewrite He. cbn [incr].
    repeat split; auto; try lia. constructor; [lia|constructor].
Qed.

Lemma fill_spec : forall c es id size count acc alloc leaves alloc' lg,
  cfg_ok c ->
  fill c es id size count acc alloc = (leaves, alloc', lg) ->
  Forall (elem_ok c) es -> Forall (elem_ok c) acc ->
  size = P + sum_sz acc -> count = N.of_nat (length acc) -> size <= cmax c ->
  abl (band c 0) (lvl c 0) leaves /\
  map strip (flat_map to_list leaves) = map strip (rev acc) ++ map strip es /\
  (length leaves <= length es + 1)%nat /\
  (exists x r, leaves = x :: r /\ first_leaf_id x = id) /\
  chain_l leaves 0 /\
  alloc <= alloc' /\
  exists news, flat_map slab_ids leaves = id :: ext_ids (rev acc) ++ news /\ incr alloc news /\
               Forall (fun i => i <= alloc') news.
Proof.
  intros c es. induction es as [|e r IH]; intros id size count acc alloc leaves alloc' lg Hc Hf Hes Hacc Hsz Hcnt Hmax;
    cbn [fill] in Hf.
  - inversion Hf; subst. cbn [abl flat_map to_list map app length]. rewrite !app_nil_r.
    assert (Hw : wfn c 0 (AD (mkhdr id (P + sum_sz acc) (N.of_nat (length acc))) 0 (rev acc))).
    { constructor; cbn [h_count h_size]; [apply Forall_rev'; exact Hacc | rewrite rev_length; reflexivity | rewrite sum_sz_rev; reflexivity]. }
    split; [split; [exact Hw|exact Hmax]|]. split; [reflexivity|]. split; [lia|]. split; [eauto|].
    split; [reflexivity|]. split; [lia|].
    + exists []. cbn [slab_ids h_id incr]. rewrite !app_nil_r. repeat split; auto.
  - pose proof (Forall_inv Hes) as He. pose proof (Forall_inv_tail Hes) as Hr. unfold elem_ok in He.
    destruct (cT c <=? size) eqn:Hclose.
    + destruct (externalise e (alloc + 1)) as [[e' a1] lg1] eqn:Hx.
      destruct (fill c r (alloc + 1) (P + e_sz e') 1 [e'] a1) as [[rest a2] lg2] eqn:Hrest.
      inversion Hf; subst leaves alloc' lg. clear Hf.
      apply externalise_spec in Hx. destruct Hx as (Hid & Hsz' & Hstrip & Ha1 & Hinc1 & Hle1).
      assert (He' : elem_ok c e') by (unfold elem_ok; rewrite Hsz'; exact He).
      specialize (IH (alloc + 1) (P + e_sz e') 1 [e'] a1 rest a2 lg2 Hc Hrest Hr ltac:(constructor; [exact He'|constructor])
                     ltac:(cbn [sum_sz]; lia) ltac:(reflexivity)
                     ltac:(rewrite Hsz'; use_cfg Hc; consts; lia)).
      destruct IH as (Habl & Hcont & Hlen & (x & rr & Hxr & Hfx) & Hch & Ha2 & news & Hids & Hinc & Hle).
      assert (Hw : wfn c 0 (AD (mkhdr id size count) (alloc + 1) (rev acc))).
      { subst size count. constructor; cbn [h_count h_size]; [apply Forall_rev'; exact Hacc | rewrite rev_length; reflexivity | rewrite sum_sz_rev; reflexivity]. }
      split; [|split; [|split; [|split; [|split; [|split]]]]].
      * rewrite Hxr in *. cbn [abl]. split; [|exact Habl]. split; [exact Hw|]. unfold in_band. cbn [hdr_of h_size]. use_cfg Hc. lia.
      * change (flat_map to_list (AD (mkhdr id size count) (alloc + 1) (rev acc) :: rest))
          with (rev acc ++ flat_map to_list rest).
        rewrite map_app, Hcont. cbn [rev app map]. rewrite Hstrip. reflexivity.
      * cbn [length] in *. lia.
      * eauto.
      * rewrite Hxr in *. cbn [chain_l chain]. split; [symmetry; exact Hfx | exact Hch].
      * lia.
      * change (flat_map slab_ids (AD (mkhdr id size count) (alloc + 1) (rev acc) :: rest))
          with (id :: ext_ids (rev acc) ++ flat_map slab_ids rest).
        rewrite Hids. cbn [rev app].
        exists ((alloc + 1) :: ext_ids [e'] ++ news). split; [reflexivity|]. split.
        -- cbn [incr]. split; [lia|]. eapply incr_app; [exact Hinc1 | exact Hle1 | exact Ha1 | exact Hinc].
        -- constructor; [lia|]. apply Forall_app. split; [|exact Hle].
           eapply Forall_impl; [|exact Hle1]. cbn beta. intros; lia.
    + destruct (externalise e alloc) as [[e' a1] lg1] eqn:Hx.
      destruct (fill c r id (size + e_sz e') (count + 1) (e' :: acc) a1) as [[rest a2] lg2] eqn:Hrest.
      inversion Hf; subst leaves alloc' lg. clear Hf.
      apply externalise_spec in Hx. destruct Hx as (Hid & Hsz' & Hstrip & Ha1 & Hinc1 & Hle1).
      assert (He' : elem_ok c e') by (unfold elem_ok; rewrite Hsz'; exact He).
      specialize (IH id (size + e_sz e') (count + 1) (e' :: acc) a1 rest a2 lg2 Hc Hrest Hr ltac:(constructor; assumption)
                     ltac:(cbn [sum_sz]; lia) ltac:(cbn [length]; lia)
                     ltac:(rewrite Hsz'; use_cfg Hc; consts; lia)).
      destruct IH as (Habl & Hcont & Hlen & Hhd & Hch & Ha2 & news & Hids & Hinc & Hle).
      split; [exact Habl|split; [|split; [|split; [exact Hhd|split; [exact Hch|split]]]]].
      * rewrite Hcont. cbn [rev map]. rewrite map_app, <- app_assoc. cbn [map app]. rewrite Hstrip. reflexivity.
      * cbn [length]. lia.
      * lia.
      * rewrite Hids. cbn [rev]. rewrite ext_ids_app, <- app_assoc.
        exists (ext_ids [e'] ++ news). split; [reflexivity|]. split.
        -- eapply incr_app; [exact Hinc1 | exact Hle1 | exact Ha1 | exact Hinc].
        -- apply Forall_app. split; [|exact Hle]. eapply Forall_impl; [|exact Hle1]. cbn beta. intros; lia.
Qed.

(** * 5. Tail rebalance *)

Definition hd_id (d : anode) (l : list anode) : N := first_leaf_id (hd d l).

(* what one application of the pair fix-up guarantees, for a given "good slab" predicate G *)
Definition pair_ok (c : cfg) (G : anode -> Prop) (l r : anode) (out : list anode) : Prop :=
  Forall G out /\ out <> [] /\ (length out <= 2)%nat /\
  flat_map to_list out = to_list l ++ to_list r /\
  (forall x, (cnt (flat_map slab_ids out) x <= cnt (slab_ids l ++ slab_ids r) x)%nat) /\
  (forall nxt, chain_l [l; r] nxt -> chain_l out nxt) /\
  hd_id l out = first_leaf_id l.

Lemma firstn_skipn_len : forall {A} k (l : list A), (k <= length l)%nat ->
  length (firstn k l) = k /\ length (skipn k l) = (length l - k)%nat.
Proof. intros. rewrite firstn_length, skipn_length. lia. Qed.

Lemma fix_pair_leaf : forall c l r,
  cfg_ok c -> band c 0 l -> lvl c 0 r ->
  exists out, fix_pair c l r = Ok out /\ pair_ok c (band c 0) l r out.
Proof.
  intros c l r Hc [Hwl Hbl] [Hwr Hmr].
  apply wfn0_inv in Hwl. destruct Hwl as (h & nx & es & -> & Hes & Hcnt & Hsz).
  apply wfn0_inv in Hwr. destruct Hwr as (h2 & nx2 & es2 & -> & Hes2 & Hcnt2 & Hsz2).
  unfold in_band in Hbl. cbn [hdr_of] in *.
  unfold fix_pair, n_underflow. cbn [hdr_of].
  destruct (h_size h2 <? cmin c) eqn:Hu.
  2:{ (* no underflow *)
    eexists. split; [reflexivity|]. unfold pair_ok.
    split. { repeat constructor; cbn [hdr_of h_count h_size]; auto; unfold in_band; cbn [hdr_of]; lia. }
    split; [discriminate|]. split; [cbn; lia|]. split; [cbn [flat_map to_list]; rewrite app_nil_r; reflexivity|].
    split. { intros x. cbn [flat_map]. rewrite app_nil_r. lia. }
    split; [auto|reflexivity]. }
  unfold n_can_lend_to_right.
  destruct (d_can_lend (rev es) (h_size h) (cmin c) (cmin c - h_size h2)) eqn:Hcan.
  - (* lend *)
    unfold n_lend_to_right.
    destruct (lend_loop_spec (rev es) (h_size h + h_size h2) ((h_size h + h_size h2 + 1) / 2) (cmin c)
                (N.to_nat (h_count h)) (h_size h)) as [k [Hk Hloop]].
    pose proof (lend_keeps_bands c (rev es) (h_size h) (h_size h2) (N.to_nat (h_count h)) Hc
                  (Forall_rev' _ _ Hes) ltac:(rewrite sum_sz_rev; exact Hsz) ltac:(lia) ltac:(lia) ltac:(lia) Hcan) as Hb.
    cbn zeta in Hb. rewrite Hloop in *. cbn [snd] in Hb.
    rewrite rev_length in Hk.
    rewrite Hcnt, Nat2N.id in *.
    set (lc := (length es - k)%nat) in *.
    assert (Hlc : (lc <= length es)%nat) by (subst lc; lia).
    rewrite (firstn_rev_skipn k es Hk), sum_sz_rev in *. fold lc in Hb |- *.
    replace (length es - k)%nat with lc in * by reflexivity.
    pose proof (sum_sz_split lc es) as Hsplit.
    destruct (firstn_skipn_len lc es Hlc) as [Hl1 Hl2].
    eexists. split; [reflexivity|]. unfold pair_ok.
    split.
    { constructor; [|constructor; [|constructor]]; (split; [constructor|unfold in_band]); cbn [hdr_of h_count h_size].
      - apply Forall_firstn; exact Hes.
      - rewrite Hl1. reflexivity.
      - lia.
      - lia.
      - apply Forall_app. split; [apply Forall_skipn; exact Hes | exact Hes2].
      - rewrite app_length, Hl2. lia.
      - rewrite sum_sz_app. lia.
      - lia. }
    split; [discriminate|]. split; [cbn; lia|].
    split. { cbn [flat_map to_list]. rewrite app_nil_r, app_assoc, firstn_skipn. reflexivity. }
    split. { intros x. cbn [flat_map slab_ids h_id]. rewrite app_nil_r.
             rewrite <- (firstn_skipn lc es) at 3. rewrite !ext_ids_app.
             repeat (rewrite ?cnt_app, ?cnt_cons). lia. }
    split. { cbn [chain_l chain first_leaf_id h_id]. auto. }
    reflexivity.
  - (* merge *)
    unfold n_merge.
    pose proof (merge_le_max c (rev es) (h_size h) (h_size h2) Hc (Forall_rev' _ _ Hes)
                  ltac:(rewrite sum_sz_rev; exact Hsz) ltac:(lia) ltac:(lia) ltac:(consts; lia) ltac:(lia) Hcan) as Hm.
    eexists. split; [reflexivity|]. unfold pair_ok.
    split.
    { constructor; [|constructor]. split; [constructor|unfold in_band]; cbn [hdr_of h_count h_size].
      - apply Forall_app; split; assumption.
      - rewrite app_length. lia.
      - rewrite sum_sz_app. consts. lia.
      - consts. lia. }
    split; [discriminate|]. split; [cbn; lia|].
    split. { cbn [flat_map to_list]. rewrite app_nil_r. reflexivity. }
    split. { intros x. cbn [flat_map slab_ids h_id]. rewrite app_nil_r, ext_ids_app.
             repeat (rewrite ?cnt_app, ?cnt_cons). lia. }
    split. { cbn [chain_l chain first_leaf_id h_id]. tauto. }
    reflexivity.
Qed.

(** sibling links of lists *)
Definition fl (l : list anode) : N := match l with c :: _ => first_leaf_id c | [] => 0 end.

Lemma chain_l_app : forall a b nxt, a <> [] -> b <> [] ->
  (chain_l (a ++ b) nxt <-> chain_l a (fl b) /\ chain_l b nxt).
Proof.
  induction a as [|x a IH]; intros b nxt Ha Hb; [congruence|].
  destruct a as [|x2 a].
  - destruct b as [|y b]; [congruence|]. cbn [app chain_l fl]. tauto.
  - specialize (IH b nxt ltac:(discriminate) Hb).
    change (chain_l ((x :: x2 :: a) ++ b) nxt) with (chain x (first_leaf_id x2) /\ chain_l ((x2 :: a) ++ b) nxt).
    change (chain_l (x :: x2 :: a) (fl b)) with (chain x (first_leaf_id x2) /\ chain_l (x2 :: a) (fl b)).
    tauto.
Qed.

Lemma chain_l_AM2 : forall h hs sums cs h2 hs2 sums2 cs2 nxt,
  chain_l [AM h hs sums cs; AM h2 hs2 sums2 cs2] nxt = (chain_l cs (fl cs2) /\ chain_l cs2 nxt).
Proof. reflexivity. Qed.

Lemma fl_app : forall a b, a <> [] -> fl (a ++ b) = fl a.
Proof. intros [|x a] b H; [congruence|reflexivity]. Qed.

Lemma fl_firstn : forall k l, (1 <= k)%nat -> fl (firstn k l) = fl l.
Proof. intros [|k] [|x l] H; try reflexivity; lia. Qed.

Lemma div2_N : forall n, N.of_nat (Nat.div2 n) = N.of_nat n / 2.
Proof.
  intros n. rewrite Nat.div2_div. change 2 with (N.of_nat 2). rewrite <- Nat2N.inj_div. reflexivity.
Qed.

Definition fullm (c : cfg) (d : nat) (n : anode) : Prop :=
  wfn c (S d) n /\ h_size (hdr_of n) = PM + max_headers c * HS.
Definition lastm (c : cfg) (d : nat) (n : anode) : Prop :=
  wfn c (S d) n /\ exists k, 1 <= k /\ k <= max_headers c /\ h_size (hdr_of n) = PM + k * HS.

Lemma fullm_band : forall c d n, cfg_ok c -> fullm c d n -> band c (S d) n.
Proof.
  intros c d n Hc [Hw Hs]. split; [exact Hw|]. unfold in_band. rewrite Hs.
  pose proof (max_headers_ge c Hc). lia.
Qed.

Lemma fix_pair_meta : forall c d l r,
  cfg_ok c -> fullm c d l -> lastm c d r ->
  exists out, fix_pair c l r = Ok out /\ pair_ok c (band c (S d)) l r out /\ length out = 2%nat.
Proof.
  intros c d l r Hc [Hwl Hsl] [Hwr (k & Hk1 & Hk2 & Hsr)].
  pose proof (max_headers_ge c Hc) as (Hmh & Hmhmax & Hmhmin).
  apply wfnS_inv in Hwl. destruct Hwl as (h & hs & sums & cs & -> & Hw & Hb & Hhs & Hsums & Hcnt & Hsz).
  apply wfnS_inv in Hwr. destruct Hwr as (h2 & hs2 & sums2 & cs2 & -> & Hw2 & Hb2 & Hhs2 & Hsums2 & Hcnt2 & Hsz2).
  cbn [hdr_of] in *.
  assert (Hlen1 : N.of_nat (length cs) = max_headers c) by (consts; lia).
  assert (Hlen2 : N.of_nat (length cs2) = k) by (consts; lia).
  unfold fix_pair, n_underflow. cbn [hdr_of].
  destruct (h_size h2 <? cmin c) eqn:Hu.
  2:{ eexists. split; [reflexivity|]. split; [|reflexivity]. unfold pair_ok.
      split. { constructor; [|constructor; [|constructor]]; (split; [apply wf_AM; assumption|unfold in_band; cbn [hdr_of]; consts; lia]). }
      split; [discriminate|]. split; [cbn; lia|]. split; [cbn [flat_map to_list]; rewrite app_nil_r; reflexivity|].
      split. { intros x. cbn [flat_map]. rewrite app_nil_r. lia. }
      split; [auto|reflexivity]. }
  pose proof (meta_full_can_lend c k Hc Hk1 ltac:(lia)) as Hcl. cbn zeta in Hcl. destruct Hcl as [Hcl1 Hcl2].
  pose proof (meta_lend_in_band c k Hc Hk1 ltac:(lia)) as Hlb. cbn zeta in Hlb.
  unfold n_can_lend_to_right. rewrite Hsr, Hsl. rewrite Hcl1, Hcl2.
  unfold n_lend_to_right.
  assert (Hlhs : length hs = length cs) by (subst hs; apply map_length).
  assert (Hlhs2 : length hs2 = length cs2) by (subst hs2; apply map_length).
  set (lc := Nat.div2 (length hs + length hs2)).
  assert (Hlcn : N.of_nat lc = (max_headers c + k) / 2).
  { subst lc. rewrite div2_N, Nat2N.inj_add, Hlhs, Hlhs2, Hlen1, Hlen2. reflexivity. }
  rewrite <- Hlcn in Hlb. destruct Hlb as (Hlb1 & Hlb2 & Hlb3 & Hlb4 & Hlb5).
  assert (Hlc : (lc <= length cs)%nat) by lia.
  assert (Hlc1 : (1 <= lc)%nat) by lia.
  assert (Hlc2 : (lc < length cs)%nat) by (consts; lia).
  destruct (firstn_skipn_len lc cs Hlc) as [Hl1 Hl2].
  eexists. split; [reflexivity|]. split; [|reflexivity]. unfold pair_ok.
  split.
  { constructor; [|constructor; [|constructor]]; (split; [|unfold in_band; cbn [hdr_of h_size]]).
    - apply wf_AM; cbn [h_count h_size].
      + apply Forall_firstn; exact Hw.
      + apply Forall_firstn; exact Hb.
      + subst hs. apply firstn_map.
      + subst sums. apply psums_firstn.
      + reflexivity.
      + rewrite Hl1. reflexivity.
    - lia.
    - apply wf_AM; cbn [h_count h_size].
      + apply Forall_app; split; [apply Forall_skipn; exact Hw | exact Hw2].
      + apply Forall_app; split; [apply Forall_skipn; exact Hb | exact Hb2].
      + subst hs hs2. rewrite map_app, skipn_map. reflexivity.
      + reflexivity.
      + reflexivity.
      + rewrite !app_length, !skipn_length, Hlhs, Hlhs2. reflexivity.
    - rewrite app_length, skipn_length, Hlhs, Hlhs2. lia. }
  split; [discriminate|]. split; [cbn; lia|].
  split. { cbn [flat_map to_list]. rewrite app_nil_r, flat_map_app, app_assoc, <- flat_map_app, firstn_skipn. reflexivity. }
  split. { intros x. cbn [flat_map slab_ids h_id]. rewrite app_nil_r.
           rewrite <- (firstn_skipn lc cs) at 3. rewrite !flat_map_app.
           repeat (rewrite ?cnt_app, ?cnt_cons). lia. }
  split.
  { intros nxt. rewrite !chain_l_AM2.
    assert (Hne1 : firstn lc cs <> []) by (intros E; rewrite E in Hl1; cbn in Hl1; lia).
    assert (Hne2 : skipn lc cs <> []) by (intros E; rewrite E in Hl2; cbn in Hl2; lia).
    assert (Hne3 : cs2 <> []) by (intros E; rewrite E in Hlen2; cbn in Hlen2; lia).
    rewrite <- (firstn_skipn lc cs) at 1.
    rewrite (chain_l_app (firstn lc cs) (skipn lc cs) _ Hne1 Hne2).
    rewrite (chain_l_app (skipn lc cs) cs2 nxt Hne2 Hne3).
    rewrite (fl_app _ cs2 Hne2). tauto. }
  unfold hd_id. cbn [hd first_leaf_id]. fold (fl (firstn lc cs)). fold (fl cs). apply fl_firstn. exact Hlc1.
Qed.

Definition tail_ok (G : anode -> Prop) (slabs out : list anode) : Prop :=
  Forall G out /\ out <> [] /\ (length out <= length slabs)%nat /\
  flat_map to_list out = flat_map to_list slabs /\
  (forall x, (cnt (flat_map slab_ids out) x <= cnt (flat_map slab_ids slabs) x)%nat) /\
  (forall nxt, chain_l slabs nxt -> chain_l out nxt) /\
  fl out = fl slabs.

Lemma tail_fix_gen : forall c (A B G : anode -> Prop),
  (forall l r, A l -> B r -> exists out, fix_pair c l r = Ok out /\ pair_ok c G l r out) ->
  (forall x, A x -> G x) ->
  forall slabs, abl A B slabs -> (2 <= length slabs)%nat ->
  exists out, tail_fix c slabs = Ok out /\ tail_ok G slabs out.
Proof.
  intros c A B G Hpair HAG. induction slabs as [|x rest IH]; intros Habl Hlen; [cbn in Hlen; lia|].
  destruct rest as [|y rest2]; [cbn in Hlen; lia|].
  destruct rest2 as [|z rest3].
  - cbn [abl] in Habl. destruct Habl as [Hx Hy].
    destruct (Hpair x y Hx Hy) as (out & Hfp & Hf & Hne & Hl & Hcont & Hcnt & Hch & Hhd).
    exists out. cbn [tail_fix]. split; [exact Hfp|]. unfold tail_ok.
    split; [exact Hf|]. split; [exact Hne|]. split; [cbn [length]; lia|].
    split; [rewrite Hcont; cbn [flat_map]; rewrite app_nil_r; reflexivity|].
    split; [intros v; specialize (Hcnt v); cbn [flat_map]; rewrite app_nil_r; exact Hcnt|].
    split; [exact Hch|]. unfold hd_id in Hhd. destruct out as [|o out]; [congruence|exact Hhd].
  - change (abl A B (x :: y :: z :: rest3)) with (A x /\ abl A B (y :: z :: rest3)) in Habl.
    destruct Habl as [Hx Hrest].
    destruct (IH Hrest ltac:(cbn [length]; lia)) as (out & Htf & Hf & Hne & Hl & Hcont & Hcnt & Hch & Hfl).
    exists (x :: out).
    change (tail_fix c (x :: y :: z :: rest3)) with
      (match tail_fix c (y :: z :: rest3) with Ok rest' => Ok (x :: rest') | Err e => Err e end).
    rewrite Htf. split; [reflexivity|]. unfold tail_ok.
    split; [constructor; [apply HAG; exact Hx|exact Hf]|]. split; [discriminate|].
    split; [cbn [length] in *; lia|].
    split. { change (flat_map to_list (x :: out)) with (to_list x ++ flat_map to_list out). rewrite Hcont. reflexivity. }
    split. { intros v. specialize (Hcnt v).
             change (flat_map slab_ids (x :: out)) with (slab_ids x ++ flat_map slab_ids out).
             change (flat_map slab_ids (x :: y :: z :: rest3)) with (slab_ids x ++ flat_map slab_ids (y :: z :: rest3)).
             rewrite !cnt_app. lia. }
    split; [|reflexivity].
    intros nxt Hc0.
    change (chain_l (x :: y :: z :: rest3) nxt) with (chain x (first_leaf_id y) /\ chain_l (y :: z :: rest3) nxt) in Hc0.
    destruct Hc0 as [Hc1 Hc2]. specialize (Hch nxt Hc2).
    destruct out as [|o out]; [congruence|]. cbn [fl] in Hfl.
    change (chain_l (x :: o :: out) nxt) with (chain x (first_leaf_id o) /\ chain_l (o :: out) nxt).
    rewrite Hfl. split; assumption.
Qed.

(** * 6. nextLevelArraySlabs *)

Definition nchild (n : anode) : nat := match n with AM _ _ _ cs => length cs | AD _ _ _ => 2%nat end.

Record ma_inv (c : cfg) (d : nat) (m : meta_acc) : Prop := mk_ma_inv {
  mi_size : ma_size m = PM + N.of_nat (ma_k m) * HS;
  mi_k : ma_k m = length (ma_cs m);
  mi_hs : ma_hs m = map hdr_of (ma_cs m);
  mi_count : ma_count m = sum_cnt (ma_hs m);
  mi_sums : rev (ma_sums m) = psums 0 (rev (ma_hs m));
  mi_cs : Forall (band c d) (ma_cs m)
}.

Lemma sum_cnt_rev : forall l, sum_cnt (rev l) = sum_cnt l.
Proof. induction l as [|x l IH]; cbn [rev sum_cnt]; [reflexivity|]. rewrite sum_cnt_app, IH. cbn [sum_cnt]. lia. Qed.

Lemma ma_new_inv : forall c d id, ma_inv c d (ma_new id).
Proof. intros. constructor; cbn; auto. Qed.

Lemma ma_add_inv : forall c d m s, ma_inv c d m -> band c d s -> ma_inv c d (ma_add m s).
Proof.
  intros c d m s [H1 H2 H3 H4 H5 H6] Hs. constructor; cbn [ma_add ma_size ma_k ma_cs ma_hs ma_count ma_sums].
  - rewrite H1. lia.
  - cbn [length]. rewrite H2. reflexivity.
  - cbn [map]. rewrite H3. reflexivity.
  - cbn [sum_cnt]. rewrite H4. lia.
  - cbn [rev]. rewrite H5, psums_app. cbn [psums]. rewrite sum_cnt_rev, H4. repeat f_equal; lia.
  - constructor; assumption.
Qed.

Lemma ma_close_wf : forall c d m, ma_inv c d m -> wfn c (S d) (ma_close m) /\
  h_size (hdr_of (ma_close m)) = PM + N.of_nat (ma_k m) * HS /\ nchild (ma_close m) = ma_k m /\
  to_list (ma_close m) = flat_map to_list (rev (ma_cs m)) /\
  slab_ids (ma_close m) = ma_id m :: flat_map slab_ids (rev (ma_cs m)).
Proof.
  intros c d m [H1 H2 H3 H4 H5 H6]. unfold ma_close. split; [|split; [|split; [|split]]].
  - apply wf_AM; cbn [h_count h_size].
    + apply Forall_rev'. eapply Forall_impl; [|exact H6]. intros a [Ha _]; exact Ha.
    + apply Forall_rev'. eapply Forall_impl; [|exact H6]. intros a [_ Ha]; exact Ha.
    + rewrite H3, map_rev. reflexivity.
    + exact H5.
    + rewrite sum_cnt_rev. exact H4.
    + rewrite rev_length, <- H2. exact H1.
  - exact H1.
  - cbn [nchild]. rewrite rev_length. symmetry; exact H2.
  - reflexivity.
  - reflexivity.
Qed.

Definition next_ok (c : cfg) (d : nat) (m : meta_acc) (slabs : list anode) (alloc : N)
           (out : list anode) (alloc' : N) : Prop :=
  abl (fullm c d) (lastm c d) out /\
  flat_map to_list out = flat_map to_list (rev (ma_cs m)) ++ flat_map to_list slabs /\
  (forall x, out = [x] -> nchild x = (ma_k m + length slabs)%nat) /\
  (length out = 1%nat \/ ((length out - 1) * N.to_nat (max_headers c) + 1 <= ma_k m + length slabs)%nat) /\
  alloc <= alloc' /\
  (exists news, incr alloc news /\ Forall (fun i => i <= alloc') news /\
     forall x, cnt (flat_map slab_ids out) x =
               (cnt (ma_id m :: news) x + cnt (flat_map slab_ids (ma_cs m)) x + cnt (flat_map slab_ids slabs) x)%nat) /\
  (forall nxt, ma_cs m <> [] -> chain_l (rev (ma_cs m) ++ slabs) nxt -> chain_l out nxt) /\
  (ma_cs m <> [] -> fl out = fl (rev (ma_cs m))).

Lemma next_level_go_spec : forall c d slabs m alloc out alloc',
  cfg_ok c ->
  next_level_go (N.to_nat (max_headers c)) slabs m alloc = (out, alloc') ->
  ma_inv c d m -> Forall (band c d) slabs -> (1 <= ma_k m)%nat -> (ma_k m <= N.to_nat (max_headers c))%nat ->
  next_ok c d m slabs alloc out alloc'.
Proof.
  intros c d slabs. induction slabs as [|s r IH]; intros m alloc out alloc' Hc Hgo Hm Hs Hk1 Hk2; cbn [next_level_go] in Hgo.
  - inversion Hgo; subst out alloc'. clear Hgo.
    destruct (ma_close_wf c d m Hm) as (Hw & Hsz & Hn & Htl & Hids).
    unfold next_ok. split; [|split; [|split; [|split; [|split; [|split; [|split]]]]]].
    + cbn [abl]. split; [exact Hw|]. exists (N.of_nat (ma_k m)). split; [lia|]. split; [lia|exact Hsz].
    + cbn [flat_map]. rewrite !app_nil_r. exact Htl.
    + intros x Hx. inversion Hx; subst x. cbn [length]. lia.
    + left. reflexivity.
    + lia.
    + exists []. split; [exact I|]. split; [constructor|]. intros x. cbn [flat_map]. rewrite app_nil_r, Hids.
      rewrite !cnt_cons, cnt_flat_rev, !cnt_nil. lia.
    + intros nxt Hne Hch. rewrite app_nil_r in Hch. cbn [chain_l]. exact Hch.
    + intros Hne. reflexivity.
  - pose proof (Forall_inv Hs) as Hs1. pose proof (Forall_inv_tail Hs) as Hsr.
    destruct (Nat.eqb (ma_k m) (N.to_nat (max_headers c))) eqn:Hfull.
    + apply Nat.eqb_eq in Hfull.
      destruct (next_level_go (N.to_nat (max_headers c)) r (ma_add (ma_new (alloc + 1)) s) (alloc + 1)) as [rest a] eqn:Hrest.
      inversion Hgo; subst out alloc'. clear Hgo.
      pose proof (max_headers_ge c Hc) as (Hmh & _ & _).
      specialize (IH (ma_add (ma_new (alloc + 1)) s) (alloc + 1) rest a Hc Hrest
                     (ma_add_inv c d _ s (ma_new_inv c d _) Hs1) Hsr ltac:(cbn; lia) ltac:(cbn; lia)).
      destruct IH as (Habl & Hcont & Hone & Hlen & Ha & (news & Hinc & Hle & Hcnt) & Hch & Hfl).
      destruct (ma_close_wf c d m Hm) as (Hw & Hsz & Hn & Htl & Hids).
      assert (Hrne : rest <> []) by (destruct rest; [cbn in Habl; tauto | discriminate]).
      unfold next_ok. split; [|split; [|split; [|split; [|split; [|split; [|split]]]]]].
      * destruct rest as [|r0 rest]; [congruence|].
        change (abl (fullm c d) (lastm c d) (ma_close m :: r0 :: rest)) with
          (fullm c d (ma_close m) /\ abl (fullm c d) (lastm c d) (r0 :: rest)).
        split; [|exact Habl]. split; [exact Hw|]. rewrite Hsz, Hfull, N2Nat.id. reflexivity.
      * change (flat_map to_list (ma_close m :: rest)) with (to_list (ma_close m) ++ flat_map to_list rest).
        rewrite Htl, Hcont. cbn [ma_add ma_new ma_cs rev app flat_map]. rewrite app_nil_r. reflexivity.
      * intros x Hx. inversion Hx; subst. congruence.
      * right. cbn [length ma_add ma_new ma_k] in *. rewrite Hfull.
        destruct Hlen as [Hl|Hl]; [rewrite Hl; lia|]. nia.
      * lia.
      * exists ((alloc + 1) :: news). split; [cbn [incr]; split; [lia|exact Hinc]|]. split; [constructor; [lia|exact Hle]|].
        intros x. change (flat_map slab_ids (ma_close m :: rest)) with (slab_ids (ma_close m) ++ flat_map slab_ids rest).
        rewrite cnt_app, Hids, Hcnt. cbn [ma_add ma_new ma_id ma_cs flat_map].
        rewrite !cnt_cons, cnt_flat_rev, !cnt_app, !cnt_nil. lia.
      * intros nxt Hne Hch0.
        assert (Hne' : rev (ma_cs m) <> []) by (intros E; apply Hne; rewrite <- (rev_involutive (ma_cs m)), E; reflexivity).
        apply (chain_l_app (rev (ma_cs m)) (s :: r) nxt Hne' ltac:(discriminate)) in Hch0. destruct Hch0 as [Hc1 Hc2].
        specialize (Hch nxt ltac:(cbn; discriminate) Hc2). specialize (Hfl ltac:(cbn; discriminate)).
        destruct rest as [|r0 rest]; [congruence|].
        change (chain_l (ma_close m :: r0 :: rest) nxt) with (chain (ma_close m) (first_leaf_id r0) /\ chain_l (r0 :: rest) nxt).
        split; [|exact Hch]. cbn [fl] in Hfl. rewrite Hfl. cbn [ma_add ma_new ma_cs rev app fl].
        exact Hc1.
      * intros Hne. reflexivity.
    + apply Nat.eqb_neq in Hfull.
      specialize (IH (ma_add m s) alloc out alloc' Hc Hgo (ma_add_inv c d m s Hm Hs1) Hsr ltac:(cbn; lia) ltac:(cbn; lia)).
      destruct IH as (Habl & Hcont & Hone & Hlen & Ha & (news & Hinc & Hle & Hcnt) & Hch & Hfl).
      unfold next_ok. split; [exact Habl|]. split; [|split; [|split; [|split; [exact Ha|split; [|split]]]]].
      * rewrite Hcont. cbn [ma_add ma_cs rev flat_map]. rewrite flat_map_app, <- app_assoc. cbn [flat_map]. rewrite app_nil_r. reflexivity.
      * intros x Hx. rewrite (Hone x Hx). cbn [ma_add ma_k length]. lia.
      * cbn [ma_add ma_k length] in *. destruct Hlen as [Hl|Hl]; [left; exact Hl|right; lia].
      * exists news. split; [exact Hinc|]. split; [exact Hle|]. intros x. rewrite Hcnt.
        cbn [ma_add ma_id ma_cs flat_map]. rewrite !cnt_app. lia.
      * intros nxt Hne Hch0. apply Hch; [cbn; discriminate|]. cbn [ma_add ma_cs rev]. rewrite <- app_assoc. exact Hch0.
      * intros Hne. rewrite (Hfl ltac:(cbn; discriminate)). cbn [ma_add ma_cs rev]. apply fl_app.
        intros E; apply Hne; rewrite <- (rev_involutive (ma_cs m)), E; reflexivity.
Qed.

(** * 7. The level loop *)

Definition LI (c : cfg) (d : nat) (slabs : list anode) : Prop :=
  match d with
  | O => abl (band c 0) (lvl c 0) slabs
  | S d' => abl (fullm c d') (lastm c d') slabs /\ (forall x, slabs = [x] -> (2 <= nchild x)%nat)
  end.

Definition root_ok (c : cfg) (n : anode) : Prop :=
  (exists d, wfn c d n) /\ h_size (hdr_of n) <= cmax c /\ (2 <= nchild n)%nat.

Lemma LI_single : forall c d x, cfg_ok c -> LI c d [x] -> root_ok c x.
Proof.
  intros c [|d] x Hc H; cbn [LI abl] in H.
  - destruct H as [Hw Hs]. split; [eauto|]. split; [exact Hs|].
    apply wfn0_inv in Hw. destruct Hw as (h & nx & es & -> & _). cbn. lia.
  - destruct H as [[Hw (k & Hk1 & Hk2 & Hs)] Hn]. split; [eauto|]. split; [|apply Hn; reflexivity].
    rewrite Hs. pose proof (max_headers_ge c Hc). consts. lia.
Qed.

Lemma band_nchild : forall c d n, cfg_ok c -> band c d n -> (2 <= nchild n)%nat.
Proof.
  intros c [|d] n Hc [Hw Hb].
  - apply wfn0_inv in Hw. destruct Hw as (h & nx & es & -> & _). cbn. lia.
  - apply wfnS_inv in Hw. destruct Hw as (h & hs & sums & cs & -> & _ & _ & _ & _ & _ & Hs).
    unfold in_band in Hb. cbn [hdr_of nchild] in *. use_cfg Hc. consts. lia.
Qed.

Lemma LI_tail : forall c d slabs, cfg_ok c -> LI c d slabs -> (2 <= length slabs)%nat ->
  exists out, tail_fix c slabs = Ok out /\ tail_ok (band c d) slabs out.
Proof.
  intros c [|d] slabs Hc H Hlen; cbn [LI] in H.
  - apply (tail_fix_gen c (band c 0) (lvl c 0) (band c 0)); auto.
    intros l r Hl Hr. apply fix_pair_leaf; assumption.
  - destruct H as [H _]. apply (tail_fix_gen c (fullm c d) (lastm c d) (band c (S d))); auto.
    + intros l r Hl Hr. destruct (fix_pair_meta c d l r Hc Hl Hr) as (out & H1 & H2 & _). eauto.
    + intros x Hx. apply fullm_band; assumption.
Qed.

Lemma next_level_unfold : forall c o r alloc, max_headers c <> 0 ->
  next_level c (o :: r) alloc =
  next_level_go (N.to_nat (max_headers c)) r (ma_add (ma_new (alloc + 1)) o) (alloc + 1).
Proof.
  intros c o r alloc H. unfold next_level. cbn [next_level_go].
  assert (Hk0 : Nat.eqb (ma_k (ma_new (alloc + 1))) (N.to_nat (max_headers c)) = false) by (apply Nat.eqb_neq; cbn; lia).
  rewrite Hk0. reflexivity.
Qed.

Definition levels_ok (c : cfg) (slabs : list anode) (alloc : N) (root : anode) (alloc' : N) : Prop :=
  root_ok c root /\
  to_list root = flat_map to_list slabs /\
  alloc <= alloc' /\
  (exists news, incr alloc news /\ Forall (fun i => i <= alloc') news /\
     forall x, (cnt (slab_ids root) x <= cnt news x + cnt (flat_map slab_ids slabs) x)%nat) /\
  (forall nxt, chain_l slabs nxt -> chain root nxt).

(* the Store calls issued by the level loop go to identifiers of the slabs it was given or to
   identifiers it allocated itself *)
Definition stored_in (lo hi : N) (w : wr) : Prop := exists i, w = WStore i /\ lo < i /\ i <= hi.
Definition log_ok (slabs : list anode) (alloc : N) (lg : wlog) (alloc' : N) (lg' : wlog) : Prop :=
  forall lo, lo <= alloc -> Forall (fun i => lo < i /\ i <= alloc) (flat_map slab_ids slabs) ->
  exists lgs, lg' = lg ++ lgs /\ Forall (stored_in lo alloc') lgs.

Lemma hid_in_slab_ids : forall s, In (h_id (hdr_of s)) (slab_ids s).
Proof. intros [h nx es|h hs sums cs]; cbn; auto. Qed.

Lemma store_all_bound : forall slabs lo hi, Forall (fun i => lo < i /\ i <= hi) (flat_map slab_ids slabs) ->
  Forall (stored_in lo hi) (store_all slabs).
Proof.
  intros slabs lo hi H. unfold store_all. apply Forall_forall. intros w Hw. apply in_map_iff in Hw.
  destruct Hw as (s & <- & Hs). exists (h_id (hdr_of s)). split; [reflexivity|].
  rewrite Forall_forall in H. apply H. apply in_flat_map. exists s. split; [exact Hs|apply hid_in_slab_ids].
Qed.

Lemma levels_spec : forall fuel c slabs alloc lg d,
  cfg_ok c -> LI c d slabs -> (length slabs < fuel)%nat ->
  exists root alloc' lg', levels fuel c slabs alloc lg = Ok (root, alloc', lg') /\ levels_ok c slabs alloc root alloc' /\
    log_ok slabs alloc lg alloc' lg'.
Proof.
  induction fuel as [|f IH]; intros c slabs alloc lg d Hc HLI Hfuel; [lia|].
  destruct slabs as [|x rest].
  { destruct d; cbn [LI abl] in HLI; tauto. }
  destruct rest as [|y rest].
  { (* a single slab: the root *)
    exists x, alloc, lg. split; [reflexivity|].
    split; [|intros lo _ _; exists []; rewrite app_nil_r; split; [reflexivity|constructor]]. unfold levels_ok.
    split; [apply (LI_single c d); assumption|]. split; [cbn [flat_map]; rewrite app_nil_r; reflexivity|].
    split; [lia|]. split.
    - exists []. split; [exact I|]. split; [constructor|]. intros v. cbn [flat_map]. rewrite app_nil_r. lia.
    - intros nxt H. exact H. }
  destruct (LI_tail c d (x :: y :: rest) Hc HLI ltac:(cbn [length]; lia)) as (out & Htf & Hf & Hne & Hl & Hcont & Hcnt & Hch & Hfl).
  cbn [levels]. rewrite Htf.
  destruct out as [|o out]; [congruence|].
  destruct out as [|o2 out].
  { (* merged into a single slab *)
    exists o, alloc, lg. split; [reflexivity|].
    split; [|intros lo _ _; exists []; rewrite app_nil_r; split; [reflexivity|constructor]]. unfold levels_ok.
    pose proof (Forall_inv Hf) as Ho.
    split. { split; [destruct Ho as [Hw _]; eauto|]. split; [destruct Ho as [_ [_ Hb]]; exact Hb|].
             apply (band_nchild c d); assumption. }
    split; [rewrite <- Hcont; cbn [flat_map]; rewrite app_nil_r; reflexivity|].
    split; [lia|]. split.
    - exists []. split; [exact I|]. split; [constructor|]. intros v. specialize (Hcnt v).
      change (flat_map slab_ids [o]) with (slab_ids o ++ []) in Hcnt. rewrite app_nil_r in Hcnt. rewrite cnt_nil. lia.
    - intros nxt H. apply (Hch nxt) in H. exact H. }
  (* at least two slabs: build the next level *)
  pose proof (max_headers_ge c Hc) as (Hmh & _ & _).
  rewrite next_level_unfold by lia.
  destruct (next_level_go (N.to_nat (max_headers c)) (o2 :: out) (ma_add (ma_new (alloc + 1)) o) (alloc + 1)) as [next a1] eqn:Hnext.
  pose proof (next_level_go_spec c d (o2 :: out) _ _ next a1 Hc Hnext
                (ma_add_inv c d _ o (ma_new_inv c d _) (Forall_inv Hf)) (Forall_inv_tail Hf) ltac:(cbn; lia) ltac:(cbn; lia)) as Hn.
  destruct Hn as (Habl & Hcont2 & Hone & Hlen & Ha & (news & Hinc & Hle & Hcnt2) & Hch2 & Hfl2).
  assert (HLI' : LI c (S d) next).
  { cbn [LI]. split; [exact Habl|]. intros v Hv. rewrite (Hone v Hv). cbn. lia. }
  assert (Hlt : (length next < f)%nat).
  { cbn [length ma_add ma_new ma_k] in *. destruct Hlen as [Hq|Hq]; [lia|]. nia. }
  destruct (IH c next a1 (lg ++ store_all (o :: o2 :: out)) (S d) Hc HLI' Hlt) as (root & a2 & lg2 & Hlev & Hok & Hlog).
  exists root, a2, lg2. split; [exact Hlev|].
  destruct Hok as (Hroot & Htl & Ha2 & (news2 & Hinc2 & Hle2 & Hcnt3) & Hch3).
  split.
  2:{ intros lo Hlo Hbound.
      assert (Hb1 : Forall (fun i => lo < i /\ i <= alloc) (flat_map slab_ids (o :: o2 :: out))).
      { apply Forall_forall. intros i Hi. apply cnt_In in Hi. specialize (Hcnt i).
        rewrite Forall_forall in Hbound. apply Hbound. apply cnt_In. lia. }
      assert (Hb2 : Forall (fun i => lo < i /\ i <= a1) (flat_map slab_ids next)).
      { apply Forall_forall. intros i Hi. apply cnt_In in Hi. rewrite Hcnt2 in Hi.
        cbn [ma_add ma_new ma_id ma_cs] in Hi.
        change (flat_map slab_ids [o]) with (slab_ids o ++ []) in Hi. rewrite app_nil_r in Hi.
        assert (Hcase : (0 < cnt ((alloc + 1)%N :: news) i)%nat \/ (0 < cnt (flat_map slab_ids (o :: o2 :: out)) i)%nat).
        { change (flat_map slab_ids (o :: o2 :: out)) with (slab_ids o ++ flat_map slab_ids (o2 :: out)). rewrite cnt_app. lia. }
        destruct Hcase as [Hn|Ho].
        - apply cnt_In in Hn. destruct Hn as [<-|Hn]; [lia|].
          destruct (incr_bounds news (alloc + 1) a1 i Hinc Hle Hn). lia.
        - apply cnt_In in Ho. rewrite Forall_forall in Hb1. specialize (Hb1 i Ho). cbn beta in Hb1. lia. }
      destruct (Hlog lo ltac:(lia) Hb2) as (lgs2 & Heq & Hst).
      exists (store_all (o :: o2 :: out) ++ lgs2). split; [rewrite Heq, app_assoc; reflexivity|].
      apply Forall_app. split; [|exact Hst].
      eapply Forall_impl; [|apply (store_all_bound _ lo alloc Hb1)].
      intros w (i & Hw & H1 & H2). exists i. split; [exact Hw|]. lia. }
  unfold levels_ok. split; [exact Hroot|].
  split. { rewrite Htl, Hcont2, <- Hcont. cbn [ma_add ma_new ma_cs rev app flat_map]. rewrite app_nil_r. reflexivity. }
  split; [lia|]. split.
  - exists (((alloc + 1) :: news) ++ news2). split.
    + eapply incr_app with (mid := a1); [cbn [incr]; split; [lia|exact Hinc] | constructor; [lia|exact Hle] | lia | exact Hinc2].
    + split. { apply Forall_app. split; [|exact Hle2]. constructor; [lia|]. eapply Forall_impl; [|exact Hle]. cbn beta; intros; lia. }
      intros v. specialize (Hcnt3 v). specialize (Hcnt2 v). specialize (Hcnt v).
      cbn [ma_add ma_new ma_id ma_cs] in Hcnt2.
      change (flat_map slab_ids (o :: o2 :: out)) with (slab_ids o ++ flat_map slab_ids (o2 :: out)) in Hcnt.
      change (flat_map slab_ids [o]) with (slab_ids o ++ []) in Hcnt2. rewrite app_nil_r in Hcnt2.
      rewrite cnt_app in *. lia.
  - intros nxt H. apply Hch3. apply Hch2; [cbn; discriminate|]. cbn [ma_add ma_new ma_cs rev app].
    apply Hch. exact H.
Qed.

(** * 8. NewArrayFromBatchData *)

Lemma rebase_root_facts : forall n, to_list (rebase_root n) = to_list n /\ slab_ids (rebase_root n) = slab_ids n /\
  h_count (hdr_of (rebase_root n)) = h_count (hdr_of n) /\ (forall nxt, chain n nxt -> chain (rebase_root n) nxt).
Proof. intros [h nx es|h hs sums cs]; cbn; auto. Qed.

Lemma fill_log : forall c es id size count acc alloc leaves alloc' lg,
  fill c es id size count acc alloc = (leaves, alloc', lg) ->
  alloc <= alloc' /\ Forall (stored_in alloc alloc') lg.
Proof.
  intros c es. induction es as [|e r IH]; intros id size count acc alloc leaves alloc' lg Hf; cbn [fill] in Hf.
  - inversion Hf; subst. split; [lia|constructor].
  - assert (Hext : forall al e' a1 lg1, externalise e al = (e', a1, lg1) -> al <= a1 /\ Forall (stored_in al a1) lg1).
    { intros al e' a1 lg1 H. unfold externalise in H. destruct (e_ext e =? 0); inversion H; subst.
      - split; [lia|constructor].
      - split; [lia|]. constructor; [|constructor]. exists (al + 1). split; [reflexivity|lia]. }
    assert (Hmono : forall lo lo' hi hi' l, lo' <= lo -> hi <= hi' -> Forall (stored_in lo hi) l -> Forall (stored_in lo' hi') l).
    { intros lo lo' hi hi' l H1 H2 H. eapply Forall_impl; [|exact H]. intros w (i & Hw & Ha & Hb). exists i. split; [exact Hw|]. lia. }
    destruct (cT c <=? size).
    + destruct (externalise e (alloc + 1)) as [[e' a1] lg1] eqn:Hx.
      destruct (fill c r (alloc + 1) (P + e_sz e') 1 [e'] a1) as [[rest a2] lg2] eqn:Hrest.
      inversion Hf; subst. destruct (Hext _ _ _ _ Hx) as [H1 H2]. destruct (IH _ _ _ _ _ _ _ _ Hrest) as [H3 H4].
      split; [lia|]. apply Forall_app. split; [eapply Hmono; [| |exact H2]; lia | eapply Hmono; [| |exact H4]; lia].
    + destruct (externalise e alloc) as [[e' a1] lg1] eqn:Hx.
      destruct (fill c r id (size + e_sz e') (count + 1) (e' :: acc) a1) as [[rest a2] lg2] eqn:Hrest.
      inversion Hf; subst. destruct (Hext _ _ _ _ Hx) as [H1 H2]. destruct (IH _ _ _ _ _ _ _ _ Hrest) as [H3 H4].
      split; [lia|]. apply Forall_app. split; [eapply Hmono; [| |exact H2]; lia | eapply Hmono; [| |exact H4]; lia].
Qed.

Definition batch_post (c : cfg) (alloc ti : N) (es : list elem) (a : arr) : Prop :=
  wf_root c (a_root a) /\
  abs_list (a_root a) = map strip es /\
  a_count a = N.of_nat (length es) /\
  a_type a = ti /\ alloc < a_alloc a /\
  NoDup (slab_ids (a_root a)) /\
  Forall (fun i => alloc < i /\ i <= a_alloc a) (slab_ids (a_root a)) /\
  chain (a_root a) 0.

Theorem batch_spec : forall c alloc ti es,
  cfg_ok c -> Forall (elem_ok c) es ->
  exists a lg, array_from_batch_res c alloc ti es = Ok (a, lg) /\ batch_post c alloc ti es a /\
    Forall (stored_in alloc (a_alloc a)) lg.
Proof.
  intros c alloc ti es Hc Hes. unfold array_from_batch_res.
  destruct (fill c es (alloc + 1) P 0 [] (alloc + 1)) as [[leaves a1] lg1] eqn:Hfill.
  pose proof (fill_spec c es (alloc + 1) P 0 [] (alloc + 1) leaves a1 lg1 Hc Hfill Hes ltac:(constructor)
                ltac:(cbn [sum_sz]; lia) ltac:(reflexivity) ltac:(use_cfg Hc; consts; lia)) as Hf.
  destruct Hf as (Habl & Hcont & Hlen & _ & Hch & Ha1 & news0 & Hids & Hinc0 & Hle0).
  destruct (levels_spec (length es + 2) c leaves a1 lg1 0 Hc Habl ltac:(lia)) as (root & a2 & lg2 & Hlev & Hok & Hlog).
  rewrite Hlev. destruct Hok as (Hroot & Htl & Ha2 & (news & Hinc & Hle & Hcnt) & Hchain).
  eexists. eexists. split; [reflexivity|].
  assert (Hleafb : Forall (fun i => alloc < i /\ i <= a1) (flat_map slab_ids leaves)).
  { rewrite Hids. cbn [rev ext_ids app]. constructor; [lia|]. apply Forall_forall. intros i Hi.
    destruct (incr_bounds news0 (alloc + 1) a1 i Hinc0 Hle0 Hi). lia. }
  destruct (fill_log _ _ _ _ _ _ _ _ _ _ Hfill) as [_ Hlg1].
  destruct (Hlog alloc ltac:(lia) Hleafb) as (lgs & Hlgeq & Hlgs).
  destruct (rebase_root_facts root) as (Rtl & Rids & Rcnt & Rch).
  destruct Hroot as ((d & Hw) & Hsz & Hnc).
  unfold batch_post. cbn [a_root a_alloc a_type].
  assert (Hcontent : map strip (to_list root) = map strip es).
  { rewrite Htl, Hcont. reflexivity. }
  (* all identifiers of the result, as one increasing list *)
  set (L := ((alloc + 1) :: news0) ++ news).
  assert (HL : incr alloc L).
  { subst L. eapply incr_app with (mid := a1); [cbn [incr]; split; [lia|exact Hinc0] | constructor; [lia|exact Hle0] | lia | exact Hinc]. }
  assert (HLle : Forall (fun i => i <= a2) L).
  { subst L. apply Forall_app. split; [|exact Hle]. constructor; [lia|]. eapply Forall_impl; [|exact Hle0]. cbn beta; intros; lia. }
  assert (Hsub : forall x, (cnt (slab_ids root) x <= cnt L x)%nat).
  { intros x. specialize (Hcnt x). rewrite Hids in Hcnt. cbn [rev ext_ids app] in Hcnt. subst L. rewrite cnt_app. lia. }
  assert (Hrootb : alloc < h_id (hdr_of root) /\ h_id (hdr_of root) <= a2).
  { pose proof (hid_in_slab_ids root) as Hin. apply cnt_In in Hin. specialize (Hsub (h_id (hdr_of root))).
    assert (HinL : In (h_id (hdr_of root)) L) by (apply cnt_In; lia).
    exact (incr_bounds L alloc a2 _ HL HLle HinL). }
  split.
  2:{ cbn [a_alloc]. rewrite Hlgeq. apply Forall_app. split; [apply Forall_app; split|].
      - eapply Forall_impl; [|exact Hlg1]. intros w (i & Hwi & H1 & H2). exists i. split; [exact Hwi|]. lia.
      - exact Hlgs.
      - constructor; [|constructor]. exists (h_id (hdr_of (rebase_root root))). split; [reflexivity|].
        destruct root; cbn [rebase_root hdr_of h_id] in *; exact Hrootb. }
  split; [|split; [|split; [|split; [reflexivity|split; [lia|split; [|split]]]]]].
  - (* wf_root *)
    destruct d as [|d].
    + apply wfn0_inv in Hw. destruct Hw as (h & nx & es0 & -> & Hes0 & Hc0 & Hs0).
      pose proof (Hchain 0 Hch) as Hnx. cbn [chain] in Hnx. subst nx.
      cbn [rebase_root]. apply wfr_AD; cbn [h_count h_size hdr_of] in *; auto; consts; lia.
    + apply wfnS_inv in Hw. destruct Hw as (h & hs & sums & cs & -> & H1 & H2 & H3 & H4 & H5 & H6).
      cbn [rebase_root]. apply (wfr_AM c d); [apply wf_AM; assumption | exact Hnc | exact Hsz].
  - unfold abs_list. rewrite Rtl. exact Hcontent.
  - unfold a_count. cbn [a_root]. rewrite Rcnt, (wfn_count c d root Hw).
    rewrite <- (map_length strip (to_list root)), Hcontent, map_length. reflexivity.
  - rewrite Rids. apply (NoDup_count_occ N.eq_dec). intros x. specialize (Hsub x).
    pose proof (incr_cnt1 L alloc x HL). unfold cnt in *. lia.
  - rewrite Rids. apply Forall_forall. intros x Hin. apply cnt_In in Hin. specialize (Hsub x).
    assert (HinL : In x L) by (apply cnt_In; lia).
    exact (incr_bounds L alloc a2 x HL HLle HinL).
  - apply Rch. apply Hchain. exact Hch.
Qed.

Lemma array_from_batch_total : forall c alloc ti es, cfg_ok c -> Forall (elem_ok c) es ->
  array_from_batch_res c alloc ti es = Ok (array_from_batch c alloc ti es) /\
  batch_post c alloc ti es (fst (array_from_batch c alloc ti es)).
Proof.
  intros c alloc ti es Hc Hes. destruct (batch_spec c alloc ti es Hc Hes) as (a & lg & Hr & Hp & _).
  unfold array_from_batch. rewrite Hr. split; [reflexivity|exact Hp].
Qed.

Lemma array_from_batch_log : forall c alloc ti es, cfg_ok c -> Forall (elem_ok c) es ->
  Forall (stored_in alloc (a_alloc (fst (array_from_batch c alloc ti es)))) (snd (array_from_batch c alloc ti es)).
Proof.
  intros c alloc ti es Hc Hes. destruct (batch_spec c alloc ti es Hc Hes) as (a & lg & Hr & _ & Hl).
  unfold array_from_batch. rewrite Hr. exact Hl.
Qed.

(** * 9. Copy *)

(* the source of a copy: a standalone root slab, or a slab inlined in its parent (cached size counts
   the inlined prefix and the whole slab respects the inline limit) *)
Definition copy_src_ok (c : cfg) (root : anode) (inlined : bool) : Prop :=
  if inlined then
    exists h es, root = AD h 0 es /\ Forall (elem_ok c) es /\ h_count h = N.of_nat (length es) /\
                 h_size h = IP + sum_sz es /\ h_size h <= cinl_arr c
  else wf_root c root.

Lemma plain_no_ext : forall pl es, forallb (elem_plain pl) es = true -> ext_ids es = [].
Proof.
  induction es as [|e es IH]; intros H; [reflexivity|]. cbn [forallb] in H. apply andb_true_iff in H. destruct H as [H1 H2].
  unfold elem_plain in H1. apply andb_true_iff in H1. destruct H1 as [_ H1]. cbn [ext_ids]. rewrite H1. auto.
Qed.

Theorem copy_spec : forall c pl root inlined alloc ti,
  cfg_ok c -> copy_src_ok c root inlined ->
  (can_copy pl root = true ->
     exists a, copy_array pl root inlined alloc ti = (inl (a, [WStore (alloc + 1)]), alloc + 1) /\
       to_list (a_root a) = to_list root /\ wf_root c (a_root a) /\ a_type a = ti /\ a_alloc a = alloc + 1 /\
       slab_ids (a_root a) = [alloc + 1]) /\
  (can_copy pl root = false -> exists e al, copy_array pl root inlined alloc ti = (inr e, al)).
Proof.
  intros c pl root inlined alloc ti Hc Hsrc. split; intros Hcan.
  - destruct root as [h nx es|h hs sums cs]; [|discriminate].
    cbn [can_copy] in Hcan. apply andb_true_iff in Hcan. destruct Hcan as [Hnx Hpl].
    unfold copy_array. rewrite Hnx, Hpl. cbn [negb].
    eexists. split; [reflexivity|]. cbn [a_root a_type a_alloc to_list slab_ids h_id].
    split; [reflexivity|]. split; [|split; [reflexivity|split; [reflexivity|rewrite (plain_no_ext pl es Hpl); reflexivity]]].
    unfold copy_src_ok in Hsrc. destruct inlined.
    + destruct Hsrc as (h' & es' & Heq & Hes & Hcnt & Hsz & Hlim). inversion Heq; subst h' es'.
      apply wfr_AD; cbn [h_count h_size]; auto; use_cfg Hc; consts; lia.
    + inversion Hsrc; subst. apply wfr_AD; cbn [h_count h_size]; auto.
  - destruct root as [h nx es|h hs sums cs]; [|cbn [copy_array]; eauto].
    cbn [can_copy] in Hcan. unfold copy_array. destruct (nx =? 0); cbn [negb]; [|eauto].
    cbn [andb] in Hcan. rewrite Hcan. cbn [negb]. eauto.
Qed.

(** * 10. Byte slices *)

Lemma strip_id : forall e e', e_ext e = 0 -> strip e' = strip e -> e' = e.
Proof.
  intros [i s x] [i' s' x'] H Hs. cbn [e_ext] in H. subst x. unfold strip in Hs. cbn in Hs.
  destruct (x' =? 0) eqn:Hx; inversion Hs; subst. f_equal. lia.
Qed.

Lemma map_strip_id : forall es l, Forall (fun e => e_ext e = 0) es -> map strip l = map strip es -> l = es.
Proof.
  induction es as [|e es IH]; intros [|x l] Hf H; cbn [map] in H; try discriminate; [reflexivity|].
  assert (H1 : strip x = strip e) by congruence. assert (H2 : map strip l = map strip es) by congruence.
  f_equal; [apply strip_id; [exact (Forall_inv Hf)|exact H1] | apply IH; [exact (Forall_inv_tail Hf)|exact H2]].
Qed.

Theorem bytes_spec : forall c bsz is_byte alloc ti est bs,
  cfg_ok c -> (forall b, 0 < bsz b /\ bsz b <= cinl_arr c) -> (forall b, is_byte (byte_elem bsz b) = true) ->
  let a := fst (of_bytes c bsz alloc ti est bs) in
  to_bytes is_byte a = Some bs /\ wf_root c (a_root a) /\ a_count a = N.of_nat (length bs) /\
  Forall (fun i => alloc < i /\ i <= a_alloc a) (slab_ids (a_root a)) /\ NoDup (slab_ids (a_root a)).
Proof.
  intros c bsz is_byte alloc ti est bs Hc Hbsz Hisb a.
  set (es := map (byte_elem bsz) bs).
  assert (Hes : Forall (elem_ok c) es).
  { subst es. apply Forall_forall. intros e He. apply in_map_iff in He. destruct He as (b & <- & _). exact (Hbsz b). }
  assert (Hext : Forall (fun e => e_ext e = 0) es).
  { subst es. apply Forall_forall. intros e He. apply in_map_iff in He. destruct He as (b & <- & _). reflexivity. }
  assert (Hback : forall l, l = es -> (if forallb is_byte l then Some (map (fun e => Z.to_N (e_id e)) l) else None) = Some bs).
  { intros l ->. assert (H1 : forallb is_byte es = true).
    { subst es. apply forallb_forall. intros e He. apply in_map_iff in He. destruct He as (b & <- & _). apply Hisb. }
    rewrite H1. f_equal. subst es. rewrite map_map. cbn [byte_elem e_id]. rewrite <- (map_id bs) at 2.
    apply map_ext. intros b. apply N2Z.id. }
  assert (Hnoext : ext_ids es = []).
  { clear -Hext. induction Hext as [|e l He Hl IH]; [reflexivity|]. cbn [ext_ids]. rewrite He. exact IH. }
  subst a. unfold of_bytes. fold es.
  destruct bs as [|b0 bs'].
  - cbn [arr_init fst]. unfold to_bytes. cbn [a_root to_list]. split; [apply Hback; reflexivity|].
    split; [apply wfr_AD; cbn; auto; use_cfg Hc; consts; lia|]. split; [reflexivity|].
    cbn [slab_ids ext_ids h_id a_alloc]. split; [repeat constructor; lia | repeat constructor; cbn; tauto].
  - set (bs := b0 :: bs') in *.
    destruct (((if est =? 0 then 4 else est) * N.of_nat (length bs) + RP <? cT c) && (sum_sz es + RP <? cT c)) eqn:Hfast.
    + cbn [fst]. unfold to_bytes. cbn [a_root to_list]. split; [apply Hback; reflexivity|].
      apply andb_true_iff in Hfast. destruct Hfast as [_ Hf2].
      split; [apply wfr_AD; cbn [h_count h_size]; auto; use_cfg Hc; consts; lia|].
      split; [unfold a_count; cbn [a_root hdr_of h_count]; subst es; rewrite map_length; reflexivity|].
      cbn [slab_ids h_id a_alloc]. rewrite Hnoext. split; [repeat constructor; lia | repeat constructor; cbn; tauto].
    + destruct (array_from_batch_total c alloc ti es Hc Hes) as [_ Hp].
      destruct Hp as (Hwf & Habs & Hcnt & _ & _ & Hnd & Hfr & _).
      unfold abs_list in Habs. apply (map_strip_id es _ Hext) in Habs.
      unfold to_bytes. split; [apply Hback; exact Habs|]. split; [exact Hwf|].
      split; [rewrite Hcnt; subst es; rewrite map_length; reflexivity|]. split; assumption.
Qed.

(** * 11. Independence: identifier disjointness *)

Lemma fresh_disjoint : forall alloc hi (news olds : list N),
  Forall (fun i => alloc < i /\ i <= hi) news -> Forall (fun i => i <= alloc) olds ->
  forall i, In i news -> ~ In i olds.
Proof.
  intros alloc hi news olds Hn Ho i Hi Hio. rewrite Forall_forall in Hn, Ho.
  specialize (Hn i Hi). specialize (Ho i Hio). cbn beta in *. lia.
Qed.

(** * 12. The statements of props/C17.v *)

Lemma c17_array_batch_ok : forall T alloc ti es, valid_T T -> let c := set_threshold T in
  Forall (elem_ok c) es ->
  array_from_batch_res c alloc ti es = Ok (array_from_batch c alloc ti es).
Proof. intros T alloc ti es HT c Hes. exact (proj1 (array_from_batch_total c alloc ti es (set_threshold_ok T HT) Hes)). Qed.

Lemma c17_array_batch_content : forall T alloc ti es, valid_T T -> let c := set_threshold T in
  Forall (elem_ok c) es ->
  let a := fst (array_from_batch c alloc ti es) in
  abs_list (a_root a) = map strip es /\ a_type a = ti /\ a_count a = N.of_nat (length es).
Proof.
  intros T alloc ti es HT c Hes a.
  destruct (proj2 (array_from_batch_total c alloc ti es (set_threshold_ok T HT) Hes)) as (_ & H1 & H2 & H3 & _). auto.
Qed.

Lemma c17_array_batch_wf : forall T alloc ti es, valid_T T -> let c := set_threshold T in
  Forall (elem_ok c) es -> N.of_nat (length es) <= max_count ->
  awf c (fst (array_from_batch c alloc ti es)).
Proof.
  intros T alloc ti es HT c Hes Hn.
  destruct (proj2 (array_from_batch_total c alloc ti es (set_threshold_ok T HT) Hes)) as (H0 & _ & H2 & _).
  split; [exact H0|]. rewrite H2. exact Hn.
Qed.

Lemma c17_array_batch_fresh : forall T alloc ti es, valid_T T -> let c := set_threshold T in
  Forall (elem_ok c) es ->
  let a := fst (array_from_batch c alloc ti es) in
  Forall (fun i => alloc < i /\ i <= a_alloc a) (slab_ids (a_root a)) /\ NoDup (slab_ids (a_root a)) /\ alloc < a_alloc a.
Proof.
  intros T alloc ti es HT c Hes a.
  destruct (proj2 (array_from_batch_total c alloc ti es (set_threshold_ok T HT) Hes)) as (_ & _ & _ & _ & H4 & H5 & H6 & _). auto.
Qed.

Lemma c17_array_batch_full : forall T alloc ti es, valid_T T -> let c := set_threshold T in
  Forall (elem_ok c) es -> N.of_nat (length es) <= max_count ->
  awf_full c (fst (array_from_batch c alloc ti es)).
Proof.
  intros T alloc ti es HT c Hes Hn.
  destruct (proj2 (array_from_batch_total c alloc ti es (set_threshold_ok T HT) Hes)) as (H0 & _ & H2 & _ & _ & H5 & H6 & H7).
  split; [split; [exact H0|rewrite H2; exact Hn]|]. split; [exact H7|]. split; [exact H5|].
  eapply Forall_impl; [|exact H6]. cbn beta. intros i Hi. lia.
Qed.

(* the build itself is framed: it issues only Store calls, and only to identifiers it allocated *)
Lemma c17_array_batch_frame : forall T alloc ti es, valid_T T -> let c := set_threshold T in
  Forall (elem_ok c) es ->
  let '(a, lg) := array_from_batch c alloc ti es in
  Forall (fun w => exists i, w = WStore i /\ alloc < i /\ i <= a_alloc a) lg.
Proof.
  intros T alloc ti es HT c Hes.
  pose proof (array_from_batch_log c alloc ti es (set_threshold_ok T HT) Hes) as H.
  destruct (array_from_batch c alloc ti es) as [a lg]. exact H.
Qed.

Lemma c17_copy : forall T pl root inlined alloc ti, valid_T T -> let c := set_threshold T in
  copy_src_ok c root inlined ->
  (can_copy pl root = match root with AD _ nx es => (nx =? 0) && forallb (elem_plain pl) es | AM _ _ _ _ => false end) /\
  (can_copy pl root = true ->
     exists a, copy_array pl root inlined alloc ti = (inl (a, [WStore (alloc + 1)]), alloc + 1) /\
       to_list (a_root a) = to_list root /\ wf_root c (a_root a) /\ a_type a = ti /\ a_alloc a = alloc + 1 /\
       slab_ids (a_root a) = [alloc + 1] /\
       (Forall (fun i => i <= alloc) (slab_ids root) -> forall i, In i (slab_ids (a_root a)) -> ~ In i (slab_ids root))) /\
  (can_copy pl root = false -> exists e al, copy_array pl root inlined alloc ti = (inr e, al)).
Proof.
  intros T pl root inlined alloc ti HT c Hsrc.
  split; [destruct root; reflexivity|].
  destruct (copy_spec c pl root inlined alloc ti (set_threshold_ok T HT) Hsrc) as [H1 H2].
  split; [|exact H2]. intros Hcan. destruct (H1 Hcan) as (a & Ha & Htl & Hwf & Hti & Hal & Hids).
  exists a. repeat (split; [assumption|]).
  intros Hold i Hi. rewrite Hids in Hi. eapply (fresh_disjoint alloc (alloc + 1) [alloc + 1]); eauto.
  repeat constructor; lia.
Qed.

Lemma c17_bytes : forall T bsz is_byte alloc ti est bs, valid_T T -> let c := set_threshold T in
  (forall b, 0 < bsz b /\ bsz b <= cinl_arr c) -> (forall b, is_byte (byte_elem bsz b) = true) ->
  N.of_nat (length bs) <= max_count ->
  let a := fst (of_bytes c bsz alloc ti est bs) in
  to_bytes is_byte a = Some bs /\ awf c a /\
  Forall (fun i => alloc < i /\ i <= a_alloc a) (slab_ids (a_root a)) /\ NoDup (slab_ids (a_root a)).
Proof.
  intros T bsz is_byte alloc ti est bs HT c Hb Hi Hn a.
  destruct (bytes_spec c bsz is_byte alloc ti est bs (set_threshold_ok T HT) Hb Hi) as (H1 & H2 & H3 & H4 & H5).
  split; [exact H1|]. split; [split; [exact H2|fold a in H3; rewrite H3; exact Hn]|]. split; assumption.
Qed.

Lemma uint8_size_ok : forall T, valid_T T -> forall b, 0 < uint8_size b /\ uint8_size b <= cinl_arr (set_threshold T).
Proof.
  intros T HT b. pose proof (set_threshold_ok T HT) as Hc. use_cfg Hc. unfold uint8_size.
  destruct (b <? 24); lia.
Qed.

(* identifier disjointness between a freshly built / copied container and anything that lived under
   the same address before (whose identifiers are at most the allocator, [ids_ok]) *)
Lemma c17_independent_partial : forall T alloc ti es (old : arr), valid_T T -> let c := set_threshold T in
  Forall (elem_ok c) es -> ids_ok old -> a_alloc old <= alloc ->
  let a := fst (array_from_batch c alloc ti es) in
  forall i, In i (slab_ids (a_root a)) -> ~ In i (slab_ids (a_root old)).
Proof.
  intros T alloc ti es old HT c Hes [_ Hold] Hal a i Hi.
  destruct (c17_array_batch_fresh T alloc ti es HT Hes) as (Hf & _ & _).
  eapply (fresh_disjoint alloc (a_alloc a)); [exact Hf| |exact Hi].
  eapply Forall_impl; [|exact Hold]. cbn beta. intros j Hj. lia.
Qed.

(* hence the build never writes to (and never removes) a slab of a container that existed before *)
Lemma c17_batch_leaves_others : forall T alloc ti es (old : arr), valid_T T -> let c := set_threshold T in
  Forall (elem_ok c) es -> ids_ok old -> a_alloc old <= alloc ->
  Forall (fun w => match w with WStore i => ~ In i (slab_ids (a_root old)) | WRemove _ => False end)
         (snd (array_from_batch c alloc ti es)).
Proof.
  intros T alloc ti es old HT c Hes [_ Hold] Hal.
  pose proof (c17_array_batch_frame T alloc ti es HT Hes) as H. cbn zeta in H. subst c.
  destruct (array_from_batch (set_threshold T) alloc ti es) as [a lg]. cbn [snd].
  eapply Forall_impl; [|exact H]. intros w (i & -> & H1 & H2) Hin.
  rewrite Forall_forall in Hold. specialize (Hold i Hin). cbn beta in Hold. lia.
Qed.
