(* MapExt_proofs.v — C09 for the StorableSlabs of large map KEYS and VALUES (model: MapExt.v).

   [all_ids x] = every slab reachable from the root of the map: the slabs of the tree and the
   external collision groups ([MapFrame_proofs.mslab_ids]) and the StorableSlab of every key and
   value reference of every entry ([MapExt.ext_ids]).

   Main results
     [xm_step_ok]    from any state satisfying [xinv] (the invariant [Map_proofs.minv] of the slab
                     tree + all slab indexes pairwise distinct, positive, at most the allocator),
                     one operation: the invariant again, and the ACCOUNTING
                       all_ids(after) ++ removed by the library ++ handed back to the caller
                         ==_perm  all_ids(before) ++ the freshly allocated indexes   (no duplicates)
     [xm_regs_ok]    the registers of the storage when the caller disposes of what it is handed
                     back are exactly [all_ids]
     [xm_pop_ok]     PopIterate: root ++ removed ++ handed back = everything
     [xreach_*]      the same for every map reachable from an empty one.

   Method: the slab tree is handled by the accounting theorem of MapFrame_proofs ([mids_step], run
   with the allocator advanced past the new StorableSlabs); the entries by the dictionary refinement
   of Map_proofs ([mt_run_refines] on a one-operation history: the entry list after the operation is
   d_set / d_remove / [] of the entry list before), which turns the accounting of the key / value
   slabs into list surgery at ONE position (keys are unique). *)
From Coq Require Import NArith ZArith List Bool Arith Lia ZifyBool ZifyN ZifyNat Permutation.
From AtreeGen Require Import Consts.
From AtreeModel Require Import Settings MapElems MapElemsInv MapTree MapTreeInv MapExt.
From AtreeProofs Require Import Settings_proofs MapElems_proofs MapTree_proofs MapTreeOps_proofs Map_proofs MapFrame_proofs.
Import ListNotations.
Local Open Scope N_scope.
Ltac Zify.zify_post_hook ::= Z.div_mod_to_equations.

(** * 1. the table of external slab indexes *)

Lemma xget_xdel tb k k' : xget (xdel tb k) k' = if k =? k' then (0, 0) else xget tb k'.
Proof.
  induction tb as [|[k0 q] r IH]; cbn [xdel filter xget fst].
  - destruct (k =? k'); reflexivity.
  - fold (xdel r k). destruct (N.eqb_spec k0 k) as [->|Hn]; cbn [negb].
    + rewrite IH. destruct (N.eqb_spec k k'); reflexivity.
    + cbn [xget]. rewrite IH. destruct (N.eqb_spec k0 k') as [->|]; [|reflexivity].
      destruct (N.eqb_spec k k'); [congruence|reflexivity].
Qed.

Lemma xget_xput tb k p k' : xget (xput tb k p) k' = if k =? k' then p else xget tb k'.
Proof.
  unfold xput. cbn [xget]. rewrite xget_xdel. destruct (k =? k'); reflexivity.
Qed.

Lemma nz_pos i : 0 < i -> nz i = [i].
Proof. intros H. unfold nz. destruct (N.eqb_spec i 0); [lia|reflexivity]. Qed.
Lemma nz_in i x : In x (nz i) -> x = i /\ 0 < i.
Proof. unfold nz. destruct (N.eqb_spec i 0); cbn; [tauto|]. intros [<-|[]]. lia. Qed.

Lemma ext_of_app tb a b : ext_of tb (a ++ b) = ext_of tb a ++ ext_of tb b.
Proof. apply flat_map_app. Qed.

Lemma ext_of_cons tb p d : ext_of tb (p :: d) = pids (xget tb (kid (fst p))) ++ ext_of tb d.
Proof. reflexivity. Qed.

Lemma ext_of_agree tb tb' d :
  (forall p, In p d -> xget tb' (kid (fst p)) = xget tb (kid (fst p))) -> ext_of tb' d = ext_of tb d.
Proof.
  intros H. unfold ext_of. induction d as [|p d IH]; [reflexivity|]. cbn [flat_map].
  rewrite H by (now left). f_equal. apply IH. intros q Hq. apply H. now right.
Qed.

Lemma ext_of_put_other tb k q d : ~ In k (dkeys d) -> ext_of (xput tb k q) d = ext_of tb d.
Proof.
  intros Hn. apply ext_of_agree. intros p Hp. rewrite xget_xput.
  destruct (N.eqb_spec k (kid (fst p))) as [->|]; [|reflexivity].
  exfalso. apply Hn. unfold dkeys. apply in_map_iff. eauto.
Qed.

Lemma ext_of_del_other tb k d : ~ In k (dkeys d) -> ext_of (xdel tb k) d = ext_of tb d.
Proof.
  intros Hn. apply ext_of_agree. intros p Hp. rewrite xget_xdel.
  destruct (N.eqb_spec k (kid (fst p))) as [->|]; [|reflexivity].
  exfalso. apply Hn. unfold dkeys. apply in_map_iff. eauto.
Qed.

Lemma ext_of_rev tb d : Permutation (ext_of tb (rev d)) (ext_of tb d).
Proof.
  induction d as [|p d IH]; [constructor|]. cbn [rev]. rewrite ext_of_app, ext_of_cons.
  cbn [ext_of flat_map]. rewrite app_nil_r. fold (ext_of tb d).
  eapply Permutation_trans; [apply Permutation_app_comm|]. now apply Permutation_app_head.
Qed.

(** * 2. list surgery on dictionaries *)

Lemma dkeys_app' a b : dkeys (a ++ b) = dkeys a ++ dkeys b.
Proof. unfold dkeys. apply map_app. Qed.

Lemma d_get_split d k p : d_get d k = Some p ->
  exists d1 d2, d = d1 ++ p :: d2 /\ d_get d1 k = None /\ kid (fst p) = k.
Proof.
  induction d as [|q d IH]; cbn [d_get]; [discriminate|].
  destruct (N.eqb_spec (kid (fst q)) k) as [E|E].
  - intros [= <-]. exists [], d. auto.
  - intros H. destruct (IH H) as (d1 & d2 & -> & H1 & H2). exists (q :: d1), d2.
    split; [reflexivity|]. split; [|exact H2]. cbn [d_get]. destruct (N.eqb_spec (kid (fst q)) k); [congruence|exact H1].
Qed.

Lemma d_replace_split d1 p d2 k v : d_get d1 k = None -> kid (fst p) = k ->
  d_replace (d1 ++ p :: d2) k v = d1 ++ (fst p, v) :: d2.
Proof.
  intros H1 H2. induction d1 as [|q d1 IH]; cbn [app d_replace d_get] in *.
  - rewrite H2, N.eqb_refl. reflexivity.
  - destruct (kid (fst q) =? k); [discriminate|]. now rewrite IH.
Qed.

Lemma d_remove_split d1 p d2 k : d_get d1 k = None -> kid (fst p) = k ->
  d_remove (d1 ++ p :: d2) k = d1 ++ d2.
Proof.
  intros H1 H2. induction d1 as [|q d1 IH]; cbn [app d_remove d_get] in *.
  - rewrite H2, N.eqb_refl. reflexivity.
  - destruct (kid (fst q) =? k); [discriminate|]. now rewrite IH.
Qed.

Lemma d_ins_from_split dg n l d k v :
  exists d1 d2, d = d1 ++ d2 /\ d_ins_from dg n l d k v = d1 ++ (k, v) :: d2.
Proof.
  induction d as [|q d IH]; cbn [d_ins_from].
  - exists [], []. auto.
  - destruct (dlt dg n l (kid k) (kid (fst q))).
    + exists [], (q :: d). auto.
    + destruct IH as (d1 & d2 & -> & ->). exists (q :: d1), d2. auto.
Qed.

Lemma nodup_keys_mid d1 p d2 : NoDup (dkeys (d1 ++ p :: d2)) ->
  ~ In (kid (fst p)) (dkeys d1) /\ ~ In (kid (fst p)) (dkeys d2).
Proof.
  rewrite dkeys_app'. cbn [dkeys map]. fold (dkeys d2). intros H.
  apply NoDup_remove_2 in H. rewrite in_app_iff in H. tauto.
Qed.

(** * 3. Value.Storable *)

Lemma mk_storable_spec sz mx a :
  exists n st e lg, mk_storable sz mx a = (st, e, a + N.of_nat n, lg) /\ (n <= 1)%nat /\
    nz e = nseq a n /\ stored lg = nseq a n /\ removed lg = [] /\
    st = (if is_large sz mx then c_slabIDStorableSize else sz).
Proof.
  unfold mk_storable. destruct (is_large sz mx).
  - exists 1%nat, c_slabIDStorableSize, (a + 1), [WStore (a + 1)]. cbn [nseq N.of_nat].
    rewrite nz_pos by lia. repeat split; auto.
  - exists 0%nat, sz, 0, []. cbn. rewrite N.add_0_r. repeat split; auto.
Qed.

(** * 4. one operation *)
Section WithT.
Variable dg : N -> nat -> N.
Variable levels : nat.
Variable T : N.
Hypothesis HT : valid_T T.
Hypothesis Hlv : (0 < levels)%nat.
Variable limit : N.
Variable kz : N -> N.            (* the TRUE encoded size of the key with this identity *)
Local Notation c := (set_threshold T).
Local Notation M := (cinl_melem (set_threshold T)).

(* the size of the key as stored in the element: a reference when the key is large *)
Definition ks (id : N) : N := if is_large (kz id) (kmax c) then c_slabIDStorableSize else kz id.

Local Notation minv := (minv dg levels T ks).
Local Notation mop_ok := (mop_ok T ks).
Local Notation mt_step := (mt_step dg levels M limit c).
Local Notation mt_set := (mt_set dg levels M limit c).
Local Notation mt_remove := (mt_remove dg levels c).
Local Notation xm_step := (xm_step dg levels limit c).
Local Notation xm_set := (xm_set dg levels limit c).
Local Notation xm_remove := (xm_remove dg levels c).
Local Notation d_step := (d_step dg levels limit).

(* every slab reachable from the root *)
Definition all_ids (x : xmap) : list N := mslab_ids (t_root (x_tree x)) ++ ext_ids x.

Definition xinv (x : xmap) : Prop :=
  minv (x_tree x) /\ NoDup (all_ids x) /\ bnd (t_alloc (x_tree x)) (all_ids x).

(* the caller passes the true size of the key; a key identity has one size *)
Definition xop_ok (o : mop) : Prop := match o with OSet k v => ksz k = kz (kid k) | _ => True end.

Lemma limits_ok :
  c_slabIDStorableSize <= kmax c /\ kmax c + c_singleElementPrefixSize + c_slabIDStorableSize <= M /\
  kmax c + c_singleElementPrefixSize <= M.
Proof. unfold kmax, c_slabIDStorableSize. unfold_mconsts. lia. Qed.

Lemma ks_le id : ks id <= kmax c.
Proof.
  unfold ks, is_large. destruct (N.ltb_spec (kmax c) (kz id)); [apply limits_ok|lia].
Qed.

(* the stored pair of a Set satisfies the size discipline of the tree invariant *)
Lemma stored_pair_ok id ksz0 vid vsz :
  ksz0 = ks id ->
  pair_ok T ks (mkkv id ksz0, mkkv vid (if is_large vsz (vmax c ksz0) then c_slabIDStorableSize else vsz)).
Proof.
  intros ->. split; cbn [fst snd kid ksz]; [reflexivity|]. unfold ssize. cbn [ksz].
  pose proof (ks_le id) as H1. destruct limits_ok as (L1 & L2 & L3).
  unfold is_large, vmax. destruct (N.ltb_spec (M - ks id - c_singleElementPrefixSize) vsz); lia.
Qed.

(** ** the tree part: identifiers and shape from the invariant *)
Lemma minv_shape t : minv t -> shape (t_root t).
Proof. intros ((Hr & _) & _). apply (mwf_root_frame dg levels c _ Hr). Qed.

Lemma xinv_mids x : xinv x -> mids_ok (x_tree x) /\ shape (t_root (x_tree x)).
Proof.
  intros (Hi & HN & HB). split; [|now apply minv_shape]. unfold all_ids in *. split.
  - eapply nodup_app_l; eauto.
  - apply bnd_app in HB. tauto.
Qed.

Lemma mids_with_alloc t a : mids_ok t -> t_alloc t <= a -> mids_ok (with_alloc t a).
Proof.
  intros [HN HB] Hle. split; cbn [with_alloc t_root t_alloc]; [exact HN|].
  unfold bnd in *. rewrite Forall_forall in *. intros i Hi. specialize (HB i Hi). lia.
Qed.

Lemma minv_with_alloc t a : minv t -> minv (with_alloc t a).
Proof. intros ((Hr & Hc) & Hl & Hp). split; [split|split]; cbn [with_alloc t_root t_count]; assumption. Qed.

(** ** the entries: one operation of the tree is one operation of the dictionary *)
Lemma mt_step_dict t o t' out lg : minv t -> mop_ok o -> mt_step t o = (t', out, lg) ->
  d_step (to_list_tree (t_root t)) o = (to_list_tree (t_root t'), out) /\ minv t' /\ t_rootid t' = t_rootid t.
Proof.
  intros Hi Ho E.
  pose proof (mt_run_refines dg levels T HT Hlv limit ks [o] t Hi (Forall_cons _ Ho (Forall_nil _))) as R.
  cbn [MapTree.mt_run MapElems.d_run] in R. rewrite E in R.
  destruct (d_step (to_list_tree (t_root t)) o) as [d1 y]. destruct R as (R1 & R2 & _ & R4 & R5).
  injection R1 as ->. subst d1. auto.
Qed.

Lemma minv_keys t : minv t -> NoDup (dkeys (to_list_tree (t_root t))).
Proof. intros (Hw & _). apply (tree_iteration dg levels T HT Hlv t Hw). Qed.

Lemma n_get_dict t k : minv t ->
  n_get dg levels (t_root t) k =
  match d_get (to_list_tree (t_root t)) k with Some p => inr p | None => inl EKeyNotFound end.
Proof.
  intros ((Hr & Hc) & _).
  rewrite (root_get_elems_of_tree dg levels c Hlv (valid_T_min T HT) k _ Hr).
  destruct (root_gtree dg levels T HT Hlv limit ks _ Hr) as (E1 & E2 & E3). rewrite E1, E3.
  destruct (get_spec dg levels (op_fuel levels)) as [_ G].
  apply (G (gtree (t_root t)) 0%nat k); [unfold op_fuel; lia|exact E2].
Qed.

(** ** the result of one operation *)
Definition xstep_post (x x' : xmap) (back : list N) (lg : wlog) : Prop :=
  minv (x_tree x') /\ t_rootid (x_tree x') = t_rootid (x_tree x) /\
  incl back (ext_ids x) /\ sar_free lg /\
  (forall id, last_ev lg id = Some EvStore -> In id (all_ids x')) /\
  exists n, t_alloc (x_tree x') = t_alloc (x_tree x) + N.of_nat n /\
    Permutation (all_ids x' ++ removed lg ++ back) (all_ids x ++ nseq (t_alloc (x_tree x)) n) /\
    (forall id, In id (nseq (t_alloc (x_tree x)) n) -> In id (stored lg)).

Lemma xstep_post_refl x : xinv x -> xstep_post x x [] [].
Proof.
  intros (Hi & _). split; [exact Hi|]. split; [reflexivity|]. split; [intros ? []|]. split; [exact Logic.I|].
  split; [intros id; discriminate|]. exists 0%nat. rewrite N.add_0_r. split; [reflexivity|].
  split; [cbn [nseq removed flat_map app]; rewrite !app_nil_r; reflexivity|intros ? []].
Qed.

Lemma acct_combine (S S' R E E' B : list N) a n k :
  Permutation (S' ++ R) (S ++ nseq (a + N.of_nat n) k) ->
  Permutation (E' ++ B) (E ++ nseq a n) ->
  Permutation ((S' ++ E') ++ R ++ B) ((S ++ E) ++ nseq a (n + k)).
Proof. intros H1 H2. rewrite nseq_app. perm_solve. Qed.

Lemma last_ev_app l1 l2 id :
  last_ev (l1 ++ l2) id = match last_ev l2 id with Some e => Some e | None => last_ev l1 id end.
Proof.
  induction l1 as [|w r IH]; cbn [app last_ev].
  - destruct (last_ev l2 id); reflexivity.
  - rewrite IH. destruct (last_ev l2 id); reflexivity.
Qed.

Lemma with_alloc_same t : with_alloc t (t_alloc t + N.of_nat 0) = t.
Proof. destruct t as [r a n]. unfold with_alloc. cbn [t_root t_alloc t_count N.of_nat]. now rewrite N.add_0_r. Qed.

(* the slab tree runs with the allocator advanced past the [n] new StorableSlabs (log [lg1]);
   [tab'] / [back]: the table and the slabs handed back, accounted for by the caller of the lemma *)
Lemma tree_core x o t' out lg3 lg1 tab' back n :
  xinv x -> mop_ok o ->
  mt_step (with_alloc (x_tree x) (t_alloc (x_tree x) + N.of_nat n)) o = (t', out, lg3) ->
  stored lg1 = nseq (t_alloc (x_tree x)) n -> removed lg1 = [] ->
  Permutation (ext_of tab' (to_list_tree (t_root t')) ++ back) (ext_ids x ++ nseq (t_alloc (x_tree x)) n) ->
  incl back (ext_ids x) ->
  (forall id, In id (nseq (t_alloc (x_tree x)) n) -> In id (ext_of tab' (to_list_tree (t_root t')))) ->
  xstep_post x (mkx t' tab') back (lg1 ++ lg3).
Proof.
  intros Hx Ho E Hst Hrm HPE Hinc Hnew.
  destruct (xinv_mids x Hx) as [Hok Sh]. destruct Hx as (Hi & HN & HB).
  set (a := t_alloc (x_tree x)) in *. set (t1 := with_alloc (x_tree x) (a + N.of_nat n)) in *.
  assert (Hok1 : mids_ok t1) by (apply mids_with_alloc; [exact Hok|fold a; lia]).
  assert (Sh1 : shape (t_root t1)) by exact Sh.
  destruct (mt_step_dict t1 o t' out lg3 (minv_with_alloc _ _ Hi) Ho E) as (_ & Hi' & Hr').
  destruct (mids_step dg levels M limit c _ _ _ _ _ Hok1 Sh1 E) as (_ & _ & _ & _ & k2 & Ea & HPT).
  unfold t1 in Ea, HPT. cbn [with_alloc t_root t_alloc] in Ea, HPT.
  split; [exact Hi'|]. split; [exact Hr'|]. split; [exact Hinc|]. split; [|split].
  - apply sar_free_app. split; [now apply sar_no_removes|]. split.
    + eapply mlog_no_store_after_remove; eauto.
    + rewrite Hrm. intros ? [].
  - intros id. rewrite last_ev_app. unfold all_ids, ext_ids, x_entries. cbn [x_tree x_tab]. rewrite in_app_iff.
    destruct (last_ev lg3 id) as [e|] eqn:El.
    + intros [= ->]. left.
      destruct (mframe_step dg levels M limit c _ _ _ _ _ Hok1 Sh1 E id) as (_ & F2 & _).
      specialize (F2 El). destruct (in_dec N.eq_dec id (mslab_ids (t_root t'))) as [Hin|Hn]; [exact Hin|].
      apply mnode_at_none in Hn. congruence.
    + intros Hl. right. apply last_ev_store in Hl as [Hl _]. rewrite Hst in Hl. now apply Hnew.
  - exists (n + k2)%nat. cbn [x_tree]. split; [rewrite Ea; lia|]. split.
    + unfold all_ids, ext_ids, x_entries. cbn [x_tree x_tab]. rewrite removed_app, Hrm. cbn [app].
      apply acct_combine; assumption.
    + intros id Hid. rewrite nseq_app in Hid. rewrite stored_app, in_app_iff.
      apply in_app_or in Hid as [Hid|Hid]; [left; now rewrite Hst|right].
      apply in_stored. eapply (mfresh_ids_stored dg levels M limit c); [exact Sh1|exact E|].
      apply in_nseq in Hid. rewrite Ea. unfold t1. cbn [with_alloc t_alloc]. lia.
Qed.

(** ** Set *)
Lemma pids_pair a b : pids (a, b) = nz a ++ nz b.
Proof. reflexivity. Qed.

Lemma xm_set_ok x k v x' out back lg :
  xinv x -> ksz k = kz (kid k) -> xm_set x k v = (x', out, back, lg) -> xstep_post x x' back lg.
Proof.
  intros Hx Hk. pose proof Hx as (Hi & HN & HB).
  unfold MapExt.xm_set. rewrite (n_get_dict _ _ Hi).
  pose proof (minv_keys _ Hi) as Hkeys.
  set (t := x_tree x) in *. set (d := to_list_tree (t_root t)) in *.
  destruct (d_get d (kid k)) as [[k0 v0]|] eqn:D.
  - (* the key exists *)
    destruct (d_get_split _ _ _ D) as (d1 & d2 & Ed & D1 & Ek0). cbn [fst] in Ek0.
    assert (Hp0 : ksz k0 = ks (kid k)).
    { destruct Hi as (_ & _ & Hp). fold d in Hp. rewrite Ed in Hp. apply Forall_app in Hp as [_ Hp].
      apply Forall_inv in Hp. destruct Hp as [Hp _]. cbn [fst] in Hp. now rewrite Hp, Ek0. }
    destruct (mk_storable_spec (ksz v) (vmax c (ksz k0)) (t_alloc t)) as (n & st & ve & lg1 & E1 & Hn & Hnz & Hst & Hrm & Hsz).
    rewrite E1.
    destruct (MapTree.mt_set dg levels M limit c (with_alloc t (t_alloc t + N.of_nat n)) (mkkv (kid k) (ksz k0)) (mkkv (kid v) st))
      as [[t' o'] lg3] eqn:E3.
    change (mt_step (with_alloc t (t_alloc t + N.of_nat n)) (OSet (mkkv (kid k) (ksz k0)) (mkkv (kid v) st)) = (t', o', lg3)) in E3.
    assert (Ho : mop_ok (OSet (mkkv (kid k) (ksz k0)) (mkkv (kid v) st))).
    { rewrite Hsz. apply stored_pair_ok. exact Hp0. }
    destruct (mt_step_dict _ _ _ _ _ (minv_with_alloc _ _ Hi) Ho E3) as (Ds & _ & _).
    cbn [with_alloc t_root] in Ds. fold d in Ds.
    cbn [MapElems.d_step kid] in Ds. unfold refused, d_set in Ds. cbn [kid] in Ds. rewrite D in Ds.
    cbn [option_map snd] in Ds. injection Ds as Dl Do. subst o'.
    intros [= <- <- <- <-].
    rewrite Ed, (d_replace_split d1 (k0, v0) d2 (kid k) _ D1 Ek0) in Dl. cbn [fst] in Dl.
    rewrite Ed in Hkeys. destruct (nodup_keys_mid _ _ _ Hkeys) as [K1 K2]. cbn [fst] in K1, K2. rewrite Ek0 in K1, K2.
    set (old := xget (x_tab x) (kid k)).
    assert (Ee : ext_ids x = ext_of (x_tab x) d1 ++ (nz (fst old) ++ nz (snd old)) ++ ext_of (x_tab x) d2).
    { unfold ext_ids, x_entries. fold t d. rewrite Ed, ext_of_app, ext_of_cons. cbn [fst]. rewrite Ek0. reflexivity. }
    assert (Ee' : ext_of (xput (x_tab x) (kid k) (fst old, ve)) (to_list_tree (t_root t')) =
                  ext_of (x_tab x) d1 ++ (nz (fst old) ++ nz ve) ++ ext_of (x_tab x) d2).
    { rewrite <- Dl, ext_of_app, ext_of_cons. cbn [fst]. rewrite Ek0, xget_xput, N.eqb_refl, pids_pair.
      rewrite !ext_of_put_other by assumption. reflexivity. }
    apply (tree_core x _ t' _ lg3 lg1 _ _ n Hx Ho E3 Hst Hrm).
    + fold t. rewrite Ee', Ee, <- Hnz. perm_solve.
    + rewrite Ee. intros i Hi'. rewrite !in_app_iff. tauto.
    + fold t. intros i Hi'. rewrite Ee'. rewrite <- Hnz in Hi'. rewrite !in_app_iff. tauto.
  - (* a new key *)
    destruct (mk_storable_spec (ksz k) (kmax c) (t_alloc t)) as (n1 & kst & ke & lg1 & E1 & Hn1 & Hnz1 & Hst1 & Hrm1 & Hsz1).
    rewrite E1.
    destruct (mk_storable_spec (ksz v) (vmax c kst) (t_alloc t + N.of_nat n1)) as (n2 & vst & ve & lg2 & E2 & Hn2 & Hnz2 & Hst2 & Hrm2 & Hsz2).
    rewrite E2.
    replace (t_alloc t + N.of_nat n1 + N.of_nat n2) with (t_alloc t + N.of_nat (n1 + n2)) by lia.
    destruct (MapTree.mt_set dg levels M limit c (with_alloc t (t_alloc t + N.of_nat (n1 + n2))) (mkkv (kid k) kst) (mkkv (kid v) vst))
      as [[t' o'] lg3] eqn:E3.
    change (mt_step (with_alloc t (t_alloc t + N.of_nat (n1 + n2))) (OSet (mkkv (kid k) kst) (mkkv (kid v) vst)) = (t', o', lg3)) in E3.
    assert (Ho : mop_ok (OSet (mkkv (kid k) kst) (mkkv (kid v) vst))).
    { rewrite Hsz2. apply stored_pair_ok. rewrite Hsz1. unfold ks. now rewrite Hk. }
    destruct (mt_step_dict _ _ _ _ _ (minv_with_alloc _ _ Hi) Ho E3) as (Ds & _ & _).
    cbn [with_alloc t_root] in Ds. fold d in Ds.
    cbn [MapElems.d_step kid] in Ds. unfold refused, d_set in Ds. cbn [kid] in Ds. rewrite D in Ds.
    match type of Ds with (if ?b then _ else _) = _ => destruct b end.
    + (* refused by the collision limit: nothing happened *)
      injection Ds as _ Do. subst o'. intros [= <- <- <- <-]. now apply xstep_post_refl.
    + cbn [option_map] in Ds. injection Ds as Dl Do. subst o'.
      intros [= <- <- <- <-].
      unfold d_ins in Dl. destruct (d_ins_from_split dg levels 0 d (mkkv (kid k) kst) (mkkv (kid v) vst)) as (d1 & d2 & Ed & Ei).
      rewrite Ei in Dl.
      assert (K : ~ In (kid k) (dkeys d)) by (now apply d_get_none_iff).
      rewrite Ed, dkeys_app', in_app_iff in K.
      assert (Ee : ext_ids x = ext_of (x_tab x) d1 ++ ext_of (x_tab x) d2).
      { unfold ext_ids, x_entries. fold t d. now rewrite Ed, ext_of_app. }
      assert (Ee' : ext_of (xput (x_tab x) (kid k) (ke, ve)) (to_list_tree (t_root t')) =
                    ext_of (x_tab x) d1 ++ (nz ke ++ nz ve) ++ ext_of (x_tab x) d2).
      { rewrite <- Dl, ext_of_app, ext_of_cons. cbn [fst kid]. rewrite xget_xput, N.eqb_refl, pids_pair.
        rewrite !ext_of_put_other by tauto. reflexivity. }
      rewrite app_assoc.
      apply (tree_core x _ t' _ lg3 (lg1 ++ lg2) _ _ (n1 + n2) Hx Ho E3).
      * fold t. rewrite stored_app, Hst1, Hst2, nseq_app. reflexivity.
      * rewrite removed_app, Hrm1, Hrm2. reflexivity.
      * fold t. rewrite Ee', Ee, Hnz1, Hnz2, nseq_app. perm_solve.
      * intros ? [].
      * fold t. intros i Hi'. rewrite Ee', Hnz1, Hnz2. rewrite nseq_app in Hi'. rewrite !in_app_iff in *. tauto.
Qed.

(* Set on an EXISTING key: no slab is created for the key (key.Storable is not called), the
   entry keeps its key slab, the only slab that can be new among the key/value slabs is the one of
   the new value (the next index), and exactly the old value's slab is handed back *)
Lemma xm_set_existing x k v k0 v0 x' out back lg :
  xinv x -> ksz k = kz (kid k) -> d_get (x_entries x) (kid k) = Some (k0, v0) ->
  xm_set x k v = (x', out, back, lg) ->
  out = RPrev (Some v0) /\
  back = nz (snd (xget (x_tab x) (kid k))) /\
  fst (xget (x_tab x') (kid k)) = fst (xget (x_tab x) (kid k)) /\
  snd (xget (x_tab x') (kid k)) = (if is_large (ksz v) (vmax c (ksz k0)) then t_alloc (x_tree x) + 1 else 0) /\
  (forall k', k' <> kid k -> xget (x_tab x') k' = xget (x_tab x) k') /\
  dkeys (x_entries x') = dkeys (x_entries x).
Proof.
  intros Hx Hk D0. pose proof Hx as (Hi & HN & HB).
  unfold MapExt.xm_set. rewrite (n_get_dict _ _ Hi). unfold x_entries in D0.
  set (t := x_tree x) in *. set (d := to_list_tree (t_root t)) in *. rewrite D0.
  destruct (d_get_split _ _ _ D0) as (d1 & d2 & Ed & D1 & Ek0). cbn [fst] in Ek0.
  assert (Hp0 : ksz k0 = ks (kid k)).
  { destruct Hi as (_ & _ & Hp). fold d in Hp. rewrite Ed in Hp. apply Forall_app in Hp as [_ Hp].
    apply Forall_inv in Hp. destruct Hp as [Hp _]. cbn [fst] in Hp. now rewrite Hp, Ek0. }
  assert (Body : forall st ve a1 lg1,
    st = (if is_large (ksz v) (vmax c (ksz k0)) then c_slabIDStorableSize else ksz v) ->
    (let '(p1, lg0) := MapTree.mt_set dg levels M limit c (with_alloc t a1) (mkkv (kid k) (ksz k0)) (mkkv (kid v) st) in
     let '(t'0, out0) := p1 in
     match out0 with
     | RPrev prev => (mkx t'0 (xput (x_tab x) (kid k) (fst (xget (x_tab x) (kid k)), ve)), RPrev prev,
                      nz (snd (xget (x_tab x) (kid k))), lg1 ++ lg0)
     | _ => (x, out0, [], [])
     end) = (x', out, back, lg) ->
    out = RPrev (Some v0) /\ back = nz (snd (xget (x_tab x) (kid k))) /\
    fst (xget (x_tab x') (kid k)) = fst (xget (x_tab x) (kid k)) /\
    snd (xget (x_tab x') (kid k)) = ve /\
    (forall k', k' <> kid k -> xget (x_tab x') k' = xget (x_tab x) k') /\
    dkeys (to_list_tree (t_root (x_tree x'))) = dkeys d).
  { intros st ve a1 lg1 Est.
    destruct (MapTree.mt_set dg levels M limit c (with_alloc t a1) (mkkv (kid k) (ksz k0)) (mkkv (kid v) st))
      as [[t' o'] lg3] eqn:E3.
    change (mt_step (with_alloc t a1) (OSet (mkkv (kid k) (ksz k0)) (mkkv (kid v) st)) = (t', o', lg3)) in E3.
    assert (Ho : mop_ok (OSet (mkkv (kid k) (ksz k0)) (mkkv (kid v) st))).
    { rewrite Est. apply stored_pair_ok. exact Hp0. }
    destruct (mt_step_dict _ _ _ _ _ (minv_with_alloc _ _ Hi) Ho E3) as (Ds & _ & _).
    cbn [with_alloc t_root] in Ds. fold d in Ds.
    cbn [MapElems.d_step kid] in Ds. unfold refused, d_set in Ds. cbn [kid] in Ds. rewrite D0 in Ds.
    cbn [option_map snd] in Ds. injection Ds as Dl Do. subst o'.
    intros [= <- <- <- <-]. cbn [x_tab x_tree]. rewrite xget_xput, N.eqb_refl. cbn [fst snd].
    repeat split; try reflexivity.
    - intros k' Hk'. rewrite xget_xput. destruct (N.eqb_spec (kid k) k'); [congruence|reflexivity].
    - rewrite <- Dl. apply d_replace_keys. }
  unfold mk_storable, x_entries. fold t d.
  destruct (is_large (ksz v) (vmax c (ksz k0))); apply Body; reflexivity.
Qed.

(** ** Remove, PopIterate *)
Lemma xm_remove_ok x k x' out back lg :
  xinv x -> xm_remove x k = (x', out, back, lg) -> xstep_post x x' back lg.
Proof.
  intros Hx. pose proof Hx as (Hi & HN & HB). unfold MapExt.xm_remove.
  pose proof (minv_keys _ Hi) as Hkeys.
  set (t := x_tree x) in *. set (d := to_list_tree (t_root t)) in *.
  destruct (MapTree.mt_remove dg levels c t k) as [[t' o'] lg3] eqn:E3.
  change (mt_step t (ORemove k) = (t', o', lg3)) in E3.
  rewrite <- (with_alloc_same t) in E3.
  destruct (mt_step_dict _ _ _ _ _ (minv_with_alloc _ _ Hi) (Logic.I : mop_ok (ORemove k)) E3) as (Ds & _ & _).
  cbn [with_alloc t_root] in Ds. fold d in Ds. cbn [MapElems.d_step] in Ds.
  destruct (d_get d k) as [[k0 v0]|] eqn:D.
  - injection Ds as Dl Do. subst o'. cbn [fst snd]. intros [= <- <- <- <-].
    destruct (d_get_split _ _ _ D) as (d1 & d2 & Ed & D1 & Ek0). cbn [fst] in Ek0.
    rewrite Ed, (d_remove_split d1 (k0, v0) d2 k D1 Ek0) in Dl.
    rewrite Ed in Hkeys. destruct (nodup_keys_mid _ _ _ Hkeys) as [K1 K2]. cbn [fst] in K1, K2. rewrite Ek0 in K1, K2.
    assert (Ee : ext_ids x = ext_of (x_tab x) d1 ++ pids (xget (x_tab x) k) ++ ext_of (x_tab x) d2).
    { unfold ext_ids, x_entries. fold t d. rewrite Ed, ext_of_app, ext_of_cons. cbn [fst]. rewrite Ek0. reflexivity. }
    assert (Ee' : ext_of (xdel (x_tab x) k) (to_list_tree (t_root t')) = ext_of (x_tab x) d1 ++ ext_of (x_tab x) d2).
    { rewrite <- Dl, ext_of_app. rewrite !ext_of_del_other by assumption. reflexivity. }
    change lg3 with ([] ++ lg3).
    apply (tree_core x _ t' _ lg3 [] _ _ 0 Hx (Logic.I : mop_ok (ORemove k)) E3); try reflexivity.
    + cbn [nseq]. rewrite Ee', Ee. perm_solve.
    + rewrite Ee. intros i Hi'. rewrite !in_app_iff. tauto.
    + intros ? [].
  - injection Ds as _ Do. subst o'. intros [= <- <- <- <-]. now apply xstep_post_refl.
Qed.

Lemma xm_pop_ok x x' out back lg :
  xinv x -> xm_pop x = (x', out, back, lg) -> xstep_post x x' back lg.
Proof.
  intros Hx. pose proof Hx as (Hi & HN & HB). unfold MapExt.xm_pop.
  set (t := x_tree x) in *. set (d := to_list_tree (t_root t)) in *.
  destruct (mt_pop t) as [[t' o'] lg3] eqn:E3.
  change (mt_step t OPop = (t', o', lg3)) in E3.
  rewrite <- (with_alloc_same t) in E3.
  destruct (mt_step_dict _ _ _ _ _ (minv_with_alloc _ _ Hi) (Logic.I : mop_ok OPop) E3) as (Ds & _ & _).
  cbn [with_alloc t_root] in Ds. fold d in Ds. cbn [MapElems.d_step] in Ds.
  injection Ds as Dl Do. subst o'. intros [= <- <- <- <-].
  change lg3 with ([] ++ lg3).
  apply (tree_core x _ t' _ lg3 [] _ _ 0 Hx (Logic.I : mop_ok OPop) E3); try reflexivity.
  - rewrite <- Dl. cbn [ext_of flat_map nseq app]. rewrite app_nil_r. unfold ext_ids, x_entries. fold t d.
    apply ext_of_rev.
  - intros i Hi'. eapply Permutation_in; [apply ext_of_rev|exact Hi'].
  - intros ? [].
Qed.

(** ** every operation *)
Theorem xm_step_post x o x' out back lg :
  xinv x -> xop_ok o -> xm_step x o = (x', out, back, lg) -> xstep_post x x' back lg.
Proof.
  intros Hx Ho. destruct o as [k v|k|k|k| | | |]; cbn [MapExt.xm_step].
  - now apply xm_set_ok.
  - destruct (mt_step (x_tree x) (OGet k)) as [[? ?] ?]. intros [= <- <- <- <-]. now apply xstep_post_refl.
  - destruct (mt_step (x_tree x) (OHas k)) as [[? ?] ?]. intros [= <- <- <- <-]. now apply xstep_post_refl.
  - now apply xm_remove_ok.
  - destruct (mt_step (x_tree x) OCount) as [[? ?] ?]. intros [= <- <- <- <-]. now apply xstep_post_refl.
  - destruct (mt_step (x_tree x) OIterate) as [[? ?] ?]. intros [= <- <- <- <-]. now apply xstep_post_refl.
  - destruct (mt_step (x_tree x) OIterNext) as [[? ?] ?]. intros [= <- <- <- <-]. now apply xstep_post_refl.
  - now apply xm_pop_ok.
Qed.

Lemma xstep_post_inv x x' back lg : xinv x -> xstep_post x x' back lg ->
  xinv x' /\ t_alloc (x_tree x) <= t_alloc (x_tree x') /\ NoDup (all_ids x' ++ removed lg ++ back).
Proof.
  intros (Hi & HN & HB) (Hi' & _ & _ & _ & _ & n & Ea & HP & _).
  destruct (acct_nodup _ _ _ _ _ HP HN HB) as [N1 B1]. rewrite <- Ea in B1.
  split; [split; [exact Hi'|split]|split; [lia|exact N1]].
  - eapply nodup_app_l; eauto.
  - apply bnd_app in B1. tauto.
Qed.

(* THE STEP THEOREM *)
Theorem xm_step_ok x o x' out back lg :
  xinv x -> xop_ok o -> xm_step x o = (x', out, back, lg) ->
  xinv x' /\ t_alloc (x_tree x) <= t_alloc (x_tree x') /\ t_rootid (x_tree x') = t_rootid (x_tree x) /\
  NoDup (all_ids x' ++ removed lg ++ back) /\
  (exists n, t_alloc (x_tree x') = t_alloc (x_tree x) + N.of_nat n /\
     Permutation (all_ids x' ++ removed lg ++ back) (all_ids x ++ nseq (t_alloc (x_tree x)) n) /\
     (forall id, In id (nseq (t_alloc (x_tree x)) n) -> In (WStore id) lg)) /\
  incl back (ext_ids x) /\
  (forall id, In id back -> ~ In id (all_ids x') /\ ~ In (WRemove id) lg).
Proof.
  intros Hx Ho E. pose proof (xm_step_post _ _ _ _ _ _ Hx Ho E) as Hp.
  destruct (xstep_post_inv _ _ _ _ Hx Hp) as (Hx' & Hle & N1).
  destruct Hp as (_ & Hr & Hinc & _ & _ & n & Ea & HP & Hf).
  split; [exact Hx'|]. split; [exact Hle|]. split; [exact Hr|]. split; [exact N1|]. split; [|split; [exact Hinc|]].
  - exists n. split; [exact Ea|]. split; [exact HP|]. intros id Hid. apply in_stored. auto.
  - intros id Hid. rewrite <- in_removed. rewrite nodup_cnt in N1. specialize (N1 id). cnt_norm.
    rewrite in_cnt in Hid. rewrite !notin_cnt. lia.
Qed.

(** ** PopIterate releases everything *)
Theorem xm_pop_releases x x' out back lg :
  xinv x -> xm_step x OPop = (x', out, back, lg) ->
  all_ids x' = [t_rootid (x_tree x)] /\ ext_ids x' = [] /\ x_entries x' = [] /\
  stored lg = [t_rootid (x_tree x)] /\
  Permutation back (ext_ids x) /\
  Permutation (t_rootid (x_tree x) :: removed lg ++ back) (all_ids x) /\
  NoDup (t_rootid (x_tree x) :: removed lg ++ back) /\
  (forall id, In id (all_ids x) -> id <> t_rootid (x_tree x) -> In (WRemove id) lg \/ In id back).
Proof.
  intros Hx. pose proof Hx as (Hi & HN & HB). cbn [MapExt.xm_step]. unfold MapExt.xm_pop.
  set (t := x_tree x) in *. set (d := to_list_tree (t_root t)) in *.
  destruct (mt_pop t) as [[t' o'] lg3] eqn:E3.
  pose proof E3 as E4. change (mt_step t OPop = (t', o', lg3)) in E4.
  destruct (mt_step_dict _ _ _ _ _ Hi (Logic.I : mop_ok OPop) E4) as (Ds & _ & _).
  fold d in Ds. cbn [MapElems.d_step] in Ds. injection Ds as Dl Do. subst o'.
  intros [= <- <- <- <-].
  destruct (mpop_releases_all dg levels _ _ _ _ E3) as (P1 & P2 & P3 & _ & _).
  assert (Ex : ext_ids (mkx t' []) = []).
  { unfold ext_ids, x_entries. cbn [x_tree x_tab]. rewrite <- Dl. reflexivity. }
  assert (Eb : Permutation (ext_of (x_tab x) (rev d)) (ext_ids x)) by apply ext_of_rev.
  assert (EP : Permutation (t_rootid t :: removed lg3 ++ ext_of (x_tab x) (rev d)) (all_ids x)).
  { unfold all_ids. fold t. perm_solve. }
  split; [unfold all_ids; cbn [x_tree]; now rewrite P1, Ex|]. split; [exact Ex|].
  split; [unfold x_entries; cbn [x_tree]; now rewrite <- Dl|]. split; [exact P2|]. split; [exact Eb|].
  split; [exact EP|]. split.
  - eapply Permutation_NoDup; [symmetry; exact EP|exact HN].
  - intros id Hid Hne. eapply Permutation_in in Hid; [|symmetry; exact EP].
    destruct Hid as [Hid|Hid]; [congruence|]. apply in_app_or in Hid as [Hid|Hid]; [left; now apply in_removed|now right].
Qed.

(** ** histories *)
Local Notation xm_run := (xm_run dg levels limit c).
Local Notation xm_regs := (xm_regs dg levels limit c).

Lemma xinv_init rootid : 0 < rootid -> xinv (fst (xm_init rootid)) /\ all_ids (fst (xm_init rootid)) = [rootid] /\
  t_rootid (x_tree (fst (xm_init rootid))) = rootid.
Proof.
  intros H. assert (E : all_ids (fst (xm_init rootid)) = [rootid]) by reflexivity.
  split; [|split; [exact E|reflexivity]]. split; [|split]; rewrite ?E.
  - apply (minv_empty dg levels T HT Hlv ks rootid rootid).
  - constructor; [intros []|constructor].
  - constructor; [cbn; lia|constructor].
Qed.

Theorem xinv_run : forall ops x, xinv x -> Forall xop_ok ops ->
  xinv (fst (xm_run x ops)) /\ t_rootid (x_tree (fst (xm_run x ops))) = t_rootid (x_tree x).
Proof.
  induction ops as [|o r IH]; intros x Hx Hops; cbn [MapExt.xm_run]; [cbn; auto|].
  destruct (xm_step x o) as [[[x1 out] back] lg] eqn:E.
  destruct (xm_step_ok _ _ _ _ _ _ Hx (Forall_inv Hops) E) as (Hx1 & _ & Hr & _).
  destruct (IH x1 Hx1 (Forall_inv_tail Hops)) as [H1 H2].
  destruct (xm_run x1 r) as [x2 outs]. cbn [fst] in *. split; [exact H1|congruence].
Qed.

(** ** the registers of the storage when the caller disposes of what it is handed back *)
Lemma in_apply_ev regs w id :
  In id (apply_ev regs w) <->
  match w with WStore i => i = id \/ In id regs | WRemove i => i <> id /\ In id regs end.
Proof.
  destruct w as [i|i]; cbn [apply_ev].
  - destruct (existsb (N.eqb i) regs) eqn:Ex.
    + apply existsb_exists in Ex as (j & Hj & Ej). apply N.eqb_eq in Ej. subst j. split; [auto|]. intros [<-|H]; auto.
    + rewrite in_app_iff. cbn [In]. tauto.
  - rewrite filter_In. destruct (N.eqb_spec id i) as [->|Hn]; cbn [negb]; split; intros [H1 H2]; try congruence; auto.
Qed.

Lemma nodup_apply_ev regs w : NoDup regs -> NoDup (apply_ev regs w).
Proof.
  intros H. destruct w as [i|i]; cbn [apply_ev].
  - destruct (existsb (N.eqb i) regs) eqn:Ex; [exact H|].
    assert (Hni : ~ In i regs).
    { intros Ha. assert (existsb (N.eqb i) regs = true) by (apply existsb_exists; exists i; split; [exact Ha|apply N.eqb_refl]). congruence. }
    apply nodup_cnt. intros y. rewrite nodup_cnt in H. specialize (H y). cnt_norm. rewrite notin_cnt in Hni.
    destruct (N.eq_dec i y) as [->|Hne]; [rewrite Hni, one_eq; lia|rewrite one_neq by exact Hne; lia].
  - now apply NoDup_filter.
Qed.

Lemma in_apply_log lg : forall regs id,
  In id (apply_log regs lg) <->
  match last_ev lg id with Some EvStore => True | Some EvRemove => False | None => In id regs end.
Proof.
  induction lg as [|w r IH]; intros regs id; cbn [apply_log fold_left last_ev]; [tauto|].
  fold (apply_log (apply_ev regs w) r). rewrite IH.
  destruct (last_ev r id) as [[|]|]; [tauto|tauto|]. rewrite in_apply_ev.
  destruct w as [i|i]; destruct (N.eqb_spec i id); tauto.
Qed.

Lemma nodup_apply_log lg : forall regs, NoDup regs -> NoDup (apply_log regs lg).
Proof.
  induction lg as [|w r IH]; intros regs H; cbn [apply_log fold_left]; [exact H|].
  apply IH. now apply nodup_apply_ev.
Qed.

Lemma in_dispose regs back id : In id (dispose regs back) <-> In id regs /\ ~ In id back.
Proof.
  unfold dispose. rewrite filter_In. destruct (existsb (N.eqb id) back) eqn:Ex; cbn [negb].
  - apply existsb_exists in Ex as (j & Hj & Ej). apply N.eqb_eq in Ej. subst j. split; [intros [_ H]; discriminate|tauto].
  - split; [|tauto]. intros [H _]. split; [exact H|]. intros Hb.
    assert (existsb (N.eqb id) back = true) by (apply existsb_exists; exists id; split; [exact Hb|apply N.eqb_refl]). congruence.
Qed.

Definition same_set (a b : list N) : Prop := forall id, In id a <-> In id b.

Lemma regs_step x x' back lg regs :
  xinv x -> xstep_post x x' back lg -> NoDup regs -> same_set regs (all_ids x) ->
  NoDup (dispose (apply_log regs lg) back) /\ same_set (dispose (apply_log regs lg) back) (all_ids x').
Proof.
  intros Hx Hp HNr Hs. destruct (xstep_post_inv _ _ _ _ Hx Hp) as (_ & _ & N1).
  destruct Hp as (_ & _ & _ & Hsar & L2 & n & _ & HP & Hf).
  split; [unfold dispose; apply NoDup_filter; now apply nodup_apply_log|].
  intros id. rewrite in_dispose, in_apply_log. split.
  - intros [H1 H2]. destruct (last_ev lg id) as [[|]|] eqn:El; [now apply L2|tauto|].
    apply Hs in H1. apply last_ev_none in El as [_ El].
    assert (Hin : In id (all_ids x ++ nseq (t_alloc (x_tree x)) n)) by (apply in_or_app; now left).
    eapply Permutation_in in Hin; [|symmetry; exact HP]. rewrite !in_app_iff in Hin. tauto.
  - intros Hin.
    assert (Hnr : ~ In id (removed lg) /\ ~ In id back).
    { rewrite nodup_cnt in N1. specialize (N1 id). cnt_norm. rewrite in_cnt in Hin. rewrite !notin_cnt. lia. }
    split; [|tauto]. destruct (last_ev lg id) as [[|]|] eqn:El; [exact Logic.I| |].
    + apply last_ev_remove in El. tauto.
    + apply last_ev_none in El as [El _].
      assert (Hin' : In id (all_ids x' ++ removed lg ++ back)) by (apply in_or_app; now left).
      eapply Permutation_in in Hin'; [|exact HP]. apply in_app_or in Hin' as [Hin'|Hin']; [now apply Hs|].
      exfalso. apply El. now apply Hf.
Qed.

Theorem xm_regs_ok : forall ops x regs, xinv x -> Forall xop_ok ops -> NoDup regs -> same_set regs (all_ids x) ->
  xinv (fst (xm_regs x regs ops)) /\ NoDup (snd (xm_regs x regs ops)) /\
  Permutation (snd (xm_regs x regs ops)) (all_ids (fst (xm_regs x regs ops))).
Proof.
  induction ops as [|o r IH]; intros x regs Hx Hops HN Hs; cbn [MapExt.xm_regs].
  - cbn [fst snd]. split; [exact Hx|]. split; [exact HN|]. apply NoDup_Permutation; [exact HN|apply Hx|exact Hs].
  - destruct (xm_step x o) as [[[x1 out] back] lg] eqn:E.
    pose proof (xm_step_post _ _ _ _ _ _ Hx (Forall_inv Hops) E) as Hp.
    destruct (xstep_post_inv _ _ _ _ Hx Hp) as (Hx1 & _ & _).
    destruct (regs_step _ _ _ _ _ Hx Hp HN Hs) as [HN1 Hs1].
    apply (IH x1 _ Hx1 (Forall_inv_tail Hops) HN1 Hs1).
Qed.

(* from the empty map: the storage holds the root register *)
Theorem xreach_regs rootid ops : 0 < rootid -> Forall xop_ok ops ->
  let r := xm_regs (fst (xm_init rootid)) (apply_log [] (snd (xm_init rootid))) ops in
  xinv (fst r) /\ NoDup (snd r) /\ Permutation (snd r) (all_ids (fst r)).
Proof.
  intros H Hops. destruct (xinv_init rootid H) as (Hx & E & _). apply xm_regs_ok; auto.
  - cbn. constructor; [intros []|constructor].
  - rewrite E. cbn. unfold same_set. tauto.
Qed.

Theorem xreach_step rootid ops o : 0 < rootid -> Forall xop_ok ops -> xop_ok o ->
  let x := fst (xm_run (fst (xm_init rootid)) ops) in
  forall x' out back lg, xm_step x o = (x', out, back, lg) ->
    xinv x /\ xinv x' /\ t_rootid (x_tree x) = rootid /\ t_rootid (x_tree x') = rootid /\
    t_alloc (x_tree x) <= t_alloc (x_tree x') /\
    NoDup (all_ids x' ++ removed lg ++ back) /\
    (exists n, t_alloc (x_tree x') = t_alloc (x_tree x) + N.of_nat n /\
       Permutation (all_ids x' ++ removed lg ++ back) (all_ids x ++ nseq (t_alloc (x_tree x)) n) /\
       (forall id, In id (nseq (t_alloc (x_tree x)) n) -> In (WStore id) lg)) /\
    incl back (ext_ids x) /\
    (forall id, In id back -> ~ In id (all_ids x') /\ ~ In (WRemove id) lg) /\
    (forall id, In id (all_ids x) -> ~ In id (all_ids x') -> In (WRemove id) lg \/ In id back).
Proof.
  intros H Hops Ho x x' out back lg E. destruct (xinv_init rootid H) as (Hx0 & _ & Hr0).
  destruct (xinv_run ops _ Hx0 Hops) as [Hx Hr]. fold x in Hx, Hr. rewrite Hr0 in Hr.
  destruct (xm_step_ok _ _ _ _ _ _ Hx Ho E) as (Hx' & Hle & Hr' & N1 & (n & Ea & HP & Hf) & Hinc & Hb).
  split; [exact Hx|]. split; [exact Hx'|]. split; [exact Hr|]. split; [congruence|]. split; [exact Hle|].
  split; [exact N1|]. split; [eauto|]. split; [exact Hinc|]. split; [exact Hb|].
  intros id Hi Hn.
  assert (Hin : In id (all_ids x ++ nseq (t_alloc (x_tree x)) n)) by (apply in_or_app; now left).
  eapply Permutation_in in Hin; [|symmetry; exact HP]. rewrite !in_app_iff, in_removed in Hin. tauto.
Qed.

Theorem xreach_pop rootid ops : 0 < rootid -> Forall xop_ok ops ->
  let x := fst (xm_run (fst (xm_init rootid)) ops) in
  forall x' out back lg, xm_step x OPop = (x', out, back, lg) ->
    all_ids x' = [rootid] /\ x_entries x' = [] /\ stored lg = [rootid] /\
    Permutation back (ext_ids x) /\
    Permutation (rootid :: removed lg ++ back) (all_ids x) /\
    NoDup (rootid :: removed lg ++ back) /\
    (forall id, In id (all_ids x) -> id <> rootid -> In (WRemove id) lg \/ In id back).
Proof.
  intros H Hops x x' out back lg E. destruct (xinv_init rootid H) as (Hx0 & _ & Hr0).
  destruct (xinv_run ops _ Hx0 Hops) as [Hx Hr]. fold x in Hx, Hr. rewrite Hr0 in Hr.
  destruct (xm_pop_releases _ _ _ _ _ Hx E) as (P1 & _ & P3 & P4 & P5 & P6 & P7 & P8).
  rewrite Hr in *. auto 10.
Qed.
End WithT.
