(* MapElems_proofs.v — proofs about the element level of OrderedMap (MapElems.v, MapElemsInv.v). *)
From Coq Require Import ZArith NArith List Bool Arith Lia ZifyBool ZifyN ZifyNat Sorted.
From AtreeGen Require Import Consts.
From AtreeModel Require Import MapElems MapElemsInv.
Import ListNotations.
Local Open Scope N_scope.
Ltac Zify.zify_post_hook ::= Z.div_mod_to_equations.

(* ====================================================================== *)
(* 0. lists                                                               *)
(* ====================================================================== *)

Lemma insert_at_app {A} (l1 l2 : list A) x : insert_at (length l1) x (l1 ++ l2) = l1 ++ x :: l2.
Proof. unfold insert_at. induction l1 as [|y l1 IH]; cbn; [reflexivity|]. now rewrite IH. Qed.

Lemma replace_at_app {A} (l1 l2 : list A) x y : replace_at (length l1) y (l1 ++ x :: l2) = l1 ++ y :: l2.
Proof. unfold replace_at. induction l1 as [|z l1 IH]; cbn; [reflexivity|]. cbn in IH. now rewrite IH. Qed.

Lemma delete_at_app {A} (l1 l2 : list A) x : delete_at (length l1) (l1 ++ x :: l2) = l1 ++ l2.
Proof. unfold delete_at. induction l1 as [|z l1 IH]; cbn; [reflexivity|]. cbn in IH. now rewrite IH. Qed.

Lemma nth_error_app_mid {A} (l1 l2 : list A) x : nth_error (l1 ++ x :: l2) (length l1) = Some x.
Proof. rewrite nth_error_app2 by lia. now rewrite Nat.sub_diag. Qed.

Lemma nth_error_app_mid_S {A} (l1 l2 : list A) x : nth_error (l1 ++ x :: l2) (S (length l1)) = nth_error l2 0.
Proof. rewrite nth_error_app2 by lia. replace (S (length l1) - length l1)%nat with 1%nat by lia. reflexivity. Qed.

Lemma nth_app_mid (l1 l2 : list N) x : nth (length l1) (l1 ++ x :: l2) 0 = x.
Proof. rewrite app_nth2 by lia. now rewrite Nat.sub_diag. Qed.

Lemma last_app_cons {A} (l : list A) x d : last (l ++ [x]) d = x.
Proof. induction l as [|y l IH]; [reflexivity|]. cbn [app last]. destruct (l ++ [x]) eqn:E; [destruct l; discriminate|]. exact IH. Qed.

Lemma last_cons_In {A} (l : list A) x d : In (last (x :: l) d) (x :: l).
Proof.
  revert x; induction l as [|y l IH]; intros x; [left; reflexivity|].
  right. change (last (x :: y :: l) d) with (last (y :: l) d). apply IH.
Qed.

Lemma Forall2_len {A B} (R : A -> B -> Prop) l m : Forall2 R l m -> length l = length m.
Proof. induction 1; cbn; congruence. Qed.

Lemma Forall2_app_inv_both {A B} (R : A -> B -> Prop) l1 l2 m1 m2 :
  length l1 = length m1 -> Forall2 R (l1 ++ l2) (m1 ++ m2) -> Forall2 R l1 m1 /\ Forall2 R l2 m2.
Proof.
  revert m1; induction l1 as [|x l1 IH]; intros [|y m1] Hl H; try discriminate; cbn in *.
  - split; [constructor|assumption].
  - inversion H; subst. destruct (IH m1) as [H1 H2]; [lia|assumption|]. split; [constructor|]; assumption.
Qed.

(* ====================================================================== *)
(* 1. sorted digests and the binary search                                *)
(* ====================================================================== *)

Lemma ssorted_app_inv (l1 l2 : list N) x :
  ssorted (l1 ++ x :: l2) ->
  ssorted l1 /\ ssorted l2 /\ Forall (fun y => y < x) l1 /\ Forall (fun y => x < y) l2.
Proof.
  unfold ssorted. induction l1 as [|y l1 IH]; cbn; intros H.
  - inversion H; subst. repeat split; try assumption; constructor.
  - inversion H as [|? ? Hs Hf]; subst. destruct (IH Hs) as (S1 & S2 & F1 & F2).
    repeat split; try assumption.
    + constructor; [assumption|]. rewrite Forall_app in Hf. tauto.
    + constructor; [|assumption]. rewrite Forall_app in Hf. destruct Hf as [_ Hf]. now inversion Hf.
Qed.

Lemma ssorted_app_inv2 (l1 l2 : list N) :
  ssorted (l1 ++ l2) -> ssorted l1 /\ ssorted l2.
Proof.
  unfold ssorted. induction l1 as [|y l1 IH]; cbn; intros H; [split; [constructor|assumption]|].
  inversion H as [|? ? Hs Hf]; subst. destruct (IH Hs). split; [|assumption].
  constructor; [assumption|]. rewrite Forall_app in Hf. tauto.
Qed.

Lemma ssorted_insert (l1 l2 : list N) x :
  ssorted (l1 ++ l2) -> Forall (fun y => y < x) l1 -> Forall (fun y => x < y) l2 -> ssorted (l1 ++ x :: l2).
Proof.
  unfold ssorted. induction l1 as [|y l1 IH]; cbn; intros H F1 F2.
  - constructor; assumption.
  - inversion H as [|? ? Hs Hf]; subst. inversion F1; subst. constructor; [apply IH; assumption|].
    rewrite Forall_app in *. destruct Hf as [Hf1 Hf2]. split; [assumption|]. constructor; [assumption|assumption].
Qed.

Lemma ssorted_delete (l1 l2 : list N) x : ssorted (l1 ++ x :: l2) -> ssorted (l1 ++ l2).
Proof.
  unfold ssorted. induction l1 as [|y l1 IH]; cbn; intros H.
  - now inversion H.
  - inversion H as [|? ? Hs Hf]; subst. constructor; [apply IH; assumption|].
    rewrite Forall_app in *. destruct Hf as [Hf1 Hf2]. split; [assumption|]. now inversion Hf2.
Qed.

Lemma ssorted_nth (l : list N) : ssorted l -> forall a b, (a < b < length l)%nat -> nth a l 0 < nth b l 0.
Proof.
  unfold ssorted. induction 1 as [|x l Hs IH Hf]; intros a b Hab; cbn in Hab; [lia|].
  destruct b as [|b]; [lia|]. destruct a as [|a]; cbn [nth].
  - rewrite Forall_forall in Hf. apply Hf, nth_In. lia.
  - apply IH. lia.
Qed.

(* outcome of the loop, from its invariant *)
Lemma bsearch_spec (hks : list N) (h : N) : ssorted hks ->
  forall fuel i j lt,
    (i <= j <= length hks)%nat -> (j - i < fuel)%nat ->
    (forall m, (m < i)%nat -> nth m hks 0 < h) ->
    (forall m, (j <= m < length hks)%nat -> h < nth m hks 0) ->
    ((j < length hks)%nat -> lt = j) ->
    match bsearch fuel hks h i j lt with
    | (Some m, _) => (m < length hks)%nat /\ nth m hks 0 = h
    | (None, lt') => exists p, (p <= length hks)%nat /\ (forall m, (m < p)%nat -> nth m hks 0 < h) /\
                               (forall m, (p <= m < length hks)%nat -> h < nth m hks 0) /\
                               ((p < length hks)%nat -> lt' = p)
    end.
Proof.
  intros Hs. pose proof (ssorted_nth hks Hs) as Hn.
  induction fuel as [|f IH]; intros i j lt Hij Hf Hlo Hhi Hlt; [lia|].
  cbn [bsearch]. destruct (i <? j)%nat eqn:Eij.
  - apply Nat.ltb_lt in Eij. set (m := ((i + j) / 2)%nat).
    assert (Hm : (i <= m < j)%nat) by (subst m; lia).
    destruct (h <? nth m hks 0) eqn:E1.
    + apply N.ltb_lt in E1. apply IH; try lia; try assumption.
      * intros m' Hm'. destruct (Nat.eq_dec m' m) as [->|]; [assumption|].
        destruct (Nat.lt_ge_cases m' j); [|apply Hhi; lia].
        specialize (Hn m m'). lia.
    + apply N.ltb_ge in E1. destruct (nth m hks 0 <? h) eqn:E2.
      * apply N.ltb_lt in E2. apply IH; try lia; try assumption.
        intros m' Hm'. destruct (Nat.eq_dec m' m) as [->|]; [assumption|].
        destruct (Nat.lt_ge_cases m' i); [apply Hlo; lia|]. specialize (Hn m' m). lia.
      * apply N.ltb_ge in E2. split; lia.
  - apply Nat.ltb_ge in Eij. assert (i = j) by lia. subst j. exists i.
    split; [lia|]. split; [assumption|]. split; [assumption|]. assumption.
Qed.

Lemma hk_search_found (H1 H3 : list N) (h : N) :
  ssorted (H1 ++ h :: H3) -> fst (hk_search (H1 ++ h :: H3) h) = Some (length H1).
Proof.
  intros Hs. unfold hk_search.
  pose proof (bsearch_spec _ h Hs (S (length (H1 ++ h :: H3))) 0 (length (H1 ++ h :: H3)) 0) as B.
  destruct (ssorted_app_inv _ _ _ Hs) as (_ & _ & F1 & F3).
  destruct (bsearch _ _ _ _ _ _) as [[m|] lt']; cbn [fst].
  - destruct B as [Hm Hnth]; try lia.
    destruct (Nat.lt_trichotomy m (length H1)) as [Hlt|[->|Hgt]]; [exfalso| reflexivity |exfalso].
    + rewrite app_nth1 in Hnth by assumption. rewrite Forall_forall in F1.
      specialize (F1 _ (nth_In H1 0 Hlt)). lia.
    + rewrite app_length in Hm; cbn in Hm. rewrite app_nth2 in Hnth by lia.
      destruct (m - length H1)%nat as [|q] eqn:Eq; [lia|]. cbn [nth] in Hnth.
      rewrite Forall_forall in F3. assert (Hq : (q < length H3)%nat) by lia.
      specialize (F3 _ (nth_In H3 0 Hq)). lia.
  - destruct B as (p & Hp & Hlo & Hhi & _); try lia. exfalso.
    destruct (Nat.lt_ge_cases (length H1) p) as [Hlt|Hge].
    + specialize (Hlo _ Hlt). rewrite nth_app_mid in Hlo. lia.
    + specialize (Hhi (length H1)). rewrite nth_app_mid in Hhi. rewrite app_length in Hhi; cbn in Hhi. lia.
Qed.

Lemma hk_search_notfound (H1 H3 : list N) (h : N) :
  ssorted (H1 ++ H3) -> Forall (fun y => y < h) H1 -> Forall (fun y => h < y) H3 ->
  fst (hk_search (H1 ++ H3) h) = None /\ (H3 <> [] -> snd (hk_search (H1 ++ H3) h) = length H1).
Proof.
  intros Hs F1 F3. unfold hk_search.
  pose proof (bsearch_spec _ h Hs (S (length (H1 ++ H3))) 0 (length (H1 ++ H3)) 0) as B.
  destruct (bsearch _ _ _ _ _ _) as [[m|] lt']; cbn [fst snd].
  - destruct B as [Hm Hnth]; try lia. exfalso. rewrite Forall_forall in F1, F3.
    destruct (Nat.lt_ge_cases m (length H1)) as [Hlt|Hge].
    + rewrite app_nth1 in Hnth by assumption. specialize (F1 _ (nth_In H1 0 Hlt)). lia.
    + rewrite app_length in Hm. rewrite app_nth2 in Hnth by lia.
      assert (Hq : (m - length H1 < length H3)%nat) by lia. specialize (F3 _ (nth_In H3 0 Hq)). lia.
  - split; [reflexivity|]. intros Hne. destruct B as (p & Hp & Hlo & Hhi & Hlt); try lia.
    rewrite Forall_forall in F1, F3. rewrite app_length in *.
    assert (Hl3 : (0 < length H3)%nat) by (destruct H3; [congruence|cbn; lia]).
    assert (p = length H1); [|subst; apply Hlt; lia].
    destruct (Nat.lt_trichotomy p (length H1)) as [Hlt'|[->|Hgt]]; [exfalso|reflexivity|exfalso].
    + specialize (Hhi p). rewrite app_nth1 in Hhi by assumption. specialize (F1 _ (nth_In H1 0 Hlt')). lia.
    + specialize (Hlo (length H1) Hgt). rewrite app_nth2 in Hlo by lia. rewrite Nat.sub_diag in Hlo.
      specialize (F3 _ (nth_In H3 0 Hl3)). lia.
Qed.

Lemma hks_split (h : N) (hks : list N) : ssorted hks ->
  (exists H1 H3, hks = H1 ++ h :: H3) \/
  (exists H1 H3, hks = H1 ++ H3 /\ Forall (fun y => y < h) H1 /\ Forall (fun y => h < y) H3).
Proof.
  unfold ssorted. induction 1 as [|x l Hs IH Hf].
  - right. exists [], []. repeat split; constructor.
  - destruct (N.lt_trichotomy x h) as [Hlt|[->|Hgt]].
    + destruct IH as [(H1 & H3 & ->)|(H1 & H3 & -> & F1 & F3)].
      * left. exists (x :: H1), H3. reflexivity.
      * right. exists (x :: H1), H3. repeat split; [constructor|]; assumption.
    + left. exists [], l. reflexivity.
    + right. exists [], (x :: l). repeat split; [constructor|].
      constructor; [assumption|]. eapply Forall_impl; [|exact Hf]. cbn. intros; lia.
Qed.

Lemma last_app_ne {A} (l l' : list A) d : l' <> [] -> last (l ++ l') d = last l' d.
Proof.
  intros Hne. induction l as [|a l IH]; [reflexivity|]. cbn [app last].
  destruct (l ++ l') eqn:E; [apply app_eq_nil in E; tauto|]. exact IH.
Qed.

(* ====================================================================== *)
(* 2. dictionaries                                                        *)
(* ====================================================================== *)

Definition Nsum (l : list N) : N := fold_right N.add 0 l.

Lemma Nsum_app a b : Nsum (a ++ b) = Nsum a + Nsum b.
Proof. unfold Nsum. induction a as [|x a IH]; cbn; [reflexivity|]. rewrite IH. lia. Qed.

Lemma fold_left_Nsum {A} (f : A -> N) (l : list A) (a : N) :
  fold_left (fun s e => s + f e) l a = a + Nsum (map f l).
Proof. unfold Nsum. revert a; induction l as [|x l IH]; intros a; cbn; [lia|]. rewrite IH. lia. Qed.

Lemma hk_recompute_eq es : hk_recompute es = c_hkeyElementsPrefixSize + Nsum (map (fun e => esize e + c_digestSize) es).
Proof. unfold hk_recompute. apply fold_left_Nsum. Qed.

Lemma sl_recompute_eq kvs :
  sl_recompute kvs = c_singleElementsPrefixSize + Nsum (map (fun p : kv * kv => ssize (fst p) (snd p)) kvs).
Proof. unfold sl_recompute. apply (fold_left_Nsum (fun p : kv * kv => ssize (fst p) (snd p))). Qed.

Lemma d_get_none_iff d k : d_get d k = None <-> ~ In k (dkeys d).
Proof.
  induction d as [|p d IH]; cbn; [tauto|]. destruct (kid (fst p) =? k) eqn:E.
  - apply N.eqb_eq in E. split; [discriminate|]. intros H; exfalso; apply H; auto.
  - apply N.eqb_neq in E. rewrite IH. tauto.
Qed.

Lemma d_get_some d k p : d_get d k = Some p -> In p d /\ kid (fst p) = k.
Proof.
  induction d as [|q d IH]; cbn; [discriminate|]. destruct (kid (fst q) =? k) eqn:E.
  - apply N.eqb_eq in E. intros [= ->]. auto.
  - intros H. destruct (IH H). auto.
Qed.

Lemma d_get_app a b k : d_get (a ++ b) k = match d_get a k with Some p => Some p | None => d_get b k end.
Proof. induction a as [|p a IH]; cbn; [reflexivity|]. destruct (kid (fst p) =? k); auto. Qed.

Lemma d_replace_app a b k v :
  d_replace (a ++ b) k v = match d_get a k with Some _ => d_replace a k v ++ b | None => a ++ d_replace b k v end.
Proof.
  induction a as [|p a IH]; cbn; [reflexivity|]. destruct (kid (fst p) =? k); [reflexivity|].
  rewrite IH. destruct (d_get a k); reflexivity.
Qed.

Lemma d_replace_notin d k v : d_get d k = None -> d_replace d k v = d.
Proof.
  induction d as [|p d IH]; cbn; [reflexivity|]. destruct (kid (fst p) =? k); [discriminate|].
  intros H. now rewrite IH.
Qed.

Lemma d_remove_app a b k :
  d_remove (a ++ b) k = match d_get a k with Some _ => d_remove a k ++ b | None => a ++ d_remove b k end.
Proof.
  induction a as [|p a IH]; cbn; [reflexivity|]. destruct (kid (fst p) =? k); [reflexivity|].
  rewrite IH. destruct (d_get a k); reflexivity.
Qed.

Lemma d_remove_notin d k : d_get d k = None -> d_remove d k = d.
Proof.
  induction d as [|p d IH]; cbn; [reflexivity|]. destruct (kid (fst p) =? k); [discriminate|].
  intros H. now rewrite IH.
Qed.

Lemma d_replace_length d k v : length (d_replace d k v) = length d.
Proof. induction d as [|p d IH]; cbn; [reflexivity|]. destruct (kid (fst p) =? k); cbn; auto. Qed.

Lemma d_replace_keys d k v : dkeys (d_replace d k v) = dkeys d.
Proof. unfold dkeys. induction d as [|p d IH]; cbn; [reflexivity|]. destruct (kid (fst p) =? k); cbn; [reflexivity|]. now rewrite IH. Qed.

Lemma d_remove_length d k p : d_get d k = Some p -> S (length (d_remove d k)) = length d.
Proof.
  induction d as [|q d IH]; cbn; [discriminate|]. destruct (kid (fst q) =? k); [reflexivity|].
  intros H. cbn. now rewrite (IH H).
Qed.

Lemma d_remove_incl d k x : In x (d_remove d k) -> In x d.
Proof.
  induction d as [|q d IH]; cbn; [tauto|]. destruct (kid (fst q) =? k); [auto|]. cbn. intros [->|H]; auto.
Qed.

Lemma d_remove_Forall (P : kv * kv -> Prop) d k : Forall P d -> Forall P (d_remove d k).
Proof. rewrite !Forall_forall. intros H x Hx. apply H. eapply d_remove_incl; eauto. Qed.

Lemma d_remove_keys_notin d k : NoDup (dkeys d) -> ~ In k (dkeys (d_remove d k)).
Proof.
  induction d as [|q d IH]; cbn; [tauto|]. intros Hnd. inversion Hnd as [|? ? Hn Hd]; subst.
  destruct (kid (fst q) =? k) eqn:E.
  - apply N.eqb_eq in E. now subst.
  - apply N.eqb_neq in E. cbn. intros [H|H]; [congruence|]. now apply IH.
Qed.

Lemma d_remove_keys_incl d k x : In x (dkeys (d_remove d k)) -> In x (dkeys d).
Proof.
  unfold dkeys. rewrite !in_map_iff. intros (p & Hp & Hin). exists p. split; [assumption|]. eapply d_remove_incl; eauto.
Qed.

Lemma d_remove_NoDup d k : NoDup (dkeys d) -> NoDup (dkeys (d_remove d k)).
Proof.
  induction d as [|q d IH]; cbn; [auto|]. intros Hnd. inversion Hnd as [|? ? Hn Hd]; subst.
  destruct (kid (fst q) =? k); [assumption|]. cbn. constructor; [|auto].
  intros H. apply Hn. eapply d_remove_keys_incl; eauto.
Qed.

Section dict.
  Variable dg : N -> nat -> N.

  Lemma d_ins_from_length n l d k v : length (d_ins_from dg n l d k v) = S (length d).
  Proof. induction d as [|p d IH]; cbn; [reflexivity|]. destruct (dlt dg n l (kid k) (kid (fst p))); cbn; auto. Qed.

  Lemma d_ins_from_keys n l d k v x : In x (dkeys (d_ins_from dg n l d k v)) <-> x = kid k \/ In x (dkeys d).
  Proof.
    induction d as [|p d IH]; cbn; [intuition|]. destruct (dlt dg n l (kid k) (kid (fst p))); cbn; [intuition|].
    rewrite IH. intuition.
  Qed.

  Lemma d_ins_from_Forall (P : kv * kv -> Prop) n l d k v :
    Forall P d -> P (k, v) -> Forall P (d_ins_from dg n l d k v).
  Proof.
    induction 1 as [|p d Hp Hd IH]; intros Hk; cbn; [repeat constructor; assumption|].
    destruct (dlt dg n l (kid k) (kid (fst p))); repeat constructor; auto.
  Qed.

  Lemma d_ins_from_NoDup n l d k v : NoDup (dkeys d) -> ~ In (kid k) (dkeys d) -> NoDup (dkeys (d_ins_from dg n l d k v)).
  Proof.
    induction d as [|p d IH]; cbn; intros Hnd Hn; [repeat constructor; auto|].
    destruct (dlt dg n l (kid k) (kid (fst p))); cbn.
    - constructor; [cbn; tauto|assumption].
    - inversion Hnd; subst. constructor; [|apply IH; tauto].
      rewrite d_ins_from_keys. intros [H|H]; [apply Hn; left; congruence|tauto].
  Qed.

  Lemma d_ins_from_app_l n l a b k v :
    Forall (fun p : kv * kv => dlt dg n l (kid k) (kid (fst p)) = false) a ->
    d_ins_from dg n l (a ++ b) k v = a ++ d_ins_from dg n l b k v.
  Proof. induction 1 as [|p a Hp Ha IH]; cbn; [reflexivity|]. rewrite Hp. now rewrite IH. Qed.

  Lemma d_ins_from_app_r n l a b k v :
    Forall (fun p : kv * kv => dlt dg n l (kid k) (kid (fst p)) = true) b ->
    d_ins_from dg n l (a ++ b) k v = d_ins_from dg n l a k v ++ b.
  Proof.
    intros Hb. induction a as [|p a IH]; cbn.
    - destruct b as [|q b]; [reflexivity|]. inversion Hb; subst. cbn. now rewrite H1.
    - destruct (dlt dg n l (kid k) (kid (fst p))); [reflexivity|]. now rewrite IH.
  Qed.

  (* digests agree at level l: the comparison starts one level deeper *)
  Lemma dlt_agree n l a b : dg a l = dg b l -> dlt dg (S n) l a b = dlt dg n (S l) a b.
  Proof. intros E. cbn. rewrite E, N.ltb_irrefl, N.eqb_refl. reflexivity. Qed.

  Lemma dlt_lt n l a b : dg a l < dg b l -> dlt dg (S n) l a b = true.
  Proof. intros E. cbn. apply N.ltb_lt in E. now rewrite E. Qed.

  Lemma dlt_gt n l a b : dg b l < dg a l -> dlt dg (S n) l a b = false.
  Proof.
    intros E. cbn. destruct (dg a l <? dg b l) eqn:E1; [apply N.ltb_lt in E1; lia|].
    destruct (dg a l =? dg b l) eqn:E2; [apply N.eqb_eq in E2; lia|reflexivity].
  Qed.

  Lemma d_ins_from_agree n l d k v :
    Forall (fun p : kv * kv => dg (kid (fst p)) l = dg (kid k) l) d ->
    d_ins_from dg (S n) l d k v = d_ins_from dg n (S l) d k v.
  Proof.
    induction 1 as [|p d Hp Hd IH]; [reflexivity|]. cbn [d_ins_from].
    rewrite dlt_agree by (symmetry; exact Hp). now rewrite IH.
  Qed.

  Definition d_set_from (n l : nat) (d : dict) (k v : kv) : dict :=
    match d_get d (kid k) with Some _ => d_replace d (kid k) v | None => d_ins_from dg n l d k v end.

  Lemma d_set_from_agree n l d k v :
    Forall (fun p : kv * kv => dg (kid (fst p)) l = dg (kid k) l) d ->
    d_set_from (S n) l d k v = d_set_from n (S l) d k v.
  Proof. intros H. unfold d_set_from. destruct (d_get d (kid k)); [reflexivity|]. now apply d_ins_from_agree. Qed.

  Lemma d_set_from_length_ge n l d k v : (length d <= length (d_set_from n l d k v))%nat.
  Proof. unfold d_set_from. destruct (d_get d (kid k)); [rewrite d_replace_length|rewrite d_ins_from_length]; lia. Qed.

  Lemma d_set_from_length_new n l d k v : d_get d (kid k) = None -> length (d_set_from n l d k v) = S (length d).
  Proof. unfold d_set_from. intros ->. apply d_ins_from_length. Qed.

  Lemma d_set_from_keyP (Q : N -> Prop) n l d k v :
    Forall (fun p : kv * kv => Q (kid (fst p))) d -> Q (kid k) ->
    Forall (fun p : kv * kv => Q (kid (fst p))) (d_set_from n l d k v).
  Proof.
    intros Hd Hk. unfold d_set_from. destruct (d_get d (kid k)).
    - rewrite Forall_forall in *. intros x Hx.
      assert (In (kid (fst x)) (dkeys (d_replace d (kid k) v))) by (unfold dkeys; apply in_map_iff; eauto).
      rewrite d_replace_keys in H. unfold dkeys in H. apply in_map_iff in H. destruct H as (y & Ey & Hy).
      rewrite <- Ey. auto.
    - apply d_ins_from_Forall; assumption.
  Qed.

  Lemma d_set_from_NoDup n l d k v : NoDup (dkeys d) -> NoDup (dkeys (d_set_from n l d k v)).
  Proof.
    intros H. unfold d_set_from. destruct (d_get d (kid k)) eqn:E.
    - now rewrite d_replace_keys.
    - apply d_ins_from_NoDup; [assumption|]. now apply d_get_none_iff.
  Qed.

  (* the block decomposition used at every hkeyElements: L1 smaller digests, L3 larger digests *)
  Lemma d_set_from_blocks n l L1 L2 L3 k v :
    Forall (fun p : kv * kv => dg (kid (fst p)) l < dg (kid k) l) L1 ->
    Forall (fun p : kv * kv => dg (kid k) l < dg (kid (fst p)) l) L3 ->
    d_set_from (S n) l (L1 ++ L2 ++ L3) k v = L1 ++ d_set_from (S n) l L2 k v ++ L3.
  Proof.
    intros F1 F3.
    assert (G1 : d_get L1 (kid k) = None).
    { apply d_get_none_iff. unfold dkeys. rewrite in_map_iff. intros (p & Ep & Hp).
      rewrite Forall_forall in F1. specialize (F1 _ Hp). rewrite Ep in F1. lia. }
    assert (G3 : d_get L3 (kid k) = None).
    { apply d_get_none_iff. unfold dkeys. rewrite in_map_iff. intros (p & Ep & Hp).
      rewrite Forall_forall in F3. specialize (F3 _ Hp). rewrite Ep in F3. lia. }
    unfold d_set_from. rewrite !d_get_app, G1, G3.
    destruct (d_get L2 (kid k)) eqn:G2.
    - rewrite d_replace_app, G1, d_replace_app, G2. reflexivity.
    - rewrite d_ins_from_app_l, d_ins_from_app_r; [reflexivity| |].
      + eapply Forall_impl; [|exact F3]. cbn. intros p Hp. now apply dlt_lt.
      + eapply Forall_impl; [|exact F1]. cbn. intros p Hp. now apply dlt_gt.
  Qed.

  Lemma d_get_blocks l L1 L2 L3 k :
    Forall (fun p : kv * kv => dg (kid (fst p)) l <> dg k l) L1 ->
    Forall (fun p : kv * kv => dg (kid (fst p)) l <> dg k l) L3 ->
    d_get (L1 ++ L2 ++ L3) k = d_get L2 k /\
    d_remove (L1 ++ L2 ++ L3) k = L1 ++ d_remove L2 k ++ L3.
  Proof.
    intros F1 F3.
    assert (G1 : d_get L1 k = None).
    { apply d_get_none_iff. unfold dkeys. rewrite in_map_iff. intros (p & Ep & Hp).
      rewrite Forall_forall in F1. specialize (F1 _ Hp). rewrite Ep in F1. congruence. }
    assert (G3 : d_get L3 k = None).
    { apply d_get_none_iff. unfold dkeys. rewrite in_map_iff. intros (p & Ep & Hp).
      rewrite Forall_forall in F3. specialize (F3 _ Hp). rewrite Ep in F3. congruence. }
    rewrite !d_get_app, G1, G3, d_remove_app, G1, d_remove_app.
    destruct (d_get L2 k) eqn:G2; [split; reflexivity|]. rewrite (d_remove_notin L3 k G3), (d_remove_notin L2 k G2). split; reflexivity.
  Qed.
End dict.

(* ====================================================================== *)
(* 3. the invariant; hkeyElements operations in split form                *)
(* ====================================================================== *)

Section elems.
  Variable dg : N -> nat -> N.
  Variable levels : nat.
  Variable max_inline_elem limit : N.

  Local Notation ewf_e := (ewf_e dg levels).
  Local Notation ewf_g := (ewf_g dg levels).
  Local Notation keys_dg := (keys_dg dg).
  Local Notation get_elem := (get_elem dg levels).
  Local Notation get_elems := (get_elems dg levels).
  Local Notation set_elem := (set_elem dg levels max_inline_elem limit).
  Local Notation set_elems := (set_elems dg levels max_inline_elem limit).
  Local Notation remove_elem := (remove_elem dg levels).
  Local Notation remove_elems := (remove_elems dg levels).
  Local Notation d_set_from := (d_set_from dg).

  (* weak form for the element being modified: a group with at least ONE key (the group freshly
     built by singleElement.Set around the resident key has one) *)
  Definition ewf_ew (l : nat) (h : N) (e : melem) : Prop :=
    match e with
    | ESingle k _ => dg (kid k) l = h
    | EGroup loc g => ewf_g (S l) g /\ (1 <= length (to_list g))%nat /\ keys_dg l h (to_list g) /\ loc_ok l loc
    end.

  Lemma ewf_e_weak l h e : ewf_e l h e -> ewf_ew l h e.
  Proof. inversion 1; subst; cbn; [reflexivity|]. repeat split; try assumption; lia. Qed.

  Lemma ewf_ew_strong l h e : ewf_ew l h e -> (is_group e = true -> (2 <= length (to_list_e e))%nat) -> ewf_e l h e.
  Proof.
    destruct e as [k v|loc g]; cbn.
    - intros <- _. constructor.
    - intros (Hg & _ & Hk & Hl) H2. constructor; auto.
  Qed.

  Lemma ewf_e_keys l h e : ewf_e l h e -> keys_dg l h (to_list_e e).
  Proof. inversion 1; subst; cbn; [repeat constructor|assumption]. Qed.

  Lemma ewf_ew_keys l h e : ewf_ew l h e -> keys_dg l h (to_list_e e).
  Proof. destruct e; cbn; [intros <-; repeat constructor|tauto]. Qed.

  Lemma ewf_e_nonempty l h e : ewf_e l h e -> (1 <= length (to_list_e e))%nat.
  Proof. inversion 1; subst; cbn; lia. Qed.

  Lemma ewf_e_group_2 l h e : ewf_e l h e -> is_group e = true -> (2 <= length (to_list_e e))%nat.
  Proof. inversion 1; subst; cbn; [discriminate|auto]. Qed.

  Lemma ewf_flat_keys (P : N -> Prop) l Hs Es :
    Forall2 (ewf_e l) Hs Es -> Forall P Hs ->
    Forall (fun p : kv * kv => P (dg (kid (fst p)) l)) (flat_map to_list_e Es).
  Proof.
    induction 1 as [|h e Hs Es He HF IH]; intros HP; cbn; [constructor|].
    inversion HP; subst. apply Forall_app. split; [|auto].
    eapply Forall_impl; [|exact (ewf_e_keys _ _ _ He)]. cbn. intros p ->. assumption.
  Qed.

  Lemma flat_map_mid {A B} (f : A -> list B) l1 x l2 : flat_map f (l1 ++ x :: l2) = flat_map f l1 ++ f x ++ flat_map f l2.
  Proof. rewrite flat_map_app. reflexivity. Qed.

  (* ---- facts about the first / last digest tests of Set and Remove ---- *)

  Lemma head_found_test H1 h H3 h0 t : h0 :: t = H1 ++ h :: H3 -> ssorted (H1 ++ h :: H3) -> (h <? h0) = false.
  Proof.
    intros E Hs. apply N.ltb_ge. destruct H1 as [|y H1]; cbn in E; injection E as -> _; [lia|].
    destruct (ssorted_app_inv _ _ _ Hs) as (_ & _ & F1 & _). inversion F1; subst. lia.
  Qed.

  Lemma last_found_test H1 h H3 : ssorted (H1 ++ h :: H3) -> (last (H1 ++ h :: H3) 0 <? h) = false.
  Proof.
    intros Hs. apply N.ltb_ge. rewrite last_app_ne by discriminate.
    destruct (ssorted_app_inv _ _ _ Hs) as (_ & _ & _ & F3).
    destruct (last_cons_In H3 h 0) as [<-|Hin]; [lia|]. rewrite Forall_forall in F3. specialize (F3 _ Hin). lia.
  Qed.

  Lemma head_notfound_test H1 H3 h h0 t :
    h0 :: t = H1 ++ H3 -> Forall (fun y => y < h) H1 -> Forall (fun y => h < y) H3 ->
    if h <? h0 then H1 = [] else True.
  Proof.
    intros E F1 F3. destruct (h <? h0) eqn:T; [|exact I]. apply N.ltb_lt in T.
    destruct H1 as [|y H1]; [reflexivity|]. cbn in E. injection E as -> _. inversion F1; subst. lia.
  Qed.

  Lemma last_notfound_test H1 H3 h h0 t :
    h0 :: t = H1 ++ H3 -> Forall (fun y => y < h) H1 -> Forall (fun y => h < y) H3 ->
    if last (H1 ++ H3) 0 <? h then H3 = [] else H3 <> [].
  Proof.
    intros E F1 F3. destruct H3 as [|z H3].
    - rewrite app_nil_r in *. subst H1. pose proof (last_cons_In t h0 0) as Hin.
      rewrite Forall_forall in F1. specialize (F1 _ Hin). apply N.ltb_lt in F1. now rewrite F1.
    - rewrite last_app_ne by discriminate. pose proof (last_cons_In H3 z 0) as Hin.
      rewrite Forall_forall in F3. specialize (F3 _ Hin).
      destruct (last (z :: H3) 0 <? h) eqn:T; [apply N.ltb_lt in T; lia|discriminate].
  Qed.

  (* ---- Get ---- *)

  Lemma get_HKey_found f lv H1 h H3 E1 e E3 sz l k :
    (l < levels)%nat -> ssorted (H1 ++ h :: H3) -> length E1 = length H1 -> dg k l = h ->
    get_elems (S f) (HKey lv (H1 ++ h :: H3) (E1 ++ e :: E3) sz) l k = get_elem f e l k.
  Proof.
    intros Hl Hs Hlen Hh. cbn [MapElems.get_elems]; fold (MapElems.get_elem dg levels).
    replace (levels <=? l)%nat with false by (symmetry; apply Nat.leb_gt; lia).
    rewrite Hh, hk_search_found by assumption. rewrite <- Hlen, nth_error_app_mid. reflexivity.
  Qed.

  Lemma get_HKey_notfound f lv H1 H3 es sz l k :
    (l < levels)%nat -> ssorted (H1 ++ H3) ->
    Forall (fun y => y < dg k l) H1 -> Forall (fun y => dg k l < y) H3 ->
    get_elems (S f) (HKey lv (H1 ++ H3) es sz) l k = inl EKeyNotFound.
  Proof.
    intros Hl Hs F1 F3. cbn [MapElems.get_elems]; fold (MapElems.get_elem dg levels).
    replace (levels <=? l)%nat with false by (symmetry; apply Nat.leb_gt; lia).
    destruct (hk_search_notfound _ _ _ Hs F1 F3) as [-> _]. reflexivity.
  Qed.

  (* ---- Set ---- *)

  Definition limit_check (f lv : nat) (e : melem) (l : nat) (k : N) : option merr :=
    if (lv =? 0)%nat then
      if (ecount e =? 0)%nat then Some EInternal
      else if limit <=? N.of_nat (ecount e - 1) then
        match get_elem f e l k with inl EKeyNotFound => Some ECollisionLimit | _ => None end
      else None
    else None.

  Lemma set_HKey_found f lv H1 h H3 E1 e E3 sz l k v a :
    (l < levels)%nat -> ssorted (H1 ++ h :: H3) -> length E1 = length H1 -> dg (kid k) l = h ->
    set_elems (S f) (HKey lv (H1 ++ h :: H3) (E1 ++ e :: E3) sz) l k v a =
    match limit_check f lv e l (kid k) with
    | Some err => inl err
    | None =>
      match set_elem f e l k v a with
      | inl err => inl err
      | inr (e', prev, a', evs) =>
        inr (HKey lv (H1 ++ h :: H3) (E1 ++ e' :: E3) (hk_recompute (E1 ++ e' :: E3)), prev, a', evs)
      end
    end.
  Proof.
    intros Hl Hs Hlen Hh. cbn [MapElems.set_elems]; fold (MapElems.set_elem dg levels max_inline_elem limit); fold (MapElems.get_elem dg levels).
    replace (levels <=? l)%nat with false by (symmetry; apply Nat.leb_gt; lia).
    rewrite Hh. remember (H1 ++ h :: H3) as hks eqn:E. destruct hks as [|h0 t]; [destruct H1; discriminate|].
    cbn [MapElems.set_elems]; fold (MapElems.set_elem dg levels max_inline_elem limit); fold (MapElems.get_elem dg levels). rewrite E in Hs. rewrite (head_found_test _ _ _ _ _ E Hs).
    rewrite E. rewrite last_found_test by assumption.
    pose proof (hk_search_found _ _ _ Hs) as Hf. destruct (hk_search (H1 ++ h :: H3) h) as [eq lt]. cbn [fst] in Hf. subst eq.
    rewrite <- Hlen, nth_error_app_mid. unfold limit_check.
    destruct (lv =? 0)%nat; [destruct (ecount e =? 0)%nat; [reflexivity|]; destruct (limit <=? N.of_nat (ecount e - 1))|].
    - destruct (get_elem f e l (kid k)) as [[]|]; try reflexivity;
        (destruct (set_elem f e l k v a) as [|[[[e' prev] a'] evs]]; [reflexivity|]; now rewrite replace_at_app).
    - destruct (set_elem f e l k v a) as [|[[[e' prev] a'] evs]]; [reflexivity|]; now rewrite replace_at_app.
    - destruct (set_elem f e l k v a) as [|[[[e' prev] a'] evs]]; [reflexivity|]; now rewrite replace_at_app.
  Qed.

  Lemma set_HKey_notfound f lv H1 H3 E1 E3 sz l k v a :
    (l < levels)%nat -> ssorted (H1 ++ H3) -> length E1 = length H1 -> length E3 = length H3 ->
    Forall (fun y => y < dg (kid k) l) H1 -> Forall (fun y => dg (kid k) l < y) H3 ->
    set_elems (S f) (HKey lv (H1 ++ H3) (E1 ++ E3) sz) l k v a =
    inr (HKey lv (H1 ++ dg (kid k) l :: H3) (E1 ++ ESingle k v :: E3) (sz + (c_digestSize + ssize k v)), None, a, []).
  Proof.
    intros Hl Hs Hlen1 Hlen3 F1 F3. cbn [MapElems.set_elems]; fold (MapElems.set_elem dg levels max_inline_elem limit); fold (MapElems.get_elem dg levels).
    replace (levels <=? l)%nat with false by (symmetry; apply Nat.leb_gt; lia).
    set (h := dg (kid k) l) in *.
    remember (H1 ++ H3) as hks eqn:E. destruct hks as [|h0 t].
    - symmetry in E. apply app_eq_nil in E. destruct E; subst. destruct E1, E3; try discriminate. reflexivity.
    - pose proof (head_notfound_test _ _ _ _ _ E F1 F3) as T1.
      pose proof (last_notfound_test _ _ _ _ _ E F1 F3) as T2.
      destruct (h <? h0).
      + subst H1. destruct E1; [|discriminate]. cbn in E. subst H3. reflexivity.
      + rewrite E. rewrite E in Hs. destruct (last (H1 ++ H3) 0 <? h).
        * subst H3. destruct E3; [|discriminate]. rewrite !app_nil_r. reflexivity.
        * destruct (hk_search_notfound _ _ _ Hs F1 F3) as [Hn Hlt]. specialize (Hlt T2).
          destruct (hk_search (H1 ++ H3) h) as [eq lt]. cbn [fst snd] in *. subst eq lt.
          rewrite insert_at_app. rewrite <- Hlen1, insert_at_app. reflexivity.
  Qed.

  (* ---- Remove ---- *)

  Lemma remove_HKey_found f lv H1 h H3 E1 e E3 sz l k :
    (l < levels)%nat -> ssorted (H1 ++ h :: H3) -> length E1 = length H1 -> dg k l = h ->
    remove_elems (S f) (HKey lv (H1 ++ h :: H3) (E1 ++ e :: E3) sz) l k =
    match remove_elem f e l k with
    | inl err => inl err
    | inr (None, kvp, evs) => inr (HKey lv (H1 ++ H3) (E1 ++ E3) (sz - (c_digestSize + esize e)), kvp, evs)
    | inr (Some e', kvp, evs) => inr (HKey lv (H1 ++ h :: H3) (E1 ++ e' :: E3) ((sz + esize e') - esize e), kvp, evs)
    end.
  Proof.
    intros Hl Hs Hlen Hh. cbn [MapElems.remove_elems]; fold (MapElems.remove_elem dg levels).
    replace (levels <=? l)%nat with false by (symmetry; apply Nat.leb_gt; lia).
    rewrite Hh. remember (H1 ++ h :: H3) as hks eqn:E. destruct hks as [|h0 t]; [destruct H1; discriminate|].
    cbn [MapElems.remove_elems]; fold (MapElems.remove_elem dg levels). rewrite E in Hs. rewrite (head_found_test _ _ _ _ _ E Hs).
    rewrite E. rewrite last_found_test by assumption. cbn [orb].
    rewrite hk_search_found by assumption.
    rewrite <- Hlen, nth_error_app_mid.
    destruct (remove_elem f e l k) as [|[[[e'|] kvp] evs]]; [reflexivity| |].
    - now rewrite replace_at_app.
    - rewrite delete_at_app. rewrite Hlen, delete_at_app. reflexivity.
  Qed.

  Lemma remove_HKey_notfound f lv H1 H3 es sz l k :
    (l < levels)%nat -> ssorted (H1 ++ H3) ->
    Forall (fun y => y < dg k l) H1 -> Forall (fun y => dg k l < y) H3 ->
    remove_elems (S f) (HKey lv (H1 ++ H3) es sz) l k = inl EKeyNotFound.
  Proof.
    intros Hl Hs F1 F3. cbn [MapElems.remove_elems]; fold (MapElems.remove_elem dg levels).
    replace (levels <=? l)%nat with false by (symmetry; apply Nat.leb_gt; lia).
    destruct (H1 ++ H3) eqn:E; [reflexivity|]. rewrite <- E. rewrite <- E in Hs.
    destruct ((dg k l <? n) || (last (H1 ++ H3) 0 <? dg k l)); [reflexivity|].
    destruct (hk_search_notfound _ _ _ Hs F1 F3) as [-> _]. reflexivity.
  Qed.

  (* ---- list mode ---- *)

  Lemma find_key_some k kvs i : find_key k kvs = Some i ->
    exists K1 p K3, kvs = K1 ++ p :: K3 /\ i = length K1 /\ kid (fst p) = k /\ d_get K1 k = None.
  Proof.
    revert i; induction kvs as [|q kvs IH]; intros i; cbn; [discriminate|].
    destruct (kid (fst q) =? k) eqn:E.
    - apply N.eqb_eq in E. intros [= <-]. exists [], q, kvs. auto.
    - destruct (find_key k kvs) as [j|]; [|discriminate]. cbn. intros [= <-].
      destruct (IH j eq_refl) as (K1 & p & K3 & -> & -> & Hk & Hn). exists (q :: K1), p, K3.
      repeat split; auto. cbn. now rewrite E.
  Qed.

  Lemma find_key_none k kvs : find_key k kvs = None -> d_get kvs k = None.
  Proof.
    induction kvs as [|q kvs IH]; cbn; [reflexivity|]. destruct (kid (fst q) =? k); [discriminate|].
    destruct (find_key k kvs); [discriminate|]. auto.
  Qed.

  Lemma d_get_mid K1 p K3 k : kid (fst p) = k -> d_get K1 k = None -> d_get (K1 ++ p :: K3) k = Some p.
  Proof. intros Hk Hn. rewrite d_get_app, Hn. cbn. now rewrite Hk, N.eqb_refl. Qed.

  (* ====================================================================== *)
  (* 4. Get                                                                 *)
  (* ====================================================================== *)

  Lemma hkey_found_split l H1 h H3 es : Forall2 (ewf_e l) (H1 ++ h :: H3) es ->
    exists E1 e E3, es = E1 ++ e :: E3 /\ length E1 = length H1 /\ length E3 = length H3 /\
                    Forall2 (ewf_e l) H1 E1 /\ ewf_e l h e /\ Forall2 (ewf_e l) H3 E3.
  Proof.
    intros H. apply Forall2_app_inv_l in H. destruct H as (E1 & R & F1 & F2 & ->).
    inversion F2 as [|? e ? E3 He F3]; subst. exists E1, e, E3.
    repeat split; auto; symmetry; eapply Forall2_len; eauto.
  Qed.

  Lemma hkey_nf_split l H1 H3 es : Forall2 (ewf_e l) (H1 ++ H3) es ->
    exists E1 E3, es = E1 ++ E3 /\ length E1 = length H1 /\ length E3 = length H3 /\
                  Forall2 (ewf_e l) H1 E1 /\ Forall2 (ewf_e l) H3 E3.
  Proof.
    intros H. apply Forall2_app_inv_l in H. destruct H as (E1 & E3 & F1 & F3 & ->).
    exists E1, E3. repeat split; auto; symmetry; eapply Forall2_len; eauto.
  Qed.

  Definition get_res (d : dict) (k : N) : merr + (kv * kv) :=
    match d_get d k with Some p => inr p | None => inl EKeyNotFound end.

  Lemma get_spec : forall f,
    (forall e l h k, (3 * (levels - l) + 2 <= f)%nat -> (l < levels)%nat -> ewf_ew l h e -> dg k l = h ->
       get_elem f e l k = get_res (to_list_e e) k) /\
    (forall g l k, (3 * (levels - l) + 3 <= f)%nat -> ewf_g l g ->
       get_elems f g l k = get_res (to_list g) k).
  Proof.
    induction f as [|f [IHe IHg]]; [split; intros; lia|]. split.
    - intros e l h k Hf Hl He Hh. destruct e as [k0 v0|loc g].
      + cbn [MapElems.get_elem to_list_e]. unfold get_res. cbn [d_get fst]. destruct (kid k0 =? k); reflexivity.
      + cbn [MapElems.get_elem to_list_e]. fold (MapElems.get_elems dg levels).
        replace (levels <? S l)%nat with false by (symmetry; apply Nat.ltb_ge; lia).
        destruct He as (Hg & _). apply IHg; [lia|assumption].
    - intros g l k Hf Hg. inversion Hg as [l' hks es sz Hl Hs Hsz HF|kvs sz Hsz Hnd]; subst.
      + destruct (hks_split (dg k l) hks Hs) as [(H1 & H3 & ->)|(H1 & H3 & -> & F1 & F3)].
        * destruct (hkey_found_split _ _ _ _ _ HF) as (E1 & e & E3 & -> & L1 & L3 & W1 & We & W3).
          rewrite get_HKey_found by auto. rewrite (IHe e l (dg k l) k); [|lia|assumption|now apply ewf_e_weak|reflexivity].
          cbn [to_list]. rewrite flat_map_mid. unfold get_res.
          destruct (ssorted_app_inv _ _ _ Hs) as (_ & _ & S1 & S3).
          destruct (d_get_blocks dg l (flat_map to_list_e E1) (to_list_e e) (flat_map to_list_e E3) k) as [-> _]; [| |reflexivity].
          -- eapply Forall_impl; [|apply (ewf_flat_keys (fun y => y < dg k l) _ _ _ W1 S1)]. cbn. intros; lia.
          -- eapply Forall_impl; [|apply (ewf_flat_keys (fun y => dg k l < y) _ _ _ W3 S3)]. cbn. intros; lia.
        * rewrite get_HKey_notfound by auto. unfold get_res. cbn [to_list].
          replace (d_get (flat_map to_list_e es) k) with (@None (kv * kv)); [reflexivity|].
          symmetry. apply d_get_none_iff. unfold dkeys. rewrite in_map_iff. intros (p & Ep & Hp).
          assert (HP : Forall (fun y => y <> dg k l) (H1 ++ H3)).
          { apply Forall_app; split; (eapply Forall_impl; [|eassumption]); cbn; intros; lia. }
          pose proof (ewf_flat_keys (fun y => y <> dg k l) _ _ _ HF HP) as Hk.
          rewrite Forall_forall in Hk. specialize (Hk _ Hp). cbn in Hk. congruence.
      + cbn [MapElems.get_elems to_list]. rewrite Nat.eqb_refl. cbn [negb]. unfold get_res.
        destruct (find_key k kvs) as [i|] eqn:Ef.
        * destruct (find_key_some _ _ _ Ef) as (K1 & p & K3 & -> & -> & Hk & Hn).
          rewrite nth_error_app_mid. now rewrite d_get_mid.
        * now rewrite find_key_none.
  Qed.

  (* ====================================================================== *)
  (* 5. Set                                                                 *)
  (* ====================================================================== *)

  Fixpoint hk_find (h : N) (hks : list N) (es : list melem) : option melem :=
    match hks, es with
    | x :: hs, e :: es' => if x =? h then Some e else hk_find h hs es'
    | _, _ => None
    end.

  Lemma hk_find_mid h H1 H3 E1 e E3 : ~ In h H1 -> length E1 = length H1 ->
    hk_find h (H1 ++ h :: H3) (E1 ++ e :: E3) = Some e.
  Proof.
    revert E1; induction H1 as [|x H1 IH]; intros [|e1 E1] Hn Hl; try discriminate; cbn.
    - now rewrite N.eqb_refl.
    - destruct (x =? h) eqn:E; [apply N.eqb_eq in E; subst; exfalso; apply Hn; now left|].
      apply IH; [intros H; apply Hn; now right|]. cbn in Hl. lia.
  Qed.

  Lemma hk_find_none h hks es : ~ In h hks -> hk_find h hks es = None.
  Proof.
    revert es; induction hks as [|x hks IH]; intros [|e es] Hn; cbn; try reflexivity.
    destruct (x =? h) eqn:E; [apply N.eqb_eq in E; subst; exfalso; apply Hn; now left|].
    apply IH. intros H; apply Hn; now right.
  Qed.

  (* the refusal condition read off the tree: the element stored under the key's first digest
     already has more than [limit] collisions and the key is not in the map *)
  Definition tree_refused (g : melems) (k : N) : Prop :=
    match g with
    | HKey _ hks es _ =>
      d_get (to_list g) k = None /\
      match hk_find (dg k 0) hks es with Some e => limit <= N.of_nat (ecount e - 1) | None => False end
    | SList _ _ _ => False
    end.

  Lemma ecount_pos l h e : ewf_e l h e -> (1 <= ecount e)%nat.
  Proof.
    inversion 1 as [|? ? ? g Hg H2 _ _]; subst; cbn; [lia|].
    destruct g as [lv hks es sz|lv kvs sz]; cbn in *; [destruct es; cbn in *; lia|lia].
  Qed.

  Lemma d_ins_from_0 l d k v : d_ins_from dg 0 l d k v = d ++ [(k, v)].
  Proof. induction d as [|p d IH]; cbn; [reflexivity|]. now rewrite IH. Qed.

  Lemma lt_neq_Forall (h : N) (P : kv * kv -> N) d :
    Forall (fun p => P p < h) d -> Forall (fun p => P p <> h) d.
  Proof. apply Forall_impl. intros; lia. Qed.

  Lemma gt_neq_Forall (h : N) (P : kv * kv -> N) d :
    Forall (fun p => h < P p) d -> Forall (fun p => P p <> h) d.
  Proof. apply Forall_impl. intros; lia. Qed.

  Lemma set_spec : forall f,
    (forall e l h k v a, (3 * (levels - l) + (if is_group e then 1 else 2) <= f)%nat -> (l < levels)%nat ->
       ewf_ew l h e -> dg (kid k) l = h ->
       exists e' a' evs,
         set_elem f e l k v a = inr (e', option_map snd (d_get (to_list_e e) (kid k)), a', evs) /\
         ewf_ew l h e' /\
         to_list_e e' = d_set_from (levels - l) l (to_list_e e) k v /\
         (is_group e = false -> d_get (to_list_e e) (kid k) <> None -> is_group e' = false)) /\
    (forall g l k v a, (3 * (levels - l) + 3 <= f)%nat -> ewf_g l g ->
       (l = 0%nat /\ set_elems f g l k v a = inl ECollisionLimit /\ tree_refused g (kid k)) \/
       (exists g' a' evs,
         set_elems f g l k v a = inr (g', option_map snd (d_get (to_list g) (kid k)), a', evs) /\
         ewf_g l g' /\ to_list g' = d_set_from (levels - l) l (to_list g) k v /\
         (l = 0%nat -> ~ tree_refused g (kid k)))).
  Proof.
    induction f as [|f [IHe IHg]]; [split; intros; [destruct (is_group e)|]; lia|]. split.
    - (* element *)
      intros e l h k v a Hf Hl He Hh. destruct e as [k0 v0|[id|] g].
      + (* single *)
        cbn [is_group] in Hf. cbn in He. cbn [MapElems.set_elem to_list_e]. cbn [d_get fst].
        destruct (kid k0 =? kid k) eqn:Ek.
        * exists (ESingle k0 v), a, []. cbn [option_map snd]. split; [reflexivity|]. split; [exact He|].
          split; [|reflexivity]. unfold d_set_from. cbn [d_get fst]. rewrite Ek. cbn [d_replace fst]. now rewrite Ek.
        * destruct (S l =? levels)%nat eqn:El.
          -- apply Nat.eqb_eq in El.
             edestruct (IHe (EGroup None (SList (S l) [(k0, v0)] (c_singleElementsPrefixSize + ssize k0 v0))) l h k v a)
               as (e' & a' & evs & Eq & W & TL & _); [cbn [is_group]; lia|assumption| |assumption|].
             { cbn. repeat split; [|lia|repeat constructor; assumption].
               rewrite El. constructor; [unfold sl_recompute; reflexivity|]. cbn. repeat constructor. cbn. tauto. }
             cbn [to_list_e to_list] in Eq, TL. cbn [d_get fst] in Eq. rewrite Ek in Eq.
             exists e', a', evs. repeat split; try assumption.
             intros _ Hc. exfalso. apply Hc. reflexivity.
          -- apply Nat.eqb_neq in El.
             edestruct (IHe (EGroup None (HKey (S l) [dg (kid k0) (S l)] [ESingle k0 v0]
                          (c_hkeyElementsPrefixSize + c_digestSize + esize (ESingle k0 v0)))) l h k v a)
               as (e' & a' & evs & Eq & W & TL & _); [cbn [is_group]; lia|assumption| |assumption|].
             { unfold ewf_ew. cbn [to_list flat_map to_list_e app length]. repeat split; [|lia|repeat constructor; assumption].
               constructor; [lia|repeat constructor| |repeat constructor].
               unfold hk_recompute. cbn [fold_left]. lia. }
             cbn [to_list_e to_list flat_map app] in Eq, TL. cbn [d_get fst] in Eq. rewrite Ek in Eq.
             exists e', a', evs. repeat split; try assumption.
             intros _ Hc. exfalso. apply Hc. reflexivity.
      + (* external group *)
        cbn [is_group] in Hf. destruct He as (Hg & H1 & Hk & Hloc).
        cbn [MapElems.set_elem to_list_e]. fold (MapElems.set_elems dg levels max_inline_elem limit).
        replace (levels <? S l)%nat with false by (symmetry; apply Nat.ltb_ge; lia).
        destruct (IHg g (S l) k v a) as [(Habs & _)|(g' & a' & evs & Eq & Wg & TL & _)]; [lia|assumption|discriminate|].
        rewrite Eq. exists (EGroup (Some id) g'), a', (evs ++ [WStore id]). split; [reflexivity|].
        assert (TL' : to_list g' = d_set_from (levels - l) l (to_list g) k v).
        { rewrite TL. replace (levels - l)%nat with (S (levels - S l)) by lia.
          symmetry. apply d_set_from_agree. eapply Forall_impl; [|exact Hk]. cbn. intros; congruence. }
        split; [|split; [exact TL'|discriminate]].
        cbn. repeat split; try assumption.
        * rewrite TL'. pose proof (d_set_from_length_ge dg (levels - l) l (to_list g) k v). lia.
        * rewrite TL'. apply (d_set_from_keyP dg (fun x => dg x l = h)); assumption.
      + (* inline group *)
        cbn [is_group] in Hf. destruct He as (Hg & H1 & Hk & Hloc).
        cbn [MapElems.set_elem to_list_e]. fold (MapElems.set_elems dg levels max_inline_elem limit).
        replace (levels <? S l)%nat with false by (symmetry; apply Nat.ltb_ge; lia).
        destruct (IHg g (S l) k v a) as [(Habs & _)|(g' & a' & evs & Eq & Wg & TL & _)]; [lia|assumption|discriminate|].
        rewrite Eq.
        assert (TL' : to_list g' = d_set_from (levels - l) l (to_list g) k v).
        { rewrite TL. replace (levels - l)%nat with (S (levels - S l)) by lia.
          symmetry. apply d_set_from_agree. eapply Forall_impl; [|exact Hk]. cbn. intros; congruence. }
        assert (L' : (1 <= length (to_list g'))%nat).
        { rewrite TL'. pose proof (d_set_from_length_ge dg (levels - l) l (to_list g) k v). lia. }
        assert (K' : keys_dg l h (to_list g')).
        { rewrite TL'. apply (d_set_from_keyP dg (fun x => dg x l = h)); assumption. }
        destruct ((S l =? 1)%nat && (max_inline_elem <? c_inlineCollisionGroupPrefixSize + msize g')) eqn:Esp.
        * exists (EGroup (Some a') g'), (a' + 1), (evs ++ [WStore a']). split; [reflexivity|].
          split; [|split; [exact TL'|discriminate]]. cbn. repeat split; try assumption.
          apply andb_true_iff in Esp. destruct Esp as [Esp _]. apply Nat.eqb_eq in Esp. lia.
        * exists (EGroup None g'), a', evs. split; [reflexivity|].
          split; [|split; [exact TL'|discriminate]]. cbn. repeat split; assumption.
    - (* elements *)
      intros g l k v a Hf Hg. inversion Hg as [l' hks es sz Hl Hs Hsz HF|kvs sz Hsz Hnd]; subst.
      + set (h := dg (kid k) l).
        destruct (hks_split h hks Hs) as [(H1 & H3 & ->)|(H1 & H3 & -> & F1 & F3)].
        * (* digest present *)
          destruct (hkey_found_split _ _ _ _ _ HF) as (E1 & e & E3 & -> & L1 & L3 & W1 & We & W3).
          destruct (ssorted_app_inv _ _ _ Hs) as (_ & _ & S1 & S3).
          pose proof (ewf_flat_keys (fun y => y < h) _ _ _ W1 S1) as K1. cbn beta in K1.
          pose proof (ewf_flat_keys (fun y => h < y) _ _ _ W3 S3) as K3. cbn beta in K3.
          destruct (d_get_blocks dg l (flat_map to_list_e E1) (to_list_e e) (flat_map to_list_e E3) (kid k)) as [DG _];
            [apply lt_neq_Forall with (P := fun p => dg (kid (fst p)) l); exact K1
            |apply gt_neq_Forall with (P := fun p => dg (kid (fst p)) l); exact K3|].
          assert (HFIND : hk_find h (H1 ++ h :: H3) (E1 ++ e :: E3) = Some e).
          { apply hk_find_mid; [|assumption]. intros Hin. rewrite Forall_forall in S1. specialize (S1 _ Hin). lia. }
          rewrite set_HKey_found by auto.
          (* the part after the limit check *)
          assert (CONT : (l = 0%nat -> ~ tree_refused (HKey l (H1 ++ h :: H3) (E1 ++ e :: E3) (hk_recompute (E1 ++ e :: E3))) (kid k)) ->
            exists g' a' evs,
              match set_elem f e l k v a with
              | inl err => inl err
              | inr (e', prev, a', evs) =>
                inr (HKey l (H1 ++ h :: H3) (E1 ++ e' :: E3) (hk_recompute (E1 ++ e' :: E3)), prev, a', evs)
              end = inr (g', option_map snd (d_get (to_list (HKey l (H1 ++ h :: H3) (E1 ++ e :: E3) (hk_recompute (E1 ++ e :: E3)))) (kid k)), a', evs) /\
              ewf_g l g' /\
              to_list g' = d_set_from (levels - l) l (to_list (HKey l (H1 ++ h :: H3) (E1 ++ e :: E3) (hk_recompute (E1 ++ e :: E3)))) k v /\
              (l = 0%nat -> ~ tree_refused (HKey l (H1 ++ h :: H3) (E1 ++ e :: E3) (hk_recompute (E1 ++ e :: E3))) (kid k))).
          { intros NR.
            destruct (IHe e l h k v a) as (e' & a' & evs & Eq & W' & TL & SG);
              [destruct (is_group e); lia|assumption|now apply ewf_e_weak|reflexivity|].
            rewrite Eq. eexists _, a', evs. cbn [to_list]. rewrite !flat_map_mid. rewrite DG.
            split; [reflexivity|]. split; [|split; [|exact NR]].
            - constructor; [assumption|assumption|reflexivity|].
              apply Forall2_app; [assumption|]. constructor; [|assumption].
              apply ewf_ew_strong; [assumption|]. intros G'. rewrite TL.
              destruct (is_group e) eqn:G.
              + pose proof (ewf_e_group_2 _ _ _ We G). pose proof (d_set_from_length_ge dg (levels - l) l (to_list_e e) k v). lia.
              + destruct (d_get (to_list_e e) (kid k)) eqn:D.
                * rewrite SG in G'; [discriminate|reflexivity|congruence].
                * rewrite d_set_from_length_new by assumption. pose proof (ewf_e_nonempty _ _ _ We). lia.
            - cbn [to_list]. rewrite flat_map_mid, TL. replace (levels - l)%nat with (S (levels - S l)) by lia.
              symmetry. apply d_set_from_blocks; assumption. }
          unfold limit_check. destruct (l =? 0)%nat eqn:El0; [|apply Nat.eqb_neq in El0; right; apply CONT; intros; lia].
          apply Nat.eqb_eq in El0.
          destruct (ecount e =? 0)%nat eqn:Ec; [apply Nat.eqb_eq in Ec; pose proof (ecount_pos _ _ _ We); lia|].
          destruct (limit <=? N.of_nat (ecount e - 1)) eqn:Elim.
          -- destruct (get_spec f) as [GS _].
             rewrite (GS e l h (kid k)); [|lia|assumption|now apply ewf_e_weak|reflexivity].
             unfold get_res. destruct (d_get (to_list_e e) (kid k)) eqn:D.
             ++ right. apply CONT. intros _ [Hn _]. cbn [to_list] in Hn. rewrite flat_map_mid, DG in Hn. congruence.
             ++ left. split; [assumption|]. split; [reflexivity|]. cbn [tree_refused to_list].
                rewrite flat_map_mid, DG. split; [first [reflexivity|assumption]|]. subst l. fold h. rewrite HFIND. apply N.leb_le. assumption.
          -- right. apply CONT. intros _ [_ Hr]. subst l. fold h in Hr. rewrite HFIND in Hr. apply N.leb_gt in Elim. lia.
        * (* new digest *)
          destruct (hkey_nf_split _ _ _ _ HF) as (E1 & E3 & -> & L1 & L3 & W1 & W3).
          pose proof (ewf_flat_keys (fun y => y < h) _ _ _ W1 F1) as K1. cbn beta in K1.
          pose proof (ewf_flat_keys (fun y => h < y) _ _ _ W3 F3) as K3. cbn beta in K3.
          right. rewrite set_HKey_notfound by auto. fold h.
          exists (HKey l (H1 ++ h :: H3) (E1 ++ ESingle k v :: E3) (hk_recompute (E1 ++ E3) + (c_digestSize + ssize k v))), a, [].
          cbn [to_list]. rewrite flat_map_app, flat_map_mid.
          assert (DN : d_get (flat_map to_list_e E1 ++ flat_map to_list_e E3) (kid k) = None).
          { destruct (d_get_blocks dg l (flat_map to_list_e E1) [] (flat_map to_list_e E3) (kid k)) as [DG _];
              [apply lt_neq_Forall with (P := fun p => dg (kid (fst p)) l); exact K1
              |apply gt_neq_Forall with (P := fun p => dg (kid (fst p)) l); exact K3|].
            exact DG. }
          rewrite DN. split; [reflexivity|]. split; [|split].
          -- constructor; [assumption|apply ssorted_insert; assumption| |].
             ++ rewrite !hk_recompute_eq, !map_app, !Nsum_app. cbn [map Nsum fold_right esize]. unfold Nsum. lia.
             ++ apply Forall2_app; [assumption|]. constructor; [constructor|assumption].
          -- replace (levels - l)%nat with (S (levels - S l)) by lia.
             change (flat_map to_list_e E1 ++ flat_map to_list_e E3) with (flat_map to_list_e E1 ++ [] ++ flat_map to_list_e E3).
             rewrite (d_set_from_blocks dg (levels - S l) l) by assumption. reflexivity.
          -- intros -> [_ Hr]. fold h in Hr. rewrite hk_find_none in Hr; [exact Hr|].
             intros Hin. apply in_app_or in Hin. rewrite Forall_forall in F1, F3.
             destruct Hin as [Hin|Hin]; [specialize (F1 _ Hin)|specialize (F3 _ Hin)]; lia.
      + (* list mode *)
        right. cbn [MapElems.set_elems to_list]. rewrite Nat.eqb_refl. cbn [negb].
        rewrite Nat.sub_diag. unfold d_set_from.
        destruct (find_key (kid k) kvs) as [i|] eqn:Ef.
        * destruct (find_key_some _ _ _ Ef) as (K1 & [k0 v0] & K3 & -> & -> & Hk & Hn). cbn [fst] in Hk.
          rewrite nth_error_app_mid, replace_at_app, d_get_mid by assumption.
          eexists _, a, []. split; [reflexivity|]. split; [|split; [|intros _ []]].
          -- constructor; [reflexivity|]. unfold dkeys in *. rewrite map_app in *. exact Hnd.
          -- cbn [to_list]. rewrite d_replace_app, Hn. cbn [d_replace fst]. rewrite Hk, N.eqb_refl. reflexivity.
        * rewrite (find_key_none _ _ Ef). eexists _, a, []. split; [reflexivity|]. split; [|split; [|intros _ []]].
          -- rewrite <- d_ins_from_0 with (l := levels). constructor.
             ++ rewrite d_ins_from_0, !sl_recompute_eq, map_app, Nsum_app. unfold Nsum at 3. cbn [map fold_right fst snd]. lia.
             ++ apply d_ins_from_NoDup; [assumption|]. apply d_get_none_iff. now apply find_key_none.
          -- cbn [to_list]. now rewrite d_ins_from_0.
  Qed.

  (* ====================================================================== *)
  (* 6. Remove                                                              *)
  (* ====================================================================== *)

  Lemma flat_nonempty l hks es : Forall2 (ewf_e l) hks es -> (length es <= length (flat_map to_list_e es))%nat.
  Proof.
    induction 1 as [|h e hks es He HF IH]; cbn; [lia|]. rewrite app_length.
    pose proof (ewf_e_nonempty _ _ _ He). lia.
  Qed.

  Lemma collapse_spec l h loc g' kvp evs :
    ewf_g (S l) g' -> (1 <= length (to_list g'))%nat -> keys_dg l h (to_list g') -> loc_ok l loc ->
    exists e' evs', collapse_group loc g' kvp evs = inr (Some e', kvp, evs') /\
                    ewf_e l h e' /\ to_list_e e' = to_list g'.
  Proof.
    intros Wg L1 Hk Hloc. unfold collapse_group.
    assert (KEEP : (2 <= length (to_list g'))%nat -> ewf_e l h (EGroup loc g')) by (intros; constructor; assumption).
    inversion Wg as [l' hks es sz Hl Hs Hsz HF|kvs sz Hsz Hnd]; subst.
    - pose proof (flat_nonempty _ _ _ HF) as Hne. cbn [to_list gcount] in *.
      destruct es as [|e1 [|e2 es]].
      + cbn in L1. lia.
      + cbn [length Nat.eqb]. destruct (is_group e1) eqn:G.
        * eexists _, _. split; [reflexivity|]. split; [|reflexivity]. apply KEEP.
          inversion HF as [|? ? ? ? He1 _]; subst. cbn. rewrite app_nil_r. exact (ewf_e_group_2 _ _ _ He1 G).
        * destruct e1 as [k1 v1|]; [|discriminate]. eexists _, _. split; [reflexivity|].
          cbn [flat_map to_list_e app] in *. split; [|reflexivity].
          inversion Hk as [|? ? Hk1 _]. cbn [fst] in Hk1. rewrite <- Hk1. constructor.
      + cbn [length Nat.eqb]. eexists _, _. split; [reflexivity|]. split; [|reflexivity].
        apply KEEP. cbn [length] in Hne. lia.
    - cbn [to_list gcount] in *. destruct kvs as [|[k1 v1] [|p2 kvs]].
      + cbn in L1. lia.
      + cbn [length Nat.eqb]. eexists _, _. split; [reflexivity|]. split; [|reflexivity].
        inversion Hk as [|? ? Hk1 _]. cbn [fst] in Hk1. rewrite <- Hk1. constructor.
      + cbn [length Nat.eqb]. eexists _, _. split; [reflexivity|]. split; [|reflexivity].
        apply KEEP. cbn. lia.
  Qed.

  Lemma remove_spec : forall f,
    (forall e l h k, (3 * (levels - l) + 2 <= f)%nat -> (l < levels)%nat -> ewf_e l h e -> dg k l = h ->
       match d_get (to_list_e e) k with
       | None => remove_elem f e l k = inl EKeyNotFound
       | Some p => exists oe evs, remove_elem f e l k = inr (oe, p, evs) /\
           match oe with
           | None => to_list_e e = [p]
           | Some e' => ewf_e l h e' /\ to_list_e e' = d_remove (to_list_e e) k
           end
       end) /\
    (forall g l k, (3 * (levels - l) + 3 <= f)%nat -> ewf_g l g ->
       match d_get (to_list g) k with
       | None => remove_elems f g l k = inl EKeyNotFound
       | Some p => exists g' evs, remove_elems f g l k = inr (g', p, evs) /\ ewf_g l g' /\
                                  to_list g' = d_remove (to_list g) k
       end).
  Proof.
    induction f as [|f [IHe IHg]]; [split; intros; lia|]. split.
    - intros e l h k Hf Hl He Hh. destruct e as [k0 v0|loc g].
      + cbn [MapElems.remove_elem to_list_e d_get fst]. destruct (kid k0 =? k); [|reflexivity].
        exists None, []. split; reflexivity.
      + inversion He as [|? ? ? ? Hg H2 Hk Hloc]; subst.
        cbn [MapElems.remove_elem to_list_e]. fold (MapElems.remove_elems dg levels).
        replace (levels <? S l)%nat with false by (symmetry; apply Nat.ltb_ge; lia).
        specialize (IHg g (S l) k). destruct (d_get (to_list g) k) as [p|] eqn:D.
        * destruct IHg as (g' & evs & Eq & Wg & TL); [lia|assumption|]. rewrite Eq.
          destruct (collapse_spec l (dg k l) loc g' p evs) as (e' & evs' & Ec & We' & TLe); try assumption.
          -- rewrite TL. pose proof (d_remove_length _ _ _ D). lia.
          -- rewrite TL. now apply d_remove_Forall.
          -- exists (Some e'), evs'. split; [assumption|]. split; [assumption|]. congruence.
        * rewrite IHg; [reflexivity|lia|assumption].
    - intros g l k Hf Hg. inversion Hg as [l' hks es sz Hl Hs Hsz HF|kvs sz Hsz Hnd]; subst.
      + set (h := dg k l).
        destruct (hks_split h hks Hs) as [(H1 & H3 & ->)|(H1 & H3 & -> & F1 & F3)].
        * destruct (hkey_found_split _ _ _ _ _ HF) as (E1 & e & E3 & -> & L1 & L3 & W1 & We & W3).
          destruct (ssorted_app_inv _ _ _ Hs) as (_ & _ & S1 & S3).
          pose proof (ewf_flat_keys (fun y => y < h) _ _ _ W1 S1) as K1. cbn beta in K1.
          pose proof (ewf_flat_keys (fun y => h < y) _ _ _ W3 S3) as K3. cbn beta in K3.
          destruct (d_get_blocks dg l (flat_map to_list_e E1) (to_list_e e) (flat_map to_list_e E3) k) as [DG DR];
            [apply lt_neq_Forall with (P := fun p => dg (kid (fst p)) l); exact K1
            |apply gt_neq_Forall with (P := fun p => dg (kid (fst p)) l); exact K3|].
          cbn [to_list]. rewrite flat_map_mid, DG, DR. rewrite remove_HKey_found by auto.
          specialize (IHe e l h k). destruct (d_get (to_list_e e) k) as [p|] eqn:D.
          -- destruct IHe as (oe & evs & Eq & Post); [lia|assumption|assumption|reflexivity|]. rewrite Eq.
             destruct oe as [e'|].
             ++ destruct Post as [We' TLe]. eexists _, evs. split; [reflexivity|]. split.
                ** constructor; [assumption|assumption| |].
                   --- rewrite !hk_recompute_eq, !map_app, !Nsum_app. cbn [map]. unfold Nsum. cbn [fold_right]. lia.
                   --- apply Forall2_app; [assumption|]. constructor; assumption.
                ** cbn [to_list]. rewrite flat_map_mid, TLe. reflexivity.
             ++ eexists _, evs. split; [reflexivity|]. split.
                ** constructor; [assumption|eapply ssorted_delete; eassumption| |].
                   --- rewrite !hk_recompute_eq, !map_app, !Nsum_app. cbn [map]. unfold Nsum. cbn [fold_right]. lia.
                   --- apply Forall2_app; assumption.
                ** cbn [to_list]. rewrite flat_map_app, Post. cbn [d_remove].
                   destruct (d_get_some _ _ _ D) as [_ Hp]. rewrite Post in D. cbn [d_get] in D.
                   destruct (kid (fst p) =? k) eqn:Ep; [reflexivity|]. apply N.eqb_neq in Ep. congruence.
          -- rewrite IHe; [reflexivity|lia|assumption|assumption|reflexivity].
        * rewrite remove_HKey_notfound by auto.
          replace (d_get (to_list (HKey l (H1 ++ H3) es (hk_recompute es))) k) with (@None (kv * kv)); [reflexivity|].
          symmetry. apply d_get_none_iff. unfold dkeys. cbn [to_list]. rewrite in_map_iff. intros (p & Ep & Hp).
          assert (HP : Forall (fun y => y <> h) (H1 ++ H3)).
          { apply Forall_app; split; (eapply Forall_impl; [|eassumption]); cbn; intros; lia. }
          pose proof (ewf_flat_keys (fun y => y <> h) _ _ _ HF HP) as Hk.
          rewrite Forall_forall in Hk. specialize (Hk _ Hp). cbn in Hk. subst h. congruence.
      + cbn [MapElems.remove_elems to_list]. rewrite Nat.eqb_refl. cbn [negb].
        destruct (find_key k kvs) as [i|] eqn:Ef.
        * destruct (find_key_some _ _ _ Ef) as (K1 & [k0 v0] & K3 & -> & -> & Hk & Hn). cbn [fst] in Hk.
          rewrite nth_error_app_mid, delete_at_app, d_get_mid by assumption.
          eexists _, []. split; [reflexivity|]. split.
          -- constructor.
             ++ rewrite !sl_recompute_eq, !map_app, !Nsum_app. cbn [map fst snd]. unfold Nsum. cbn [fold_right]. lia.
             ++ unfold dkeys in *. rewrite map_app in *. cbn [map] in Hnd. eapply NoDup_remove_1; eassumption.
          -- cbn [to_list]. rewrite d_remove_app, Hn. cbn [d_remove fst]. rewrite Hk, N.eqb_refl. reflexivity.
        * rewrite (find_key_none _ _ Ef). reflexivity.
  Qed.

  (* ====================================================================== *)
  (* 7. iteration order                                                     *)
  (* ====================================================================== *)

  Section ind.
    Variable Pe : melem -> Prop.
    Variable Pg : melems -> Prop.
    Hypothesis HS : forall k v, Pe (ESingle k v).
    Hypothesis HG : forall loc g, Pg g -> Pe (EGroup loc g).
    Hypothesis HH : forall l hks es sz, Forall Pe es -> Pg (HKey l hks es sz).
    Hypothesis HL : forall l kvs sz, Pg (SList l kvs sz).
    Fixpoint melem_ind' (e : melem) : Pe e :=
      match e with
      | ESingle k v => HS k v
      | EGroup loc g => HG loc g (melems_ind' g)
      end
    with melems_ind' (g : melems) : Pg g :=
      match g with
      | HKey l hks es sz =>
        HH l hks es sz ((fix go (es : list melem) : Forall Pe es :=
                           match es with [] => Forall_nil _ | e :: r => Forall_cons e (melem_ind' e) (go r) end) es)
      | SList l kvs sz => HL l kvs sz
      end.
    Lemma melem_melems_ind : (forall e, Pe e) /\ (forall g, Pg g).
    Proof. split; [exact melem_ind'|exact melems_ind']. Qed.
  End ind.

  (* PopIterate visits the entries in exactly the reverse order of Iterate *)
  Lemma pop_list_rev : (forall e, fst (pop_list_e e) = rev (to_list_e e)) /\ (forall g, fst (pop_list g) = rev (to_list g)).
  Proof.
    apply melem_melems_ind.
    - reflexivity.
    - intros loc g IH. cbn [pop_list_e to_list_e]. destruct (pop_list g) as [d evs]. exact IH.
    - intros l hks es sz IH. cbn [pop_list to_list].
      assert (G : forall acc, fst (fold_left (fun (acc : dict * list wev) e => let '(d, evs) := pop_list_e e in (d ++ fst acc, evs ++ snd acc)) es acc)
                              = rev (flat_map to_list_e es) ++ fst acc).
      { induction IH as [|e es He _ IHes]; intros acc; cbn [fold_left flat_map]; [reflexivity|].
        rewrite IHes. destruct (pop_list_e e) as [d evs] eqn:E. cbn [fst] in *. rewrite He, rev_app_distr, app_assoc. reflexivity. }
      rewrite G. cbn [fst]. now rewrite app_nil_r.
    - reflexivity.
  Qed.

  (* canonical order: entry p is not after entry q *)
  Definition d_le (n l : nat) (p q : kv * kv) : Prop := dlt dg n l (kid (fst q)) (kid (fst p)) = false.
  Definition d_sorted (n l : nat) (d : dict) : Prop := StronglySorted (d_le n l) d.

  Lemma StronglySorted_app {A} (R : A -> A -> Prop) a b :
    StronglySorted R a -> StronglySorted R b -> (forall x y, In x a -> In y b -> R x y) -> StronglySorted R (a ++ b).
  Proof.
    induction 1 as [|x a Ha IH Hf]; intros Hb Hab; cbn; [assumption|].
    constructor; [apply IH; [assumption|]; intros; apply Hab; [now right|assumption]|].
    apply Forall_app; split; [assumption|]. rewrite Forall_forall. intros y Hy. apply Hab; [now left|assumption].
  Qed.

  Lemma d_sorted_agree n l d : (forall p q, In p d -> In q d -> dg (kid (fst p)) l = dg (kid (fst q)) l) ->
    d_sorted n (S l) d -> d_sorted (S n) l d.
  Proof.
    unfold d_sorted. intros Hag Hs. induction Hs as [|x d Hs IH Hf]; constructor.
    - apply IH. intros; apply Hag; now right.
    - rewrite Forall_forall in *. intros y Hy. unfold d_le. rewrite dlt_agree; [now apply Hf|].
      apply Hag; [now right|now left].
  Qed.

  Lemma NoDup_app_intro {A} (a b : list A) : NoDup a -> NoDup b -> (forall x, In x a -> In x b -> False) -> NoDup (a ++ b).
  Proof.
    induction 1 as [|x a Hx Ha IH]; intros Hb Hd; cbn; [assumption|]. constructor.
    - rewrite in_app_iff. intros [H|H]; [tauto|]. eapply Hd; [now left|eassumption].
    - apply IH; [assumption|]. intros y Hy. apply Hd. now right.
  Qed.

  Lemma dkeys_app a b : dkeys (a ++ b) = dkeys a ++ dkeys b.
  Proof. unfold dkeys. apply map_app. Qed.

  Lemma in_dkeys x d : In x (dkeys d) -> exists p, In p d /\ kid (fst p) = x.
  Proof. unfold dkeys. rewrite in_map_iff. intros (p & E & H). eauto. Qed.

  Lemma order_spec :
    (forall e l h, ewf_e l h e -> (l < levels)%nat -> d_sorted (levels - l) l (to_list_e e) /\ NoDup (dkeys (to_list_e e))) /\
    (forall g l, ewf_g l g -> d_sorted (levels - l) l (to_list g) /\ NoDup (dkeys (to_list g))).
  Proof.
    apply melem_melems_ind.
    - intros k v l h _ _. cbn. split; repeat constructor. cbn. tauto.
    - intros loc g IH l h He Hl. inversion He as [|? ? ? ? Hg H2 Hk Hloc]; subst. cbn [to_list_e].
      destruct (IH _ Hg) as [Hs Hn]. split; [|assumption].
      replace (levels - l)%nat with (S (levels - S l)) by lia. apply d_sorted_agree; [|assumption].
      intros p q Hp Hq. unfold MapElemsInv.keys_dg in Hk. rewrite Forall_forall in Hk. rewrite (Hk _ Hp), (Hk _ Hq). reflexivity.
    - intros l0 hks es sz IH l Hg. inversion Hg as [l' ? ? ? Hl Hs Hsz HF|]; subst. cbn [to_list]. clear Hg.
      revert IH Hs. induction HF as [|h e hks es He HF IHF]; intros IH Hs; cbn [flat_map]; [split; constructor|].
      inversion IH as [|? ? IHe IHes]; subst. inversion Hs as [|? ? Hs' Hf]; subst.
      destruct (IHe _ _ He Hl) as [Se Ne]. destruct (IHF IHes Hs') as [Sr Nr].
      pose proof (ewf_e_keys _ _ _ He) as Ke. unfold MapElemsInv.keys_dg in Ke. rewrite Forall_forall in Ke.
      pose proof (ewf_flat_keys (fun y => h < y) _ _ _ HF Hf) as Kr. cbn beta in Kr. rewrite Forall_forall in Kr.
      split.
      + apply StronglySorted_app; [assumption|assumption|]. intros x y Hx Hy. unfold d_le.
        match goal with |- context [(levels - ?x)%nat] => replace (levels - x)%nat with (S (levels - S x)) by lia end.
        apply dlt_gt. rewrite (Ke _ Hx). now apply Kr.
      + rewrite dkeys_app. apply NoDup_app_intro; [assumption|assumption|]. intros x Hx Hy.
        destruct (in_dkeys _ _ Hx) as (p & Hp & Ep). destruct (in_dkeys _ _ Hy) as (q & Hq & Eq).
        specialize (Ke _ Hp). specialize (Kr _ Hq). rewrite Ep in Ke. rewrite Eq in Kr. lia.
    - intros l0 kvs sz l Hg. inversion Hg; subst. cbn [to_list]. split; [|assumption].
      rewrite Nat.sub_diag. unfold d_sorted. clear. induction kvs as [|p kvs IH]; constructor; [assumption|].
      rewrite Forall_forall. intros; reflexivity.
  Qed.

  (* ====================================================================== *)
  (* 8. the collision limit, read from the dictionary                       *)
  (* ====================================================================== *)

  Lemma existsb_eqb_In x l : existsb (N.eqb x) l = true <-> In x l.
  Proof.
    rewrite existsb_exists. split.
    - intros (y & Hy & E). apply N.eqb_eq in E. now subst.
    - intros H. exists x. split; [assumption|apply N.eqb_refl].
  Qed.

  Lemma ndistinct_block x a R : a <> [] -> Forall (eq x) a -> ~ In x R -> ndistinct (a ++ R) = S (ndistinct R).
  Proof.
    induction a as [|y a IH]; intros Hne Ha Hn; [congruence|]. inversion Ha; subst. cbn [app ndistinct].
    destruct a as [|z a].
    - cbn [app]. destruct (existsb (N.eqb y) R) eqn:E; [apply existsb_eqb_In in E; tauto|reflexivity].
    - replace (existsb (N.eqb y) ((z :: a) ++ R)) with true.
      + apply IH; [discriminate|assumption|assumption].
      + symmetry. apply existsb_eqb_In. inversion H2; subst. now left.
  Qed.

  Lemma ndistinct_NoDup l : NoDup l -> ndistinct l = length l.
  Proof.
    induction 1 as [|x l Hx Hl IH]; [reflexivity|]. cbn.
    destruct (existsb (N.eqb x) l) eqn:E; [apply existsb_eqb_In in E; tauto|]. now rewrite IH.
  Qed.

  Lemma filter_all {A} (f : A -> bool) l : Forall (fun x => f x = true) l -> filter f l = l.
  Proof. induction 1 as [|x l Hx Hl IH]; cbn; [reflexivity|]. now rewrite Hx, IH. Qed.

  Lemma filter_none {A} (f : A -> bool) l : Forall (fun x => f x = false) l -> filter f l = [].
  Proof. induction 1 as [|x l Hx Hl IH]; cbn; [reflexivity|]. now rewrite Hx, IH. Qed.

  Lemma Forall_dkeys (Q : N -> Prop) d : Forall (fun p : kv * kv => Q (kid (fst p))) d -> Forall Q (dkeys d).
  Proof. unfold dkeys. induction 1; cbn; constructor; assumption. Qed.

  Lemma hk_find_wf l h hks es e : Forall2 (ewf_e l) hks es -> hk_find h hks es = Some e -> ewf_e l h e.
  Proof.
    induction 1 as [|x e0 hks es He HF IH]; cbn; [discriminate|]. destruct (x =? h) eqn:E.
    - apply N.eqb_eq in E. intros [= <-]. now subst.
    - assumption.
  Qed.

  Lemma filter_keys_block l h hks es : Forall2 (ewf_e l) hks es -> ssorted hks ->
    filter (fun k => dg k l =? h) (dkeys (flat_map to_list_e es)) =
    match hk_find h hks es with Some e => dkeys (to_list_e e) | None => [] end.
  Proof.
    induction 1 as [|x e hks es He HF IH]; intros Hs; cbn [flat_map hk_find]; [reflexivity|].
    inversion Hs as [|? ? Hs' Hf]; subst. rewrite dkeys_app, filter_app.
    pose proof (Forall_dkeys (fun a => dg a l = x) _ (ewf_e_keys _ _ _ He)) as Ke.
    pose proof (Forall_dkeys (fun a => x < dg a l) _ (ewf_flat_keys (fun y => x < y) _ _ _ HF Hf)) as Kr.
    destruct (x =? h) eqn:E.
    - apply N.eqb_eq in E. subst h. rewrite filter_all, filter_none; [apply app_nil_r| |].
      + eapply Forall_impl; [|exact Kr]. cbn. intros a Ha. apply N.eqb_neq. lia.
      + eapply Forall_impl; [|exact Ke]. cbn. intros a Ha. now apply N.eqb_eq.
    - apply N.eqb_neq in E. rewrite IH by assumption. rewrite filter_none; [reflexivity|].
      eapply Forall_impl; [|exact Ke]. cbn. intros a Ha. apply N.eqb_neq. congruence.
  Qed.

  Lemma level1_fanout hks es : Forall2 (ewf_e 1) hks es -> ssorted hks ->
    ndistinct (map (fun k => dg k 1) (dkeys (flat_map to_list_e es))) = length es.
  Proof.
    induction 1 as [|x e hks es He HF IH]; intros Hs; cbn [flat_map length]; [reflexivity|].
    inversion Hs as [|? ? Hs' Hf]; subst. rewrite dkeys_app, map_app.
    pose proof (Forall_dkeys (fun a => dg a 1 = x) _ (ewf_e_keys _ _ _ He)) as Ke.
    pose proof (Forall_dkeys (fun a => x < dg a 1) _ (ewf_flat_keys (fun y => x < y) _ _ _ HF Hf)) as Kr.
    rewrite (ndistinct_block x); [now rewrite IH| | |].
    - pose proof (ewf_e_nonempty _ _ _ He). unfold dkeys. destruct (to_list_e e); cbn in *; [lia|discriminate].
    - rewrite Forall_map. eapply Forall_impl; [|exact Ke]. cbn. intros; congruence.
    - rewrite in_map_iff. intros (a & Ea & Ha). rewrite Forall_forall in Kr. specialize (Kr _ Ha). cbn in Kr. lia.
  Qed.

  Lemma elem_fanout h e : ewf_e 0 h e -> ndistinct (map (subkey dg levels) (dkeys (to_list_e e))) = ecount e.
  Proof.
    inversion 1 as [|? ? ? g Hg H2 Hk Hloc]; subst; [reflexivity|]. cbn [to_list_e ecount].
    inversion Hg as [l' hks es sz Hl Hs Hsz HF El Eg|kvs sz Hsz Hnd El Eg]; subst g; cbn [to_list gcount].
    - subst. rewrite <- (level1_fanout hks es HF Hs). f_equal. apply map_ext. intros a. unfold subkey.
      replace (1 <? levels)%nat with true by (symmetry; apply Nat.ltb_lt; lia). reflexivity.
    - replace (length kvs) with (length (dkeys kvs)) by (unfold dkeys; apply map_length).
      rewrite <- (ndistinct_NoDup _ Hnd). f_equal. rewrite <- (map_id (dkeys kvs)) at 2. apply map_ext. intros a.
      unfold subkey. reflexivity.
  Qed.

  Lemma fanout_tree hks es sz h : ewf_g 0 (HKey 0 hks es sz) ->
    fanout dg levels (to_list (HKey 0 hks es sz)) h = match hk_find h hks es with Some e => ecount e | None => 0%nat end.
  Proof.
    intros Hg. inversion Hg as [l' ? ? ? Hl Hs Hsz HF|]; subst. unfold fanout. cbn [to_list].
    change (map (fun p : kv * kv => kid (fst p)) (flat_map to_list_e es)) with (dkeys (flat_map to_list_e es)).
    rewrite (filter_keys_block 0 h hks es HF Hs). destruct (hk_find h hks es) as [e|] eqn:E; [|reflexivity].
    apply (elem_fanout h). eapply hk_find_wf; eassumption.
  Qed.

  Lemma refused_iff g k : (1 <= levels)%nat -> ewf_g 0 g ->
    (tree_refused g k <-> refused dg levels limit (to_list g) k = true).
  Proof.
    intros Hlv Hg. inversion Hg as [l' hks es sz Hl Hs Hsz HF|kvs sz Hsz Hnd]; [subst|lia].
    unfold tree_refused, refused. rewrite (fanout_tree hks es _ (dg k 0) Hg).
    destruct (d_get (to_list (HKey 0 hks es (hk_recompute es))) k); [split; [intros [? _]; discriminate|discriminate]|].
    destruct (hk_find (dg k 0) hks es) as [e|] eqn:E.
    - pose proof (ecount_pos _ _ _ (hk_find_wf _ _ _ _ _ HF E)) as Hp.
      replace (1 <=? ecount e)%nat with true by (symmetry; apply Nat.leb_le; lia). cbn [andb].
      rewrite N.leb_le. tauto.
    - cbn. split; [tauto|discriminate].
  Qed.

  (* ====================================================================== *)
  (* 9. one operation, whole histories                                      *)
  (* ====================================================================== *)

  Local Notation mwf := (mwf dg levels).
  Local Notation m_step := (m_step dg levels max_inline_elem limit).
  Local Notation d_step := (d_step dg levels limit).

  Lemma ewf_init a : (1 <= levels)%nat -> mwf (m_init a).
  Proof.
    intros H. split; [|reflexivity]. cbn. constructor; [lia|constructor|reflexivity|constructor].
  Qed.

  Lemma d_set_eq d k v : d_set dg levels d k v = d_set_from levels 0 d k v.
  Proof. reflexivity. Qed.

  Definition op_ok (o : mop) : Prop := o <> OIterNext.

  Lemma m_step_refines s o : (1 <= levels)%nat -> mwf s -> op_ok o ->
    d_step (to_list (m_root s)) o = (to_list (m_root (fst (fst (m_step s o)))), snd (fst (m_step s o))) /\
    mwf (fst (fst (m_step s o))).
  Proof.
    intros Hlv [Hw Hc] Hok. destruct s as [g c a]. cbn [m_root m_count m_next] in *.
    unfold ewf in Hw. destruct o as [k v|k|k|k| | | |]; cbn [MapElems.m_step MapElems.d_step m_root m_count m_next].
    - (* Set *)
      destruct (set_spec (op_fuel levels)) as [_ SG].
      destruct (SG g 0%nat k v a) as [(_ & Eq & Hr)|(g' & a' & evs & Eq & Wg & TL & Hr)]; [unfold op_fuel; lia|assumption| |].
      + rewrite Eq. cbn [fst snd m_root]. apply (refused_iff g (kid k) Hlv Hw) in Hr. rewrite Hr.
        split; [reflexivity|split; assumption].
      + rewrite Eq. cbn [fst snd m_root]. specialize (Hr eq_refl).
        destruct (refused dg levels limit (to_list g) (kid k)) eqn:R; [exfalso; apply Hr; now apply (refused_iff g (kid k) Hlv Hw)|].
        rewrite Nat.sub_0_r in TL. rewrite d_set_eq, TL. split; [reflexivity|]. split; [exact Wg|].
        cbn [m_root m_count]. rewrite TL. unfold MapElems_proofs.d_set_from.
        destruct (d_get (to_list g) (kid k)); cbn [option_map]; [rewrite d_replace_length; assumption|].
        rewrite d_ins_from_length. lia.
    - (* Get *)
      destruct (get_spec (op_fuel levels)) as [_ GG]. rewrite (GG g 0%nat k); [|unfold op_fuel; lia|assumption].
      unfold get_res. destruct (d_get (to_list g) k) as [[k0 v0]|]; cbn; (split; [reflexivity|split; assumption]).
    - (* Has *)
      destruct (get_spec (op_fuel levels)) as [_ GG]. rewrite (GG g 0%nat k); [|unfold op_fuel; lia|assumption].
      unfold get_res. destruct (d_get (to_list g) k) as [[k0 v0]|]; cbn; (split; [reflexivity|split; assumption]).
    - (* Remove *)
      destruct (remove_spec (op_fuel levels)) as [_ RG]. specialize (RG g 0%nat k).
      destruct (d_get (to_list g) k) as [[k0 v0]|] eqn:D.
      + destruct RG as (g' & evs & Eq & Wg & TL); [unfold op_fuel; lia|assumption|]. rewrite Eq. cbn [fst snd m_root].
        rewrite TL. split; [reflexivity|]. split; [exact Wg|]. cbn [m_root m_count]. rewrite TL.
        pose proof (d_remove_length _ _ _ D). lia.
      + rewrite RG; [|unfold op_fuel; lia|assumption]. cbn. split; [reflexivity|split; assumption].
    - cbn. split; [now rewrite Hc|split; assumption].
    - cbn. split; [reflexivity|split; assumption].
    - exfalso. now apply Hok.
    - (* Pop *)
      destruct pop_list_rev as [_ PR]. specialize (PR g). destruct (pop_list g) as [d evs]. cbn [fst] in PR. subst d.
      cbn. split; [reflexivity|]. split; [|reflexivity]. constructor; [lia|constructor|reflexivity|constructor].
  Qed.

  Local Notation m_run := (m_run dg levels max_inline_elem limit).
  Local Notation d_run := (d_run dg levels limit).

  Lemma m_run_refines ops : (1 <= levels)%nat -> Forall op_ok ops -> forall s, mwf s ->
    snd (m_run s ops) = snd (d_run (to_list (m_root s)) ops) /\
    to_list (m_root (fst (m_run s ops))) = fst (d_run (to_list (m_root s)) ops) /\
    mwf (fst (m_run s ops)).
  Proof.
    intros Hlv. induction 1 as [|o ops Ho Hops IH]; intros s Hs; cbn [MapElems.m_run MapElems.d_run].
    - cbn. auto.
    - destruct (m_step_refines s o Hlv Hs Ho) as [E W]. destruct (m_step s o) as [[s1 x] evs]. cbn [fst snd] in *.
      rewrite E. destruct (IH s1 W) as (I1 & I2 & I3).
      destruct (m_run s1 ops) as [s2 xs]. destruct (d_run (to_list (m_root s1)) ops) as [d2 ys]. cbn [fst snd] in *.
      subst. auto.
  Qed.

  (* ====================================================================== *)
  (* 10. statements used by the property files                              *)
  (* ====================================================================== *)

  Lemma refused_absent d k : d_get d k = None ->
    (refused dg levels limit d k = true <-> limit + 1 <= N.of_nat (fanout dg levels d (dg k 0))).
  Proof.
    intros D. unfold refused. rewrite D. rewrite andb_true_iff, Nat.leb_le, N.leb_le. lia.
  Qed.

  Lemma refused_present d k p : d_get d k = Some p -> refused dg levels limit d k = false.
  Proof. intros D. unfold refused. now rewrite D. Qed.

  Lemma set_error_unchanged s k v :
    forall e, snd (fst (m_step s (OSet k v))) = RErr e ->
              fst (fst (m_step s (OSet k v))) = s /\ snd (m_step s (OSet k v)) = [].
  Proof.
    intros e. cbn [MapElems.m_step].
    destruct (set_elems (op_fuel levels) (m_root s) 0 k v (m_next s)) as [err|[[[g' prev] a'] evs]]; cbn; [auto|discriminate].
  Qed.

  Lemma limit_enforced s k v : (1 <= levels)%nat -> mwf s -> d_get (to_list (m_root s)) (kid k) = None ->
    (limit + 1 <= N.of_nat (fanout dg levels (to_list (m_root s)) (dg (kid k) 0)) <->
       snd (fst (m_step s (OSet k v))) = RErr ECollisionLimit) /\
    (snd (fst (m_step s (OSet k v))) = RErr ECollisionLimit ->
       fst (fst (m_step s (OSet k v))) = s /\ snd (m_step s (OSet k v)) = []) /\
    (snd (fst (m_step s (OSet k v))) <> RErr ECollisionLimit ->
       snd (fst (m_step s (OSet k v))) = RPrev None /\
       to_list (m_root (fst (fst (m_step s (OSet k v))))) = d_ins dg levels (to_list (m_root s)) k v).
  Proof.
    intros Hlv Hs D. destruct (m_step_refines s (OSet k v) Hlv Hs) as [E _]; [discriminate|].
    cbn [MapElems.d_step] in E. rewrite <- (refused_absent _ _ D).
    destruct (refused dg levels limit (to_list (m_root s)) (kid k)) eqn:R.
    - pose proof (f_equal snd E) as E2. cbn [fst snd] in E2. split; [split; auto|]. split; [apply set_error_unchanged|]. intros H. congruence.
    - pose proof (f_equal fst E) as E1. pose proof (f_equal snd E) as E2. cbn [fst snd] in E1, E2.
      rewrite D in E2. cbn [option_map] in E2. split; [|split].
      + split; [discriminate|]. intros H. rewrite H in E2. discriminate.
      + apply set_error_unchanged.
      + intros _. split; [congruence|]. rewrite <- E1. unfold d_set. now rewrite D.
  Qed.

  Lemma updates_accepted s k v p : (1 <= levels)%nat -> mwf s -> d_get (to_list (m_root s)) (kid k) = Some p ->
    snd (fst (m_step s (OSet k v))) = RPrev (Some (snd p)) /\
    to_list (m_root (fst (fst (m_step s (OSet k v))))) = d_replace (to_list (m_root s)) (kid k) v /\
    mwf (fst (fst (m_step s (OSet k v)))).
  Proof.
    intros Hlv Hs D. destruct (m_step_refines s (OSet k v) Hlv Hs) as [E W]; [discriminate|].
    cbn [MapElems.d_step] in E. rewrite (refused_present _ _ _ D), D in E.
    pose proof (f_equal fst E) as E1. pose proof (f_equal snd E) as E2. cbn [fst snd option_map] in E1, E2.
    split; [congruence|]. split; [|assumption]. rewrite <- E1. unfold d_set. now rewrite D.
  Qed.

  (* a well-formed group is never a group around one single (non-group) element *)
  Lemma group_not_collapsed l h loc g : ewf_e l h (EGroup loc g) -> not_collapsed g.
  Proof.
    inversion 1 as [|? ? ? ? Hg H2 Hk Hloc]; subst.
    inversion Hg as [l' hks es sz Hl Hs Hsz HF|kvs sz Hsz Hnd]; subst; cbn [to_list] in H2; cbn [not_collapsed].
    - destruct es as [|e1 [|e2 es]]; [cbn in H2; lia| |exact I].
      destruct e1 as [k1 v1|]; [cbn in H2; lia|reflexivity].
    - destruct kvs as [|p1 [|p2 kvs]]; cbn in H2; try lia; exact I.
  Qed.

  (* shape of the element stored under a digest, by the number of keys sharing the digest prefix *)
  Lemma elem_shape l h e : ewf_e l h e ->
    match e with
    | ESingle _ _ => length (to_list_e e) = 1%nat
    | EGroup loc g => (2 <= length (to_list_e e))%nat /\ not_collapsed g /\ mlevel g = S l /\
                      (loc <> None -> l = 0%nat)
    end.
  Proof.
    intros He. destruct e as [k v|loc g]; [reflexivity|].
    pose proof (group_not_collapsed _ _ _ _ He) as NC.
    inversion He as [|? ? ? ? Hg H2 Hk Hloc]; subst. repeat split; try assumption.
    - inversion Hg; reflexivity.
    - intros Hn. destruct loc; [exact Hloc|congruence].
  Qed.

  (* when singleElement / inline group Set decides between inline and external *)
  Lemma spill_rule f g l k v a g' prev a' evs : (l < levels)%nat ->
    set_elems f g (S l) k v a = inr (g', prev, a', evs) ->
    set_elem (S f) (EGroup None g) l k v a =
    if (l =? 0)%nat && (max_inline_elem <? c_inlineCollisionGroupPrefixSize + msize g')
    then inr (EGroup (Some a') g', prev, a' + 1, evs ++ [WStore a'])
    else inr (EGroup None g', prev, a', evs).
  Proof.
    intros Hl E. cbn [MapElems.set_elem]. fold (MapElems.set_elems dg levels max_inline_elem limit).
    replace (levels <? S l)%nat with false by (symmetry; apply Nat.ltb_ge; lia). rewrite E.
    change (S l =? 1)%nat with (l =? 0)%nat. reflexivity.
  Qed.

  (* ====================================================================== *)
  (* 11. next key (mutable iterator)                                        *)
  (* ====================================================================== *)

  Local Notation next_elem := (next_elem dg levels).
  Local Notation next_elems := (next_elems dg levels).

  (* key of the entry that follows the (first) entry with key identity k *)
  Fixpoint d_next (d : dict) (k : N) : option kv :=
    match d with
    | [] => None
    | p :: r => if kid (fst p) =? k then option_map fst (hd_error r) else d_next r k
    end.

  Definition next_res (d : dict) (k : N) : merr + (kv * kv * option kv) :=
    match d_get d k with Some p => inr (fst p, snd p, d_next d k) | None => inl EKeyNotFound end.

  Lemma d_next_app_l a b k : d_get a k = None -> d_next (a ++ b) k = d_next b k.
  Proof. induction a as [|p a IH]; cbn; [reflexivity|]. destruct (kid (fst p) =? k); [discriminate|]. exact IH. Qed.

  Lemma d_next_app_r a b k p : d_get a k = Some p ->
    d_next (a ++ b) k = match d_next a k with Some nk => Some nk | None => option_map fst (hd_error b) end.
  Proof.
    induction a as [|q a IH]; cbn; [discriminate|]. destruct (kid (fst q) =? k).
    - intros _. destruct a; cbn; reflexivity.
    - exact IH.
  Qed.

  Lemma first_key_spec :
    (forall e l h, ewf_e l h e -> first_key_e e = option_map fst (hd_error (to_list_e e))) /\
    (forall g l, ewf_g l g -> first_key g = option_map fst (hd_error (to_list g))).
  Proof.
    apply melem_melems_ind.
    - reflexivity.
    - intros loc g IH l h He. inversion He; subst. cbn [first_key_e to_list_e]. eapply IH; eassumption.
    - intros l0 hks es sz IH l Hg. inversion Hg as [? ? ? ? Hl Hs Hsz HF|]; subst. cbn [first_key to_list].
      destruct HF as [|h e hks es He HF]; [reflexivity|]. inversion IH as [|? ? IHe _]; subst.
      rewrite (IHe _ _ He). cbn [flat_map]. pose proof (ewf_e_nonempty _ _ _ He).
      destruct (to_list_e e); cbn in *; [lia|reflexivity].
    - intros l0 kvs sz l Hg. cbn. destruct kvs; reflexivity.
  Qed.

  Lemma next_HKey_found f lv H1 h H3 E1 e E3 sz l k :
    (l < levels)%nat -> ssorted (H1 ++ h :: H3) -> length E1 = length H1 -> dg k l = h ->
    next_elems (S f) (HKey lv (H1 ++ h :: H3) (E1 ++ e :: E3) sz) l k =
    match next_elem f e l k with
    | inl err => inl err
    | inr (k0, v0, Some nk) => inr (k0, v0, Some nk)
    | inr (k0, v0, None) => inr (k0, v0, match E3 with e2 :: _ => first_key_e e2 | [] => None end)
    end.
  Proof.
    intros Hl Hs Hlen Hh. cbn [MapElems.next_elems]. fold (MapElems.next_elem dg levels).
    replace (levels <=? l)%nat with false by (symmetry; apply Nat.leb_gt; lia).
    rewrite Hh, hk_search_found by assumption. rewrite <- Hlen, nth_error_app_mid, nth_error_app_mid_S.
    destruct (next_elem f e l k) as [|[[k0 v0] [nk|]]]; try reflexivity. destruct E3; reflexivity.
  Qed.

  Lemma next_HKey_notfound f lv H1 H3 es sz l k :
    (l < levels)%nat -> ssorted (H1 ++ H3) ->
    Forall (fun y => y < dg k l) H1 -> Forall (fun y => dg k l < y) H3 ->
    next_elems (S f) (HKey lv (H1 ++ H3) es sz) l k = inl EKeyNotFound.
  Proof.
    intros Hl Hs F1 F3. cbn [MapElems.next_elems].
    replace (levels <=? l)%nat with false by (symmetry; apply Nat.leb_gt; lia).
    destruct (hk_search_notfound _ _ _ Hs F1 F3) as [-> _]. reflexivity.
  Qed.

  Lemma next_spec : forall f,
    (forall e l h k, (3 * (levels - l) + 2 <= f)%nat -> (l < levels)%nat -> ewf_e l h e -> dg k l = h ->
       next_elem f e l k = next_res (to_list_e e) k) /\
    (forall g l k, (3 * (levels - l) + 3 <= f)%nat -> ewf_g l g ->
       next_elems f g l k = next_res (to_list g) k).
  Proof.
    induction f as [|f [IHe IHg]]; [split; intros; lia|]. split.
    - intros e l h k Hf Hl He Hh. destruct e as [k0 v0|loc g].
      + cbn [MapElems.next_elem to_list_e]. unfold next_res. cbn [d_get d_next fst]. destruct (kid k0 =? k); reflexivity.
      + cbn [MapElems.next_elem to_list_e]. fold (MapElems.next_elems dg levels).
        replace (levels <? S l)%nat with false by (symmetry; apply Nat.ltb_ge; lia).
        inversion He; subst. apply IHg; [lia|assumption].
    - intros g l k Hf Hg. inversion Hg as [l' hks es sz Hl Hs Hsz HF|kvs sz Hsz Hnd]; subst.
      + destruct (hks_split (dg k l) hks Hs) as [(H1 & H3 & ->)|(H1 & H3 & -> & F1 & F3)].
        * destruct (hkey_found_split _ _ _ _ _ HF) as (E1 & e & E3 & -> & L1 & L3 & W1 & We & W3).
          rewrite next_HKey_found by auto. rewrite (IHe e l (dg k l) k); [|lia|assumption|assumption|reflexivity].
          cbn [to_list]. rewrite flat_map_mid. unfold next_res.
          destruct (ssorted_app_inv _ _ _ Hs) as (_ & _ & S1 & S3).
          pose proof (ewf_flat_keys (fun y => y < dg k l) _ _ _ W1 S1) as K1. cbn beta in K1.
          pose proof (ewf_flat_keys (fun y => dg k l < y) _ _ _ W3 S3) as K3. cbn beta in K3.
          destruct (d_get_blocks dg l (flat_map to_list_e E1) (to_list_e e) (flat_map to_list_e E3) k) as [DG _];
            [apply lt_neq_Forall with (P := fun p => dg (kid (fst p)) l); exact K1
            |apply gt_neq_Forall with (P := fun p => dg (kid (fst p)) l); exact K3|].
          rewrite DG.
          assert (G1 : d_get (flat_map to_list_e E1) k = None).
          { apply d_get_none_iff. intros Hin. destruct (in_dkeys _ _ Hin) as (p & Hp & Ep).
            rewrite Forall_forall in K1. specialize (K1 _ Hp). rewrite Ep in K1. lia. }
          rewrite (d_next_app_l _ _ _ G1).
          destruct (d_get (to_list_e e) k) as [p|] eqn:D; [|reflexivity].
          rewrite (d_next_app_r _ _ _ _ D).
          destruct (d_next (to_list_e e) k); [reflexivity|]. f_equal. f_equal.
          destruct W3 as [|h2 e2 H3' E3' He2 W3']; [reflexivity|]. destruct first_key_spec as [FK _].
          rewrite (FK _ _ _ He2). cbn [flat_map]. pose proof (ewf_e_nonempty _ _ _ He2).
          destruct (to_list_e e2); cbn in *; [lia|reflexivity].
        * rewrite next_HKey_notfound by auto. unfold next_res. cbn [to_list].
          replace (d_get (flat_map to_list_e es) k) with (@None (kv * kv)); [reflexivity|].
          symmetry. apply d_get_none_iff. intros Hin. destruct (in_dkeys _ _ Hin) as (p & Hp & Ep).
          assert (HP : Forall (fun y => y <> dg k l) (H1 ++ H3)).
          { apply Forall_app; split; (eapply Forall_impl; [|eassumption]); cbn; intros; lia. }
          pose proof (ewf_flat_keys (fun y => y <> dg k l) _ _ _ HF HP) as Hk.
          rewrite Forall_forall in Hk. specialize (Hk _ Hp). cbn in Hk. congruence.
      + cbn [MapElems.next_elems to_list]. rewrite Nat.eqb_refl. cbn [negb]. unfold next_res.
        destruct (find_key k kvs) as [i|] eqn:Ef.
        * destruct (find_key_some _ _ _ Ef) as (K1 & [k0 v0] & K3 & -> & -> & Hk & Hn).
          rewrite nth_error_app_mid, nth_error_app_mid_S, d_get_mid by assumption.
          rewrite (d_next_app_l _ _ _ Hn). cbn [d_next fst snd]. cbn [fst] in Hk. rewrite Hk, N.eqb_refl.
          destruct K3; reflexivity.
        * now rewrite find_key_none.
  Qed.

  (* the walk of the mutable iterator over a dictionary with distinct keys *)
  Fixpoint d_iter (n : nat) (d : dict) (cur : option kv) : dict :=
    match n, cur with
    | S n', Some k =>
      match d_get d (kid k) with
      | Some p => p :: d_iter n' d (d_next d (kid k))
      | None => []
      end
    | _, _ => []
    end.

  Lemma d_iter_suffix : forall B A n, NoDup (dkeys (A ++ B)) -> (length B < n)%nat ->
    d_iter n (A ++ B) (option_map fst (hd_error B)) = B.
  Proof.
    induction B as [|p B IH]; intros A n Hnd Hn; [destruct n; reflexivity|].
    destruct n as [|n]; [cbn in Hn; lia|]. cbn [hd_error option_map d_iter].
    assert (GA : d_get A (kid (fst p)) = None).
    { apply d_get_none_iff. intros Hin. rewrite dkeys_app in Hnd. cbn in Hnd.
      apply NoDup_remove_2 in Hnd. apply Hnd. apply in_or_app. now left. }
    rewrite d_get_app, GA. cbn [d_get]. rewrite N.eqb_refl. f_equal.
    rewrite (d_next_app_l _ _ _ GA). cbn [d_next]. rewrite N.eqb_refl.
    replace (A ++ p :: B) with ((A ++ [p]) ++ B) by (now rewrite <- app_assoc).
    apply IH; [now rewrite <- app_assoc|cbn in Hn; lia].
  Qed.

  Lemma iter_next_eq g n cur : ewf_g 0 g ->
    iter_next dg levels n g cur = d_iter n (to_list g) cur.
  Proof.
    intros Hg. revert cur. induction n as [|n IH]; intros [k|]; try reflexivity. cbn [MapElems.iter_next d_iter].
    destruct (next_spec (op_fuel levels)) as [_ NS]. rewrite (NS g 0%nat (kid k)); [|unfold op_fuel; lia|assumption].
    unfold next_res. destruct (d_get (to_list g) (kid k)) as [[k0 v0]|]; [|reflexivity]. cbn [fst snd]. now rewrite IH.
  Qed.

  (* the mutable iterator (first key, then next key computed before each hand-off) enumerates
     exactly the read-only sequence *)
  Lemma iter_next_to_list g : ewf_g 0 g ->
    iter_next dg levels (S (length (to_list g))) g (first_key g) = to_list g.
  Proof.
    intros Hg. rewrite iter_next_eq by assumption. destruct first_key_spec as [_ FK]. rewrite (FK _ _ Hg).
    destruct (order_spec) as [_ O]. destruct (O g 0%nat Hg) as [_ Hnd].
    apply (d_iter_suffix (to_list g) []); [exact Hnd|lia].
  Qed.

  (* every operation, including the mutable iterator *)
  Lemma m_step_refines_all s o : (1 <= levels)%nat -> mwf s ->
    d_step (to_list (m_root s)) o = (to_list (m_root (fst (fst (m_step s o)))), snd (fst (m_step s o))) /\
    mwf (fst (fst (m_step s o))).
  Proof.
    intros Hlv Hs. destruct o; try (apply m_step_refines; [assumption|assumption|discriminate]).
    destruct Hs as [Hw Hc]. cbn [MapElems.m_step MapElems.d_step fst snd].
    rewrite iter_next_to_list by exact Hw. split; [reflexivity|split; assumption].
  Qed.

  Lemma m_run_refines_all ops : (1 <= levels)%nat -> forall s, mwf s ->
    snd (m_run s ops) = snd (d_run (to_list (m_root s)) ops) /\
    to_list (m_root (fst (m_run s ops))) = fst (d_run (to_list (m_root s)) ops) /\
    mwf (fst (m_run s ops)).
  Proof.
    intros Hlv. induction ops as [|o ops IH]; intros s Hs; cbn [MapElems.m_run MapElems.d_run].
    - cbn. auto.
    - destruct (m_step_refines_all s o Hlv Hs) as [E W]. destruct (m_step s o) as [[s1 x] evs]. cbn [fst snd] in *.
      rewrite E. destruct (IH s1 W) as (I1 & I2 & I3).
      destruct (m_run s1 ops) as [s2 xs]. destruct (d_run (to_list (m_root s1)) ops) as [d2 ys]. cbn [fst snd] in *.
      subst. auto.
  Qed.

  (* ====================================================================== *)
  (* 12. first-level inline groups never exceed the inline-element limit    *)
  (* ====================================================================== *)

  Local Notation inl_ok_e := (inl_ok_e max_inline_elem).
  Local Notation inl_ok := (inl_ok max_inline_elem).

  Lemma set_group_inl_ok f loc g k v a e' prev a' evs :
    set_elem f (EGroup loc g) 0 k v a = inr (e', prev, a', evs) -> inl_ok_e e'.
  Proof.
    destruct f as [|f]; [discriminate|]. cbn [MapElems.set_elem]. fold (MapElems.set_elems dg levels max_inline_elem limit).
    destruct loc as [id|]; destruct (levels <? 1)%nat; try discriminate;
      destruct (set_elems f g 1 k v a) as [|[[[g' prev'] a''] evs']]; try discriminate.
    - intros [= <- _ _ _]. exact I.
    - cbn [Nat.eqb andb]. destruct (max_inline_elem <? c_inlineCollisionGroupPrefixSize + msize g') eqn:E.
      + intros [= <- _ _ _]. exact I.
      + intros [= <- _ _ _]. cbn. apply N.ltb_ge in E. exact E.
  Qed.

  Lemma set_elem_inl_ok f e k v a e' prev a' evs :
    set_elem f e 0 k v a = inr (e', prev, a', evs) -> inl_ok_e e'.
  Proof.
    destruct e as [k0 v0|loc g]; [|apply set_group_inl_ok].
    destruct f as [|f]; [discriminate|]. cbn [MapElems.set_elem].
    destruct (kid k0 =? kid k); [intros [= <- _ _ _]; exact I|].
    destruct (1 =? levels)%nat; apply set_group_inl_ok.
  Qed.

  Lemma root_set_inl_ok f g k v a g' prev a' evs : ewf_g 0 g -> inl_ok g ->
    set_elems f g 0 k v a = inr (g', prev, a', evs) -> inl_ok g'.
  Proof.
    intros Hg Hi. destruct f as [|f]; [discriminate|].
    inversion Hg as [l' hks es sz Hl Hs Hsz HF|kvs sz Hsz Hnd]; subst.
    - set (h := dg (kid k) 0). cbn [MapElemsInv.inl_ok] in Hi.
      destruct (hks_split h hks Hs) as [(H1 & H3 & ->)|(H1 & H3 & -> & F1 & F3)].
      + destruct (hkey_found_split _ _ _ _ _ HF) as (E1 & e & E3 & -> & L1 & L3 & W1 & We & W3).
        rewrite set_HKey_found by auto. destruct (limit_check f 0 e 0 (kid k)); [discriminate|].
        destruct (set_elem f e 0 k v a) as [|[[[e' prev'] a''] evs']] eqn:E; [discriminate|].
        intros [= <- _ _ _]. cbn [MapElemsInv.inl_ok]. apply Forall_app in Hi. destruct Hi as [Hi1 Hi3].
        inversion Hi3; subst. apply Forall_app. split; [assumption|]. constructor; [|assumption].
        eapply set_elem_inl_ok; eassumption.
      + destruct (hkey_nf_split _ _ _ _ HF) as (E1 & E3 & -> & L1 & L3 & W1 & W3).
        rewrite set_HKey_notfound by auto. intros [= <- _ _ _]. cbn [MapElemsInv.inl_ok].
        apply Forall_app in Hi. destruct Hi as [Hi1 Hi3]. apply Forall_app. split; [assumption|]. constructor; [exact I|assumption].
    - cbn [MapElems.set_elems Nat.eqb negb].
      destruct (find_key (kid k) kvs) as [i|]; [destruct (nth_error kvs i) as [[k0 v0]|]; [|discriminate]|];
        intros [= <- _ _ _]; exact I.
  Qed.

  (* below the first level (no external groups there) a removal never grows an element *)
  Lemma remove_size : forall f,
    (forall e l h k e' kvp evs, (1 <= l)%nat -> (3 * (levels - l) + 2 <= f)%nat -> (l < levels)%nat ->
       ewf_e l h e -> dg k l = h -> remove_elem f e l k = inr (Some e', kvp, evs) -> esize e' <= esize e) /\
    (forall g l k g' kvp evs, (1 <= l)%nat -> (3 * (levels - l) + 3 <= f)%nat ->
       ewf_g l g -> remove_elems f g l k = inr (g', kvp, evs) -> msize g' <= msize g).
  Proof.
    induction f as [|f [IHe IHg]]; [split; intros; lia|]. split.
    - intros e l h k e' kvp evs H1l Hf Hl He Hh.
      destruct e as [k0 v0|loc g].
      + cbn [MapElems.remove_elem]. destruct (kid k0 =? k); discriminate.
      + inversion He as [|? ? ? ? Hg H2 Hk Hloc]; subst.
        destruct loc as [id|]; [cbn in Hloc; lia|].
        cbn [MapElems.remove_elem]. fold (MapElems.remove_elems dg levels).
        replace (levels <? S l)%nat with false by (symmetry; apply Nat.ltb_ge; lia).
        destruct (remove_elems f g (S l) k) as [|[[g' kvp'] evs']] eqn:ER; [discriminate|].
        assert (SZ : msize g' <= msize g) by (eapply (IHg g (S l) k); [lia|lia|eassumption|eassumption]).
        assert (Wg' : ewf_g (S l) g').
        { destruct (remove_spec f) as [_ RG]. specialize (RG g (S l) k).
          destruct (d_get (to_list g) k).
          - destruct RG as (g'' & evs'' & Eq & W & _); [lia|assumption|]. rewrite Eq in ER. injection ER as -> _ _. exact W.
          - rewrite RG in ER; [discriminate|lia|assumption]. }
        unfold collapse_group. cbn [esize].
        destruct (gcount g' =? 1)%nat; [|intros [= <- _ _]; cbn [esize]; lia].
        destruct g' as [lv hks [|e1 [|e2 es]] sz|lv [|[k1 v1] [|p2 kvs]] sz]; try (intros [= <- _ _]; cbn [esize]; lia).
        * destruct (is_group e1); [intros [= <- _ _]; cbn [esize]; lia|]. intros [= <- _ _].
          inversion Wg' as [? ? ? ? _ _ Hsz _|]; subst. cbn [msize] in SZ. rewrite hk_recompute_eq in SZ.
          cbn [map] in SZ. unfold Nsum in SZ. cbn [fold_right] in SZ. lia.
        * intros [= <- _ _]. inversion Wg' as [|? ? Hsz _]; subst. cbn [msize] in SZ. rewrite sl_recompute_eq in SZ.
          cbn [map fst snd] in SZ. unfold Nsum in SZ. cbn [fold_right] in SZ. cbn [esize]. lia.
    - intros g l k g' kvp evs H1l Hf Hg.
      inversion Hg as [l' hks es sz Hl Hs Hsz HF|kvs sz Hsz Hnd]; subst.
      + set (h := dg k l).
        destruct (hks_split h hks Hs) as [(H1 & H3 & ->)|(H1 & H3 & -> & F1 & F3)].
        * destruct (hkey_found_split _ _ _ _ _ HF) as (E1 & e & E3 & -> & L1 & L3 & W1 & We & W3).
          rewrite remove_HKey_found by auto.
          destruct (remove_elem f e l k) as [|[[[e'|] kvp'] evs']] eqn:ER; [discriminate| |].
          -- intros [= <- _ _]. cbn [msize].
             assert (esize e' <= esize e) by (eapply (IHe e l h k); try eassumption; try reflexivity; lia). lia.
          -- intros [= <- _ _]. cbn [msize]. lia.
        * rewrite remove_HKey_notfound by auto. discriminate.
      + cbn [MapElems.remove_elems]. rewrite Nat.eqb_refl. cbn [negb].
        destruct (find_key k kvs) as [i|]; [|discriminate]. destruct (nth_error kvs i) as [[k0 v0]|]; [|discriminate].
        intros [= <- _ _]. cbn [msize]. lia.
  Qed.

  Lemma root_remove_inl_ok f g k g' kvp evs : (3 * levels + 3 <= f)%nat -> ewf_g 0 g -> inl_ok g ->
    remove_elems f g 0 k = inr (g', kvp, evs) -> inl_ok g'.
  Proof.
    intros Hf Hg Hi. destruct f as [|f]; [lia|].
    inversion Hg as [l' hks es sz Hl Hs Hsz HF|kvs sz Hsz Hnd]; subst.
    - set (h := dg k 0). cbn [MapElemsInv.inl_ok] in Hi.
      destruct (hks_split h hks Hs) as [(H1 & H3 & ->)|(H1 & H3 & -> & F1 & F3)].
      + destruct (hkey_found_split _ _ _ _ _ HF) as (E1 & e & E3 & -> & L1 & L3 & W1 & We & W3).
        rewrite remove_HKey_found by auto.
        apply Forall_app in Hi. destruct Hi as [Hi1 Hi3]. inversion Hi3 as [|? ? Hie Hi3']; subst.
        destruct (remove_elem f e 0 k) as [|[[[e'|] kvp'] evs']] eqn:ER; [discriminate| |].
        * intros [= <- _ _]. cbn [MapElemsInv.inl_ok]. apply Forall_app. split; [assumption|]. constructor; [|assumption].
          destruct f as [|f]; [discriminate|]. destruct e as [k0 v0|loc g1].
          { cbn [MapElems.remove_elem] in ER. destruct (kid k0 =? k); discriminate. }
          inversion We as [|? ? ? ? Hg1 H2 Hk Hloc]; subst.
          cbn [MapElems.remove_elem] in ER. fold (MapElems.remove_elems dg levels) in ER.
          destruct (levels <? 1)%nat; [discriminate|].
          destruct (remove_elems f g1 1 k) as [|[[g1' kvp''] evs'']] eqn:ER1; [discriminate|].
          assert (SZ : msize g1' <= msize g1).
          { destruct (remove_size f) as [_ RS]. eapply (RS g1 1%nat k); [lia|lia|eassumption|eassumption]. }
          unfold collapse_group in ER.
          destruct (gcount g1' =? 1)%nat.
          -- destruct g1' as [lv hks1 [|e1 [|e2 es1]] sz1|lv [|[k1 v1] [|p2 kvs]] sz1];
               try (injection ER as <- _ _; destruct loc; [exact I|cbn [MapElemsInv.inl_ok_e msize] in *; lia]).
             ++ destruct (is_group e1) eqn:G; [injection ER as <- _ _; destruct loc; [exact I|cbn [MapElemsInv.inl_ok_e msize] in *; lia]|].
                injection ER as <- _ _. destruct e1; [exact I|discriminate].
          -- injection ER as <- _ _. destruct loc; [exact I|cbn [MapElemsInv.inl_ok_e msize] in *; lia].
        * intros [= <- _ _]. cbn [MapElemsInv.inl_ok]. apply Forall_app. split; assumption.
      + rewrite remove_HKey_notfound by auto. discriminate.
    - cbn [MapElems.remove_elems Nat.eqb negb].
      destruct (find_key k kvs) as [i|]; [|discriminate]. destruct (nth_error kvs i) as [[k0 v0]|]; [|discriminate].
      intros [= <- _ _]. exact I.
  Qed.

  (* invariant with the size bound, one step *)
  Lemma m_step_inl_ok s o : mwf s -> inl_ok (m_root s) -> inl_ok (m_root (fst (fst (m_step s o)))).
  Proof.
    intros [Hw Hc] Hi. destruct s as [g c a]. cbn [m_root m_count m_next] in *. unfold ewf in Hw.
    destruct o as [k v|k|k|k| | | |]; cbn [MapElems.m_step m_root m_next].
    - destruct (set_elems (op_fuel levels) g 0 k v a) as [|[[[g' prev] a'] evs]] eqn:E; [exact Hi|].
      cbn [fst m_root]. eapply root_set_inl_ok; eassumption.
    - destruct (get_elems (op_fuel levels) g 0 k) as [|[? ?]]; exact Hi.
    - destruct (get_elems (op_fuel levels) g 0 k) as [[]|]; exact Hi.
    - destruct (remove_elems (op_fuel levels) g 0 k) as [|[[g' [k0 v0]] evs]] eqn:E; [exact Hi|].
      cbn [fst m_root]. eapply root_remove_inl_ok; [|eassumption|eassumption|eassumption]. unfold op_fuel. lia.
    - exact Hi.
    - exact Hi.
    - exact Hi.
    - destruct (pop_list g). cbn. constructor.
  Qed.

  Lemma m_run_inl_ok ops : (1 <= levels)%nat -> forall s, mwf s -> inl_ok (m_root s) -> inl_ok (m_root (fst (m_run s ops))).
  Proof.
    intros Hlv. induction ops as [|o ops IH]; intros s Hs Hi; cbn [MapElems.m_run]; [exact Hi|].
    pose proof (m_step_inl_ok s o Hs Hi) as Hi'. destruct (m_step_refines_all s o Hlv Hs) as [_ W].
    destruct (m_step s o) as [[s1 x] evs]. cbn [fst] in *. specialize (IH s1 W Hi').
    destruct (m_run s1 ops) as [s2 xs]. exact IH.
  Qed.

  (* preservation of the invariant, by operation *)
  Lemma ewf_set s k v : (1 <= levels)%nat -> mwf s -> mwf (fst (fst (m_step s (OSet k v)))).
  Proof. intros Hlv Hs. apply (m_step_refines_all s (OSet k v) Hlv Hs). Qed.

  Lemma ewf_remove s k : (1 <= levels)%nat -> mwf s -> mwf (fst (fst (m_step s (ORemove k)))).
  Proof. intros Hlv Hs. apply (m_step_refines_all s (ORemove k) Hlv Hs). Qed.
End elems.
