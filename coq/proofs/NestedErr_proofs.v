(* NestedErr_proofs.v — C18 over the forest model Nested.v: a rejected request leaves no trace. *)
From Coq Require Import ZArith NArith List Bool Lia Arith.
From AtreeGen Require Import Consts.
From AtreeModel Require Import Nested NestedErr.
From AtreeProofs Require Import Nested_base Nested_steps Nested_proofs Nested_examples.
Import ListNotations.
Local Open Scope N_scope.

Lemma is_arr_true c : is_arr c = true <-> c_kind c = KArr.
Proof. unfold is_arr. destruct (c_kind c); split; congruence. Qed.
Lemma is_arr_false c : is_arr c = false <-> c_kind c = KMap.
Proof. unfold is_arr. destruct (c_kind c); split; congruence. Qed.

(* the tests of [op_ok] are: discipline + the argument test *)
Lemma op_ok_iff n f o : op_ok n f o <-> req_pre n f o /\ req_valid f o = true.
Proof.
  destruct o; cbn [op_ok req_pre req_valid].
  - tauto.
  - destruct (fget f p) as [c|] eqn:Ec.
    + rewrite andb_true_iff, is_arr_true, Nat.leb_le. split.
      * intros ((c0 & [= <-] & Hk & Hi) & He). auto.
      * intros (He & Hk & Hi). split; eauto.
    + split; [intros ((c0 & H & _) & _); discriminate|intros (_ & H); discriminate].
  - destruct (fget f p) as [c|] eqn:Ec.
    + rewrite andb_true_iff, is_arr_true, Nat.ltb_lt. split.
      * intros ((c0 & [= <-] & Hk & Hi) & He). auto.
      * intros (He & Hk & Hi). split; eauto.
    + split; [intros ((c0 & H & _) & _); discriminate|intros (_ & H); discriminate].
  - destruct (fget f p) as [c|] eqn:Ec.
    + rewrite andb_true_iff, is_arr_true, Nat.ltb_lt. split.
      * intros (c0 & [= <-] & Hk & Hi). auto.
      * intros (_ & Hk & Hi). eauto.
    + split; [intros (c0 & H & _); discriminate|intros (_ & H); discriminate].
  - destruct (fget f p) as [c|]; split; eauto; [intros (c0 & H); discriminate|intros (_ & H); discriminate].
  - destruct (fget f p) as [c|] eqn:Ec.
    + rewrite negb_true_iff, is_arr_false. split.
      * intros ((c0 & [= <-] & Hk) & He). auto.
      * intros (He & Hk). split; eauto.
    + split; [intros ((c0 & H & _) & _); discriminate|intros (_ & H); discriminate].
  - destruct (fget f p) as [c|] eqn:Ec.
    + rewrite andb_true_iff, negb_true_iff, is_arr_false. split.
      * intros (c0 & i & [= <-] & Hk & Hi). rewrite Hi. auto.
      * intros (_ & Hk & Hi). destruct (find_key (c_slots c) kid) as [i|] eqn:Ef; [|discriminate]. eauto.
    + split; [intros (c0 & i & H & _); discriminate|intros (_ & H); discriminate].
  - destruct (fget f p) as [c|] eqn:Ec.
    + unfold has_slot. split.
      * intros (c0 & i & s & [= <-] & Hi & Hn). rewrite Hi, Hn. auto.
      * intros (_ & H).
        destruct (match c_kind c with KArr => Some (N.to_nat loc) | KMap => find_key (c_slots c) loc end) as [i|] eqn:Ei; [|discriminate].
        destruct (nth_error (c_slots c) i) as [s|] eqn:En; [|discriminate]. exists c, i, s. auto.
    + split; [intros (c0 & i & s & H & _); discriminate|intros (_ & H); discriminate].
  - destruct (fget f v) as [c|]; split; eauto; [intros (c0 & H); discriminate|intros (_ & H); discriminate].
  - tauto.
  - tauto.
Qed.

Lemma nth_error_ge_none {A} (l : list A) i : (length l <= i)%nat -> nth_error l i = None.
Proof. intros H. now apply nth_error_None. Qed.

(* a request refused by the argument test returns the forest it was given; no invariant needed *)
Lemma reject_id n g f o : req_valid f o = false -> step n g f o = (f, false).
Proof.
  destruct o; cbn [req_valid step]; try discriminate.
  - (* insert *) unfold arr_insert. destruct (fget f p) as [c|]; [|reflexivity].
    intros H. apply andb_false_iff in H as [H|H].
    + rewrite H. reflexivity.
    + apply Nat.leb_gt in H. apply Nat.ltb_lt in H. rewrite H, orb_true_r. reflexivity.
  - (* set *) unfold arr_set. destruct (fget f p) as [c|] eqn:Ec; [|reflexivity].
    intros H. apply andb_false_iff in H as [H|H].
    + rewrite H. reflexivity.
    + destruct (negb (is_arr c)); [reflexivity|]. apply Nat.ltb_ge in H.
      unfold cset_body. rewrite Ec, (nth_error_ge_none _ _ H). reflexivity.
  - (* remove *) unfold arr_remove. destruct (fget f p) as [c|] eqn:Ec; [|reflexivity].
    intros H. apply andb_false_iff in H as [H|H].
    + rewrite H. reflexivity.
    + destruct (negb (is_arr c)); [reflexivity|]. apply Nat.ltb_ge in H.
      rewrite (nth_error_ge_none _ _ H). reflexivity.
  - (* pop *) unfold pop_step. destruct (fget f p); [discriminate|reflexivity].
  - (* map set *) unfold map_set. destruct (fget f p) as [c|]; [|reflexivity].
    intros H. apply negb_false_iff in H. rewrite H. reflexivity.
  - (* map remove *) unfold map_remove. destruct (fget f p) as [c|]; [|reflexivity].
    intros H. apply andb_false_iff in H as [H|H].
    + apply negb_false_iff in H. rewrite H. reflexivity.
    + destruct (is_arr c); [reflexivity|]. destruct (find_key (c_slots c) kid); [discriminate|reflexivity].
  - (* get *) unfold get_child, has_slot. destruct (fget f p) as [c|]; [|reflexivity].
    destruct (match c_kind c with KArr => Some (N.to_nat loc) | KMap => find_key (c_slots c) loc end) as [i|]; [|reflexivity].
    destruct (nth_error (c_slots c) i); [discriminate|reflexivity].
  - (* touch *) unfold touch. destruct (fget f v); [discriminate|reflexivity].
Qed.

(* under the invariant and the discipline, an error is always a refusal by the argument test, and
   the forest is the one that was given *)
Theorem nested_no_trace n g f o f' :
  fwf n g f -> req_pre n f o -> step n g f o = (f', false) -> f' = f /\ req_valid f o = false.
Proof.
  intros Hwf Hpre Hstep. destruct (req_valid f o) eqn:Ev.
  - assert (Hok : op_ok n f o) by (apply op_ok_iff; auto).
    destruct (step_fwf _ _ _ _ _ _ Hwf Hok Hstep) as [H _]. discriminate.
  - rewrite (reject_id n g f o Ev) in Hstep. injection Hstep as <-. auto.
Qed.

Theorem nested_accept_iff n g f o :
  fwf n g f -> req_pre n f o -> (snd (step n g f o) = true <-> req_valid f o = true).
Proof.
  intros Hwf Hpre. destruct (step n g f o) as [f' ok] eqn:Hstep. cbn [snd]. split.
  - intros ->. destruct (req_valid f o) eqn:Ev; auto. rewrite (reject_id n g f o Ev) in Hstep. discriminate.
  - intros Ev. assert (Hok : op_ok n f o) by (apply op_ok_iff; auto).
    now destruct (step_fwf _ _ _ _ _ _ Hwf Hok Hstep).
Qed.

Lemma step_pre_fwf n g f o : fwf n g f -> req_pre n f o -> fwf n g (fst (step n g f o)).
Proof.
  intros Hwf Hpre. destruct (step n g f o) as [f' ok] eqn:Hstep. cbn [fst]. destruct ok.
  - destruct (req_valid f o) eqn:Ev.
    + assert (Hok : op_ok n f o) by (apply op_ok_iff; auto).
      now destruct (step_fwf _ _ _ _ _ _ Hwf Hok Hstep).
    + rewrite (reject_id n g f o Ev) in Hstep. discriminate.
  - destruct (nested_no_trace _ _ _ _ _ Hwf Hpre Hstep) as [-> _]. exact Hwf.
Qed.

(* the history without its rejected requests: same forest at the end (contents, cached sizes,
   inline flags, callbacks, index maps, write log), same answers to the accepted requests *)
Theorem nested_history n g : forall os f, fwf n g f -> hist_pre n g f os ->
  fst (run_all n g f (keep_accepted n g f os)) = fst (run_all n g f os) /\
  snd (run_all n g f (keep_accepted n g f os)) = filter (fun b => b) (snd (run_all n g f os)) /\
  Forall (fun b => b = true) (snd (run_all n g f (keep_accepted n g f os))) /\
  fwf n g (fst (run_all n g f os)).
Proof.
  induction os as [|o r IH]; intros f Hwf Hpre.
  - cbn. auto.
  - destruct Hpre as [Hp Hr]. cbn [run_all keep_accepted].
    pose proof (step_pre_fwf _ _ _ _ Hwf Hp) as Hwf1.
    destruct (step n g f o) as [f1 ok] eqn:Hstep. cbn [fst] in Hr, Hwf1.
    destruct (IH f1 Hwf1 Hr) as (A & B & C & D).
    destruct ok.
    + cbn [run_all]. rewrite Hstep.
      destruct (run_all n g f1 (keep_accepted n g f1 r)) as [f2 oks].
      destruct (run_all n g f1 r) as [f3 oks']. cbn [fst snd filter] in *. subst. auto.
    + destruct (nested_no_trace _ _ _ _ _ Hwf Hp Hstep) as [-> _].
      destruct (run_all n g f (keep_accepted n g f r)) as [f2 oks].
      destruct (run_all n g f r) as [f3 oks']. cbn [fst snd filter] in *. auto.
Qed.

(* ---------- non-vacuity: the forest f0 (parent 1 = [child 2 (5 scalars, inlined), 99]) ---------- *)
Definition rej_ops : list nop :=
  [OArrSet 2 7 (sc 50); OArrInsert 2 5 (sc 15); OArrRemove 2 9; OMapRemove 2 4; OArrInsert 2 9 (sc 16); OArrRemove 2 0].

Lemma rej_examples :
  child_step 8 cfg1024 f0 2 (CSet 7 (sc 50)) = (f0, false) /\
  child_step 8 cfg1024 f0 2 (CRemove 5) = (f0, false) /\
  child_step 8 cfg1024 f0 2 (CInsert 6 (sc 50)) = (f0, false) /\
  child_step 8 cfg1024 f0 2 (CMRemove 3) = (f0, false) /\
  req_pre 8 f0 (cop_nop 2 (CSet 7 (sc 50))).
Proof. repeat split. Qed.

Lemma rej_history :
  hist_pre 8 cfg1024 f0 rej_ops /\
  snd (run_all 8 cfg1024 f0 rej_ops) = [false; true; false; false; false; true] /\
  keep_accepted 8 cfg1024 f0 rej_ops = [OArrInsert 2 5 (sc 15); OArrRemove 2 0] /\
  option_map c_csize (fget (fst (run_all 8 cfg1024 f0 rej_ops)) 1) = Some 35 /\
  option_map (fun c => length (c_slots c)) (fget (fst (run_all 8 cfg1024 f0 rej_ops)) 2) = Some 5%nat.
Proof. vm_compute. repeat split. Qed.
