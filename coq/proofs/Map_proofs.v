(* Map_proofs.v — the OrderedMap level of the slab-tree model (M4): root handling
   (OrderedMap.set / remove: promote a single child, THEN split a full root), the invariant
   [minv] = tree invariant [mtwf] + last sibling link + size discipline of the stored pairs is
   preserved by every operation, and every operation of the tree model does what the ELEMENT-level
   model (MapElems.m_step) does on the one logical hkeyElements of the tree; composition with the
   element-level refinement theorem gives the dictionary refinement of whole histories for maps
   spanning any number of slabs. *)
From Coq Require Import ZArith NArith List Bool Arith Lia ZifyBool ZifyN ZifyNat Sorted.
From AtreeGen Require Import Consts.
From AtreeModel Require Import Settings MapElems MapElemsInv MapTree MapTreeInv.
From AtreeProofs Require Import Settings_proofs ArrayList_lemmas MapElems_proofs MapTree_proofs
  MapRebalance_proofs MapFixup_proofs MapTreeOps_proofs MapTreeIter_proofs.
Import ListNotations.
Local Open Scope N_scope.
Ltac Zify.zify_post_hook ::= Z.div_mod_to_equations.

Section WithT.
Variable dg : N -> nat -> N.
Variable levels : nat.
Variable T : N.
Hypothesis HT : valid_T T.
Hypothesis Hlv : (0 < levels)%nat.
Variable limit : N.
Variable ks : N -> N.
Local Notation c := (set_threshold T).
Local Notation M := (cinl_melem (set_threshold T)).
Local Notation mwfn := (mwfn dg levels c).
Local Notation mwf_root := (mwf_root dg levels c).
Local Notation mtwf := (mtwf dg levels c).
Local Notation in_band := (in_band c).
Local Notation kids_ok := (kids_ok dg levels T).
Local Notation slack := (slack T).
Local Notation ewf_e := (ewf_e dg levels).
Local Notation ewf_g := (ewf_g dg levels).
Local Notation pair_ok := (pair_ok T ks).
Local Notation pairs_ok := (pairs_ok T ks).
Local Notation pairs := (pairs T ks).
Local Notation set_elems := (set_elems dg levels M limit).
Local Notation remove_elems := (remove_elems dg levels).
Local Notation n_set := (n_set dg levels M limit c).
Local Notation n_remove := (n_remove dg levels c).
Local Notation m_step := (m_step dg levels M limit).
Local Notation mt_step := (mt_step dg levels M limit c).
Local Notation mwfn_0_inv := (mwfn_0_inv dg levels T).
Local Notation mwfn_S_inv := (mwfn_S_inv dg levels T HT Hlv).
Local Notation mwfn_0_intro := (mwfn_0_intro dg levels T).
Local Notation mwfn_MM_intro := (mwfn_MM_intro dg levels T HT Hlv).

(** * the root *)
Lemma mwf_root_cases r : mwf_root r ->
  (exists h hks els, r = MD h 0 (HKey 0 hks els (hk_recompute els)) /\
     ssorted hks /\ Forall2 (ewf_e 0) hks els /\ Forall (elem_ok c) els /\
     mh_first h = hd 0 hks /\ mh_size h = RP + hk_recompute els /\ mh_size h <= cmax c) \/
  (exists d h hs cs, r = MM h hs cs /\ mwfn (S d) r /\ (2 <= length cs)%nat /\ mh_size h <= cmax c).
Proof.
  intros H. inversion H as [h hks els sz Hg He Hf Hs Hx|d h hs cs Hw H2 Hx]; subst.
  - left. inversion Hg; subst. exists h, hks, els. repeat split; auto.
  - right. exists d, h, hs, cs. auto.
Qed.

Lemma root_gtree r : mwf_root r ->
  elems_of_tree r = gtree r /\ ewf_g 0 (gtree r) /\ to_list_tree r = to_list (gtree r).
Proof.
  intros H. destruct (mwf_root_cases r H) as [(h & hks & els & -> & Hs & HF & He & Hf & Hz & Hx)|(d & h & hs & cs & -> & Hw & H2 & Hx)].
  - unfold elems_of_tree, elems_of_leaves, gtree.
    cbn [leaves flat_map g_hkeys g_elems keys_of elems_flat fold_left msize to_list_tree]. rewrite !app_nil_r.
    split; [|split; [constructor; auto|reflexivity]].
    f_equal. pose proof (hkr_ge els). lia.
  - split; [apply (elems_of_tree_gtree dg levels T HT Hlv _ _ Hw)|].
    split; [apply (gtree_wf dg levels T HT Hlv _ _ Hw)|apply (to_list_tree_gtree dg levels T HT Hlv _ _ Hw)].
Qed.

(* the root between the recursive operation and OrderedMap's root fix-up *)
Inductive root_mid : mnode -> Prop :=
| rm_leaf h hks els :
    ssorted hks -> Forall2 (ewf_e 0) hks els -> Forall (elem_ok c) els ->
    mh_first h = hd 0 hks -> mh_size h = RP + hk_recompute els -> mh_size h <= cmax c + Emax c ->
    root_mid (MD h 0 (HKey 0 hks els (hk_recompute els)))
| rm_index d h hs cs :
    mwfn (S d) (MM h hs cs) -> mh_size h <= cmax c + HS -> last_next (MM h hs cs) = 0 ->
    root_mid (MM h hs cs).

Lemma mwfn_set_id d n id : mwfn d n ->
  mwfn d (set_id n id) /\ keys_of (set_id n id) = keys_of n /\ elems_flat (set_id n id) = elems_flat n /\
  last_next (set_id n id) = last_next n /\ mh_size (hdr_of (set_id n id)) = mh_size (hdr_of n) /\
  is_data (set_id n id) = is_data n.
Proof.
  intros Hw. destruct d as [|d].
  - destruct (mwfn_0_inv _ Hw) as (h & nx & hks & els & -> & Hs & HF & He & Hf & Hz).
    cbn [set_id keys_of elems_flat last_next hdr_of mh_size is_data]. repeat split; auto.
    apply mwfn_0_intro; cbn [mh_first mh_size]; auto.
  - destruct (mwfn_S_inv _ _ Hw) as (h & cs & -> & Hk & Hne & Hz & Hf & Hs).
    cbn [set_id keys_of elems_flat last_next hdr_of mh_size is_data]. repeat split; auto.
    apply mwfn_MM_intro; cbn [mh_first mh_size]; auto.
Qed.

Lemma two_root d l r rootid :
  mwfn d l -> mwfn d r -> in_band l -> in_band r -> ssorted (keys_of l ++ keys_of r) ->
  mwf_root (MM (mkmhdr rootid (PM + HS * 2) (mh_first (hdr_of l))) [hdr_of l; hdr_of r] [l; r]).
Proof.
  intros Wl Wr Bl Br Hs. eapply wfr_MM with (d := d); [|cbn; lia|cbn [mh_size]; mcfg_lia].
  apply (mwfn_MM_intro d _ [l; r]).
  - split; [constructor; [exact Wl|constructor; [exact Wr|constructor]]|constructor; [exact Bl|constructor; [exact Br|constructor]]].
  - discriminate.
  - cbn [flat_map]. rewrite app_nil_r. exact Hs.
  - cbn [mh_size length]. unfold_msizes. lia.
  - reflexivity.
Qed.

Lemma fix_root_ok r' alloc cnt : root_mid r' ->
  exists t2 lg, fix_root c (mkmt r' alloc cnt) = (TOk t2, lg) /\
    mwf_root (t_root t2) /\ keys_of (t_root t2) = keys_of r' /\ elems_flat (t_root t2) = elems_flat r' /\
    t_count t2 = cnt /\ last_next (t_root t2) = 0 /\ mh_id (hdr_of (t_root t2)) = mh_id (hdr_of r').
Proof.
  intros Hm. destruct Hm as [h hks els Hs HF He Hf Hz Hx|d h hs cs Hw Hx Hln].
  - (* root data slab *)
    unfold fix_root, promote_if_single. cbn [t_root]. unfold n_is_full. cbn [t_root hdr_of].
    destruct (cmax c <? mh_size h) eqn:Hfull.
    + unfold split_root. cbn [t_root t_alloc t_count t_rootid hdr_of set_id mh_size mh_first].
      destruct (split_ok_data dg levels T HT Hlv
                  (mkmhdr (alloc + 1) (mh_size h - RP + P) (mh_first h)) 0 hks els RP (alloc + 1 + 1)
                  Hs HF He Hf (or_intror eq_refl) ltac:(lia) ltac:(lia))
        as (l & r & Esp & Wl & Wr & Bl & Br & Ek & Ee & _ & _ & _ & Hlr).
      rewrite Esp. do 2 eexists. split; [reflexivity|]. cbn [t_root t_count hdr_of mh_id keys_of elems_flat flat_map last_next map].
      rewrite !app_nil_r. repeat split; auto.
      apply (two_root 0); auto. rewrite Ek. exact Hs.
    + do 2 eexists. split; [reflexivity|]. cbn [t_root t_count]. repeat split; auto.
      constructor; auto; [constructor; auto|lia].
  - (* root index slab *)
    destruct (mwfn_S_inv _ _ Hw) as (h0 & cs0 & E & Hk & Hne & Hz & Hf & Hs). injection E as <- -> <-.
    destruct cs as [|ch [|c2 cs']]; [congruence| |].
    + (* a single child: promoted *)
      cbn [map] in *. unfold fix_root, promote_if_single. cbn [t_root t_alloc t_count].
      destruct Hk as (Hws & Hbs). pose proof (Forall_inv Hws) as Wch. pose proof (Forall_inv Hbs) as Bch.
      cbn [last_next map last] in Hln. cbn [keys_of elems_flat flat_map]. rewrite !app_nil_r.
      destruct Bch as (Bm & BX).
      destruct d as [|d].
      * destruct (mwfn_0_inv _ Wch) as (hh & nx & hks & els & -> & Hs' & HF & He & Hf' & Hz').
        cbn [last_next] in Hln. subst nx. cbn [hdr_of] in *.
        unfold n_is_full. cbn [t_root hdr_of mh_size].
        replace (cmax c <? mh_size hh - P + RP) with false by (symmetry; apply N.ltb_ge; rewrite Hz'; unfold_msizes; lia).
        do 2 eexists. split; [reflexivity|]. cbn [t_root t_count hdr_of mh_id keys_of elems_flat g_hkeys g_elems last_next].
        repeat split; auto.
        constructor; cbn [mh_first mh_size]; auto; [constructor; auto|rewrite Hz'; unfold_msizes; lia|rewrite Hz'; unfold_msizes; lia].
      * destruct (mwfn_S_inv _ _ Wch) as (hh & cs2 & -> & Hk2 & Hne2 & Hz2 & Hf2 & Hs2).
        cbn [hdr_of] in *. unfold n_is_full. cbn [t_root hdr_of mh_size].
        replace (cmax c <? mh_size hh) with false by (symmetry; apply N.ltb_ge; lia).
        do 2 eexists. split; [reflexivity|]. cbn [t_root t_count hdr_of mh_id keys_of elems_flat last_next].
        repeat split; auto.
        eapply wfr_MM with (d := d); [apply mwfn_MM_intro; auto| |cbn [mh_size]; lia].
        eapply (in_band_index_two dg levels T HT Hlv); [exact Wch|split; assumption].
    + (* at least two children *)
      unfold fix_root, promote_if_single. cbn [t_root map]. unfold n_is_full. cbn [t_root hdr_of].
      destruct (cmax c <? mh_size h) eqn:Hfull.
      * unfold split_root. cbn [t_root t_alloc t_count t_rootid hdr_of].
        destruct (mwfn_set_id (S d) _ (alloc + 1) Hw) as (Wi & Ki & Ei & Li & Zi & Di).
        cbn [map] in Wi, Ki, Ei, Li, Zi, Di.
        destruct (split_ok dg levels T HT Hlv (S d) _ (alloc + 1 + 1) Wi
                    ltac:(rewrite Zi; cbn [hdr_of]; lia)
                    ltac:(rewrite Zi; unfold MapRebalance_proofs.slack; rewrite Di; cbn [hdr_of is_data]; lia))
          as (l & r & Esp & Wl & Wr & Bl & Br & Ek & Ee & _ & _ & _ & Hlr).
        cbn [map] in Esp. rewrite Esp. do 2 eexists. split; [reflexivity|].
        cbn [t_root t_count hdr_of mh_id keys_of elems_flat flat_map last_next map].
        rewrite !app_nil_r. rewrite Ek, Ee, Ki, Ei. repeat split; auto.
        -- apply (two_root (S d)); auto. rewrite Ek, Ki. exact Hs.
        -- cbn [last]. rewrite Hlr, Li. exact Hln.
      * do 2 eexists. split; [reflexivity|]. cbn [t_root t_count]. repeat split; auto.
        eapply wfr_MM with (d := d); [exact Hw|cbn; lia|lia].
Qed.

(** * the recursive operation on the root *)
Lemma root_set_ok r k v alloc : mwf_root r -> last_next r = 0 -> pairs r -> pair_ok (k, v) ->
  match set_elems (op_fuel levels) (gtree r) 0 k v (alloc + 1) with
  | inl e => n_set RP r k v alloc = TErr (TElem e)
  | inr (g', prev, a', evs) =>
    exists r' alloc' lg, n_set RP r k v alloc = TOk (r', prev, alloc', lg) /\ gtree r' = g' /\
      root_mid r' /\ mh_id (hdr_of r') = mh_id (hdr_of r)
  end.
Proof.
  intros Hr Hln Hp Hkv.
  destruct (mwf_root_cases r Hr) as [(h & hks & els & -> & Hs & HF & He & Hf & Hz & Hx)|(d & h & hs & cs & -> & Hw & H2 & Hx)].
  - unfold gtree, MapTreeOps_proofs.pairs in *. cbn [keys_of elems_flat g_hkeys g_elems] in *.
    pose proof (leaf_set_ok dg levels T HT Hlv limit ks RP h 0 hks els k v alloc Hs HF He Hp Hkv) as L.
    cbn [MapTree.n_set].
    destruct (set_elems (op_fuel levels) (HKey 0 hks els (hk_recompute els)) 0 k v (alloc + 1))
      as [e|[[[g' prev] a'] evs]]; [exact L|].
    destruct L as (hks' & els' & -> & EL & Hs' & HF' & He' & Hp' & Hsl).
    do 3 eexists. split; [exact EL|]. split; [reflexivity|]. split; [|reflexivity].
    constructor; cbn [mh_first mh_size]; auto. lia.
  - rewrite n_set_pfx_MM.
    pose proof (n_set_ok dg levels T HT Hlv limit ks (S d) _ Hw H2 Hp k v alloc Hkv) as L.
    destruct (set_elems (op_fuel levels) (gtree (MM h hs cs)) 0 k v (alloc + 1))
      as [e|[[[g' prev] a'] evs]]; [exact L|].
    destruct L as (r' & alloc' & lg & En & Eg & Wr' & Hid & Hln' & Hsz).
    exists r', alloc', lg. split; [exact En|]. split; [exact Eg|]. split; [|exact Hid].
    destruct (mwfn_S_inv _ _ Wr') as (h' & cs' & -> & _).
    apply rm_index with (d := d); [exact Wr'| |congruence].
    cbn [hdr_of] in *. unfold MapRebalance_proofs.slack in Hsz. cbn [is_data] in Hsz. lia.
Qed.

Lemma root_remove_ok r k alloc : mwf_root r -> last_next r = 0 -> pairs r ->
  match remove_elems (op_fuel levels) (gtree r) 0 k with
  | inl e => n_remove RP r k alloc = TErr (TElem e)
  | inr (g', kvp, evs) =>
    exists r' alloc' lg, n_remove RP r k alloc = TOk (r', kvp, alloc', lg) /\ gtree r' = g' /\
      root_mid r' /\ mh_id (hdr_of r') = mh_id (hdr_of r)
  end.
Proof.
  intros Hr Hln Hp.
  destruct (mwf_root_cases r Hr) as [(h & hks & els & -> & Hs & HF & He & Hf & Hz & Hx)|(d & h & hs & cs & -> & Hw & H2 & Hx)].
  - unfold gtree, MapTreeOps_proofs.pairs in *. cbn [keys_of elems_flat g_hkeys g_elems] in *.
    pose proof (leaf_remove_ok dg levels T HT Hlv limit ks RP h 0 hks els k Hs HF He Hp) as L.
    cbn [MapTree.n_remove].
    destruct (remove_elems (op_fuel levels) (HKey 0 hks els (hk_recompute els)) 0 k)
      as [e|[[g' kvp] evs]]; [rewrite L; reflexivity|].
    destruct L as (hks' & els' & -> & EL & Hs' & HF' & He' & Hp' & Hsl).
    rewrite EL. do 3 eexists. split; [reflexivity|]. split; [reflexivity|]. split; [|reflexivity].
    constructor; cbn [mh_first mh_size]; auto. lia.
  - rewrite n_remove_pfx_MM.
    pose proof (n_remove_ok dg levels T HT Hlv limit ks (S d) _ Hw H2 Hp k alloc) as L.
    destruct (remove_elems (op_fuel levels) (gtree (MM h hs cs)) 0 k)
      as [e|[[g' kvp] evs]]; [exact L|].
    destruct L as (r' & alloc' & lg & En & Eg & Wr' & Hid & Hln' & Hsz).
    exists r', alloc', lg. split; [exact En|]. split; [exact Eg|]. split; [|exact Hid].
    destruct (mwfn_S_inv _ _ Wr') as (h' & cs' & -> & _).
    apply rm_index with (d := d); [exact Wr'| |congruence].
    cbn [hdr_of] in *. unfold MapRebalance_proofs.slack in Hsz. cbn [is_data] in Hsz. lia.
Qed.

(** * the map invariant and one operation *)
(* what [Storable()] guarantees for the arguments of Set: here in its weakest form — the key's
   encoded size is the one recorded for this key, the single element fits the inline limit *)
Definition mop_ok (o : mop) : Prop := match o with OSet k v => pair_ok (k, v) | _ => True end.

Definition minv (t : mtree) : Prop :=
  mtwf t /\ last_next (t_root t) = 0 /\ pairs_ok (to_list_tree (t_root t)).

Lemma minv_state t : minv t ->
  mwf dg levels (mstate_of_tree t) /\ m_root (mstate_of_tree t) = gtree (t_root t) /\
  to_list_tree (t_root t) = to_list (gtree (t_root t)) /\ pairs (t_root t).
Proof.
  intros ((Hr & Hc) & Hln & Hp). destruct (root_gtree _ Hr) as (E1 & E2 & E3).
  unfold mstate_of_tree. cbn [m_root]. repeat split.
  - unfold ewf. cbn [m_root]. rewrite E1. exact E2.
  - cbn [m_root m_count]. rewrite E1, <- E3. exact Hc.
  - exact E1.
  - exact E3.
  - unfold MapTreeOps_proofs.pairs. rewrite <- gtree_to_list, <- E3. exact Hp.
Qed.

Lemma gtree_eq n n' : keys_of n' = keys_of n -> elems_flat n' = elems_flat n -> gtree n' = gtree n.
Proof. unfold gtree. intros -> ->. reflexivity. Qed.

(* the tree state after a successful update whose element-level result is g' *)
Lemma after_update r' alloc' cnt g' : root_mid r' -> gtree r' = g' ->
  ewf_g 0 g' -> cnt = N.of_nat (length (to_list g')) -> pairs_ok (to_list g') ->
  exists t2 lg, fix_root c (mkmt r' alloc' cnt) = (TOk t2, lg) /\
    elems_of_tree (t_root t2) = g' /\ t_count t2 = cnt /\ minv t2 /\
    mh_id (hdr_of (t_root t2)) = mh_id (hdr_of r').
Proof.
  intros Hm Eg Wg Hc Hp.
  destruct (fix_root_ok r' alloc' cnt Hm) as (t2 & lg & Ef & Hr2 & K2 & E2 & C2 & L2 & I2).
  exists t2, lg. split; [exact Ef|].
  destruct (root_gtree _ Hr2) as (G1 & G2 & G3).
  rewrite (gtree_eq _ _ K2 E2), Eg in G1, G3.
  split; [exact G1|]. split; [exact C2|]. split; [|exact I2].
  split; [split; [exact Hr2|]|split; [exact L2|]].
  - rewrite G3, C2. exact Hc.
  - rewrite G3. exact Hp.
Qed.

Theorem mt_set_ok t k v : minv t -> pair_ok (k, v) ->
  let '(t', x, _) := mt_step t (OSet k v) in
  let '(s', y, _) := m_step (mstate_of_tree t) (OSet k v) in
  x = y /\ m_root s' = elems_of_tree (t_root t') /\ m_count s' = t_count t' /\ minv t' /\
  t_rootid t' = t_rootid t.
Proof.
  intros Hi Hkv. destruct (minv_state t Hi) as ((Hw & Hcnt) & Er & Etl & Hp).
  destruct Hi as ((Hr & Hc) & Hln & Hpp).
  cbn [MapTree.mt_step MapElems.m_step]. unfold mt_set. rewrite Er.
  unfold mstate_of_tree at 1. cbn [m_next].
  pose proof (root_set_ok (t_root t) k v (t_alloc t) Hr Hln Hp Hkv) as L.
  destruct (set_spec dg levels M limit (op_fuel levels)) as [_ SG].
  unfold ewf in Hw. rewrite Er in Hw.
  destruct (SG (gtree (t_root t)) 0%nat k v (t_alloc t + 1) ltac:(unfold op_fuel; lia) Hw)
    as [(_ & Eq & _)|(g' & a' & evs & Eq & Wg & TL & _)]; rewrite Eq in L |- *.
  - rewrite L. cbn [terr_out]. repeat split; auto.
  - destruct L as (r' & alloc' & lg & En & Eg & Hm & Hid). rewrite En.
    rewrite Nat.sub_0_r in TL.
    set (cnt := match option_map snd (d_get (to_list (gtree (t_root t))) (kid k)) with
                | Some _ => t_count t | None => t_count t + 1 end).
    assert (Hcnt' : cnt = N.of_nat (length (to_list g'))).
    { subst cnt. rewrite TL, Hc, Etl. unfold MapElems_proofs.d_set_from.
      destruct (d_get (to_list (gtree (t_root t))) (kid k)); cbn [option_map].
      - rewrite d_replace_length. reflexivity.
      - rewrite d_ins_from_length. lia. }
    assert (Hpp' : pairs_ok (to_list g')).
    { rewrite TL. apply d_set_from_pairs; [|exact Hkv]. rewrite <- Etl. exact Hpp. }
    destruct (after_update r' alloc' cnt g' Hm Eg Wg Hcnt' Hpp') as (t2 & lg2 & Ef & E2 & C2 & I2 & Id2).
    replace (match option_map snd (d_get (to_list (gtree (t_root t))) (kid k)) with
             | Some _ => t_count t | None => t_count t + 1 end) with cnt by reflexivity.
    rewrite Ef. cbn [m_root m_count mstate_of_tree].
    repeat split; auto.
    + apply I2.
    + apply I2.
    + apply I2.
    + apply I2.
    + unfold t_rootid. rewrite Id2, Hid. reflexivity.
Qed.

Theorem mt_remove_ok t k : minv t ->
  let '(t', x, _) := mt_step t (ORemove k) in
  let '(s', y, _) := m_step (mstate_of_tree t) (ORemove k) in
  x = y /\ m_root s' = elems_of_tree (t_root t') /\ m_count s' = t_count t' /\ minv t' /\
  t_rootid t' = t_rootid t.
Proof.
  intros Hi. destruct (minv_state t Hi) as ((Hw & Hcnt) & Er & Etl & Hp).
  destruct Hi as ((Hr & Hc) & Hln & Hpp).
  cbn [MapTree.mt_step MapElems.m_step]. unfold mt_remove. rewrite Er.
  pose proof (root_remove_ok (t_root t) k (t_alloc t) Hr Hln Hp) as L.
  destruct (remove_spec dg levels limit (op_fuel levels)) as [_ RG].
  unfold ewf in Hw. rewrite Er in Hw.
  specialize (RG (gtree (t_root t)) 0%nat k ltac:(unfold op_fuel; lia) Hw).
  destruct (d_get (to_list (gtree (t_root t))) k) as [[k0 v0]|] eqn:D.
  - destruct RG as (g' & evs & Eq & Wg & TL). rewrite Eq in L |- *.
    destruct L as (r' & alloc' & lg & En & Eg & Hm & Hid). rewrite En.
    assert (Hcnt' : t_count t - 1 = N.of_nat (length (to_list g'))).
    { rewrite TL, Hc, Etl. pose proof (d_remove_length _ _ _ D). lia. }
    assert (Hpp' : pairs_ok (to_list g')).
    { rewrite TL. apply d_remove_Forall. rewrite <- Etl. exact Hpp. }
    destruct (after_update r' alloc' (t_count t - 1) g' Hm Eg Wg Hcnt' Hpp') as (t2 & lg2 & Ef & E2 & C2 & I2 & Id2).
    rewrite Ef. cbn [m_root m_count mstate_of_tree].
    repeat split; auto; try apply I2.
    unfold t_rootid. rewrite Id2, Hid. reflexivity.
  - rewrite RG in L |- *. rewrite L. cbn [terr_out]. repeat split; auto.
Qed.

(** * the other operations *)
Lemma root_iter r : mwf_root r ->
  first_key_tree r = first_key (gtree r) /\
  forall fuel cur, iter_next_tree dg levels fuel r cur = iter_next dg levels fuel (gtree r) cur.
Proof.
  intros Hr.
  destruct (mwf_root_cases r Hr) as [(h & hks & els & -> & Hs & HF & He & Hf & Hz & Hx)|(d & h & hs & cs & -> & Hw & H2 & Hx)].
  - split; [reflexivity|]. apply iter_next_tree_eq. intros k. reflexivity.
  - split; [apply (first_key_tree_ok dg levels T HT Hlv _ _ Hw)|apply (iter_next_tree_ok dg levels T HT Hlv _ _ Hw)].
Qed.

Lemma minv_empty rootid alloc : minv (mkmt (empty_root rootid) alloc 0).
Proof.
  split; [split|split]; cbn [t_root t_count empty_root]; try reflexivity; [|constructor].
  constructor; cbn [mh_first mh_size]; try reflexivity.
  - constructor; [exact Hlv|constructor|reflexivity|constructor].
  - constructor.
  - mcfg_lia.
Qed.

Lemma elems_of_empty rootid : elems_of_tree (empty_root rootid) = HKey 0 [] [] c_hkeyElementsPrefixSize.
Proof. reflexivity. Qed.

Theorem mt_step_ok t o : minv t -> mop_ok o ->
  let '(t', x, _) := mt_step t o in
  let '(s', y, _) := m_step (mstate_of_tree t) o in
  x = y /\ m_root s' = elems_of_tree (t_root t') /\ m_count s' = t_count t' /\ minv t' /\
  t_rootid t' = t_rootid t.
Proof.
  intros Hi Hok. destruct o as [k v|k|k|k| | | |].
  - apply mt_set_ok; assumption.
  - (* Get *)
    destruct (minv_state t Hi) as (_ & Er & _).
    pose proof (mt_get_refines dg levels M limit c t k Hlv (valid_T_min T HT) (proj1 Hi)) as [G _].
    cbn [MapTree.mt_step MapElems.m_step] in *.
    destruct (get_elems dg levels (op_fuel levels) (m_root (mstate_of_tree t)) 0 k) as [e|[k0 v0]];
      cbn [fst snd] in *; repeat split; auto; apply Hi.
  - (* Has *)
    destruct (minv_state t Hi) as (_ & Er & _).
    pose proof (mt_get_refines dg levels M limit c t k Hlv (valid_T_min T HT) (proj1 Hi)) as [_ G].
    cbn [MapTree.mt_step MapElems.m_step] in *.
    destruct (get_elems dg levels (op_fuel levels) (m_root (mstate_of_tree t)) 0 k) as [[| |]|[k0 v0]];
      cbn [fst snd] in *; repeat split; auto; apply Hi.
  - apply mt_remove_ok; assumption.
  - (* Count *)
    cbn [MapTree.mt_step MapElems.m_step]. repeat split; auto; apply Hi.
  - (* Iterate *)
    destruct (minv_state t Hi) as (_ & Er & Etl & _).
    cbn [MapTree.mt_step MapElems.m_step]. rewrite Er, Etl. repeat split; auto; try apply Hi.
    all: try (unfold mstate_of_tree; cbn [m_root]; symmetry; apply root_gtree, Hi).
  - (* mutable iterator *)
    destruct (minv_state t Hi) as (_ & Er & Etl & _).
    destruct (root_iter _ (proj1 (proj1 Hi))) as (Fk & It).
    cbn [MapTree.mt_step MapElems.m_step]. rewrite Er, Etl, Fk, It. repeat split; auto; try apply Hi.
    all: try (unfold mstate_of_tree; cbn [m_root]; symmetry; apply root_gtree, Hi).
  - (* PopIterate *)
    destruct (minv_state t Hi) as (_ & Er & Etl & _).
    cbn [MapTree.mt_step MapElems.m_step]. unfold mt_pop.
    pose proof (n_pop_rev (t_root t)) as Pn. destruct pop_list_rev as [_ PR]. specialize (PR (m_root (mstate_of_tree t))).
    destruct (n_pop (t_root t)) as [d evs]. destruct (pop_list (m_root (mstate_of_tree t))) as [d' evs'].
    cbn [fst] in Pn, PR. cbn [m_root m_count t_root t_count].
    split; [rewrite Pn, PR, Er, Etl; reflexivity|]. split; [symmetry; apply elems_of_empty|].
    split; [reflexivity|]. split; [apply minv_empty|reflexivity].
Qed.

(** * whole histories *)
Local Notation mt_run := (mt_run dg levels M limit c).
Local Notation d_run := (d_run dg levels limit).

Lemma minv_list t : minv t -> to_list (m_root (mstate_of_tree t)) = to_list_tree (t_root t).
Proof. intros Hi. destruct (minv_state t Hi) as (_ & Er & Etl & _). rewrite Er, Etl. reflexivity. Qed.

Theorem mt_run_refines : forall ops t, minv t -> Forall mop_ok ops ->
  let '(t', outs) := mt_run t ops in
  let '(d', outs') := d_run (to_list_tree (t_root t)) ops in
  outs = outs' /\ to_list_tree (t_root t') = d' /\ t_count t' = N.of_nat (length d') /\ minv t' /\
  t_rootid t' = t_rootid t.
Proof.
  induction ops as [|o ops IH]; intros t Hi Hops; cbn [MapTree.mt_run MapElems.d_run].
  - repeat split; auto; apply Hi.
  - pose proof (Forall_inv Hops) as Ho. pose proof (Forall_inv_tail Hops) as Hops'.
    pose proof (mt_step_ok t o Hi Ho) as St.
    destruct (minv_state t Hi) as (Hw & _).
    pose proof (m_step_refines_all dg levels M limit (mstate_of_tree t) o Hlv Hw) as (Ed & _).
    rewrite (minv_list t Hi) in Ed.
    destruct (mt_step t o) as [[t1 x] lg]. destruct (m_step (mstate_of_tree t) o) as [[s1 y] evs].
    cbn [fst snd] in Ed. destruct St as (Exy & Er1 & Ec1 & Hi1 & Id1).
    rewrite Ed. rewrite Er1 in Ed.
    assert (E1 : to_list (elems_of_tree (t_root t1)) = to_list_tree (t_root t1)).
    { destruct (root_gtree _ (proj1 (proj1 Hi1))) as (A & _ & B). rewrite A, B. reflexivity. }
    rewrite Er1, E1. specialize (IH t1 Hi1 Hops').
    destruct (mt_run t1 ops) as [t2 outs]. destruct (d_run (to_list_tree (t_root t1)) ops) as [d2 outs'].
    destruct IH as (I1 & I2 & I3 & I4 & I5). subst. repeat split; auto; try apply I4. congruence.
Qed.

Theorem mt_run_from_empty rootid ops : Forall mop_ok ops ->
  let '(t', outs) := mt_run (fst (mt_init rootid)) ops in
  let '(d', outs') := d_run [] ops in
  outs = outs' /\ to_list_tree (t_root t') = d' /\ t_count t' = N.of_nat (length d') /\ minv t' /\
  t_rootid t' = rootid.
Proof.
  intros Hops. pose proof (mt_run_refines ops (fst (mt_init rootid)) (minv_empty rootid rootid) Hops) as H.
  exact H.
Qed.

End WithT.

(** * consequences stated over the tree invariant alone *)
Section Iteration.
Variable dg : N -> nat -> N.
Variable levels : nat.
Variable T : N.
Hypothesis HT : valid_T T.
Hypothesis Hlv : (0 < levels)%nat.
Local Notation c := (set_threshold T).

(* M5: iteration across the slabs of a well-formed tree *)
Theorem tree_iteration t : mtwf dg levels c t ->
  let r := t_root t in
  to_list_tree r = to_list (elems_of_tree r) /\ ewf dg levels (elems_of_tree r) /\
  StronglySorted (fun p q => key_lt dg levels (kid (fst q)) (kid (fst p)) = false) (to_list_tree r) /\
  NoDup (dkeys (to_list_tree r)) /\
  fst (n_pop r) = rev (to_list_tree r) /\
  iter_next_tree dg levels (S (length (to_list_tree r))) r (first_key_tree r) = to_list_tree r.
Proof.
  intros (Hr & Hc). cbv zeta.
  destruct (root_gtree dg levels T HT Hlv 0 (fun _ => 0) _ Hr) as (E1 & E2 & E3).
  destruct (root_iter dg levels T HT Hlv _ Hr) as (Fk & It).
  destruct (order_spec dg levels 0) as [_ O]. specialize (O _ 0%nat E2). rewrite Nat.sub_0_r in O.
  unfold ewf. rewrite E1, E3. split; [reflexivity|]. split; [exact E2|]. split; [apply O|]. split; [apply O|].
  split; [rewrite <- E3; apply n_pop_rev|].
  rewrite <- E3, Fk, It, E3. apply (iter_next_to_list dg levels 0 0). exact E2.
Qed.
End Iteration.

(* what OrderedMap.Set passes down after [Storable()]: the key is at most maxInlineMapKeySize, the
   value at most maxInlineMapValueSize(key size) = maxInlineMapElementSize - key size - 1; the
   encoded size of a key is determined by the key *)
Definition storable_ok (c : cfg) (ks : N -> N) (k v : kv) : Prop :=
  ksz k = ks (kid k) /\ 0 < ksz k <= cinl_mkey c /\
  0 < ksz v <= cinl_melem c - ksz k - c_singleElementPrefixSize.

Lemma storable_mop_ok T ks k v : storable_ok (set_threshold T) ks k v -> mop_ok T ks (OSet k v).
Proof.
  intros (H1 & H2 & H3). split; cbn [fst snd]; [exact H1|]. unfold ssize. lia.
Qed.
