(* TwoArrays_examples.v — concrete worlds for C17_independent (non-vacuity), slab size 256.
   The worlds are stored in evaluated form ([Eval vm_compute]) with an equation to their defining
   expression, so that conversion never has to run the model lazily. *)
From Coq Require Import NArith ZArith List Bool Lia.
From AtreeGen Require Import Consts.
From AtreeModel Require Import Settings ArrayTree ArrayInv Batch TwoArrays.
From AtreeProofs Require Import Array_proofs TwoArrays_proofs.
Import ListNotations.
Local Open Scope N_scope.

Definition ex_c := set_threshold 256.
Definition el (k : nat) : elem := mkelem (Z.of_nat k) (30 + N.of_nat (Nat.modulo k 5) * 17) 0.
(* two new arrays (roots 1 and 2); 12 appends to A interleaved with 12 inserts at the front of B;
   a Set with a large value on A; removes; SetType on B *)
Definition ex_ops : list (side * aop) :=
  flat_map (fun k => [(SA, OAppend (el k)); (SB, OInsert 0 (el (k + 100)))]) (seq 0 12)
  ++ [(SA, OSet 3 (mkelem 500 19 1)); (SB, ORemove 2); (SA, ORemove 0); (SB, OSetType 77)].
Definition wex : world := Eval vm_compute in fst (wrun ex_c (w_new2 0 7 8) ex_ops).
Lemma wex_eq : wex = fst (wrun ex_c (w_new2 0 7 8) ex_ops).
Proof. vm_compute. reflexivity. Qed.

(* B' built by batch next to A (10 elements of 100 bytes) *)
Definition ex_batch : list elem := repeat (mkelem 1 100 0) 10.
Definition wb : world := Eval vm_compute in w_batch ex_c (w_a wex) (w_alloc wex) (w_store wex) 9 ex_batch.
Lemma wb_eq : wb = w_batch ex_c (w_a wex) (w_alloc wex) (w_store wex) 9 ex_batch.
Proof. vm_compute. reflexivity. Qed.

(* B' emptied by PopIterate and refilled while A splits a leaf *)
Definition ex_ops2 : list (side * aop) :=
  [(SB, OPop); (SA, OInsert 0 (el 7)); (SB, OAppend (el 1)); (SA, OInsert 0 (el 8)); (SA, OInsert 0 (el 9))].

Lemma ex_valid : valid_T 256.
Proof. unfold valid_T; vm_compute; split; discriminate. Qed.

Lemma ex_ops_ok : Forall (fun p : side * aop => aop_ok ex_c (snd p)) ex_ops.
Proof.
  unfold ex_ops. cbn [flat_map seq app].
  repeat (constructor; [cbn [snd aop_ok]; try exact I; repeat split; vm_compute; congruence|]). constructor.
Qed.

Lemma ex_ops2_ok : Forall (fun p : side * aop => aop_ok ex_c (snd p)) ex_ops2.
Proof.
  unfold ex_ops2.
  repeat (constructor; [cbn [snd aop_ok]; try exact I; repeat split; vm_compute; congruence|]). constructor.
Qed.

Lemma ex_world : winv wex /\ wwf 256 wex /\ store_ok wex SA /\ store_ok wex SB.
Proof.
  destruct (w_new2_ok 0 7 8) as (Hw & Hsa & Hsb & _).
  pose proof (two_arrays_main 256 ex_valid (w_new2 0 7 8) Hw (w_new2_wwf 256 ex_valid 0 7 8) ex_ops ex_ops_ok) as H.
  cbv zeta in H. rewrite wex_eq. unfold ex_c.
  destruct H as (H1 & H2 & _ & H3 & _).
  split; [exact H1|]. split; [exact H2|]. split; [apply H3; exact Hsa|apply H3; exact Hsb].
Qed.

Lemma ex_world_ids :
  slab_ids (a_root (w_a wex)) = [1; 3; 9; 4; 7] /\ slab_ids (a_root (w_b wex)) = [2; 5; 8; 6] /\ w_alloc wex = 9 /\
  is_data (a_root (w_a wex)) = false /\ is_data (a_root (w_b wex)) = false.
Proof. vm_compute. repeat split. Qed.

Lemma ex_batch_elems : Forall (elem_ok (set_threshold 256)) ex_batch.
Proof. apply Forall_forall. intros e He. apply repeat_spec in He. subst e. vm_compute. split; [reflexivity|discriminate]. Qed.

Lemma ex_batch_world : winv wb /\ wwf 256 wb /\ store_ok wb SA /\ store_ok wb SB.
Proof.
  destruct ex_world as (Hw & Hwf & Hsa & _).
  pose proof (w_batch_ok 256 (w_alloc wex) 9 ex_batch (w_a wex) (w_store wex) ex_valid ex_batch_elems (proj1 Hw)) as H.
  assert (Hn : N.of_nat (length ex_batch) <= max_count) by (vm_compute; discriminate).
  pose proof (w_batch_wwf 256 ex_valid (w_alloc wex) 9 ex_batch (w_a wex) (w_store wex) ex_batch_elems Hn (proj1 Hwf)) as H2.
  cbv zeta in H. rewrite wb_eq. unfold ex_c.
  destruct H as (_ & _ & H3 & _ & _ & H6 & H7).
  split; [exact H3|]. split; [exact H2|]. split; [apply H7; exact Hsa|exact H6].
Qed.

Lemma ex_batch_ids :
  slab_ids (a_root (w_b wb)) = [14; 10; 11; 12; 13] /\
  (let w := fst (wrun ex_c wb ex_ops2) in
   slab_ids (a_root (w_a w)) = [1; 3; 15; 9; 4; 7] /\ slab_ids (a_root (w_b w)) = [14] /\
   map (fun i => match w_store w i with Some _ => true | None => false end) [10; 11; 12; 13; 14; 15]
     = [false; false; false; false; true; true] /\
   w_store w 2 = w_store wex 2).
Proof. vm_compute. repeat split. Qed.
