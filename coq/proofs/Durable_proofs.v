(* Durable_proofs.v — the array tree is durable (C03, container level, arrays).

   A. [load_flatten]: a tree is rebuilt exactly from its own slabs by following child ids.
   B. [step_represents] / [run_represents]: replaying the storeSlab / Remove logs of a history
      against a slab map yields a map that holds exactly the final tree (consequence of the frame
      theorem F2 of ArrayFrame_proofs).
   C. the same at the level of the storage model: issuing the logged calls, committing and
      re-creating the storage leaves a ledger from which [load] rebuilds the array
      ([commit_durable]); operations without commit do not change that ([crash_durable]);
      histories with commits anywhere ([last_commit_durable]).
   D. the concrete codec: [g_dec (g_enc x) = Some x]. *)
From stdpp Require Import gmap sorting.
From Coq Require Import ZArith NArith List Bool Lia ZifyBool ZifyN ZifyNat Permutation.
From AtreeGen Require Import Consts.
From AtreeModel Require Import Storage StorageSpec Settings ArrayTree ArrayInv Durable.
From AtreeProofs Require Import Storage_proofs Commit_proofs StorageProps_proofs
  ArrayFrame_proofs Settings_proofs Array_proofs.
Local Open Scope N_scope.

(** * A. load ∘ flatten *)

Lemma assoc_app {V} (l1 l2 : list (N * V)) id :
  assoc (l1 ++ l2) id = match assoc l1 id with Some v => Some v | None => assoc l2 id end.
Proof.
  induction l1 as [|kv r IH]; [reflexivity|]. cbn [app assoc].
  destruct (N.eqb (fst kv) id); [reflexivity|exact IH].
Qed.

(* the slab list of a tree, looked up by id, is [node_at] *)
Lemma assoc_flatten n id : assoc (flatten n) id = node_at n id.
Proof.
  induction n as [h nx es|h hs sums cs IH] using anode_ind'.
  - cbn. destruct (h_id h =? id); reflexivity.
  - rewrite node_at_AM. cbn [flatten assoc fst snd]. destruct (h_id h =? id); [reflexivity|].
    induction IH as [|c r Hc Hr IHr]; [reflexivity|].
    cbn [flat_map nodes_at]. rewrite assoc_app, Hc, IHr. reflexivity.
Qed.

Lemma map_fst_flatten n : map fst (flatten n) = tree_ids n.
Proof.
  induction n as [h nx es|h hs sums cs IH] using anode_ind'; [reflexivity|].
  cbn [flatten tree_ids map fst]. f_equal.
  induction IH as [|c r Hc Hr IHr]; [reflexivity|].
  cbn [flat_map]. rewrite map_app, Hc, IHr. reflexivity.
Qed.

Lemma all_some_map {A B} (f : A -> option B) (g : A -> B) l :
  (forall x, In x l -> f x = Some (g x)) -> all_some (map f l) = Some (map g l).
Proof.
  induction l as [|a r IH]; intros H; [reflexivity|].
  cbn [map all_some]. rewrite (H a) by (left; reflexivity).
  rewrite IH by (intros x Hx; apply H; right; exact Hx). reflexivity.
Qed.

Lemma hdrs_ok_AM h hs sums cs :
  hdrs_ok (AM h hs sums cs) <-> map h_id hs = map nid cs /\ Forall hdrs_ok cs.
Proof.
  cbn [hdrs_ok].
  assert (E : forall l, (fix go (l : list anode) : Prop :=
                           match l with [] => True | c :: r => hdrs_ok c /\ go r end) l <-> Forall hdrs_ok l).
  { induction l as [|c r IH]; [split; auto|]. rewrite IH. split.
    - intros [? ?]; constructor; auto.
    - intros H; inversion H; auto. }
  rewrite E. tauto.
Qed.

Lemma nodes_at_in cs : forall c id s,
  NoDup (flat_map tree_ids cs) -> In c cs -> node_at c id = Some s -> nodes_at cs id = Some s.
Proof.
  induction cs as [|c0 r IH]; intros c id s HN Hin Hs; [destruct Hin|].
  cbn [nodes_at]. cbn [flat_map] in HN.
  destruct Hin as [->|Hin]; [rewrite Hs; reflexivity|].
  destruct (node_at c0 id) as [s'|] eqn:E0.
  - exfalso. assert (H0 : In id (tree_ids c0)).
    { destruct (in_dec N.eq_dec id (tree_ids c0)) as [H|H]; [exact H|].
      apply node_at_none in H. congruence. }
    assert (H1 : In id (flat_map tree_ids r)).
    { apply in_flat_map. exists c. split; [exact Hin|].
      destruct (in_dec N.eq_dec id (tree_ids c)) as [H|H]; [exact H|].
      apply node_at_none in H. congruence. }
    eapply nodup_app_disj in HN; eauto.
  - apply (IH c id s); [|exact Hin|exact Hs].
    revert HN. rewrite !nodup_cnt. intros HN x. specialize (HN x). cnt_norm. lia.
Qed.

Lemma length_tree_ids_in cs c : In c cs -> (length (tree_ids c) <= length (flat_map tree_ids cs))%nat.
Proof.
  induction cs as [|c0 r IH]; intros Hin; [destruct Hin|].
  cbn [flat_map]. rewrite app_length. destruct Hin as [->|Hin]; [lia|]. specialize (IH Hin). lia.
Qed.

Lemma nodup_flat_in cs c : NoDup (flat_map tree_ids cs) -> In c cs -> NoDup (tree_ids c).
Proof.
  induction cs as [|c0 r IH]; intros HN Hin; [destruct Hin|].
  cbn [flat_map] in HN. destruct Hin as [->|Hin].
  - revert HN. rewrite !nodup_cnt. intros HN x. specialize (HN x). cnt_norm. lia.
  - apply IH; [|exact Hin]. revert HN. rewrite !nodup_cnt. intros HN x. specialize (HN x). cnt_norm. lia.
Qed.

(* any slab map that agrees with the tree on the tree's own slabs will do *)
Theorem load_agree n : forall (m : N -> option shallow) fuel,
  (forall id s, node_at n id = Some s -> m id = Some s) ->
  NoDup (tree_ids n) -> hdrs_ok n -> (length (tree_ids n) < fuel)%nat ->
  load fuel m (nid n) = Some n.
Proof.
  induction n as [h nx es|h hs sums cs IH] using anode_ind'; intros m fuel Hm HN Hh Hf.
  - destruct fuel as [|f]; [cbn in Hf; lia|]. unfold nid. cbn [load hdr_of].
    rewrite (Hm (h_id h) (SD h nx es)); [reflexivity|]. cbn. now rewrite N.eqb_refl.
  - destruct fuel as [|f]; [cbn in Hf; lia|]. unfold nid. cbn [load hdr_of].
    rewrite (Hm (h_id h) (SM h hs sums)) by (rewrite node_at_AM, N.eqb_refl; reflexivity).
    apply hdrs_ok_AM in Hh as [Hids Hcs].
    rewrite tree_ids_AM in HN, Hf. cbn [length] in Hf.
    assert (HN' : NoDup (flat_map tree_ids cs)) by (inversion HN; assumption).
    assert (Hroot : ~ In (h_id h) (flat_map tree_ids cs)) by (inversion HN; assumption).
    assert (E : map (fun hh => load f m (h_id hh)) hs = map (fun c => load f m (nid c)) cs).
    { rewrite <- (map_map h_id (fun i => load f m i)), Hids, map_map. reflexivity. }
    rewrite E. rewrite (all_some_map _ (fun c => c)), map_id; [reflexivity|].
    intros c Hin. rewrite Forall_forall in IH, Hcs.
    apply (IH c Hin).
    + intros id s Hs. apply Hm. rewrite node_at_AM.
      assert (Hid : In id (tree_ids c)).
      { destruct (in_dec N.eq_dec id (tree_ids c)) as [H|H]; [exact H|].
        apply node_at_none in H. congruence. }
      assert (Hne : h_id h <> id).
      { intros <-. apply Hroot, in_flat_map. eauto. }
      replace (h_id h =? id) with false by lia.
      eapply nodes_at_in; eauto.
    + eapply nodup_flat_in; eauto.
    + apply Hcs, Hin.
    + pose proof (length_tree_ids_in cs c Hin). lia.
Qed.

(* D1: the tree is reconstructed exactly from the list of its own slabs *)
Theorem load_flatten n fuel :
  NoDup (tree_ids n) -> hdrs_ok n -> (length (flatten n) < fuel)%nat ->
  load fuel (assoc (flatten n)) (nid n) = Some n.
Proof.
  intros HN Hh Hf. apply load_agree; auto.
  - intros id s Hs. rewrite assoc_flatten. exact Hs.
  - rewrite <- map_fst_flatten, map_length. exact Hf.
Qed.

(* the tree invariant gives [hdrs_ok] *)
Lemma wfn_hdrs_ok c d n : wfn c d n -> hdrs_ok n.
Proof.
  revert d. induction n as [h nx es|h hs sums cs IH] using anode_ind'; intros d H; [exact I|].
  inversion H; subst. apply hdrs_ok_AM. split.
  - rewrite map_map. reflexivity.
  - rewrite Forall_forall in *. intros x Hx. eapply IH; eauto.
Qed.
Lemma wf_root_hdrs_ok c n : wf_root c n -> hdrs_ok n.
Proof. intros H. inversion H; subst; [exact I|]. eapply wfn_hdrs_ok; eauto. Qed.

Lemma load_ext fuel : forall (m1 m2 : N -> option shallow) id,
  (forall j, m1 j = m2 j) -> load fuel m1 id = load fuel m2 id.
Proof.
  induction fuel as [|f IH]; intros m1 m2 id H; [reflexivity|].
  cbn [load]. rewrite H. destruct (m2 id) as [[h nx es|h hs sums]|]; try reflexivity.
  replace (map (fun hh => load f m1 (h_id hh)) hs) with (map (fun hh => load f m2 (h_id hh)) hs); [reflexivity|].
  apply map_ext. intros hh. symmetry. apply IH, H.
Qed.

(** * B. Replay of write logs against a slab map *)

(* the net effect of a log on one slab is its last event *)
Lemma apply_log_last_ev {V} (cont : N -> V) lg : forall m id,
  apply_log cont lg m id =
  match last_ev lg id with
  | None => m id
  | Some EvStore => Some (cont id)
  | Some EvRemove => None
  end.
Proof.
  induction lg as [|[i|i] r IH]; intros m id; [reflexivity| |]; cbn [apply_log last_ev]; rewrite IH;
    destruct (last_ev r id) as [[|]|]; try reflexivity; unfold upd;
    destruct (N.eqb_spec i id); destruct (N.eqb_spec id i); subst; congruence.
Qed.

Lemma apply_log_app {V} (cont : N -> V) l1 l2 m :
  apply_log cont (l1 ++ l2) m = apply_log cont l2 (apply_log cont l1 m).
Proof. revert m; induction l1 as [|[i|i] r IH]; intros m; cbn [app apply_log]; auto. Qed.

Lemma apply_log_ext {V} (cont : N -> V) lg : forall m1 m2,
  (forall j, m1 j = m2 j) -> forall j, apply_log cont lg m1 j = apply_log cont lg m2 j.
Proof. intros m1 m2 H j. rewrite !apply_log_last_ev, H. reflexivity. Qed.

(* replay commutes with a relabelling of the contents *)
Lemma apply_log_map {V W} (f : N -> V -> W) (cont : N -> V) lg m id :
  apply_log (fun j => f j (cont j)) lg (fun j => option_map (f j) (m j)) id =
  option_map (f id) (apply_log cont lg m id).
Proof. rewrite !apply_log_last_ev. destruct (last_ev lg id) as [[|]|]; reflexivity. Qed.

(** the type info changes only together with a store of the root slab *)
Lemma split_root_type a a2 lg : split_root a = (Ok a2, lg) -> a_type a2 = a_type a.
Proof. intros H. apply split_root_inv in H as (?&?&?&?&?&?&_&_&_&_&->&_). reflexivity. Qed.
Lemma promote_type a a3 lg : promote_if_single a = (a3, lg) -> a_type a3 = a_type a.
Proof. intros H. apply promote_inv in H as [[-> _]|(?&?&?&?&?&_&->&_)]; reflexivity. Qed.

Lemma a_set_type c a i e a' out lg : a_set c a i e = (a', out, lg) -> a_type a' = a_type a.
Proof.
  unfold a_set. destruct (n_set c RP (a_root a) i e (a_alloc a)) as [[[[r' old] alloc'] lg1]|].
  2: { intros [= <- <- <-]. reflexivity. }
  destruct (if n_is_full c r' then split_root _ else _) as [ra2 lg2] eqn:E2.
  destruct ra2 as [a2|x]; [|intros [= <- <- <-]; reflexivity].
  destruct (promote_if_single a2) as [a3 lg3] eqn:E3. intros [= <- <- <-].
  rewrite (promote_type _ _ _ E3). destruct (n_is_full c r').
  - rewrite (split_root_type _ _ _ E2). reflexivity.
  - injection E2 as <- <-. reflexivity.
Qed.
Lemma a_insert_type c a i e a' out lg : a_insert c a i e = (a', out, lg) -> a_type a' = a_type a.
Proof.
  unfold a_insert. destruct (a_count a =? max_count); [intros [= <- <- <-]; reflexivity|].
  destruct (n_insert c (a_root a) i e (a_alloc a)) as [[[r' alloc'] lg1]|].
  2: { intros [= <- <- <-]. reflexivity. }
  destruct (if n_is_full c r' then split_root _ else _) as [ra2 lg2] eqn:E2.
  destruct ra2 as [a2|x]; [|intros [= <- <- <-]; reflexivity].
  intros [= <- <- <-]. destruct (n_is_full c r').
  - rewrite (split_root_type _ _ _ E2). reflexivity.
  - injection E2 as <- <-. reflexivity.
Qed.
Lemma a_remove_type c a i a' out lg : a_remove c a i = (a', out, lg) -> a_type a' = a_type a.
Proof.
  unfold a_remove. destruct (n_remove c (a_root a) i) as [[[r' old] lg1]|].
  2: { intros [= <- <- <-]. reflexivity. }
  destruct (promote_if_single _) as [a3 lg3] eqn:E3. intros [= <- <- <-].
  rewrite (promote_type _ _ _ E3). reflexivity.
Qed.

Lemma type_step c a o a' out lg :
  a_step c a o = (a', out, lg) -> a_type a' = a_type a \/ In (WStore (a_rootid a)) lg.
Proof.
  destruct o; cbn [a_step]; try (intros [= <- <- <-]; left; reflexivity).
  - intros H. left. eapply a_set_type; eauto.
  - intros H. left. eapply a_insert_type; eauto.
  - intros H. left. eapply a_insert_type; eauto.
  - intros H. left. eapply a_remove_type; eauto.
  - intros [= <- <- <-]. right. left. reflexivity.
Qed.

Lemma content_none a id : content a id = None <-> node_at (a_root a) id = None.
Proof. unfold content. destruct (node_at (a_root a) id); split; congruence. Qed.

Lemma node_at_in n id : node_at n id <> None <-> In id (tree_ids n).
Proof.
  pose proof (node_at_none n id) as H. destruct (node_at n id) as [s|].
  - split; [intros _|congruence].
    destruct (in_dec N.eq_dec id (tree_ids n)) as [Hi|Hi]; [exact Hi|]. apply H in Hi. discriminate.
  - split; [congruence|]. intros Hi. exfalso. exact (proj1 H eq_refl Hi).
Qed.

(* D2, one operation: if m represents the array before, replaying the operation's log with the
   contents at the end of the operation represents the array after *)
Theorem step_represents c a o a' out lg m :
  ids_ok a -> a_step c a o = (a', out, lg) ->
  rep m a -> rep (apply_log (cell_of a') lg m) a'.
Proof.
  intros Hok H Hrep id.
  destruct (ids_step _ _ _ _ _ _ Hok H) as (Hok' & _ & Hroot & N1 & k & Ek & Pk).
  destruct (frame_step _ _ _ _ _ _ Hok H id) as (F1 & F2 & F3 & F4).
  pose proof (type_step _ _ _ _ _ _ H) as Hty.
  rewrite apply_log_last_ev.
  destruct (last_ev lg id) as [[|]|] eqn:El.
  - (* last event: store *)
    split; [|intros _; discriminate].
    intros Hc. unfold content, cell_of in *. destruct (node_at (a_root a') id); [reflexivity|congruence].
  - (* last event: remove *)
    destruct (F3 eq_refl) as [Hn Hs]. split.
    + unfold content. rewrite Hn. congruence.
    + intros Hx. exfalso. apply Hs. eapply Permutation_in; [symmetry; apply slab_tree_ext|].
      apply in_or_app. right. exact Hx.
  - (* not in the log *)
    assert (Hu : ~ touched lg id) by (apply last_ev_untouched; exact El).
    specialize (F1 Hu). destruct (Hrep id) as [R1 R2].
    assert (Ec : content a' id = content a id).
    { unfold content, tyof. rewrite F1, Hroot. destruct (node_at (a_root a) id); [|reflexivity].
      destruct (N.eqb_spec id (a_rootid a)) as [->|]; [|reflexivity].
      destruct Hty as [->|Hin]; [reflexivity|]. exfalso. apply Hu. left. exact Hin. }
    split; [rewrite Ec; exact R1|].
    intros Hx. apply R2.
    assert (Hs' : In id (slab_ids (a_root a'))).
    { eapply Permutation_in; [symmetry; apply slab_tree_ext|]. apply in_or_app. right. exact Hx. }
    assert (Hs : In id (slab_ids (a_root a) ++ nseq (a_alloc a) k)).
    { eapply Permutation_in; [exact Pk|]. apply in_or_app. left. exact Hs'. }
    apply in_app_or in Hs as [Hs|Hs].
    + eapply Permutation_in in Hs; [|apply slab_tree_ext]. apply in_app_or in Hs as [Hs|Hs]; [|exact Hs].
      exfalso. apply node_at_in in Hs. rewrite <- F1 in Hs. apply node_at_in in Hs.
      destruct Hok' as [HN' _]. eapply Permutation_NoDup in HN'; [|apply slab_tree_ext].
      eapply nodup_app_disj in HN'; eauto.
    + exfalso. apply Hu. left. eapply fresh_ids_stored; [exact H|]. apply in_nseq in Hs. lia.
Qed.

Theorem step_tight c a o a' out lg m :
  ids_ok a -> a_step c a o = (a', out, lg) ->
  tight m a -> tight (apply_log (cell_of a') lg m) a'.
Proof.
  intros Hok H Ht id Hc.
  destruct (frame_step _ _ _ _ _ _ Hok H id) as (F1 & _).
  rewrite apply_log_last_ev.
  destruct (last_ev lg id) as [[|]|] eqn:El; [| reflexivity |].
  - unfold cell_of. apply content_none in Hc. rewrite Hc. reflexivity.
  - assert (Hu : ~ touched lg id) by (apply last_ev_untouched; exact El).
    apply Ht. apply content_none. rewrite <- (F1 Hu). apply content_none. exact Hc.
Qed.

(* the task's name for the one-step theorem *)
Theorem apply_log_flatten c a o a' out lg m :
  ainv a -> a_step c a o = (a', out, lg) ->
  rep m a /\ tight m a -> rep (apply_log_arr a' lg m) a' /\ tight (apply_log_arr a' lg m) a'.
Proof.
  intros (Hok & _) H [R T]. split; [eapply step_represents|eapply step_tight]; eauto.
Qed.

Lemma a_run_cons c a o r :
  a_run c a (o :: r) =
  (fst (a_run c (fst (fst (a_step c a o))) r), snd (fst (a_step c a o)) :: snd (a_run c (fst (fst (a_step c a o))) r)).
Proof.
  cbn [a_run]. destruct (a_step c a o) as [[a1 x] lg]. cbn [fst snd].
  destruct (a_run c a1 r) as [a2 xs]. reflexivity.
Qed.

(* D2, histories *)
Theorem run_represents c : forall ops a m,
  ainv a -> rep m a -> rep (replay cell_of c a ops m) (fst (a_run c a ops)).
Proof.
  induction ops as [|o r IH]; intros a m Ha Hm; [exact Hm|].
  rewrite a_run_cons. cbn [replay fst].
  destruct (a_step c a o) as [[a1 x] lg] eqn:E. cbn [fst].
  destruct (ainv_step _ _ _ _ _ _ Ha E) as [Ha1 _].
  apply IH; [exact Ha1|]. eapply step_represents; eauto. apply Ha.
Qed.

Theorem run_tight c : forall ops a m,
  ainv a -> tight m a -> tight (replay cell_of c a ops m) (fst (a_run c a ops)).
Proof.
  induction ops as [|o r IH]; intros a m Ha Hm; [exact Hm|].
  rewrite a_run_cons. cbn [replay fst].
  destruct (a_step c a o) as [[a1 x] lg] eqn:E. cbn [fst].
  destruct (ainv_step _ _ _ _ _ _ Ha E) as [Ha1 _].
  apply IH; [exact Ha1|]. eapply step_tight; eauto. apply Ha.
Qed.

Lemma init_represents rootid ti :
  rep (init_map cell_of rootid ti) (fst (arr_init rootid ti)) /\
  tight (init_map cell_of rootid ti) (fst (arr_init rootid ti)).
Proof.
  unfold init_map, arr_init. cbn [fst snd apply_log]. split; intros id.
  - split; [|intros []].
    unfold content, cell_of, upd, tyof, a_rootid. cbn [a_root a_type node_at hdr_of h_id].
    destruct (N.eqb_spec rootid id) as [->|Hne]; [|congruence].
    rewrite !N.eqb_refl. reflexivity.
  - unfold content, cell_of, upd, tyof, a_rootid. cbn [a_root a_type node_at hdr_of h_id].
    destruct (N.eqb_spec rootid id) as [->|Hne]; [discriminate|].
    intros _. replace (id =? rootid) with false by lia. reflexivity.
Qed.

(* from creation: the replayed map holds exactly the final tree *)
Theorem run_represents_init c rootid ti ops : 0 < rootid ->
  let a := fst (a_run c (fst (arr_init rootid ti)) ops) in
  let m := replay cell_of c (fst (arr_init rootid ti)) ops (init_map cell_of rootid ti) in
  rep m a /\ tight m a.
Proof.
  intros Hr. cbv zeta. destruct (init_represents rootid ti) as [R T].
  pose proof (ainv_init rootid ti Hr) as Ha.
  split; [apply run_represents|apply run_tight]; auto.
Qed.

(* what a reader gets from any map that holds the array's own slabs *)
Theorem load_arr_agree (mm : N -> option (shallow * N)) a fuel :
  (forall id x, content a id = Some x -> mm id = Some x) ->
  NoDup (tree_ids (a_root a)) -> hdrs_ok (a_root a) ->
  (length (tree_ids (a_root a)) < fuel)%nat ->
  load_arr fuel mm (a_rootid a) = Some (a_root a, a_type a).
Proof.
  intros Hmm HN Hh Hf. unfold load_arr.
  assert (Hm : forall id s, node_at (a_root a) id = Some s -> mm id = Some (s, tyof a id)).
  { intros id s Hs. apply Hmm. unfold content. rewrite Hs. reflexivity. }
  change (a_rootid a) with (nid (a_root a)) at 1.
  rewrite (load_agree (a_root a)); auto.
  - assert (Hroot : node_at (a_root a) (a_rootid a) <> None).
    { apply node_at_in. apply nid_in_tree_ids. }
    destruct (node_at (a_root a) (a_rootid a)) as [s|] eqn:Es; [|congruence].
    rewrite (Hm _ _ Es). cbn [snd]. unfold tyof. rewrite N.eqb_refl. reflexivity.
  - intros id s Hs. rewrite (Hm _ _ Hs). reflexivity.
Qed.

Theorem load_rep (m : N -> option cell) a fuel :
  rep m a -> NoDup (tree_ids (a_root a)) -> hdrs_ok (a_root a) ->
  (length (tree_ids (a_root a)) < fuel)%nat ->
  load_arr fuel (fun id => tree_part (m id)) (a_rootid a) = Some (a_root a, a_type a).
Proof.
  intros Hrep. apply load_arr_agree. intros id x Hx.
  destruct (Hrep id) as [R _]. rewrite R; congruence.
Qed.

(** * C. The storage model *)

Definition commit (s : st) : st := fst (step s (SFastCommit None)).
Definition reopen (s : st) : st := fst (step s SRecreate).    (* brand-new storage, same ledger *)

Lemma coherent_step s o : coherent s -> coherent (fst (step s o)).
Proof.
  intros Hs. pose proof (step_refines s o Hs) as H.
  destruct (step s o) as [s' m]. destruct (spec_step (abs s) o). cbn [fst]. tauto.
Qed.

Lemma run_cons s o r : fst (run s (o :: r)) = fst (run (fst (step s o)) r).
Proof. cbn [run]. destruct (step s o) as [s1 x]. cbn [fst]. destruct (run s1 r). reflexivity. Qed.

Lemma run_app_fst s l1 l2 : fst (run s (l1 ++ l2)) = fst (run (fst (run s l1)) l2).
Proof.
  rewrite run_app. destruct (run s l1) as [s1 o1]. cbn [fst]. destruct (run s1 l2). reflexivity.
Qed.

Lemma coherent_run ops : forall s, coherent s -> coherent (fst (run s ops)).
Proof.
  induction ops as [|o r IH]; intros s Hs; [exact Hs|]. rewrite run_cons. apply IH, coherent_step, Hs.
Qed.

Lemma not_undefined addr i : addr <> 0 -> is_undefined (addr, i) = false.
Proof. intros H. unfold is_undefined. cbn [fst snd]. destruct (N.eqb_spec addr 0); [contradiction|reflexivity]. Qed.
Lemma not_temp addr i : addr <> 0 -> is_temp (addr, i) = false.
Proof. intros H. unfold is_temp. cbn [fst]. destruct (N.eqb_spec addr 0); [contradiction|reflexivity]. Qed.

(* issuing the calls of a log = replaying the log on the storage's view of the address; other
   addresses are not affected *)
Lemma sops_view addr cont lg : addr <> 0 -> forall s, coherent s ->
  forall b id, view (fst (run s (sops addr cont lg))) (b, id) =
               if N.eqb b addr then apply_log cont lg (view_map s addr) id else view s (b, id).
Proof.
  intros Ha. induction lg as [|[i|i] r IH]; intros s Hs b id.
  - cbn. destruct (N.eqb_spec b addr) as [->|]; reflexivity.
  - cbn [sops map]. rewrite run_cons. fold (sops addr cont r).
    rewrite IH by (apply coherent_step, Hs). cbn [apply_log].
    destruct (N.eqb_spec b addr) as [->|Hb].
    + apply apply_log_ext. intros j. unfold view_map, upd.
      rewrite store_view by (auto using not_undefined).
      destruct (decide _) as [E|E]; destruct (N.eqb_spec j i); congruence.
    + rewrite store_view by (auto using not_undefined).
      destruct (decide _); congruence.
  - cbn [sops map]. rewrite run_cons. fold (sops addr cont r).
    rewrite IH by (apply coherent_step, Hs). cbn [apply_log].
    destruct (N.eqb_spec b addr) as [->|Hb].
    + apply apply_log_ext. intros j. unfold view_map, upd.
      rewrite remove_view by (auto using not_undefined).
      destruct (decide _) as [E|E]; destruct (N.eqb_spec j i); congruence.
    + rewrite remove_view by (auto using not_undefined).
      destruct (decide _); congruence.
Qed.

Lemma sops_no_commit addr cont lg : forallb (fun o => negb (is_commit o)) (sops addr cont lg) = true.
Proof. induction lg as [|[i|i] r IH]; cbn; auto. Qed.

Lemma sops_base addr cont lg s : base (fst (run s (sops addr cont lg))) = base s.
Proof. apply no_commit_base, sops_no_commit. Qed.

(** the map M of encoded slabs stands for a slab map m with property Q *)
Definition vrel (K : slab_codec) (Q : (N -> option cell) -> arr -> Prop) (M : N -> option val) (a : arr) : Prop :=
  exists m, Q m a /\ forall id, M id = option_map (enc_cell K id) (m id).

Definition Qstep (Q : (N -> option cell) -> arr -> Prop) : Prop :=
  forall c a o a' out lg m, ids_ok a -> a_step c a o = (a', out, lg) ->
    Q m a -> Q (apply_log (cell_of a') lg m) a'.

Definition rep_tight (m : N -> option cell) (a : arr) : Prop := rep m a /\ tight m a.

Lemma Qstep_rep : Qstep rep.
Proof. intros c a o a' out lg m. apply step_represents. Qed.
Lemma Qstep_rep_tight : Qstep rep_tight.
Proof.
  intros c a o a' out lg m Hok H [R T]. split; [eapply step_represents|eapply step_tight]; eauto.
Qed.

(* one array operation, its calls issued to the storage *)
Lemma vrel_step K Q addr c a o a' out lg s :
  Qstep Q -> addr <> 0 -> ids_ok a -> coherent s -> a_step c a o = (a', out, lg) ->
  vrel K Q (view_map s addr) a ->
  vrel K Q (view_map (fst (run s (sops addr (sval K a') lg))) addr) a'.
Proof.
  intros HQ Ha Hok Hs H (m & Hm & Hv).
  exists (apply_log (cell_of a') lg m). split; [eapply HQ; eauto|].
  intros id. unfold view_map at 1. rewrite sops_view by assumption. rewrite N.eqb_refl.
  unfold sval. rewrite <- apply_log_map. apply apply_log_ext. intros j. apply Hv.
Qed.

(* creating the array (NewArray stores the empty root slab) *)
Definition s_create (K : slab_codec) (addr rootid ti : N) (s : st) : st :=
  fst (run s (init_sops K addr rootid ti)).

Lemma vrel_create K addr rootid ti s :
  addr <> 0 -> coherent s -> (forall id, view s (addr, id) = None) ->
  vrel K rep_tight (view_map (s_create K addr rootid ti s) addr) (fst (arr_init rootid ti)).
Proof.
  intros Ha Hs Hfresh. exists (init_map cell_of rootid ti). split; [apply init_represents|].
  intros id. unfold s_create, init_sops, init_map, view_map at 1.
  rewrite sops_view by assumption. rewrite N.eqb_refl.
  unfold sval. rewrite <- apply_log_map. apply apply_log_ext. intros j. cbn. apply Hfresh.
Qed.

Lemma vrel_weaken K (Q Q' : (N -> option cell) -> arr -> Prop) M a :
  (forall m, Q m a -> Q' m a) -> vrel K Q M a -> vrel K Q' M a.
Proof. intros H (m & Hm & Hv). exists m. auto. Qed.

Lemma vrel_ext K Q M1 M2 a : (forall id, M1 id = M2 id) -> vrel K Q M1 a -> vrel K Q M2 a.
Proof. intros H (m & Hm & Hv). exists m. split; [exact Hm|]. intros id. rewrite <- H. apply Hv. Qed.

(* a reader decoding the registers of a map that stands for the array gets the array *)
Theorem vrel_load K M a fuel :
  vrel K rep M a -> NoDup (tree_ids (a_root a)) -> hdrs_ok (a_root a) ->
  (length (tree_ids (a_root a)) < fuel)%nat ->
  load_arr fuel (decode_map K M) (a_rootid a) = Some (a_root a, a_type a).
Proof.
  intros (m & Hrep & Hv). apply load_arr_agree. intros id x Hx.
  destruct (Hrep id) as [R _]. rewrite Hx in R. specialize (R ltac:(congruence)).
  unfold decode_map. rewrite Hv. destruct (m id) as [[s ty|]|]; cbn in R; try discriminate.
  injection R as <-. cbn [option_map enc_cell]. apply dec_enc.
Qed.

Lemma commit_props s : coherent s ->
  coherent (commit s) /\ (forall i, view (commit s) i = view s i) /\
  (forall i, is_temp i = false -> base (commit s) !! i = view s i).
Proof.
  intros Hs. pose proof (fast_commit_state s Hs) as H. unfold commit. cbn [step].
  destruct (fast_commit s None) as [[s' ok] log]. cbn [fst].
  destruct H as (_ & Hc & Hb & _ & Hv & _). split; [exact Hc|]. split; [exact Hv|].
  intros i Hi. apply Hb, Hi.
Qed.

Lemma reopen_props s :
  deltas (reopen s) = ∅ /\ cache (reopen s) = ∅ /\ base (reopen s) = base s /\
  forall i, view (reopen s) i = base s !! i.
Proof.
  unfold reopen. cbn [step fst]. split; [reflexivity|]. split; [reflexivity|]. split; [reflexivity|].
  intros i. unfold view. cbn. rewrite !lookup_empty. reflexivity.
Qed.

(** histories with commits: the storage's view follows the array *)
Theorem drun_inv K Q addr c : Qstep Q -> addr <> 0 -> forall l a s,
  ainv a -> coherent s -> vrel K Q (view_map s addr) a ->
  ainv (fst (drun K addr c a s l)) /\ coherent (snd (drun K addr c a s l)) /\
  vrel K Q (view_map (snd (drun K addr c a s l)) addr) (fst (drun K addr c a s l)) /\
  fst (drun K addr c a s l) = fst (a_run c a (aops_of l)).
Proof.
  intros HQ Ha. induction l as [|[o|] r IH]; intros a s Hinv Hs Hv.
  - cbn. auto.
  - change (aops_of (DOp o :: r)) with (o :: aops_of r). rewrite a_run_cons. cbn [drun fst].
    destruct (a_step c a o) as [[a1 x] lg] eqn:E. cbn [fst].
    destruct (ainv_step _ _ _ _ _ _ Hinv E) as [Hinv1 _].
    apply IH; [exact Hinv1|apply coherent_run, Hs|].
    eapply vrel_step; eauto. apply Hinv.
  - change (aops_of (DCommit :: r)) with (aops_of r). cbn [drun].
    destruct (commit_props s Hs) as (Hc & Hvw & _).
    apply IH; [exact Hinv|exact Hc|].
    eapply vrel_ext; [|exact Hv]. intros id. unfold view_map. symmetry. apply Hvw.
Qed.

(* without a commit the ledger is not written *)
Lemma drun_no_commit_base K addr c : forall l a s,
  no_commit l = true -> base (snd (drun K addr c a s l)) = base s.
Proof.
  induction l as [|[o|] r IH]; intros a s H; [reflexivity| |discriminate].
  cbn [drun]. destruct (a_step c a o) as [[a1 x] lg]. cbn in H. rewrite IH by exact H. apply sops_base.
Qed.

Lemma no_commit_map_DOp ops : no_commit (map DOp ops) = true.
Proof. induction ops; cbn; auto. Qed.
Lemma aops_of_map_DOp ops : aops_of (map DOp ops) = ops.
Proof. induction ops as [|o r IH]; cbn; [reflexivity|]. f_equal. exact IH. Qed.

(* a plain history is a history without commits *)
Lemma drun_plain K addr c : forall ops a s,
  drun K addr c a s (map DOp ops) = (fst (a_run c a ops), fst (run s (hist_sops K addr c a ops))).
Proof.
  induction ops as [|o r IH]; intros a s; [reflexivity|].
  rewrite a_run_cons. cbn [map drun hist_sops fst].
  destruct (a_step c a o) as [[a1 x] lg]. cbn [fst]. rewrite IH, run_app_fst. reflexivity.
Qed.

(* facts about a reachable array that the reader's theorem needs *)
Lemma reach_load_facts T rootid ti ops : valid_T T -> 0 < rootid ->
  Forall (aop_ok (set_threshold T)) ops ->
  let a := fst (a_run (set_threshold T) (fst (arr_init rootid ti)) ops) in
  ainv a /\ a_rootid a = rootid /\ NoDup (tree_ids (a_root a)) /\ hdrs_ok (a_root a).
Proof.
  intros HT Hr Hops a.
  destruct (ainv_run (set_threshold T) ops _ (ainv_init rootid ti Hr)) as [Hinv Hid].
  fold a in Hinv, Hid. split; [exact Hinv|]. split; [exact Hid|]. split.
  - apply nodup_tree_ids. apply Hinv.
  - pose proof (reachable_awf T HT rootid ti ops Hops) as [Hw _]. fold a in Hw.
    eapply wf_root_hdrs_ok; eauto.
Qed.

(** D4 (contains D3): commits anywhere in the history [l1], then a commit, then operations
    without commit [l2], then a brand-new storage over the same ledger: the registers hold the
    array as of that last commit, and nothing else under its address but external element slabs *)
Theorem last_commit_durable K T addr rootid ti s0 l1 l2 :
  valid_T T -> addr <> 0 -> 0 < rootid ->
  coherent s0 -> (forall id, view s0 (addr, id) = None) ->
  Forall (aop_ok (set_threshold T)) (aops_of l1) -> no_commit l2 = true ->
  let c := set_threshold T in
  let a0 := fst (arr_init rootid ti) in
  let a1 := fst (a_run c a0 (aops_of l1)) in
  let st1 := drun K addr c a0 (s_create K addr rootid ti s0) l1 in
  let st2 := drun K addr c (fst st1) (commit (snd st1)) l2 in
  let s' := reopen (snd st2) in
  fst st1 = a1 /\
  fst st2 = fst (a_run c a0 (aops_of l1 ++ aops_of l2)) /\
  base (snd st2) = base (commit (snd st1)) /\
  deltas s' = ∅ /\ cache s' = ∅ /\ base s' = base (commit (snd st1)) /\
  (forall id, view s' (addr, id) = base s' !! (addr, id)) /\
  vrel K rep_tight (ledger_map s' addr) a1 /\
  forall fuel, (length (tree_ids (a_root a1)) < fuel)%nat ->
    load_arr fuel (decode_map K (ledger_map s' addr)) rootid = Some (a_root a1, a_type a1).
Proof.
  intros HT Ha Hr Hs0 Hfresh Hops Hnc c a0 a1 st1 st2 s'.
  pose proof (vrel_create K addr rootid ti s0 Ha Hs0 Hfresh) as V0.
  assert (Hsc : coherent (s_create K addr rootid ti s0)) by (apply coherent_run, Hs0).
  destruct (drun_inv K rep_tight addr c Qstep_rep_tight Ha l1 a0 _ (ainv_init rootid ti Hr) Hsc V0)
    as (I1 & C1 & V1 & E1).
  fold st1 in I1, C1, V1, E1. fold a1 in E1.
  destruct (commit_props (snd st1) C1) as (C2 & Vw2 & B2).
  assert (V2 : vrel K rep_tight (view_map (commit (snd st1)) addr) (fst st1)).
  { eapply vrel_ext; [|exact V1]. intros id. unfold view_map. symmetry. apply Vw2. }
  destruct (drun_inv K rep_tight addr c Qstep_rep_tight Ha l2 (fst st1) _ I1 C2 V2) as (_ & _ & _ & E2).
  fold st2 in E2.
  pose proof (drun_no_commit_base K addr c l2 (fst st1) (commit (snd st1)) Hnc) as Hb. fold st2 in Hb.
  destruct (reopen_props (snd st2)) as (R1 & R2 & R3 & R4). fold s' in R1, R2, R3, R4.
  assert (VL : vrel K rep_tight (ledger_map s' addr) a1).
  { rewrite <- E1. eapply vrel_ext; [|exact V1]. intros id. unfold view_map, ledger_map.
    rewrite R3, Hb. symmetry. apply B2. apply not_temp, Ha. }
  split; [exact E1|]. split.
  { rewrite E2, E1. unfold a1.
    clear. generalize (aops_of l2). generalize a0. induction (aops_of l1) as [|o r IH]; intros a l; [reflexivity|].
    cbn [app]. rewrite !a_run_cons. cbn [fst]. apply IH. }
  split; [exact Hb|]. split; [exact R1|]. split; [exact R2|]. split; [congruence|].
  split; [intros id; rewrite R4, R3; reflexivity|]. split; [exact VL|].
  intros fuel Hf.
  destruct (reach_load_facts T rootid ti (aops_of l1) HT Hr Hops) as (_ & Hid & HN & Hh).
  fold c a0 a1 in Hid, HN, Hh. rewrite <- Hid.
  apply vrel_load; auto. eapply vrel_weaken; [|exact VL]. intros m [R _]. exact R.
Qed.

(** D3: one history, commit, brand-new storage *)
Theorem commit_durable K T addr rootid ti s0 ops :
  valid_T T -> addr <> 0 -> 0 < rootid ->
  coherent s0 -> (forall id, view s0 (addr, id) = None) ->
  Forall (aop_ok (set_threshold T)) ops ->
  let c := set_threshold T in
  let a0 := fst (arr_init rootid ti) in
  let a := fst (a_run c a0 ops) in
  let s1 := fst (run s0 (init_sops K addr rootid ti ++ hist_sops K addr c a0 ops)) in
  let s' := fst (step (fst (step s1 (SFastCommit None))) SRecreate) in
  deltas s' = ∅ /\ cache s' = ∅ /\
  (forall id, view s' (addr, id) = base s' !! (addr, id)) /\
  vrel K rep_tight (ledger_map s' addr) a /\
  forall fuel, (length (tree_ids (a_root a)) < fuel)%nat ->
    load_arr fuel (decode_map K (ledger_map s' addr)) rootid = Some (a_root a, a_type a).
Proof.
  intros HT Ha Hr Hs0 Hfresh Hops c a0 a s1 s'.
  pose proof (last_commit_durable K T addr rootid ti s0 (map DOp ops) nil HT Ha Hr Hs0 Hfresh) as H.
  rewrite aops_of_map_DOp in H. specialize (H Hops eq_refl). cbv zeta in H.
  fold c a0 in H. rewrite drun_plain in H. cbn [fst snd drun] in H.
  unfold s_create in H. rewrite <- run_app_fst in H. fold a s1 in H.
  change (reopen (commit s1)) with s' in H.
  destruct H as (_ & _ & _ & H1 & H2 & _ & H3 & H4 & H5). auto.
Qed.

(** operations after the commit that are not committed do not reach the ledger: a brand-new
    storage still loads the array as of the commit *)
Theorem crash_durable K T addr rootid ti s0 ops1 ops2 :
  valid_T T -> addr <> 0 -> 0 < rootid ->
  coherent s0 -> (forall id, view s0 (addr, id) = None) ->
  Forall (aop_ok (set_threshold T)) ops1 ->
  let c := set_threshold T in
  let a0 := fst (arr_init rootid ti) in
  let a1 := fst (a_run c a0 ops1) in
  let s1 := fst (run s0 (init_sops K addr rootid ti ++ hist_sops K addr c a0 ops1)) in
  let s2 := fst (step s1 (SFastCommit None)) in
  let s3 := fst (run s2 (hist_sops K addr c a1 ops2)) in
  let s' := fst (step s3 SRecreate) in
  base s3 = base s2 /\ base s' = base s2 /\
  vrel K rep_tight (ledger_map s' addr) a1 /\
  forall fuel, (length (tree_ids (a_root a1)) < fuel)%nat ->
    load_arr fuel (decode_map K (ledger_map s' addr)) rootid = Some (a_root a1, a_type a1).
Proof.
  intros HT Ha Hr Hs0 Hfresh Hops c a0 a1 s1 s2 s3 s'.
  pose proof (last_commit_durable K T addr rootid ti s0 (map DOp ops1) (map DOp ops2) HT Ha Hr Hs0 Hfresh) as H.
  rewrite aops_of_map_DOp in H. specialize (H Hops (no_commit_map_DOp ops2)). cbv zeta in H.
  fold c a0 in H. rewrite !drun_plain in H. cbn [fst snd] in H.
  unfold s_create in H. rewrite <- run_app_fst in H. fold a1 s1 in H.
  change (commit s1) with s2 in H. fold s3 in H. change (reopen s3) with s' in H.
  destruct H as (_ & _ & H0 & _ & _ & H1 & _ & H4 & H5). auto.
Qed.

(** hence the same element sequence as the plain-sequence specification of the history *)
Corollary commit_durable_seq K T addr rootid ti s0 ops :
  valid_T T -> addr <> 0 -> 0 < rootid ->
  coherent s0 -> (forall id, view s0 (addr, id) = None) ->
  Forall (aop_ok (set_threshold T)) ops ->
  let c := set_threshold T in
  let a0 := fst (arr_init rootid ti) in
  let s1 := fst (run s0 (init_sops K addr rootid ti ++ hist_sops K addr c a0 ops)) in
  let s' := fst (step (fst (step s1 (SFastCommit None))) SRecreate) in
  exists n ty fuel,
    load_arr fuel (decode_map K (ledger_map s' addr)) rootid = Some (n, ty) /\
    to_list n = to_list (a_root (fst (a_run c a0 ops))) /\
    mkseq (abs_list n) ty = fst (seq_run (mkseq nil ti) ops).
Proof.
  intros HT Ha Hr Hs0 Hfresh Hops c a0 s1 s'.
  destruct (commit_durable K T addr rootid ti s0 ops HT Ha Hr Hs0 Hfresh Hops) as (_ & _ & _ & _ & H).
  fold c a0 s1 s' in H.
  set (a := fst (a_run c a0 ops)) in *.
  exists (a_root a), (a_type a), (S (length (tree_ids (a_root a)))).
  split; [apply H; lia|]. split; [reflexivity|].
  pose proof (array_refines_sequence T HT rootid ti ops Hops) as R. cbv zeta in R. fold c a0 in R.
  unfold a. destruct (a_run c a0 ops) as [af outs]. change (abs_arr a0) with (mkseq nil ti) in R.
  destruct (seq_run (mkseq nil ti) ops) as [sq outs']. cbn [fst]. destruct R as (_ & R & _). exact R.
Qed.

(** ** Store-time content vs. commit-time content (Go stores pointers) *)

Lemma last_ev_app l1 l2 id :
  last_ev (l1 ++ l2) id = match last_ev l2 id with Some e => Some e | None => last_ev l1 id end.
Proof.
  induction l1 as [|w r IH]; cbn [app last_ev]; [destruct (last_ev l2 id); reflexivity|].
  rewrite IH. destruct (last_ev l2 id); [reflexivity|]. destruct (last_ev r id); reflexivity.
Qed.

Lemma apply_log_cont_change {V} (cont1 cont2 : N -> V) lg rest m id :
  (last_ev rest id = None -> last_ev lg id = Some EvStore -> cont1 id = cont2 id) ->
  apply_log cont2 rest (apply_log cont1 lg m) id = apply_log cont2 (lg ++ rest) m id.
Proof.
  intros H. rewrite apply_log_app, !(apply_log_last_ev cont2 rest).
  destruct (last_ev rest id) as [[|]|]; try reflexivity.
  rewrite !apply_log_last_ev. destruct (last_ev lg id) as [[|]|]; try reflexivity.
  f_equal. auto.
Qed.

(* a slab that an operation does not name keeps its cell *)
Lemma untouched_cell c a o a' out lg id :
  ids_ok a -> a_step c a o = (a', out, lg) -> last_ev lg id = None -> cell_of a' id = cell_of a id.
Proof.
  intros Hok H El.
  destruct (ids_step _ _ _ _ _ _ Hok H) as (_ & _ & Hroot & _).
  destruct (frame_step _ _ _ _ _ _ Hok H id) as (F1 & _).
  assert (Hu : ~ touched lg id) by (apply last_ev_untouched; exact El).
  unfold cell_of, tyof. rewrite (F1 Hu), Hroot. destruct (node_at (a_root a) id); [|reflexivity].
  destruct (N.eqb_spec id (a_rootid a)) as [->|]; [|reflexivity].
  destruct (type_step _ _ _ _ _ _ H) as [->|Hin]; [reflexivity|]. exfalso. apply Hu. left. exact Hin.
Qed.

Lemma untouched_run_cell c id : forall ops a,
  ainv a -> last_ev (all_logs c a ops) id = None -> cell_of (fst (a_run c a ops)) id = cell_of a id.
Proof.
  induction ops as [|o r IH]; intros a Ha El; [reflexivity|].
  rewrite a_run_cons. cbn [all_logs fst] in *.
  destruct (a_step c a o) as [[a1 x] lg] eqn:E. cbn [fst].
  destruct (ainv_step _ _ _ _ _ _ Ha E) as [Ha1 _].
  rewrite last_ev_app in El.
  destruct (last_ev (all_logs c a1 r) id) eqn:E1; [discriminate|].
  rewrite IH by assumption. eapply untouched_cell; eauto. apply Ha.
Qed.

Lemma replay_final {V} (f : N -> cell -> V) c id : forall ops a m,
  ainv a ->
  replay (fun a j => f j (cell_of a j)) c a ops m id =
  apply_log (fun j => f j (cell_of (fst (a_run c a ops)) j)) (all_logs c a ops) m id.
Proof.
  induction ops as [|o r IH]; intros a m Ha; [reflexivity|].
  rewrite a_run_cons. cbn [replay all_logs fst].
  destruct (a_step c a o) as [[a1 x] lg] eqn:E. cbn [fst].
  destruct (ainv_step _ _ _ _ _ _ Ha E) as [Ha1 _].
  rewrite IH by exact Ha1.
  apply (apply_log_cont_change (fun j => f j (cell_of a1 j))).
  intros El _. rewrite (untouched_run_cell c id r a1 Ha1 El). reflexivity.
Qed.

Lemma hist_sops_view K addr c : addr <> 0 -> forall ops a s, coherent s ->
  forall b id, view (fst (run s (hist_sops K addr c a ops))) (b, id) =
               if N.eqb b addr then replay (sval K) c a ops (view_map s addr) id else view s (b, id).
Proof.
  intros Ha. induction ops as [|o r IH]; intros a s Hs b id.
  - cbn. destruct (N.eqb_spec b addr) as [->|]; reflexivity.
  - cbn [hist_sops replay]. destruct (a_step c a o) as [[a1 x] lg].
    rewrite run_app_fst, IH by (apply coherent_run, Hs).
    destruct (N.eqb_spec b addr) as [->|Hb].
    + revert id. clear IH.
      assert (G : forall m1 m2, (forall j, m1 j = m2 j) -> forall id,
                    replay (sval K) c a1 r m1 id = replay (sval K) c a1 r m2 id).
      { clear. revert a1. induction r as [|o r IH]; intros a1 m1 m2 H id; [apply H|].
        cbn [replay]. destruct (a_step c a1 o) as [[a2 x] lg]. apply IH. apply apply_log_ext, H. }
      apply G. intros j. unfold view_map at 1. rewrite sops_view by assumption.
      rewrite N.eqb_refl. reflexivity.
    + rewrite sops_view by assumption. destruct (N.eqb_spec b addr); [contradiction|reflexivity].
Qed.

(* the calls with commit-time contents leave the same storage view as the calls with the contents
   at the end of each operation *)
Theorem store_time_irrelevant K addr c rootid ti ops s0 :
  addr <> 0 -> 0 < rootid -> coherent s0 ->
  forall i, view (fst (run s0 (final_sops K addr c rootid ti ops))) i =
            view (fst (run s0 (init_sops K addr rootid ti ++ hist_sops K addr c (fst (arr_init rootid ti)) ops))) i.
Proof.
  intros Ha Hr Hs0 [b id]. unfold final_sops. cbv zeta.
  set (a0 := fst (arr_init rootid ti)). set (af := fst (a_run c a0 ops)).
  rewrite sops_view by assumption.
  rewrite run_app_fst, hist_sops_view by (try apply coherent_run; assumption).
  destruct (N.eqb_spec b addr) as [->|Hb].
  - change (sval K) with (fun a j => enc_cell K j (cell_of a j)).
    rewrite replay_final by (apply ainv_init, Hr). fold a0 af.
    symmetry. unfold init_sops. fold a0.
    etransitivity.
    { apply apply_log_ext. intros j. unfold view_map. rewrite sops_view by assumption.
      rewrite N.eqb_refl. reflexivity. }
    apply (apply_log_cont_change (sval K a0)).
    intros El _. unfold sval. unfold af. rewrite (untouched_run_cell c id ops a0 (ainv_init rootid ti Hr) El).
    reflexivity.
  - unfold init_sops. rewrite sops_view by assumption.
    destruct (N.eqb_spec b addr); [contradiction|reflexivity].
Qed.

Lemma hist_sops_no_commit K addr c : forall ops a,
  forallb (fun o => negb (is_commit o)) (hist_sops K addr c a ops) = true.
Proof.
  induction ops as [|o r IH]; intros a; [reflexivity|]. cbn [hist_sops].
  destruct (a_step c a o) as [[a1 x] lg]. rewrite forallb_app, sops_no_commit, IH. reflexivity.
Qed.

Lemma commit_base_eq s t :
  coherent s -> coherent t -> (forall i, view s i = view t i) -> base s = base t ->
  base (commit s) = base (commit t).
Proof.
  intros Hs Ht Hv Hb. apply map_eq. intros i.
  pose proof (fast_commit_state s Hs) as H1. pose proof (fast_commit_state t Ht) as H2.
  unfold commit. cbn [step].
  destruct (fast_commit s None) as [[s' ok] lg]. destruct (fast_commit t None) as [[t' ok'] lg'].
  cbn [fst]. destruct H1 as (_ & _ & O1 & T1 & _). destruct H2 as (_ & _ & O2 & T2 & _).
  destruct (is_temp i) eqn:Ei.
  - destruct (T1 i Ei) as [_ ->]. destruct (T2 i Ei) as [_ ->]. rewrite Hb. reflexivity.
  - destruct (O1 i Ei) as [-> _]. destruct (O2 i Ei) as [-> _]. apply Hv.
Qed.

(* hence the same ledger after the commit *)
Theorem final_sops_same_ledger K addr c rootid ti ops s0 :
  addr <> 0 -> 0 < rootid -> coherent s0 ->
  base (fst (step (fst (run s0 (final_sops K addr c rootid ti ops))) (SFastCommit None))) =
  base (fst (step (fst (run s0 (init_sops K addr rootid ti ++
                                hist_sops K addr c (fst (arr_init rootid ti)) ops))) (SFastCommit None))).
Proof.
  intros Ha Hr Hs0. apply commit_base_eq.
  - apply coherent_run, Hs0.
  - apply coherent_run, Hs0.
  - apply store_time_irrelevant; assumption.
  - unfold final_sops. cbv zeta. rewrite sops_base. symmetry. apply no_commit_base.
    unfold init_sops. rewrite forallb_app, sops_no_commit, hist_sops_no_commit. reflexivity.
Qed.

(** * D. The concrete codec *)

Lemma dec_all_put_pos p : forall k cur acc,
  dec_all (put_pos p k) cur acc = dec_all k (fun x => x) (Npos (cur p) :: acc).
Proof. induction p as [p IH|p IH|]; intros k cur acc; cbn [put_pos dec_all]; [apply IH|apply IH|reflexivity]. Qed.

Lemma dec_all_put_N n k acc :
  dec_all (put_N n k) (fun x => x) acc = dec_all k (fun x => x) (n :: acc).
Proof. destruct n as [|p]; [reflexivity|]. cbn [put_N]. apply dec_all_put_pos. Qed.

Lemma dec_all_enc_list l : forall acc, dec_all (enc_list l) (fun x => x) acc = Some (rev acc ++ l).
Proof.
  induction l as [|n r IH]; intros acc; cbn [enc_list].
  - cbn. now rewrite app_nil_r.
  - rewrite dec_all_put_N, IH. cbn [rev]. now rewrite <- app_assoc.
Qed.

Lemma dec_enc_list l : dec_list (enc_list l) = Some l.
Proof. unfold dec_list. apply dec_all_enc_list. Qed.

Lemma n2z_z2n z : n2z (z2n z) = z.
Proof. destruct z; reflexivity. Qed.

Lemma elems_of_to es : elems_of (elems_to es) = Some es.
Proof.
  induction es as [|[i z x] r IH]; [reflexivity|].
  unfold elems_to in *. cbn [flat_map app elems_of e_id e_sz e_ext]. rewrite IH, n2z_z2n. reflexivity.
Qed.

Lemma hdrs_of_to hs : forall rest, hdrs_of (hdrs_to hs ++ rest) (N.of_nat (length hs)) = Some (hs, rest).
Proof.
  induction hs as [|[i z n] r IH]; intros rest.
  - cbn [hdrs_to flat_map app length]. destruct rest; reflexivity.
  - unfold hdrs_to in *. cbn [flat_map app length h_id h_size h_count].
    cbn [hdrs_of]. replace (N.of_nat (S (length r)) =? 0) with false by lia.
    replace (N.of_nat (S (length r)) - 1) with (N.of_nat (length r)) by lia.
    rewrite IH. reflexivity.
Qed.

Lemma fields_of_to x : fields_of (fields_to x) = Some x.
Proof.
  destruct x as [[[i z n] nx es|[i z n] hs sums] ty]; cbn [fields_to fields_of h_id h_size h_count].
  - rewrite N.eqb_refl, elems_of_to. reflexivity.
  - cbn [N.eqb]. rewrite hdrs_of_to. reflexivity.
Qed.

Theorem g_dec_enc x : g_dec (g_enc x) = Some x.
Proof. unfold g_dec, g_enc. cbn [v_id]. rewrite dec_enc_list. apply fields_of_to. Qed.

Definition g_codec : slab_codec := mk_codec g_enc g_dec g_extv g_dec_enc.

(** * E. Statements for the property file (reachable storage states, reachable arrays) *)

(* the map M of registers holds the array a exactly: every data / index slab of a is in M as the
   encoding of its exact own content (the root slab with the type info), every external element
   slab of a is in M, and M has nothing else but (leftover) external element slabs *)
Definition holds_exactly (K : slab_codec) (M : N -> option val) (a : arr) : Prop :=
  (forall id s, node_at (a_root a) id = Some s -> M id = Some (enc K (s, tyof a id))) /\
  (forall id, In id (ext_ids (to_list (a_root a))) -> M id = Some (extv K id)) /\
  (forall id, node_at (a_root a) id = None -> M id = None \/ M id = Some (extv K id)).

Lemma vrel_holds K M a : NoDup (slab_ids (a_root a)) -> vrel K rep_tight M a -> holds_exactly K M a.
Proof.
  intros HN (m & [R T] & Hv).
  assert (H3 : forall id, node_at (a_root a) id = None -> m id = None \/ m id = Some CExt).
  { intros id Hn. apply content_none in Hn. specialize (T id Hn).
    destruct (m id) as [[s ty|]|]; cbn in T; [discriminate|auto|auto]. }
  split; [|split].
  - intros id s Hs. destruct (R id) as [R1 _]. unfold content in R1. rewrite Hs in R1.
    specialize (R1 ltac:(congruence)). rewrite Hv.
    destruct (m id) as [[s' ty|]|]; cbn in R1; try discriminate. injection R1 as -> ->. reflexivity.
  - intros id Hx. destruct (R id) as [_ R2]. specialize (R2 Hx). rewrite Hv.
    assert (Hn : node_at (a_root a) id = None).
    { apply node_at_none. intros Ht.
      eapply Permutation_NoDup in HN; [|apply slab_tree_ext]. eapply nodup_app_disj in HN; eauto. }
    destruct (H3 id Hn) as [E|E]; [congruence|]. rewrite E. reflexivity.
  - intros id Hn. rewrite Hv. destruct (H3 id Hn) as [E|E]; rewrite E; cbn; auto.
Qed.

Lemma reach_nodup c rootid ti ops : 0 < rootid ->
  NoDup (slab_ids (a_root (fst (a_run c (fst (arr_init rootid ti)) ops)))).
Proof. intros Hr. destruct (ainv_run c ops _ (ainv_init rootid ti Hr)) as [Hinv _]. apply Hinv. Qed.

Lemma reach_load_flatten : forall T rootid ti ops, valid_T T -> 0 < rootid ->
  Forall (aop_ok (set_threshold T)) ops ->
  let a := fst (a_run (set_threshold T) (fst (arr_init rootid ti)) ops) in
  forall fuel, (length (flatten (a_root a)) < fuel)%nat ->
    load fuel (assoc (flatten (a_root a))) rootid = Some (a_root a).
Proof.
  intros T rootid ti ops HT Hr Hops a fuel Hf.
  destruct (reach_load_facts T rootid ti ops HT Hr Hops) as (_ & Hid & HN & Hh). fold a in Hid, HN, Hh.
  rewrite <- Hid. apply load_flatten; auto.
Qed.

Lemma reach_run_represents : forall c rootid ti ops, 0 < rootid ->
  let a := fst (a_run c (fst (arr_init rootid ti)) ops) in
  let m := replay cell_of c (fst (arr_init rootid ti)) ops (init_map cell_of rootid ti) in
  (forall id, (content a id <> None -> tree_part (m id) = content a id) /\
              (In id (ext_ids (to_list (a_root a))) -> m id <> None)) /\
  (forall id, content a id = None -> tree_part (m id) = None).
Proof. intros c rootid ti ops Hr. exact (run_represents_init c rootid ti ops Hr). Qed.

Lemma reach_step_represents : forall c rootid ti ops o m, 0 < rootid ->
  let a := fst (a_run c (fst (arr_init rootid ti)) ops) in
  forall a' out lg, a_step c a o = (a', out, lg) ->
    rep m a /\ tight m a -> rep (apply_log_arr a' lg m) a' /\ tight (apply_log_arr a' lg m) a'.
Proof.
  intros c rootid ti ops o m Hr a a' out lg H.
  destruct (ainv_run c ops _ (ainv_init rootid ti Hr)) as [Hinv _]. fold a in Hinv.
  eapply apply_log_flatten; eauto.
Qed.

Lemma reach_commit_durable : forall K T addr rootid ti s0 ops,
  valid_T T -> addr <> 0 -> 0 < rootid ->
  reachable s0 -> (forall id, view s0 (addr, id) = None) ->
  Forall (aop_ok (set_threshold T)) ops ->
  let c := set_threshold T in
  let a0 := fst (arr_init rootid ti) in
  let a := fst (a_run c a0 ops) in
  let s1 := fst (run s0 (init_sops K addr rootid ti ++ hist_sops K addr c a0 ops)) in
  let s' := fst (step (fst (step s1 (SFastCommit None))) SRecreate) in
  deltas s' = ∅ /\ cache s' = ∅ /\
  (forall id, view s' (addr, id) = base s' !! (addr, id)) /\
  holds_exactly K (ledger_map s' addr) a /\
  forall fuel, (length (tree_ids (a_root a)) < fuel)%nat ->
    load_arr fuel (decode_map K (ledger_map s' addr)) rootid = Some (a_root a, a_type a).
Proof.
  intros K T addr rootid ti s0 ops HT Ha Hr Hs0 Hf Hops.
  destruct (commit_durable K T addr rootid ti s0 ops HT Ha Hr (reachable_coherent _ Hs0) Hf Hops)
    as (H1 & H2 & H3 & H4 & H5).
  cbv zeta. repeat (split; [assumption|]). split; [|exact H5].
  apply vrel_holds; [apply reach_nodup, Hr|exact H4].
Qed.

Lemma reach_commit_durable_seq : forall K T addr rootid ti s0 ops,
  valid_T T -> addr <> 0 -> 0 < rootid ->
  reachable s0 -> (forall id, view s0 (addr, id) = None) ->
  Forall (aop_ok (set_threshold T)) ops ->
  let c := set_threshold T in
  let a0 := fst (arr_init rootid ti) in
  let s1 := fst (run s0 (init_sops K addr rootid ti ++ hist_sops K addr c a0 ops)) in
  let s' := fst (step (fst (step s1 (SFastCommit None))) SRecreate) in
  exists n ty fuel,
    load_arr fuel (decode_map K (ledger_map s' addr)) rootid = Some (n, ty) /\
    to_list n = to_list (a_root (fst (a_run c a0 ops))) /\
    mkseq (abs_list n) ty = fst (seq_run (mkseq nil ti) ops).
Proof.
  intros K T addr rootid ti s0 ops HT Ha Hr Hs0. apply commit_durable_seq; auto using reachable_coherent.
Qed.

Lemma reach_crash_durable : forall K T addr rootid ti s0 ops1 ops2,
  valid_T T -> addr <> 0 -> 0 < rootid ->
  reachable s0 -> (forall id, view s0 (addr, id) = None) ->
  Forall (aop_ok (set_threshold T)) ops1 ->
  let c := set_threshold T in
  let a0 := fst (arr_init rootid ti) in
  let a1 := fst (a_run c a0 ops1) in
  let s1 := fst (run s0 (init_sops K addr rootid ti ++ hist_sops K addr c a0 ops1)) in
  let s2 := fst (step s1 (SFastCommit None)) in
  let s3 := fst (run s2 (hist_sops K addr c a1 ops2)) in
  let s' := fst (step s3 SRecreate) in
  base s3 = base s2 /\ base s' = base s2 /\
  holds_exactly K (ledger_map s' addr) a1 /\
  forall fuel, (length (tree_ids (a_root a1)) < fuel)%nat ->
    load_arr fuel (decode_map K (ledger_map s' addr)) rootid = Some (a_root a1, a_type a1).
Proof.
  intros K T addr rootid ti s0 ops1 ops2 HT Ha Hr Hs0 Hf Hops.
  destruct (crash_durable K T addr rootid ti s0 ops1 ops2 HT Ha Hr (reachable_coherent _ Hs0) Hf Hops)
    as (H1 & H2 & H4 & H5).
  cbv zeta. repeat (split; [assumption|]). split; [|exact H5].
  apply vrel_holds; [apply reach_nodup, Hr|exact H4].
Qed.

Lemma reach_final_sops_same_ledger : forall K addr c rootid ti ops s0,
  addr <> 0 -> 0 < rootid -> reachable s0 ->
  base (fst (step (fst (run s0 (final_sops K addr c rootid ti ops))) (SFastCommit None))) =
  base (fst (step (fst (run s0 (init_sops K addr rootid ti ++
                                hist_sops K addr c (fst (arr_init rootid ti)) ops))) (SFastCommit None))).
Proof. intros. apply final_sops_same_ledger; auto using reachable_coherent. Qed.

Lemma reach_last_commit_durable : forall K T addr rootid ti s0 l1 l2,
  valid_T T -> addr <> 0 -> 0 < rootid ->
  reachable s0 -> (forall id, view s0 (addr, id) = None) ->
  Forall (aop_ok (set_threshold T)) (aops_of l1) -> no_commit l2 = true ->
  let c := set_threshold T in
  let a0 := fst (arr_init rootid ti) in
  let a1 := fst (a_run c a0 (aops_of l1)) in
  let st1 := drun K addr c a0 (fst (run s0 (init_sops K addr rootid ti))) l1 in
  let st2 := drun K addr c (fst st1) (fst (step (snd st1) (SFastCommit None))) l2 in
  let s' := fst (step (snd st2) SRecreate) in
  fst st1 = a1 /\
  fst st2 = fst (a_run c a0 (aops_of l1 ++ aops_of l2)) /\
  base (snd st2) = base (fst (step (snd st1) (SFastCommit None))) /\
  deltas s' = ∅ /\ cache s' = ∅ /\ base s' = base (fst (step (snd st1) (SFastCommit None))) /\
  (forall id, view s' (addr, id) = base s' !! (addr, id)) /\
  holds_exactly K (ledger_map s' addr) a1 /\
  forall fuel, (length (tree_ids (a_root a1)) < fuel)%nat ->
    load_arr fuel (decode_map K (ledger_map s' addr)) rootid = Some (a_root a1, a_type a1).
Proof.
  intros K T addr rootid ti s0 l1 l2 HT Ha Hr Hs0 Hf Hops Hnc.
  destruct (last_commit_durable K T addr rootid ti s0 l1 l2 HT Ha Hr (reachable_coherent _ Hs0) Hf Hops Hnc)
    as (H1 & H2 & H3 & H4 & H5 & H6 & H7 & H8 & H9).
  cbv zeta. repeat (split; [assumption|]). split; [|exact H9].
  apply vrel_holds; [apply reach_nodup, Hr|exact H8].
Qed.
