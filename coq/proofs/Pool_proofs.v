(* Pool_proofs.v — C16 (pool part): every thread of a well-bracketed program gets, under every
   interleaving and from every (clean-where-it-matters) pool, the results of a private reference
   run on a fresh object; running alone is one such interleaving. *)
From Coq Require Import List Arith Bool NArith Lia Permutation.
From AtreeModel Require Import Pool.
Import ListNotations.

Lemma take_nth_perm : forall l c p r, take_nth c l = Some (p, r) -> Permutation l (p :: r).
Proof.
  induction l as [|q l IH]; intros [|c] p r H; simpl in H; try discriminate.
  - inversion H; subst; reflexivity.
  - destruct (take_nth c l) as [[p' r']|] eqn:E; inversion H; subst.
    rewrite (IH _ _ _ E). apply perm_swap.
Qed.

Section PoolProofs.
Variables ostate input uop result G : Type.
Variable fresh : ostate.
Variable reset : ostate -> ostate.
Variable init  : input -> ostate -> ostate.
Variable use   : G -> uop -> ostate -> ostate * result.
Variables (clean : ostate -> Prop) (sim : ostate -> ostate -> Prop).
Hypothesis laws : pool_laws fresh reset init use clean sim.

Lemma L_use : forall g f o o', sim o o' ->
  sim (fst (use g f o)) (fst (use g f o')) /\ snd (use g f o) = snd (use g f o').
Proof. destruct laws; auto. Qed.

Notation act := (action input uop G).
Notation gstate := (gst ostate input uop result G).
Notation stp := (step fresh reset init use).
Notation rn := (run fresh reset init use).

(* private reference run: one object, no pool, constant settings g0 *)
Fixpoint ref_go (g0 : G) (acts : list act) (o : ostate) (acc : list result) : list result :=
  match acts with
  | [] => acc
  | AGet :: r => ref_go g0 r fresh acc
  | AInit v :: r => ref_go g0 r (init v o) acc
  | AUse f :: r => let '(o', x) := use g0 f o in ref_go g0 r o' (acc ++ [x])
  | _ :: r => ref_go g0 r o acc
  end.

Variable g0 : G.
Variable R : nat -> list result.     (* reference results per thread *)

Definition upd {A} (f : nat -> A) (i : nat) (x : A) : nat -> A := fun j => if Nat.eqb j i then x else f j.

Definition held_ok (h : nat -> ostate) (n : nat) (pl : list nat) (x : phase) (pt : option nat) (r : ostate) : Prop :=
  x <> PIdle -> exists p, pt = Some p /\ p < n /\ ~ In p pl /\
    (x = PGot -> clean (h p) /\ clean r) /\ (x = PInit -> sim (h p) r).

Record Inv (g : gstate) (ph : nat -> phase) (ro : nat -> ostate) : Prop := {
  I_glob : glob g = g0;
  I_wb : forall i, wb_from (ph i) (todo (ths g i)) = true;
  I_ns : forall i, no_set_threshold (todo (ths g i)) = true;
  I_ref : forall i, ref_go g0 (todo (ths g i)) (ro i) (out (ths g i)) = R i;
  I_held : forall i, held_ok (heap g) (next g) (pool g) (ph i) (ptr (ths g i)) (ro i);
  I_excl : forall i j, i <> j -> ph i <> PIdle -> ph j <> PIdle -> ptr (ths g i) <> ptr (ths g j);
  I_pool : forall p, In p (pool g) -> p < next g /\ clean (heap g p);
  I_nodup : NoDup (pool g)
}.

(* frame lemma: thread i moves, the others keep their objects *)
Lemma inv_update g ph ro i h' n' pl' rest p' o' x r :
  Inv g ph ro ->
  wb_from x rest = true -> no_set_threshold rest = true -> ref_go g0 rest r o' = R i ->
  next g <= n' ->
  (forall j q, j <> i -> ph j <> PIdle -> ptr (ths g j) = Some q -> h' q = heap g q /\ ~ In q pl' /\ p' <> Some q \/ x = PIdle /\ h' q = heap g q /\ ~ In q pl') ->
  (forall q, In q pl' -> q < n' /\ clean (h' q)) -> NoDup pl' ->
  held_ok h' n' pl' x p' r ->
  Inv (mk_gst h' n' pl' (glob g) (set_th (ths g) i (mk_tst rest p' o'))) (upd ph i x) (upd ro i r).
Proof.
  intros H Hwb Hns Href Hn Hfr Hpl Hnd Hheld.
  constructor; simpl; try (apply H); auto.
  - intros j; unfold upd, set_th; destruct (Nat.eqb_spec j i); subst; simpl; auto; apply H.
  - intros j; unfold upd, set_th; destruct (Nat.eqb_spec j i); subst; simpl; auto; apply H.
  - intros j; unfold upd, set_th; destruct (Nat.eqb_spec j i); subst; simpl; auto; apply H.
  - intros j; unfold upd, set_th; destruct (Nat.eqb_spec j i); subst; simpl; auto.
    intros Hj. destruct (I_held _ _ _ H j Hj) as (q & Hq & Hlt & Hnin & Hg & Hi).
    assert (h' q = heap g q /\ ~ In q pl') as [Eh Hn'] by (destruct (Hfr j q n Hj Hq) as [(?&?&?)|(?&?&?)]; auto).
    exists q. rewrite Eh. repeat split; auto; try lia; try (apply Hg; auto); apply Hi; auto.
  - intros j k Hjk; unfold upd, set_th.
    destruct (Nat.eqb_spec j i); destruct (Nat.eqb_spec k i); subst; simpl; try congruence.
    + intros Hx Hk. destruct (I_held _ _ _ H k Hk) as (q & Hq & _).
      destruct (Hfr k q n Hk Hq) as [(_&_&?)|(?&_)]; congruence.
    + intros Hj Hx. destruct (I_held _ _ _ H j Hj) as (q & Hq & _).
      destruct (Hfr j q n Hj Hq) as [(_&_&?)|(?&_)]; congruence.
    + apply H; auto.
Qed.

Lemma set_heap_same (h : nat -> ostate) p o : set_heap h p o p = o.
Proof. unfold set_heap. now rewrite Nat.eqb_refl. Qed.
Lemma set_heap_other (h : nat -> ostate) p o q : q <> p -> set_heap h p o q = h q.
Proof. unfold set_heap. intros. destruct (Nat.eqb_spec q p); congruence. Qed.

Lemma step_inv g ph ro i c : Inv g ph ro -> exists ph' ro', Inv (stp g i c) ph' ro'.
Proof.
  intros H. unfold step.
  destruct (todo (ths g i)) as [|a rest] eqn:Et; [eauto|].
  pose proof (I_wb _ _ _ H i) as Hwb. pose proof (I_ns _ _ _ H i) as Hns.
  pose proof (I_ref _ _ _ H i) as Href. pose proof (I_held _ _ _ H i) as Hh.
  rewrite Et in Hwb, Hns, Href.
  assert (Hother : forall j q, j <> i -> ph j <> PIdle -> ptr (ths g j) = Some q ->
                     q < next g /\ ~ In q (pool g) /\ (ph i <> PIdle -> ptr (ths g i) <> Some q)).
  { intros j q Hj Hpj Hq. destruct (I_held _ _ _ H j Hpj) as (q' & Hq' & ? & ? & _).
    rewrite Hq in Hq'; inversion Hq'; subst q'. repeat split; auto.
    intros Hpi E. apply (I_excl _ _ _ H i j); auto. congruence. }
  destruct a as [|v|f| |xg]; simpl in Hwb, Hns, Href; try discriminate.
  - (* Get *)
    destruct (ph i) eqn:Ep; try discriminate.
    destruct (take_nth c (pool g)) as [[p pl]|] eqn:Etk.
    + apply take_nth_perm in Etk.
      assert (Hin : forall q, In q pl -> In q (pool g)) by (intros; eapply Permutation_in; [symmetry; eauto|right; auto]).
      assert (Hnd : NoDup (p :: pl)) by (eapply Permutation_NoDup; [eauto|apply H]).
      inversion Hnd; subst.
      destruct (I_pool _ _ _ H p) as [Hlt Hcl]; [eapply Permutation_in; [symmetry; eauto|left; auto]|].
      exists (upd ph i PGot), (upd ro i fresh). apply inv_update; auto.
      * intros j q Hj Hpj Hq. destruct (Hother j q Hj Hpj Hq) as (? & Hnq & _). left. repeat split; auto.
        intros E; inversion E; subst. apply Hnq. eapply Permutation_in; [symmetry; eauto|left; auto].
      * intros q Hq. apply H; auto.
      * intros _. exists p. repeat split; auto; try discriminate. apply laws.
    + exists (upd ph i PGot), (upd ro i fresh). apply inv_update; auto.
      * intros j q Hj Hpj Hq. destruct (Hother j q Hj Hpj Hq) as (? & Hnq & _). left.
        rewrite set_heap_other by lia. repeat split; auto. intros E; inversion E; lia.
      * intros q Hq. destruct (I_pool _ _ _ H q Hq). rewrite set_heap_other by lia. split; auto.
      * apply H.
      * intros _. exists (next g). rewrite set_heap_same. repeat split; auto; try discriminate; try apply laws.
        intros Hq. apply (I_pool _ _ _ H) in Hq. lia.
  - (* Init *)
    destruct (ph i) eqn:Ep; try discriminate.
    destruct Hh as (p & Hp & Hlt & Hnin & Hg & _); [discriminate|]. rewrite Hp.
    destruct (Hg eq_refl) as [Hc1 Hc2].
    exists (upd ph i PInit), (upd ro i (init v (ro i))). apply inv_update; auto; try apply H.
    + intros j q Hj Hpj Hq. destruct (Hother j q Hj Hpj Hq) as (? & Hnq & Hne). left.
      rewrite set_heap_other by (intros ->; apply Hne; [discriminate|auto]).
      repeat split; auto. rewrite <- Hp. apply Hne; discriminate.
    + intros q Hq. rewrite set_heap_other by (intros ->; auto). apply H; auto.
    + intros _. exists p. rewrite set_heap_same. repeat split; auto; try discriminate. intros _. apply laws; auto.
  - (* Use *)
    destruct (ph i) eqn:Ep; try discriminate.
    destruct Hh as (p & Hp & Hlt & Hnin & _ & Hs); [discriminate|]. rewrite Hp.
    specialize (Hs eq_refl). rewrite (I_glob _ _ _ H).
    destruct (L_use g0 f _ _ Hs) as [Hs' Hr].
    destruct (use g0 f (heap g p)) as [o1 r1]. destruct (use g0 f (ro i)) as [o2 r2]. simpl in Hs', Hr. subst r2.
    rewrite <- (I_glob _ _ _ H).
    exists (upd ph i PInit), (upd ro i o2). apply inv_update; auto; try apply H.
    + intros j q Hj Hpj Hq. destruct (Hother j q Hj Hpj Hq) as (? & Hnq & Hne). left.
      rewrite set_heap_other by (intros ->; apply Hne; [discriminate|auto]).
      repeat split; auto. rewrite <- Hp. apply Hne; discriminate.
    + intros q Hq. rewrite set_heap_other by (intros ->; auto). apply H; auto.
    + intros _. exists p. rewrite set_heap_same. repeat split; auto; discriminate.
  - (* Put *)
    assert (ph i <> PIdle) as Hne by (destruct (ph i); try discriminate; congruence).
    destruct (Hh Hne) as (p & Hp & Hlt & Hnin & _). rewrite Hp.
    exists (upd ph i PIdle), (upd ro i (ro i)).
    apply inv_update; auto.
    + destruct (ph i); auto; discriminate.
    + intros j q Hj Hpj Hq. destruct (Hother j q Hj Hpj Hq) as (? & Hnq & Hne'). right.
      assert (q <> p) by (intros ->; apply Hne'; auto).
      rewrite set_heap_other by auto. repeat split; auto. intros [E|E]; auto.
    + intros q [<-|Hq]; [rewrite set_heap_same; split; auto; apply laws|].
      rewrite set_heap_other by (intros ->; auto). apply H; auto.
    + constructor; auto. apply H.
    + intros E; congruence.
Qed.

Lemma run_inv s : forall g ph ro, Inv g ph ro -> exists ph' ro', Inv (rn s g) ph' ro'.
Proof.
  induction s as [|[i c] s IH]; intros g ph ro H; simpl; [eauto|].
  destruct (step_inv g ph ro i c H) as (ph' & ro' & H'). eapply IH; eauto.
Qed.

Lemma inv_done g ph ro i : Inv g ph ro -> todo (ths g i) = [] -> out (ths g i) = R i.
Proof. intros H E. pose proof (I_ref _ _ _ H i) as Hr. now rewrite E in Hr. Qed.

End PoolProofs.

Section Main.
Variables ostate input uop result G : Type.
Variable fresh : ostate.
Variable reset : ostate -> ostate.
Variable init  : input -> ostate -> ostate.
Variable use   : G -> uop -> ostate -> ostate * result.
Variables (clean : ostate -> Prop) (sim : ostate -> ostate -> Prop).
Hypothesis laws : pool_laws fresh reset init use clean sim.
Notation act := (action input uop G).

Definition ref_run (g0 : G) (prog : list act) : list result := ref_go _ _ _ _ _ fresh init use g0 prog fresh [].

Lemma nth_forall_bool (P : list act -> bool) progs i : Forall (fun p => P p = true) progs -> P [] = true -> P (nth i progs []) = true.
Proof.
  intros HF H0. destruct (Nat.lt_ge_cases i (length progs)).
  - rewrite Forall_forall in HF. apply HF, nth_In; auto.
  - rewrite nth_overflow; auto.
Qed.

Lemma start_inv progs pool0 g0 :
  Forall clean pool0 -> Forall (fun p => well_bracketed p = true) progs ->
  Forall (fun p => no_set_threshold p = true) progs ->
  Inv _ _ _ _ _ fresh init use clean sim g0 (fun i => ref_run g0 (nth i progs [])) (start fresh progs pool0 g0) (fun _ => PIdle) (fun _ => fresh).
Proof.
  intros Hc Hwb Hns. constructor; simpl.
  - reflexivity.
  - intros i. apply (nth_forall_bool well_bracketed); auto.
  - intros i. apply (nth_forall_bool no_set_threshold); auto.
  - reflexivity.
  - intros i Hx. exfalso; apply Hx; reflexivity.
  - intros i j _ Hx. exfalso; apply Hx; reflexivity.
  - intros p Hp. apply in_seq in Hp. split; [lia|]. rewrite Forall_forall in Hc. apply Hc, nth_In. lia.
  - apply seq_NoDup.
Qed.

Lemma interleaved_eq_ref s progs pool0 g0 t :
  Forall clean pool0 -> Forall (fun p => well_bracketed p = true) progs ->
  Forall (fun p => no_set_threshold p = true) progs ->
  all_done fresh reset init use s progs pool0 g0 = true -> t < length progs ->
  nth t (run_interleaved fresh reset init use s progs pool0 g0) [] = ref_run g0 (nth t progs []).
Proof.
  intros Hc Hwb Hns Hd Ht. unfold run_interleaved, all_done in *.
  destruct (run_inv _ _ _ _ _ fresh reset init use clean sim laws g0 _ s _ _ _ (start_inv progs pool0 g0 Hc Hwb Hns)) as (ph & ro & HI).
  set (g := run fresh reset init use s (start fresh progs pool0 g0)) in *.
  rewrite forallb_forall in Hd. specialize (Hd t (proj2 (in_seq _ _ _) (conj (Nat.le_0_l _) Ht))).
  rewrite (nth_indep _ [] (out (ths g (length progs)))) by (rewrite map_length, seq_length; auto).
  rewrite (map_nth (fun i => out (ths g i))), seq_nth by auto. simpl.
  apply (inv_done _ _ _ _ _ _ _ _ _ _ _ _ g ph ro t HI). destruct (todo (ths g t)); auto; discriminate.
Qed.

(* running alone executes every action *)
Lemma step_todo (g : gst ostate input uop result G) i c :
  todo (ths (step fresh reset init use g i c) i) = tl (todo (ths g i)).
Proof.
  unfold step. destruct (todo (ths g i)) as [|a rest] eqn:E; [now rewrite E|].
  destruct a; simpl; try destruct (take_nth c (pool g)) as [[? ?]|]; try destruct (ptr (ths g i));
    try destruct (use _ _ _); simpl; unfold set_th; now rewrite Nat.eqb_refl.
Qed.

Lemma run_repeat_todo n : forall (g : gst ostate input uop result G),
  length (todo (ths (run fresh reset init use (repeat (0, 0) n) g) 0)) = length (todo (ths g 0)) - n.
Proof.
  induction n; intros g; simpl; [lia|]. rewrite IHn, step_todo. destruct (todo (ths g 0)); simpl; lia.
Qed.

Lemma alone_eq_ref g0 prog :
  well_bracketed prog = true -> no_set_threshold prog = true -> run_alone fresh reset init use g0 prog = ref_run g0 prog.
Proof.
  intros Hwb Hns. unfold run_alone.
  change prog with (nth 0 [prog] []) at 3.
  apply interleaved_eq_ref; auto. unfold all_done. simpl. rewrite andb_true_r.
  pose proof (run_repeat_todo (length prog) (start fresh [prog] [] g0)) as Hl. simpl in Hl. rewrite Nat.sub_diag in Hl.
  destruct (todo _); auto; discriminate.
Qed.

Theorem pool_isolation s progs pool0 g0 :
  Forall clean pool0 -> Forall (fun p => well_bracketed p = true) progs ->
  Forall (fun p => no_set_threshold p = true) progs ->
  all_done fresh reset init use s progs pool0 g0 = true ->
  forall t, t < length progs ->
    nth t (run_interleaved fresh reset init use s progs pool0 g0) [] = run_alone fresh reset init use g0 (nth t progs []).
Proof.
  intros Hc Hwb Hns Hd t Ht. rewrite interleaved_eq_ref, alone_eq_ref; auto.
  - rewrite Forall_forall in Hwb. apply Hwb, nth_In; auto.
  - rewrite Forall_forall in Hns. apply Hns, nth_In; auto.
Qed.

(* the global cell stays constant when nobody writes it (needs no bracketing, no laws) *)
Lemma step_glob (g : gst ostate input uop result G) i c :
  (forall j, no_set_threshold (todo (ths g j)) = true) ->
  glob (step fresh reset init use g i c) = glob g /\
  (forall j, no_set_threshold (todo (ths (step fresh reset init use g i c) j)) = true).
Proof.
  intros H. unfold step. pose proof (H i) as Hi. destruct (todo (ths g i)) as [|a rest] eqn:E; [auto|].
  simpl in Hi. apply andb_prop in Hi as [Ha Hr].
  assert (forall p o j, no_set_threshold (todo (set_th (ths g) i (mk_tst rest p o) j)) = true)
    by (intros; unfold set_th; destruct (Nat.eqb j i); simpl; auto).
  destruct a; try discriminate; simpl; try destruct (take_nth c (pool g)) as [[? ?]|]; try destruct (ptr (ths g i));
    try destruct (use _ _ _); simpl; auto.
Qed.

Theorem global_settings_constant s progs pool0 g0 :
  Forall (fun p => no_set_threshold p = true) progs ->
  final_glob fresh reset init use s progs pool0 g0 = g0.
Proof.
  intros Hns. unfold final_glob.
  assert (forall (g : gst ostate input uop result G), (forall j, no_set_threshold (todo (ths g j)) = true) ->
            glob (run fresh reset init use s g) = glob g) as Hrun.
  { induction s as [|[i c] s IH]; intros g Hg; simpl; auto.
    destruct (step_glob g i c Hg) as [E Hg']. rewrite IH; auto. }
  rewrite Hrun; auto. intros j. simpl. apply (nth_forall_bool no_set_threshold); auto.
Qed.
End Main.

(* ---------- the two instances satisfy the laws ---------- *)
Lemma dig_laws circle blake : pool_laws dig_fresh dig_reset (dig_init circle) (dig_use blake) dig_clean dig_sim.
Proof.
  constructor.
  - reflexivity.
  - reflexivity.
  - intros [k0 m] o o' Hc Hc'. unfold dig_clean in *. unfold dig_sim, dig_init; simpl. rewrite Hc, Hc'. auto.
  - intros [] level [c b s m] [c' b' s' m'] (Hc & Hb & Hm); simpl in *; subst c' b' m'.
    unfold dig_use, dig_sim; simpl.
    destruct (4 <=? level)%N; simpl; auto. destruct (level =? 0)%N; simpl; auto.
    destruct (b3_is_empty b); simpl; auto.
Qed.

Lemma buf_laws : pool_laws buf_fresh buf_reset buf_init buf_use buf_clean buf_sim.
Proof.
  constructor; try reflexivity.
  - intros [] o o' Hc Hc'. unfold buf_sim, buf_init, buf_clean in *. congruence.
  - intros g bs o o' H. unfold buf_sim, buf_use in *; simpl. rewrite H. auto.
Qed.
