(* NestedSelfSet_examples.v — concrete forests: non-vacuity of the hypotheses of C10_selfset and the
   witness against the code before "fix: keep an inlined child container inlined when it is set
   back into its own slot" (finding F4). *)
From Coq Require Import ZArith NArith List Bool Lia Arith.
From AtreeGen Require Import Consts.
From AtreeModel Require Import Nested NestedErr NestedFresh NestedSelfSet.
From AtreeProofs Require Import Nested_base Nested_resync Nested_proofs Nested_steps Nested_examples
     NestedFresh_proofs NestedFresh_examples NestedSelfSet_proofs.
Import ListNotations.
Local Open Scope N_scope.

(* ---------- f0: array 1 = [array 2 (5 scalars, inlined), 99], committed ---------- *)
Lemma selfset_ok_f0 : selfset_ok f0 1 0.
Proof. eexists _, 0%nat, _, 2, 0. split; [vm_compute; reflexivity|]. repeat split. Qed.

(* the repaired code: nothing but one store entry for the parent *)
Lemma selfset_f0 :
  self_set_full 8 cfg1024 f0 1 0 = (mkF (f_cs f0) [(1, true)], true, Some (NChild 2 0)) /\
  f_log f0 = [] /\ enclosing 8 f0 1 = Some 1.
Proof. vm_compute. auto. Qed.

(* the code before the repair: child 2 is marked not inlined and stored on its own although slot 0 of
   array 1 still holds it; the cached size of array 1 (35 = 17 + 15 + 3 with the child inlined)
   no longer matches its elements (19 + 3 = 22 with a child that is a reference) *)
Lemma selfset_old_f0 :
  let f' := fst (self_set_old 8 cfg1024 f0 1 0) in
  snd (self_set_old 8 cfg1024 f0 1 0) = true /\
  option_map c_inl (fget f0 2) = Some true /\ option_map c_inl (fget f' 2) = Some false /\
  f_log f' = [(2, true); (1, true)] /\
  option_map c_slots (fget f' 1) = option_map c_slots (fget f0 1) /\
  option_map c_csize (fget f' 1) = Some 35 /\
  option_map (fun c => data_size cfg1024 f' (c_kind c) (c_slots c)) (fget f' 1) = Some 22 /\
  self_set_old 8 cfg1024 f0 1 0 = arr_set 8 cfg1024 f0 1 0 (NChild 2 0).
Proof. vm_compute. repeat split. Qed.

Lemma selfset_old_f0_not_fwf : ~ fwf 8 cfg1024 (fst (self_set_old 8 cfg1024 f0 1 0)).
Proof.
  intros (_ & _ & Hc & _).
  eassert (E : fget (fst (self_set_old 8 cfg1024 f0 1 0)) 1 = Some _) by (vm_compute; reflexivity).
  specialize (Hc 1 _ E). apply N.eqb_eq in Hc. vm_compute in Hc. discriminate Hc.
Qed.

(* the child is NOT inlined although it sits in a slot whose limit it fits *)
Lemma selfset_old_f0_inline_rule_broken :
  let f' := fst (self_set_old 8 cfg1024 f0 1 0) in
  exists cv, fget f' 2 = Some cv /\ c_inl cv = false /\ inl_size cv <= slot_lim cfg1024 KArr 0 0.
Proof. eexists. split; [vm_compute; reflexivity|]. split; [reflexivity|]. vm_compute. discriminate. Qed.

(* ---------- fz: array 1 = [map 2], map 2 = {7 -> Some(array 3)}, array 3 = [10,11,12]; 2 and 3 inlined ---------- *)
Definition opsz : list nop :=
  [ONew 1 KArr; ONew 2 KMap; ONew 3 KArr;
   OArrInsert 3 0 (sc 10); OArrInsert 3 1 (sc 11); OArrInsert 3 2 (sc 12);
   OMapSet 2 7 3 (NChild 3 1); OArrInsert 1 0 (NChild 2 0); OCommit].
Definition fz : forest := fst (run 8 cfg1024 empty_forest opsz).

Definition lvlz (v : N) : nat := if v =? 3 then 2%nat else if v =? 2 then 1%nat else 0%nat.

Lemma reach_fz : reach 8 cfg1024 fz.
Proof.
  unfold fz, opsz. assert (H : reach 8 cfg1024 empty_forest) by constructor.
  reach_step ltac:(vm_compute; reflexivity).
  reach_step ltac:(vm_compute; reflexivity).
  reach_step ltac:(vm_compute; reflexivity).
  do 3 (reach_step ltac:(ok_scalar_insert)).
  reach_step ltac:(idtac).
  { split; [eexists; split; [vm_compute; reflexivity|reflexivity]|].
    split; [eexists; vm_compute; reflexivity|]. split.
    - intros (p & i & s & w & E). no_such_edge E.
    - exists lvlz. split; [|split].
      + intros x i s v' w' E. no_such_edge E.
      + cbn. lia.
      + intros x. unfold lvlz. destruct (x =? 3), (x =? 2); lia. }
  reach_step ltac:(idtac).
  { split; [eexists; split; [vm_compute; reflexivity|split; [reflexivity|cbn; lia]]|].
    split; [eexists; vm_compute; reflexivity|]. split.
    - intros (p & i & s & w & E). no_such_edge E.
    - exists lvlz. split; [|split].
      + intros x i s v' w' E. edge_enum E. cbn. lia.
      + cbn. lia.
      + intros x. unfold lvlz. destruct (x =? 3), (x =? 2); lia. }
  reach_step ltac:(exact I).
  exact H.
Qed.

Lemma fwf_fz : fwf 8 cfg1024 fz.
Proof. apply C10_reachable_l; [lia|apply reach_fz]. Qed.

Lemma selfset_ok_fz : selfset_ok fz 2 7.
Proof. eexists _, 0%nat, _, 3, 1. split; [vm_compute; reflexivity|]. repeat split. Qed.

(* par = map 2 is itself inlined in array 1: the store entry is array 1's; the element handed back
   is the child with its wrapper *)
Lemma selfset_fz :
  self_set_full 8 cfg1024 fz 2 7 = (mkF (f_cs fz) [(1, true)], true, Some (NChild 3 1)) /\
  f_log fz = [] /\ enclosing 8 fz 2 = Some 1 /\
  option_map c_inl (fget fz 2) = Some true /\ option_map c_inl (fget fz 3) = Some true.
Proof. vm_compute. repeat split. Qed.

(* the old code on a map slot: [map_set] given the slot's own element *)
Lemma selfset_old_fz :
  let f' := fst (self_set_old 8 cfg1024 fz 2 7) in
  option_map c_inl (fget f' 3) = Some false /\
  self_set_old 8 cfg1024 fz 2 7 = map_set 8 cfg1024 fz 2 7 3 (NChild 3 1).
Proof. vm_compute. auto. Qed.

Lemma selfset_old_fz_not_fwf : ~ fwf 8 cfg1024 (fst (self_set_old 8 cfg1024 fz 2 7)).
Proof.
  intros (_ & _ & Hc & _).
  eassert (E : fget (fst (self_set_old 8 cfg1024 fz 2 7)) 2 = Some _) by (vm_compute; reflexivity).
  specialize (Hc 2 _ E). apply N.eqb_eq in Hc. vm_compute in Hc. discriminate Hc.
Qed.

(* a history of the larger language: the self-set of fz, then an operation through the child handle,
   then a reopen *)
Lemma reach2_example :
  reach2 8 cfg1024 fz /\
  reach2 8 cfg1024 (fst (hrun2 8 cfg1024 fz [HSelfSet 2 7; H2 (HOp (OArrInsert 3 3 (sc 13))); H2 (HOp OCommit); H2 (HRehandle 1 None)])) /\
  snd (hrun2 8 cfg1024 fz [HSelfSet 2 7; H2 (HOp (OArrInsert 3 3 (sc 13))); H2 (HOp OCommit); H2 (HRehandle 1 None)]) = true.
Proof.
  assert (R0 : reach2 8 cfg1024 fz) by (apply reach_reach2, reach_fz).
  split; [exact R0|].
  assert (S1 : hstep2 8 cfg1024 fz (HSelfSet 2 7) = (mkF (f_cs fz) [(1, true)], true)) by (vm_compute; reflexivity).
  pose proof (reach2_step _ _ _ (HSelfSet 2 7) _ R0 selfset_ok_fz S1) as R1.
  set (f1 := mkF (f_cs fz) [(1, true)]) in *.
  destruct (hstep2 8 cfg1024 f1 (H2 (HOp (OArrInsert 3 3 (sc 13))))) as [f2 ok2] eqn:S2.
  assert (O2 : hop2_ok 8 f1 (H2 (HOp (OArrInsert 3 3 (sc 13))))).
  { cbn [hop2_ok hop_ok op_ok]. split; [eexists; split; [vm_compute; reflexivity|split; [reflexivity|cbn; lia]]|exact I]. }
  assert (ok2 = true) by (vm_compute in S2; now injection S2 as _ <-). subst ok2.
  pose proof (reach2_step _ _ _ _ _ R1 O2 S2) as R2.
  destruct (hstep2 8 cfg1024 f2 (H2 (HOp OCommit))) as [f3 ok3] eqn:S3.
  assert (ok3 = true) by (cbn in S3; now injection S3 as _ <-). subst ok3.
  pose proof (reach2_step _ _ _ (H2 (HOp OCommit)) _ R2 I S3) as R3.
  assert (Hwf3 : fwf 8 cfg1024 f3) by (apply reach2_fwf; [lia|exact R3]).
  assert (O4 : hop2_ok 8 f3 (H2 (HRehandle 1 None))).
  { cbn [hop2_ok hop_ok].
    assert (E1 : exists c, fget f3 1 = Some c /\ c_upd c = None).
    { vm_compute in S2. injection S2 as <-. vm_compute in S3. injection S3 as <-. eexists. split; vm_compute; reflexivity. }
    destruct E1 as (c1 & Hc1 & Hu1). split; [eauto|]. eapply not_attached_root; eauto. }
  destruct (hstep2 8 cfg1024 f3 (H2 (HRehandle 1 None))) as [f4 ok4] eqn:S4.
  destruct (hstep2_fwf _ _ _ _ _ _ Hwf3 O4 S4) as (-> & _).
  pose proof (reach2_step _ _ _ _ _ R3 O4 S4) as R4.
  cbn [hrun2]. fold f1. rewrite S1. fold f1. rewrite S2, S3, S4. cbn [fst snd]. auto.
Qed.

(* ---------- the witness, packaged ---------- *)
Theorem selfset_refuted_old :
  exists f p loc,
    reach 8 cfg1024 f /\ hop2_ok 8 f (HSelfSet p loc) /\
    let r := self_set_old 8 cfg1024 f p loc in
    snd r = true /\
    ~ fwf 8 cfg1024 (fst r) /\
    (exists v cv i s w, edge (fst r) p i s v w /\ fget (fst r) v = Some cv /\ c_inl cv = false /\
                        inl_size cv <= slot_lim cfg1024 KArr (s_ksz s) w) /\
    r = arr_set 8 cfg1024 f p (N.to_nat loc) (NChild 2 0) /\
    fwf 8 cfg1024 (fst (self_set 8 cfg1024 f p loc)).
Proof.
  exists f0, 1, 0. split; [exact reach_f0|]. split; [exact selfset_ok_f0|].
  destruct selfset_old_f0 as (A & _ & _ & _ & _ & _ & _ & B).
  split; [exact A|]. split; [exact selfset_old_f0_not_fwf|]. split; [|split; [exact B|]].
  - destruct selfset_old_f0_inline_rule_broken as (cv & H1 & H2 & H3).
    exists 2, cv, 0%nat, (mkSlot 0 0 (NChild 2 0)), 0. split; [|auto].
    eexists. split; [vm_compute; reflexivity|]. split; reflexivity.
  - destruct (selfset_fwf 8 cfg1024 f0 1 0 fwf_f0 selfset_ok_f0) as (f' & Hs & Hwf & _).
    cbn [hstep2] in Hs. now rewrite Hs.
Qed.
