(* IterMap_proofs.v — the map loaded-value iterator (theories/IterMap.v) against the full enumeration
   [to_list_tree] (whose canonical order is MapTreeIter_proofs / Map_proofs.tree_iteration):
   in-order sublist for every loaded set, everything when all slabs are loaded, the exact set of
   yielded entries in terms of the slabs on each entry's path, no key twice; and the iterator OBJECT
   (stack of slab iterators, nested element iterators, one entry per Next) yields exactly the list
   computed by the structural function. *)
From Coq Require Import NArith ZArith List Bool Arith Lia Sorted.
From AtreeModel Require Import Settings MapElems MapElemsInv MapTree MapTreeInv IterMap.
From AtreeModel Require Iter.
From AtreeProofs Require Iter_proofs.
From AtreeProofs Require Import MapTree_proofs Map_proofs.
Import ListNotations.
Local Open Scope N_scope.

Notation sublist := Iter.sublist.
Notation sublist_refl := Iter_proofs.sublist_refl.
Notation sublist_nil_l := Iter_proofs.sublist_nil_l.
Notation sublist_app := Iter_proofs.sublist_app.
Notation sublist_filter := Iter_proofs.sublist_filter.
Notation sublist_NoDup := Iter_proofs.sublist_NoDup.
Notation sublist_In := Iter_proofs.sublist_In.

(** * induction principle for the nested element type *)
Section melem_ind.
  Variable Pe : melem -> Prop.
  Variable Pg : melems -> Prop.
  Hypothesis HS : forall k v, Pe (ESingle k v).
  Hypothesis HG : forall loc g, Pg g -> Pe (EGroup loc g).
  Hypothesis HH : forall l hks es sz, Forall Pe es -> Pg (HKey l hks es sz).
  Hypothesis HL : forall l kvs sz, Pg (SList l kvs sz).
  Fixpoint im_elem_ind (e : melem) : Pe e :=
    match e with
    | ESingle k v => HS k v
    | EGroup loc g => HG loc g (im_elems_ind g)
    end
  with im_elems_ind (g : melems) : Pg g :=
    match g with
    | HKey l hks es sz =>
      HH l hks es sz ((fix go (es : list melem) : Forall Pe es :=
                         match es with [] => Forall_nil _ | e :: r => Forall_cons e (im_elem_ind e) (go r) end) es)
    | SList l kvs sz => HL l kvs sz
    end.
  Lemma im_ind : (forall e, Pe e) /\ (forall g, Pg g).
  Proof. split; [exact im_elem_ind|exact im_elems_ind]. Qed.
End melem_ind.

Lemma sublist_map {A B} (f : A -> B) (a b : list A) : sublist a b -> sublist (map f a) (map f b).
Proof. induction 1; cbn [map]; [apply Iter.sl_nil|apply Iter.sl_skip|apply Iter.sl_cons]; auto. Qed.

Lemma sublist_flat_map {A B} (f g : A -> list B) (l : list A) :
  Forall (fun x => sublist (f x) (g x)) l -> sublist (flat_map f l) (flat_map g l).
Proof. induction 1; cbn [flat_map]; [apply Iter.sl_nil|apply sublist_app; auto]. Qed.

Lemma filter_all {A} (f : A -> bool) l : (forall x, f x = true) -> filter f l = l.
Proof. intros H. induction l as [|x l IH]; cbn [filter]; [reflexivity|]. rewrite H, IH. reflexivity. Qed.

Lemma flat_map_ext_Forall {A B} (f g : A -> list B) (l : list A) :
  Forall (fun x => f x = g x) l -> flat_map f l = flat_map g l.
Proof. induction 1; cbn [flat_map]; [reflexivity|]. congruence. Qed.

(** * the header-copy agreement *)
Lemma m_hdrs_agree_children cs :
  (fix go (l : list mnode) : Prop := match l with [] => True | c :: r => m_hdrs_agree c /\ go r end) cs
  <-> Forall m_hdrs_agree cs.
Proof.
  induction cs as [|c r IH]; split; intros H; auto.
  - destruct H as [H1 H2]. constructor; [exact H1|apply IH; exact H2].
  - split; [exact (Forall_inv H)|apply IH; exact (Forall_inv_tail H)].
Qed.

Lemma m_hdrs_agree_MM h hs cs :
  m_hdrs_agree (MM h hs cs) -> length hs = length cs /\ Forall m_hdrs_agree cs.
Proof.
  cbn [m_hdrs_agree]. intros [Hids Hch]. split; [|apply m_hdrs_agree_children; exact Hch].
  apply (f_equal (@length N)) in Hids. rewrite !map_length in Hids. exact Hids.
Qed.

(* the map invariant provides it *)
Lemma mwfn_hdrs_agree dg levels c : forall d n, mwfn dg levels c d n -> m_hdrs_agree n.
Proof.
  intros d n. revert d.
  induction n as [h nx es|h hs cs IH] using mnode_ind'; intros d H; cbn [m_hdrs_agree]; [exact I|].
  inversion H as [|d' ? ? ? Hcs _ Hhs _ _ _ _]; subst. split.
  - rewrite map_map. reflexivity.
  - apply m_hdrs_agree_children. clear H. induction cs as [|c0 r IHr]; constructor.
    + exact (Forall_inv IH _ (Forall_inv Hcs)).
    + exact (IHr (Forall_inv_tail IH) (Forall_inv_tail Hcs)).
Qed.

Lemma mwf_root_hdrs_agree dg levels c n : mwf_root dg levels c n -> m_hdrs_agree n.
Proof.
  intros H. inversion H; subst; [exact I|]. eapply mwfn_hdrs_agree; eassumption.
Qed.

(** * generic facts about one slab iterator *)
Lemma mvisit_sublist {B} ld (f : mhdr -> mnode -> list B) (g : mnode -> list B) : forall cs hs,
  Forall (fun c => forall h, sublist (f h c) (g c)) cs ->
  sublist (mvisit ld f hs cs) (flat_map g cs).
Proof.
  induction cs as [|c r IH]; intros hs HF.
  - cbn. apply Iter.sl_nil.
  - destruct hs as [|h hs]; [cbn [mvisit flat_map]; apply sublist_nil_l|].
    cbn [mvisit flat_map].
    pose proof (Forall_inv HF) as H1. pose proof (Forall_inv_tail HF) as H2.
    apply sublist_app; [|apply IH; exact H2].
    destruct (ld h); [apply H1|apply sublist_nil_l].
Qed.

Lemma mvisit_all {B} ld (f : mhdr -> mnode -> list B) (g : mnode -> list B) : forall cs hs,
  length hs = length cs -> (forall h, ld h = true) ->
  Forall (fun c => forall h, f h c = g c) cs ->
  mvisit ld f hs cs = flat_map g cs.
Proof.
  induction cs as [|c r IH]; intros hs Hlen HL HF; [reflexivity|].
  destruct hs as [|h hs]; [discriminate|]. cbn [mvisit flat_map].
  rewrite HL, (Forall_inv HF h). f_equal. apply IH; auto.
  exact (Forall_inv_tail HF).
Qed.

Section WithLoaded.
Variable kref vref : kv -> N.
Variable loaded : N -> bool.
Local Notation pair_loaded := (pair_loaded kref vref loaded).
Local Notation e_iter := (e_iter kref vref loaded).
Local Notation g_iter := (g_iter kref vref loaded).
Local Notation n_iter := (n_iter kref vref loaded).
Local Notation e_paths := (e_paths kref vref).
Local Notation g_paths := (g_paths kref vref).
Local Notation n_paths := (n_paths kref vref).
Local Notation pair_refs := (pair_refs kref vref).
Local Notation path_loaded := (path_loaded loaded).

(** * partially loaded: an in-order subsequence *)
Lemma elems_iter_sublist :
  (forall e, sublist (e_iter e) (to_list_e e)) /\ (forall g, sublist (g_iter g) (to_list g)).
Proof.
  apply im_ind.
  - intros k v. cbn [e_iter to_list_e]. destruct (pair_loaded (k, v)).
    + apply Iter.sl_cons, Iter.sl_nil.
    + apply Iter.sl_skip, Iter.sl_nil.
  - intros loc g IH. cbn [e_iter to_list_e]. destruct loc as [id|]; [|exact IH].
    destruct (loaded id); [exact IH|apply sublist_nil_l].
  - intros l hks es sz IH. cbn [g_iter to_list]. apply sublist_flat_map. exact IH.
  - intros l kvs sz. cbn [g_iter to_list]. apply sublist_filter.
Qed.

Lemma n_iter_sublist n : sublist (n_iter n) (to_list_tree n).
Proof.
  induction n as [h nx es|h hs cs IH] using mnode_ind'; cbn [n_iter to_list_tree].
  - apply elems_iter_sublist.
  - apply mvisit_sublist. eapply Forall_impl; [|exact IH]. cbn beta. intros c H _. exact H.
Qed.

(** * exact characterisation *)
Lemma forallb_nzl r : forallb loaded (nzl r) = ref_loaded loaded r.
Proof.
  unfold nzl, ref_loaded. destruct (r =? 0); cbn [forallb orb]; [reflexivity|apply andb_true_r].
Qed.

Lemma forallb_pair_refs p : forallb loaded (pair_refs p) = pair_loaded p.
Proof. unfold IterMap.pair_refs, IterMap.pair_loaded. rewrite forallb_app, !forallb_nzl. reflexivity. Qed.

Lemma elems_paths_fst :
  (forall e pre, map fst (e_paths pre e) = to_list_e e) /\ (forall g pre, map fst (g_paths pre g) = to_list g).
Proof.
  apply im_ind.
  - reflexivity.
  - intros loc g IH pre. cbn [IterMap.e_paths to_list_e]. destruct loc; apply IH.
  - intros l hks es sz IH pre. cbn [IterMap.g_paths to_list].
    induction IH as [|e r He _ IHr]; cbn [flat_map]; [reflexivity|]. rewrite map_app, He, IHr. reflexivity.
  - intros l kvs sz pre. cbn [IterMap.g_paths to_list]. rewrite map_map. cbn [fst]. apply map_id.
Qed.

Lemma elems_paths_iter :
  (forall e pre, map fst (filter path_loaded (e_paths pre e)) = if forallb loaded pre then e_iter e else []) /\
  (forall g pre, map fst (filter path_loaded (g_paths pre g)) = if forallb loaded pre then g_iter g else []).
Proof.
  apply im_ind.
  - intros k v pre. cbn [IterMap.e_paths IterMap.e_iter filter]. unfold IterMap.path_loaded. cbn [snd].
    rewrite forallb_app, forallb_pair_refs.
    destruct (forallb loaded pre); cbn [andb]; [|reflexivity]. destruct (pair_loaded (k, v)); reflexivity.
  - intros loc g IH pre. cbn [IterMap.e_paths IterMap.e_iter]. destruct loc as [id|]; [|apply IH].
    rewrite IH, forallb_app. cbn [forallb]. rewrite andb_true_r.
    destruct (forallb loaded pre); cbn [andb]; [|reflexivity]. destruct (loaded id); reflexivity.
  - intros l hks es sz IH pre. cbn [IterMap.g_paths IterMap.g_iter].
    induction IH as [|e r He _ IHr]; cbn [flat_map].
    + destruct (forallb loaded pre); reflexivity.
    + rewrite filter_app, map_app, He, IHr. destruct (forallb loaded pre); reflexivity.
  - intros l kvs sz pre. cbn [IterMap.g_paths IterMap.g_iter].
    induction kvs as [|p r IHr]; cbn [map filter].
    + destruct (forallb loaded pre); reflexivity.
    + unfold IterMap.path_loaded at 1. cbn [snd]. rewrite forallb_app, forallb_pair_refs.
      destruct (forallb loaded pre) eqn:E; cbn [andb].
      * destruct (pair_loaded p); cbn [map fst]; rewrite IHr; reflexivity.
      * exact IHr.
Qed.

Lemma n_paths_iter n : forall pre,
  map fst (filter path_loaded (n_paths pre n)) = if forallb loaded pre then n_iter n else [].
Proof.
  induction n as [h nx es|h hs cs IH] using mnode_ind'; intros pre; cbn [IterMap.n_paths IterMap.n_iter].
  - apply elems_paths_iter.
  - revert hs. induction IH as [|c r Hc _ IHr]; intros hs.
    + cbn. destruct (forallb loaded pre); reflexivity.
    + destruct hs as [|h0 hs]; [cbn; destruct (forallb loaded pre); reflexivity|].
      cbn [mvisit]. rewrite filter_app, map_app, IHr, Hc, forallb_app. cbn [forallb]. rewrite andb_true_r.
      destruct (forallb loaded pre); cbn [andb]; [|reflexivity].
      destruct (loaded (mh_id h0)); reflexivity.
Qed.

Lemma n_paths_fst n : forall pre, m_hdrs_agree n -> map fst (n_paths pre n) = to_list_tree n.
Proof.
  induction n as [h nx es|h hs cs IH] using mnode_ind'; intros pre HA; cbn [IterMap.n_paths to_list_tree].
  - apply elems_paths_fst.
  - apply m_hdrs_agree_MM in HA. destruct HA as [Hlen Hch].
    revert hs Hlen. induction cs as [|c r IHr]; intros hs Hlen; [reflexivity|].
    destruct hs as [|h0 hs]; [discriminate|].
    cbn [mvisit flat_map]. rewrite map_app.
    rewrite (Forall_inv IH _ (Forall_inv Hch)). f_equal.
    apply (IHr (Forall_inv_tail IH) (Forall_inv_tail Hch)). cbn [length] in Hlen. lia.
Qed.

(* membership form: an entry is yielded exactly when it occurs in the tree with a path all of whose
   slabs are loaded *)
Lemma n_iter_iff n p :
  In p (n_iter n) <-> exists path, In (p, path) (n_paths [] n) /\ forall i, In i path -> loaded i = true.
Proof.
  pose proof (n_paths_iter n []) as E. cbn [forallb] in E. rewrite <- E. rewrite in_map_iff. split.
  - intros ((p', path) & <- & Hin). apply filter_In in Hin. destruct Hin as (Hin & Hl).
    exists path. split; [exact Hin|]. unfold IterMap.path_loaded in Hl. cbn [snd] in Hl.
    rewrite forallb_forall in Hl. exact Hl.
  - intros (path & Hin & Hl). exists (p, path). split; [reflexivity|]. apply filter_In. split; [exact Hin|].
    unfold IterMap.path_loaded. cbn [snd]. apply forallb_forall. exact Hl.
Qed.

(** * everything loaded: the full enumeration *)
Hypothesis HL : forall id, loaded id = true.

Lemma pair_loaded_all p : pair_loaded p = true.
Proof. unfold IterMap.pair_loaded, ref_loaded. rewrite !HL, !orb_true_r. reflexivity. Qed.

Lemma elems_iter_all : (forall e, e_iter e = to_list_e e) /\ (forall g, g_iter g = to_list g).
Proof.
  apply im_ind.
  - intros k v. cbn [IterMap.e_iter to_list_e]. rewrite pair_loaded_all. reflexivity.
  - intros loc g IH. cbn [IterMap.e_iter to_list_e]. destruct loc as [id|]; [rewrite HL|]; exact IH.
  - intros l hks es sz IH. cbn [IterMap.g_iter to_list]. apply flat_map_ext_Forall. exact IH.
  - intros l kvs sz. cbn [IterMap.g_iter to_list]. apply filter_all. exact pair_loaded_all.
Qed.

Lemma n_iter_all n : m_hdrs_agree n -> n_iter n = to_list_tree n.
Proof.
  induction n as [h nx es|h hs cs IH] using mnode_ind'; intros HA; cbn [IterMap.n_iter to_list_tree].
  - apply elems_iter_all.
  - apply m_hdrs_agree_MM in HA. destruct HA as [Hlen Hch].
    apply mvisit_all; auto.
    rewrite Forall_forall in *. intros c Hin _. apply IH; auto.
Qed.
End WithLoaded.

(** * the iterator object yields the list computed by the structural function *)
Section Object.
Variable kref vref : kv -> N.
Variable loaded : N -> bool.
Local Notation pair_loaded := (pair_loaded kref vref loaded).
Local Notation e_iter := (e_iter kref vref loaded).
Local Notation g_iter := (g_iter kref vref loaded).
Local Notation n_iter := (n_iter kref vref loaded).
Local Notation e_next := (e_next kref vref loaded).
Local Notation s_next := (s_next loaded).
Local Notation next_data := (next_data loaded).
Local Notation it_next := (it_next kref vref loaded).
Local Notation it_drain := (it_drain kref vref loaded).

(* what an element iterator will still yield *)
Fixpoint denote_e (it : eiter) : dict :=
  match it with
  | EIt rest sub => (match sub with Some s => denote_e s | None => [] end) ++ flat_map e_iter rest
  end.

Lemma iter_elems_list g : flat_map e_iter (elems_list g) = g_iter g.
Proof.
  destruct g as [l hks es sz|l kvs sz]; cbn [elems_list IterMap.g_iter]; [reflexivity|].
  induction kvs as [|[k v] r IH]; cbn [map flat_map filter fst snd IterMap.e_iter]; [reflexivity|].
  rewrite IH. destruct (pair_loaded (k, v)); reflexivity.
Qed.

Lemma weight_elems_list g : l_weight (elems_list g) = g_weight g.
Proof.
  destruct g as [l hks es sz|l kvs sz]; cbn [elems_list g_weight]; [reflexivity|].
  unfold l_weight. induction kvs as [|p r IH]; cbn [map fold_right length e_weight]; [reflexivity|]. rewrite IH. reflexivity.
Qed.

Lemma denote_eiter_of g : denote_e (eiter_of g) = g_iter g.
Proof. unfold eiter_of. cbn [denote_e app]. apply iter_elems_list. Qed.

Lemma fuel_eiter_of g : eiter_fuel (eiter_of g) = S (g_weight g).
Proof. unfold eiter_of. cbn [eiter_fuel]. rewrite weight_elems_list. reflexivity. Qed.

Lemma l_weight_cons e r : l_weight (e :: r) = (e_weight e + l_weight r)%nat.
Proof. reflexivity. Qed.

(* mapLoadedElementIterator.next: the head of what is left, and the rest stays *)
Lemma e_next_spec : forall fuel it, (eiter_fuel it <= fuel)%nat ->
  exists it', e_next fuel it = (hd_error (denote_e it), it') /\ denote_e it' = tl (denote_e it) /\
              (eiter_fuel it' <= eiter_fuel it)%nat.
Proof.
  induction fuel as [|f IH]; intros it Hf.
  { destruct it as [rest [s|]]; cbn [eiter_fuel] in Hf; lia. }
  destruct it as [rest [s|]].
  - (* nested collision-group iterator *)
    cbn [eiter_fuel] in Hf. destruct (IH s ltac:(lia)) as (s' & E & D & W).
    cbn [IterMap.e_next]. rewrite E. cbn [denote_e].
    destruct (denote_e s) as [|p r] eqn:Ds; cbn [hd_error tl app] in *.
    + destruct (IH (EIt rest None) ltac:(cbn [eiter_fuel]; lia)) as (it' & E2 & D2 & W2).
      cbn [denote_e app] in E2, D2. exists it'. split; [exact E2|]. split; [exact D2|].
      cbn [eiter_fuel] in *. lia.
    + exists (EIt rest (Some s')). split; [reflexivity|]. cbn [denote_e eiter_fuel]. rewrite D. split; [reflexivity|lia].
  - destruct rest as [|e rest].
    + exists (EIt [] None). cbn. auto.
    + cbn [eiter_fuel] in Hf. rewrite l_weight_cons in Hf. cbn [IterMap.e_next].
      destruct e as [k v|[id|] g]; cbn [e_weight] in Hf; cbn [denote_e flat_map app IterMap.e_iter].
      * destruct (pair_loaded (k, v)); cbn [app hd_error tl].
        -- exists (EIt rest None). cbn [denote_e app eiter_fuel]. rewrite l_weight_cons. cbn [e_weight].
           split; [reflexivity|]. split; [reflexivity|lia].
        -- destruct (IH (EIt rest None) ltac:(cbn [eiter_fuel]; lia)) as (it' & E2 & D2 & W2).
           cbn [denote_e app] in E2, D2. exists it'. split; [exact E2|]. split; [exact D2|].
           cbn [eiter_fuel] in *. rewrite l_weight_cons. lia.
      * destruct (loaded id).
        -- destruct (IH (EIt rest (Some (eiter_of g)))) as (it' & E2 & D2 & W2).
           { cbn [eiter_fuel]. rewrite fuel_eiter_of. lia. }
           cbn [denote_e] in E2, D2. rewrite denote_eiter_of in E2, D2.
           exists it'. split; [exact E2|]. split; [exact D2|].
           cbn [eiter_fuel] in *. rewrite fuel_eiter_of in W2. rewrite l_weight_cons. cbn [e_weight]. lia.
        -- destruct (IH (EIt rest None) ltac:(cbn [eiter_fuel]; lia)) as (it' & E2 & D2 & W2).
           cbn [denote_e app] in E2, D2. exists it'. split; [exact E2|]. split; [exact D2|].
           cbn [eiter_fuel] in *. rewrite l_weight_cons. lia.
      * destruct (IH (EIt rest (Some (eiter_of g)))) as (it' & E2 & D2 & W2).
        { cbn [eiter_fuel]. rewrite fuel_eiter_of. lia. }
        cbn [denote_e] in E2, D2. rewrite denote_eiter_of in E2, D2.
        exists it'. split; [exact E2|]. split; [exact D2|].
        cbn [eiter_fuel] in *. rewrite fuel_eiter_of in W2. rewrite l_weight_cons. cbn [e_weight]. lia.
Qed.

(* slab iterators *)
Definition denote_s (fr : siter) : dict :=
  mvisit (fun h => loaded (mh_id h)) (fun _ c => n_iter c) (fst fr) (snd fr).
Definition c_weight (cs : list mnode) : nat := fold_right (fun c a => (S (n_weight c) + a)%nat) O cs.
Definition s_weight (fr : siter) : nat := S (c_weight (snd fr)).
Definition ps_weight (ps : list siter) : nat := fold_right (fun fr a => (s_weight fr + a)%nat) O ps.

Lemma s_next_spec : forall cs hs,
  match s_next hs cs with
  | (Some c, fr) => denote_s (hs, cs) = n_iter c ++ denote_s fr /\ (S (n_weight c) + c_weight (snd fr) <= c_weight cs)%nat
  | (None, _) => denote_s (hs, cs) = []
  end.
Proof.
  induction cs as [|c r IH]; intros hs; [destruct hs; reflexivity|].
  destruct hs as [|h hs]; [cbn; reflexivity|]. cbn [IterMap.s_next]. unfold denote_s. cbn [fst snd mvisit].
  destruct (loaded (mh_id h)).
  - cbn [snd c_weight fold_right]. split; [reflexivity|]. fold (c_weight r). lia.
  - specialize (IH hs). destruct (s_next hs r) as [[c'|] fr]; unfold denote_s in IH; cbn [fst snd app] in *.
    + destruct IH as [IH1 IH2]. split; [exact IH1|]. cbn [c_weight fold_right]. fold (c_weight r). lia.
    + exact IH.
Qed.

(* MapLoadedValueIterator.nextDataIterator *)
Lemma next_data_spec : forall fuel ps, (ps_weight ps < fuel)%nat ->
  match next_data fuel ps with
  | (Some d, ps') => denote_e d ++ flat_map denote_s ps' = flat_map denote_s ps /\
                     (eiter_fuel d + ps_weight ps' < ps_weight ps)%nat
  | (None, ps') => flat_map denote_s ps = [] /\ ps' = []
  end.
Proof.
  induction fuel as [|f IH]; intros ps Hf; [lia|].
  destruct ps as [|[hs cs] below]; [cbn; auto|].
  cbn [IterMap.next_data]. cbn [ps_weight fold_right] in Hf. fold (ps_weight below) in Hf.
  unfold s_weight in Hf. cbn [snd] in Hf.
  pose proof (s_next_spec cs hs) as S1. destruct (s_next hs cs) as [[c|] top'].
  - destruct S1 as [D W]. destruct c as [h nx es|h hs2 cs2].
    + cbn [flat_map]. rewrite D, denote_eiter_of, <- app_assoc. cbn [IterMap.n_iter]. split; [reflexivity|].
      rewrite fuel_eiter_of. cbn [ps_weight fold_right]. fold (ps_weight below). unfold s_weight. cbn [snd].
      cbn [n_weight] in W. lia.
    + cbn [n_weight] in W. fold (c_weight cs2) in W.
      specialize (IH ((hs2, cs2) :: top' :: below)).
      assert (Hw : (ps_weight ((hs2, cs2) :: top' :: below) < f)%nat).
      { cbn [ps_weight fold_right]. fold (ps_weight below). unfold s_weight. cbn [snd]. lia. }
      specialize (IH Hw).
      assert (Hd : flat_map denote_s ((hs2, cs2) :: top' :: below) = flat_map denote_s ((hs, cs) :: below)).
      { cbn [flat_map]. rewrite D, <- app_assoc. reflexivity. }
      destruct (next_data f ((hs2, cs2) :: top' :: below)) as [[d|] ps'].
      * destruct IH as [IH1 IH2]. split; [exact (eq_trans IH1 Hd)|].
        cbn [ps_weight fold_right] in *. fold (ps_weight below) in *. unfold s_weight in *. cbn [snd] in *. lia.
      * destruct IH as [IH1 IH2]. split; [exact (eq_trans (eq_sym Hd) IH1)|exact IH2].
  - specialize (IH below ltac:(lia)). cbn [flat_map]. rewrite S1. cbn [app].
    destruct (next_data f below) as [[d|] ps'].
    + destruct IH as [IH1 IH2]. split; [exact IH1|].
      cbn [ps_weight fold_right]. fold (ps_weight below). lia.
    + exact IH.
Qed.

Definition denote_it (it : miter) : dict :=
  (match it_data it with Some d => denote_e d | None => [] end) ++ flat_map denote_s (it_parents it).
Definition it_weight (it : miter) : nat :=
  (match it_data it with Some d => eiter_fuel d | None => O end + ps_weight (it_parents it))%nat.

(* MapLoadedValueIterator.Next *)
Lemma it_next_spec : forall fuel it, (it_weight it < fuel)%nat ->
  exists it', it_next fuel it = (hd_error (denote_it it), it') /\ denote_it it' = tl (denote_it it) /\
              (it_weight it' <= it_weight it)%nat.
Proof.
  induction fuel as [|f IH]; intros it Hf; [lia|].
  destruct it as [ps data]. unfold it_weight in Hf. cbn [it_data it_parents] in Hf.
  (* the part after the data iterator is exhausted or absent *)
  assert (Tail : forall w0, (w0 + ps_weight ps < S f)%nat ->
    exists it', (match next_data (S f) ps with
                 | (Some d, ps') => it_next f (mkit ps' (Some d))
                 | (None, ps') => (None, mkit ps' None)
                 end) = (hd_error (flat_map denote_s ps), it') /\
                denote_it it' = tl (flat_map denote_s ps) /\ (it_weight it' <= w0 + ps_weight ps)%nat).
  { intros w0 Hw. pose proof (next_data_spec (S f) ps ltac:(lia)) as N1.
    destruct (next_data (S f) ps) as [[d|] ps'].
    - destruct N1 as [D W].
      destruct (IH (mkit ps' (Some d))) as (it' & E & D2 & W2).
      { unfold it_weight. cbn [it_data it_parents]. lia. }
      unfold denote_it in E, D2 at 2. cbn [it_data it_parents] in E, D2. rewrite D in E, D2.
      exists it'. split; [exact E|]. split; [exact D2|].
      unfold it_weight in W2 at 2. cbn [it_data it_parents] in W2. lia.
    - destruct N1 as [D ->]. exists (mkit [] None). rewrite D. cbn. split; [reflexivity|]. split; [reflexivity|lia]. }
  cbn [IterMap.it_next it_data it_parents]. unfold denote_it, it_weight. cbn [it_data it_parents].
  destruct data as [d|].
  - destruct (e_next_spec (S f) d ltac:(lia)) as (d' & E & D & W). rewrite E.
    destruct (denote_e d) as [|p r] eqn:Dd; cbn [hd_error tl app] in *.
    + destruct (Tail (eiter_fuel d) ltac:(lia)) as (it' & E2 & D2 & W2). exists it'. auto.
    + exists (mkit ps (Some d')). cbn [it_data it_parents]. rewrite D. split; [reflexivity|]. split; [reflexivity|lia].
  - destruct (Tail O ltac:(lia)) as (it' & E2 & D2 & W2). exists it'. cbn [app]. auto.
Qed.

Lemma it_drain_spec fuel : forall n it, (it_weight it < fuel)%nat -> (length (denote_it it) < n)%nat ->
  it_drain fuel n it = denote_it it.
Proof.
  induction n as [|n IH]; intros it Hf Hn; [lia|].
  cbn [IterMap.it_drain]. destruct (it_next_spec fuel it Hf) as (it' & E & D & W). rewrite E.
  destruct (denote_it it) as [|p r] eqn:Di; cbn [hd_error tl length] in *; [reflexivity|].
  f_equal. rewrite <- D. apply IH; [lia|]. rewrite D. lia.
Qed.

Lemma m_iter_object_ok t : m_iter_object kref vref loaded t = m_iter_loaded kref vref loaded t.
Proof.
  unfold m_iter_object, m_iter_loaded.
  assert (Hd : denote_it (it_init t) = n_iter (t_root t)).
  { unfold it_init. destruct (t_root t) as [h nx es|h hs cs]; unfold denote_it; cbn [it_data it_parents flat_map].
    - rewrite denote_eiter_of, app_nil_r. reflexivity.
    - cbn [app]. rewrite app_nil_r. reflexivity. }
  rewrite <- Hd. apply it_drain_spec.
  - unfold it_init. destruct (t_root t) as [h nx es|h hs cs]; unfold it_weight; cbn [it_data it_parents ps_weight fold_right n_weight].
    + rewrite fuel_eiter_of. lia.
    + unfold s_weight. cbn [snd]. fold (c_weight cs). lia.
  - rewrite Hd. pose proof (Iter_proofs.sublist_length _ _ (n_iter_sublist kref vref loaded (t_root t))). lia.
Qed.
End Object.

(** * the statements of props/C13_loaded_map.v *)
Lemma sublist_Forall {A} (P : A -> Prop) (a b : list A) : sublist a b -> Forall P b -> Forall P a.
Proof. intros S F. rewrite Forall_forall in *. intros x Hx. apply F. eapply sublist_In; eassumption. Qed.

Lemma sublist_StronglySorted {A} (R : A -> A -> Prop) (a b : list A) :
  sublist a b -> StronglySorted R b -> StronglySorted R a.
Proof.
  induction 1; intros SS; auto.
  - apply StronglySorted_inv in SS. tauto.
  - apply StronglySorted_inv in SS. destruct SS as [S1 F1]. constructor; [auto|]. eapply sublist_Forall; eassumption.
Qed.

Lemma map_loaded_sublist kref vref loaded t :
  sublist (m_iter_loaded kref vref loaded t) (to_list_tree (t_root t)).
Proof. apply n_iter_sublist. Qed.

Section WF.
Variable T : N.
Variable dg : N -> nat -> N.
Variable levels : nat.
Hypothesis HT : valid_T T.
Hypothesis Hlv : (1 <= levels)%nat.
Variable t : mtree.
Hypothesis Ht : mtwf dg levels (set_threshold T) t.
Variable kref vref : kv -> N.
Variable loaded : N -> bool.

Lemma mtwf_hdrs_agree : m_hdrs_agree (t_root t).
Proof. destruct Ht as [Hr _]. eapply mwf_root_hdrs_agree. exact Hr. Qed.

(* the yield is in canonical order *)
Lemma map_loaded_sorted :
  StronglySorted (fun p q => key_lt dg levels (kid (fst q)) (kid (fst p)) = false) (m_iter_loaded kref vref loaded t).
Proof.
  pose proof (tree_iteration dg levels T HT Hlv t Ht) as H. cbv zeta in H.
  eapply sublist_StronglySorted; [apply map_loaded_sublist|]. tauto.
Qed.

Lemma map_loaded_once :
  NoDup (dkeys (m_iter_loaded kref vref loaded t)) /\ NoDup (m_iter_loaded kref vref loaded t).
Proof.
  pose proof (tree_iteration dg levels T HT Hlv t Ht) as H. cbv zeta in H.
  assert (N1 : NoDup (dkeys (m_iter_loaded kref vref loaded t))).
  { eapply sublist_NoDup; [apply sublist_map, map_loaded_sublist|]. tauto. }
  split; [exact N1|]. eapply NoDup_map_inv. exact N1.
Qed.

Lemma map_loaded_exact :
  map fst (m_paths kref vref t) = to_list_tree (t_root t) /\
  m_iter_loaded kref vref loaded t = map fst (filter (path_loaded loaded) (m_paths kref vref t)) /\
  (forall p, In p (m_iter_loaded kref vref loaded t) <->
             exists path, In (p, path) (m_paths kref vref t) /\ forall i, In i path -> loaded i = true).
Proof.
  split; [apply n_paths_fst, mtwf_hdrs_agree|]. split.
  - pose proof (n_paths_iter kref vref loaded (t_root t) []) as E. cbn [forallb] in E. symmetry. exact E.
  - intros p. apply n_iter_iff.
Qed.

Lemma map_loaded_all :
  (forall id, loaded id = true) -> m_iter_loaded kref vref loaded t = to_list_tree (t_root t).
Proof. intros HL. apply n_iter_all; [exact HL|apply mtwf_hdrs_agree]. Qed.
End WF.

(* without the invariant *)
Lemma map_loaded_exact_any kref vref loaded t :
  m_iter_loaded kref vref loaded t = map fst (filter (path_loaded loaded) (m_paths kref vref t)) /\
  (m_hdrs_agree (t_root t) -> map fst (m_paths kref vref t) = to_list_tree (t_root t)).
Proof.
  split.
  - pose proof (n_paths_iter kref vref loaded (t_root t) []) as E. cbn [forallb] in E. symmetry. exact E.
  - apply n_paths_fst.
Qed.

Lemma map_loaded_all_any kref vref loaded t :
  (forall id, loaded id = true) -> m_hdrs_agree (t_root t) ->
  m_iter_loaded kref vref loaded t = to_list_tree (t_root t).
Proof. intros HL HA. apply n_iter_all; assumption. Qed.
