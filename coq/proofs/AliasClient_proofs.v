(* AliasClient_proofs.v — disciplined client operations and container handles over the
   pointer-level storage model commute with the abstraction to the value model; transfer of the
   schedule-transparency theorem (C08) to the pointer level. *)
From stdpp Require Import gmap sorting.
From Coq Require Import ZArith NArith Lia.
From AtreeModel Require Import Storage StorageSpec AliasStorage.
From AtreeProofs Require Import Storage_proofs Commit_proofs StorageProps_proofs Cache_proofs AliasStorage_proofs.
Local Open Scope N_scope.

(** * Disciplined client operations *)

Lemma run1 s o : run s [o] = let '(s1, x) := step s o in (s1, [x]).
Proof. cbn [run]. destruct (step s o). reflexivity. Qed.

Lemma live_allocated a i x : wf a -> live a i = Some (Some x) -> is_Some (aheap a !! x).
Proof.
  intros (H1 & H2 & _). unfold live. destruct (adeltas a !! i) as [r|] eqn:Hd.
  - intros [= ->]. eauto.
  - intros Hc. eauto.
Qed.

(* identifiers a disciplined operation writes *)
Definition cop_writes (o : cop) : list sid :=
  match o with
  | CRead _ => []
  | CUpdate i _ | CCreate i _ | CRemove i => [i]
  | CRekey i j _ _ | CPromote i j _ => [i; j]
  end.

(** * Handles *)

(* a valid handle: the object it keeps is allocated, shows what is visible under the root
   identifier, and is not the live object of any other identifier *)
Definition hinv (a : ast) (h : handle) : Prop :=
  is_undefined (fst h) = false /\
  exists v, aheap a !! snd h = Some v /\ aview a (fst h) = Some v /\
  (forall j, live a j = Some (Some (snd h)) -> j = fst h).

Lemma hinv_frame a a' h :
  INV a -> frame a a' -> (forall i, aview a' i = aview a i) -> hinv a h -> hinv a' h.
Proof.
  intros [(Hw & _) _] [[He Hn] Hl] Hv (Hu & v & H1 & H2 & H3). split; [exact Hu|]. exists v.
  assert (Hlt : snd h < anext a) by (destruct Hw as (_ & _ & W); apply W; eauto).
  split; [rewrite He by exact Hlt; exact H1|]. split; [rewrite Hv; exact H2|].
  intros j Hj. destruct (Hl _ _ Hj) as [H|H]; [apply H3, H|lia].
Qed.

Lemma aview_of_abs a a' : ainv a -> ainv a' -> (forall i, view (aabs a') i = view (aabs a) i) ->
  forall i, aview a' i = aview a i.
Proof. intros H H' E i. rewrite <- !aview_abs by assumption. apply E. Qed.

Lemma a_retrieve_frame a i : frame a (fst (a_retrieve a i)).
Proof.
  unfold a_retrieve. destruct (adeltas a !! i); [apply frame_refl|]. rewrite a_rid_unfold.
  destruct (acache a !! i); [apply frame_refl|]. destruct (abase a !! i); [apply load_frame|apply frame_refl].
Qed.

Lemma retrieve_view s i : coherent s -> snd (retrieve s i) = view s i /\
  forall j, view (fst (retrieve s i)) j = view s j.
Proof.
  intros Hs. pose proof (retrieve_returns_view s i Hs) as [H1 H2]. cbn [step] in H1, H2.
  destruct (retrieve s i) as [s' r]. cbn [fst snd] in *. split; [congruence|exact H2].
Qed.

Lemma a_retrieve_hinv a i h : INV a -> hinv a h -> hinv (fst (a_retrieve a i)) h.
Proof.
  intros HI Hh. pose proof (a_retrieve_refines a i HI) as H.
  pose proof (a_retrieve_frame a i) as Hf.
  destruct (a_retrieve a i) as [a1 r]. destruct (retrieve (aabs a) i) as [s1 y] eqn:Hret.
  destruct H as (H1 & H2 & _). cbn [fst] in *.
  apply (hinv_frame a a1 h HI Hf); [|exact Hh].
  apply aview_of_abs; [apply HI|apply H1|]. intros j. rewrite H2.
  pose proof (retrieve_view (aabs a) i (aabs_coherent a (proj1 HI))) as [_ Hv]. rewrite Hret in Hv. apply Hv.
Qed.

Lemma alloc_hinv a v h : INV a -> hinv a h -> hinv (fst (alloc a v)) h.
Proof.
  intros HI Hh. apply (hinv_frame a _ h HI (alloc_frame a v)); [|exact Hh].
  apply aview_of_abs; [apply HI|apply alloc_ainv, HI|]. intros j. rewrite alloc_abs by apply HI. reflexivity.
Qed.

Lemma upd_delta_hinv a i r h :
  hinv a h -> fst h <> i -> r <> Some (snd h) -> hinv (upd_delta a i r) h.
Proof.
  intros (Hu & v & H1 & H2 & H3) Hi Hr. split; [exact Hu|]. exists v. split; [exact H1|]. split.
  - unfold aview. rewrite upd_delta_live, decide_False by exact Hi. exact H2.
  - intros j. rewrite upd_delta_live. destruct (decide (j = i)) as [->|Hji]; [congruence|apply H3].
Qed.

Lemma mut_store_hinv a x v i h :
  is_Some (aheap a !! x) -> (forall j, live a j = Some (Some x) -> j = i) ->
  hinv a h -> fst h <> i -> snd h <> x -> hinv (mut_store a x v i) h.
Proof.
  intros Hx Hl (Hu & w & H1 & H2 & H3) Hi Hne. split; [exact Hu|]. exists w.
  split; [|split].
  - rewrite mut_store_fields by exact Hx. cbn. rewrite lookup_insert_ne by congruence. exact H1.
  - unfold aview in *. rewrite mut_store_live, decide_False by assumption.
    destruct (live a (fst h)) as [r|] eqn:Hlv.
    + rewrite <- H2. rewrite mut_store_fields by exact Hx. destruct r as [y|]; cbn; [|reflexivity].
      rewrite lookup_insert_ne; [reflexivity|]. intros <-. apply Hi. apply Hl, Hlv.
    + rewrite mut_store_fields by exact Hx. exact H2.
  - intros j. rewrite mut_store_live by exact Hx. destruct (decide (j = i)) as [->|Hji]; [congruence|apply H3].
Qed.

Lemma hinv_lt a h : INV a -> hinv a h -> snd h < anext a.
Proof. intros [((_ & _ & W) & _) _] (_ & v & H1 & _). apply W. eauto. Qed.

Lemma astep_retrieve_fst a i : fst (astep a (ARetrieve i)) = fst (a_retrieve a i).
Proof. cbn. destruct (a_retrieve a i). reflexivity. Qed.

Theorem cop_refines a o :
  INV a ->
  let '(a', xs) := cop_run a o in
  let '(s', ys) := run (aabs a) (cop_sops (aabs a) o) in
  INV a' /\ aabs a' = s' /\ map out_val xs = ys /\
  (forall h, hinv a h -> (forall k, k ∈ cop_writes o -> fst h <> k) -> hinv a' h).
Proof.
  intros HI. pose proof HI as [Hi Ho].
  destruct o as [i|i v|i v|i|i j v w|i j v]; cbn [cop_run cop_sops cop_writes].
  - (* read *)
    rewrite run1. pose proof (astep_refines a (ARetrieve i) _ HI eq_refl I) as H.
    pose proof (astep_retrieve_fst a i) as Hf.
    destruct (astep a (ARetrieve i)) as [a' x]. destruct (step (aabs a) (SRetrieve i)) as [s' y].
    destruct H as (H1 & H2 & H3). cbn in H3. cbn [map]. rewrite H3.
    split; [exact H1|]. split; [exact H2|]. split; [reflexivity|].
    intros h Hh _. cbn [fst] in Hf. rewrite Hf. apply a_retrieve_hinv; assumption.
  - (* update *)
    destruct (is_undefined i) eqn:Hu; [cbn; auto|].
    pose proof (a_retrieve_refines a i HI) as H.
    pose proof (fun h => a_retrieve_hinv a i h HI) as Hhs.
    destruct (a_retrieve a i) as [a1 r]. cbn [fst] in Hhs.
    destruct (retrieve (aabs a) i) as [s1 y] eqn:Hret. destruct H as (H1 & H2 & H3 & _ & _ & _ & H7). cbn [snd].
    destruct r as [x|].
    + assert (Hlx : live a1 i = Some (Some x)) by (apply H7; reflexivity).
      assert (Hx : is_Some (aheap a1 !! x)) by (eapply live_allocated; [apply H1|exact Hlx]).
      assert (Hown : forall j, live a1 j = Some (Some x) -> j = i).
      { intros j Hj. destruct H1 as [_ Ho1]. apply (Ho1 j i x Hj Hlx). }
      subst y. pose proof Hx as [w Hxw]. cbn [deref]. rewrite Hxw. cbn [run step]. rewrite Hu, Hret.
      cbn [astep]. rewrite Hu.
      change (set_deltas (a_mutate a1 x v) (<[i:=Some x]> (adeltas (a_mutate a1 x v)))) with (mut_store a1 x v i).
      destruct (mut_store_refines a1 x v i H1 Hx Hown) as [M1 M2].
      split; [exact M1|]. split; [rewrite M2, <- H2; reflexivity|].
      split; [cbn; rewrite Hxw; reflexivity|].
      intros h Hh Hk. assert (Hne : fst h <> i) by (apply Hk; left).
      apply mut_store_hinv; [exact Hx|exact Hown|apply Hhs, Hh|exact Hne|].
      intros E. apply Hne. destruct (Hhs h Hh) as (_ & ? & _ & _ & Hl3). symmetry. apply Hl3. rewrite E. exact Hlx.
    + subst y. cbn [deref run step]. rewrite Hret. subst s1. split; [exact H1|]. split; [reflexivity|].
      split; [reflexivity|]. intros h Hh _. apply Hhs, Hh.
  - (* create *)
    destruct (is_undefined i) eqn:Hu; [cbn; rewrite Hu; auto|].
    cbn [run step astep alloc]. rewrite Hu.
    set (a1 := fst (alloc a v)).
    assert (H1 : INV a1) by apply alloc_INV, HI.
    assert (Hx : aheap a1 !! anext a = Some v) by (cbn; apply lookup_insert).
    change (set_deltas _ _) with (upd_delta a1 i (Some (anext a))).
    split; [|split; [|split; [reflexivity|]]].
    + apply upd_delta_INV; [exact H1| |].
      * intros x [= <-]. eauto.
      * intros x k [= <-] Hk. change (live a k = Some (Some (anext a))) in Hk.
        apply live_lt in Hk; [lia|apply HI].
    + rewrite upd_delta_abs by apply H1. cbn [deref]. rewrite Hx.
      assert (E : aabs a1 = aabs a) by apply alloc_abs, Hi. rewrite <- E. reflexivity.
    + intros h Hh Hk. apply upd_delta_hinv; [apply alloc_hinv; assumption|apply Hk; left|].
      intros [= E]. pose proof (hinv_lt a h HI Hh). lia.
  - (* remove *)
    rewrite run1. cbn [astep step]. destruct (is_undefined i) eqn:Hu.
    + split; [exact HI|]. split; [reflexivity|]. split; [reflexivity|]. auto.
    + change (set_deltas a (<[i:=None]> (adeltas a))) with (upd_delta a i None).
      split; [apply upd_delta_INV; [exact HI|discriminate|discriminate]|].
      split; [rewrite upd_delta_abs by exact Hi; reflexivity|]. split; [reflexivity|].
      intros h Hh Hk. apply upd_delta_hinv; [exact Hh|apply Hk; left|discriminate].
  - (* re-key (root split) *)
    destruct (is_undefined i || is_undefined j || bool_decide (i = j)) eqn:Hg; [cbn; auto|].
    apply orb_false_elim in Hg. destruct Hg as [Hg Hij]. apply orb_false_elim in Hg. destruct Hg as [Hui Huj].
    apply bool_decide_eq_false in Hij.
    pose proof (a_retrieve_refines a i HI) as H.
    pose proof (fun h => a_retrieve_hinv a i h HI) as Hhs.
    destruct (a_retrieve a i) as [a1 r]. cbn [fst] in Hhs. destruct (retrieve (aabs a) i) as [s1 y] eqn:Hret.
    destruct H as (H1 & H2 & H3 & _ & _ & _ & H7). cbn [snd].
    destruct r as [x|].
    2:{ subst y. cbn [deref run step]. rewrite Hret. subst s1. split; [exact H1|]. split; [reflexivity|].
        split; [reflexivity|]. intros h Hh _. apply Hhs, Hh. }
    assert (Hlx : live a1 i = Some (Some x)) by (apply H7; reflexivity).
    assert (Hx : is_Some (aheap a1 !! x)) by (eapply live_allocated; [apply H1|exact Hlx]).
    subst y. destruct Hx as [w0 Hx]. cbn [deref]. rewrite Hx.
    cbn [run step]. rewrite Hret, Hui, Huj. cbn [astep]. rewrite Hui, Huj. cbn [alloc].
    (* the same final state, obtained in the other order: new root first, then the re-keyed object *)
    set (b1 := fst (alloc a1 w)).
    set (b2 := upd_delta b1 i (Some (anext a1))).
    assert (Hxlt : x < anext a1) by (eapply live_lt; [apply H1|exact Hlx]).
    assert (Hfin : forall z1 z2 z3 z4 z5, z1 = <[anext a1 := w]> (<[x := v]> (aheap a1)) ->
              z2 = anext a1 + 1 -> z3 = <[i := Some (anext a1)]> (<[j := Some x]> (adeltas a1)) ->
              z4 = acache a1 -> z5 = abase a1 -> mkast z1 z2 z3 z4 z5 = mut_store b2 x v j).
    { intros; subst. rewrite mut_store_fields.
      - cbn. f_equal.
        + apply insert_commute. lia.
        + apply insert_commute. congruence.
      - cbn. rewrite lookup_insert_ne by lia. eauto. }
    assert (Hb1 : INV b1) by apply alloc_INV, H1.
    assert (Hb2 : INV b2).
    { apply upd_delta_INV; [exact Hb1| |].
      - intros z [= <-]. cbn. rewrite lookup_insert. eauto.
      - intros z k [= <-] Hk. change (live a1 k = Some (Some (anext a1))) in Hk.
        apply live_lt in Hk; [lia|apply H1]. }
    assert (Hb2x : forall k, live b2 k = Some (Some x) -> k = j).
    { intros k. unfold b2. rewrite upd_delta_live. destruct (decide (k = i)) as [->|Hki].
      - intros [= E]. lia.
      - intros Hk. exfalso. apply Hki. destruct H1 as [_ Ho1]. apply (Ho1 k i x Hk Hlx). }
    assert (Hb2a : is_Some (aheap b2 !! x)) by (cbn; rewrite lookup_insert_ne by lia; eauto).
    destruct (mut_store_refines b2 x v j Hb2 Hb2a Hb2x) as [M1 M2].
    match goal with |- INV ?st /\ _ => replace st with (mut_store b2 x v j) end.
    2:{ symmetry. unfold a_mutate. rewrite Hx. cbn. apply Hfin; reflexivity. }
    split; [exact M1|]. split; [|split; [cbn; rewrite Hx; reflexivity|]].
    + assert (E2 : aabs b2 = mkst (<[i := Some w]> (abs_deltas a1)) (abs_cache a1) (abase a1)).
      { unfold b2. rewrite upd_delta_abs by apply Hb1. cbn [deref].
        replace (aheap b1 !! anext a1) with (Some w) by (symmetry; apply lookup_insert).
        assert (E : aabs b1 = aabs a1) by apply alloc_abs, H1.
        change (abs_deltas b1) with (deltas (aabs b1)). change (abs_cache b1) with (cache (aabs b1)).
        change (abase b1) with (base (aabs b1)). rewrite E. reflexivity. }
      rewrite M2. change (abs_deltas b2) with (deltas (aabs b2)). change (abs_cache b2) with (cache (aabs b2)).
      change (abase b2) with (base (aabs b2)). rewrite E2. cbn [deltas cache base].
      rewrite <- H2. apply st_eq; cbn [aabs deltas cache base]; [|reflexivity|reflexivity].
      apply insert_commute. congruence.
    + intros h Hh Hk. assert (Hni : fst h <> i) by (apply Hk; left).
      assert (Hnj : fst h <> j) by (apply Hk; right; left).
      pose proof (Hhs h Hh) as Hh1.
      apply mut_store_hinv; [exact Hb2a|exact Hb2x| |exact Hnj|].
      * apply upd_delta_hinv; [apply alloc_hinv; assumption|exact Hni|].
        intros [= E]. pose proof (hinv_lt a1 h H1 Hh1). lia.
      * intros E. apply Hni. destruct Hh1 as (_ & ? & _ & _ & Hl3). symmetry. apply Hl3. rewrite E. exact Hlx.
  - (* promote *)
    destruct (is_undefined i || is_undefined j || bool_decide (i = j)) eqn:Hg; [cbn; auto|].
    apply orb_false_elim in Hg. destruct Hg as [Hg Hij]. apply orb_false_elim in Hg. destruct Hg as [Hui Huj].
    apply bool_decide_eq_false in Hij.
    pose proof (a_retrieve_refines a j HI) as H.
    pose proof (fun h => a_retrieve_hinv a j h HI) as Hhs.
    destruct (a_retrieve a j) as [a1 r]. cbn [fst] in Hhs. destruct (retrieve (aabs a) j) as [s1 y] eqn:Hret.
    destruct H as (H1 & H2 & H3 & _ & _ & _ & H7). cbn [snd].
    destruct r as [x|].
    2:{ subst y. cbn [deref run step]. rewrite Hret. subst s1. split; [exact H1|]. split; [reflexivity|].
        split; [reflexivity|]. intros h Hh _. apply Hhs, Hh. }
    assert (Hlx : live a1 j = Some (Some x)) by (apply H7; reflexivity).
    assert (Hx : is_Some (aheap a1 !! x)) by (eapply live_allocated; [apply H1|exact Hlx]).
    subst y. destruct Hx as [w0 Hx]. cbn [deref]. rewrite Hx.
    cbn [run step]. rewrite Hret, Hui, Huj. cbn [astep]. rewrite Hui, Huj.
    set (b2 := upd_delta a1 j None).
    assert (Efin : forall z1 z2 z3 z4 z5, z1 = <[x := v]> (aheap a1) -> z2 = anext a1 ->
              z3 = <[j := None]> (<[i := Some x]> (adeltas a1)) -> z4 = acache a1 -> z5 = abase a1 ->
              mkast z1 z2 z3 z4 z5 = mut_store b2 x v i).
    { intros; subst. rewrite mut_store_fields by (cbn; eauto). cbn. f_equal. apply insert_commute. congruence. }
    assert (Hb2 : INV b2) by (apply upd_delta_INV; [exact H1|discriminate|discriminate]).
    assert (Hb2a : is_Some (aheap b2 !! x)) by (cbn; eauto).
    assert (Hb2x : forall k, live b2 k = Some (Some x) -> k = i).
    { intros k. unfold b2. rewrite upd_delta_live. destruct (decide (k = j)) as [->|Hkj]; [discriminate|].
      intros Hk. exfalso. apply Hkj. destruct H1 as [_ Ho1]. apply (Ho1 k j x Hk Hlx). }
    destruct (mut_store_refines b2 x v i Hb2 Hb2a Hb2x) as [M1 M2].
    match goal with |- INV ?st /\ _ => replace st with (mut_store b2 x v i) end.
    2:{ symmetry. unfold a_mutate. rewrite Hx. cbn. apply Efin; reflexivity. }
    split; [exact M1|]. split; [|split; [cbn; rewrite Hx; reflexivity|]].
    + assert (E2 : aabs b2 = mkst (<[j := None]> (abs_deltas a1)) (abs_cache a1) (abase a1)).
      { unfold b2. rewrite upd_delta_abs by apply H1. reflexivity. }
      rewrite M2. change (abs_deltas b2) with (deltas (aabs b2)). change (abs_cache b2) with (cache (aabs b2)).
      change (abase b2) with (base (aabs b2)). rewrite E2. cbn [deltas cache base].
      rewrite <- H2. apply st_eq; cbn [aabs deltas cache base]; [|reflexivity|reflexivity].
      apply insert_commute. congruence.
    + intros h Hh Hk. assert (Hni : fst h <> i) by (apply Hk; left).
      assert (Hnj : fst h <> j) by (apply Hk; right; left).
      pose proof (Hhs h Hh) as Hh1.
      apply mut_store_hinv; [exact Hb2a|exact Hb2x| |exact Hni|].
      * apply upd_delta_hinv; [exact Hh1|exact Hnj|discriminate].
      * intros E. apply Hnj. destruct Hh1 as (_ & ? & _ & _ & Hl3). symmetry. apply Hl3. rewrite E. exact Hlx.
Qed.

(** * Mutation through a handle *)

Lemma handle_update_eq a h v :
  is_undefined (fst h) = false -> handle_update a h v = mut_store a (snd h) v (fst h).
Proof. intros Hu. unfold handle_update. cbn [astep]. rewrite Hu. reflexivity. Qed.

Theorem handle_update_refines a h v :
  INV a -> hinv a h ->
  let a' := handle_update a h v in
  INV a' /\ aabs a' = fst (step (aabs a) (SStore (fst h) v)) /\ hinv a' h /\
  (forall h', hinv a h' -> fst h' <> fst h -> snd h' <> snd h -> hinv a' h').
Proof.
  intros HI Hh. pose proof Hh as (Hu & w & H1 & H2 & H3). cbn zeta.
  rewrite handle_update_eq by exact Hu.
  assert (Hx : is_Some (aheap a !! snd h)) by eauto.
  destruct (mut_store_refines a (snd h) v (fst h) HI Hx H3) as [M1 M2].
  split; [exact M1|]. split; [rewrite M2; cbn [step]; rewrite Hu; reflexivity|]. split.
  - split; [exact Hu|]. exists v. split; [|split].
    + rewrite mut_store_fields by exact Hx. cbn. apply lookup_insert.
    + unfold aview. rewrite mut_store_live, decide_True by (exact Hx || reflexivity).
      rewrite mut_store_fields by exact Hx. cbn. apply lookup_insert.
    + intros j. rewrite mut_store_live by exact Hx. destruct (decide (j = fst h)); [auto|apply H3].
  - intros h' Hh' Hi Hne. apply mut_store_hinv; assumption.
Qed.

(** * Schedule operations keep the abstraction's view, the invariant and every handle *)

Theorem asched_refines a o :
  INV a -> is_asched a o = true ->
  exists so, vop a o = Some so /\ is_sched (aabs a) so = true /\
  INV (fst (astep a o)) /\ aabs (fst (astep a o)) = fst (step (aabs a) so) /\
  (forall i, aview (fst (astep a o)) i = aview a i) /\
  (forall h, hinv a h -> hinv (fst (astep a o)) h).
Proof.
  intros HI Hs. destruct (is_asched_vop a o (proj1 (proj1 HI)) Hs) as (so & Hv & Hsch & Hst).
  exists so. split; [exact Hv|]. split; [exact Hsch|].
  pose proof (astep_refines a o so HI Hv Hst) as H. pose proof (asched_frame a o HI Hs) as Hf.
  destruct (astep a o) as [a' x]. destruct (step (aabs a) so) as [s' y] eqn:Hstep. destruct H as (H1 & H2 & _).
  cbn [fst] in *. split; [exact H1|]. split; [exact H2|].
  assert (Hview : forall i, aview a' i = aview a i).
  { apply aview_of_abs; [apply HI|apply H1|]. intros i. rewrite H2.
    destruct (sched_preserves_view (aabs a) so (aabs_coherent a (proj1 HI)) Hsch) as [_ Hv']. rewrite Hstep in Hv'. apply Hv'. }
  split; [exact Hview|]. intros h Hh. apply (hinv_frame a a' h HI Hf Hview Hh).
Qed.

(** * Clients: disciplined operations, handles, and schedules *)

Definition cst : Type := ast * list handle.

Inductive cev : Type :=
| EOp (o : cop)                 (* an operation through the storage on identifiers without handle *)
| EOpen (i : sid)               (* obtain a handle: Retrieve the root, keep the object *)
| EHUpdate (k : nat) (v : val)  (* mutate the root object of handle k in place and Store it *)
| EHRead (k : nat)              (* read the root object of handle k (no storage call) *)
| EClose (k : nat).             (* forget handle k *)

Definition cev_run (c : cst) (e : cev) : cst * list sout :=
  let '(a, hs) := c in
  match e with
  | EOp o => let '(a', xs) := cop_run a o in ((a', hs), map out_val xs)
  | EOpen i =>
    let '(a', r) := a_retrieve a i in
    match r with
    | Some x => ((a', hs ++ [(i, x)]), [ORet (deref a' r)])
    | None => ((a', hs), [ORet None])
    end
  | EHUpdate k v =>
    match hs !! k with Some h => ((handle_update a h v, hs), [OOk]) | None => (c, []) end
  | EHRead k =>
    match hs !! k with Some h => (c, [ORet (handle_read a h)]) | None => (c, []) end
  | EClose k => ((a, delete k hs), [])
  end.

(* the discipline: one wrapper per container — identifiers that have a handle are written only
   through it, and no second handle is opened for them *)
Definition disciplined (ids : list sid) (e : cev) : Prop :=
  match e with
  | EOp o => forall k, k ∈ cop_writes o -> k ∉ ids
  | EOpen i => is_undefined i = false /\ i ∉ ids
  | _ => True
  end.

Definition CINV (c : cst) : Prop :=
  INV (fst c) /\ Forall (hinv (fst c)) (snd c) /\ NoDup (snd c).*1 /\ NoDup (snd c).*2.

Definition csame (c1 c2 : cst) : Prop :=
  CINV c1 /\ CINV c2 /\ (snd c1).*1 = (snd c2).*1 /\ forall i, aview (fst c1) i = aview (fst c2) i.

Lemma CINV_init : CINV (ast_init, []).
Proof. split; [apply INV_init|]. split; [constructor|]. split; constructor. Qed.

Lemma hinv_distinct a h h' : hinv a h -> hinv a h' -> fst h <> fst h' -> True.
Proof. auto. Qed.

Lemma NoDup_delete {A} (l : list A) : forall i, NoDup l -> NoDup (delete i l).
Proof.
  induction l as [|x l IH]; intros [|i] H; cbn; auto; inversion H as [|? ? Hx Hl]; subst; [exact Hl|].
  constructor; [|apply IH, Hl]. intros Hin. apply Hx. eapply list_delete_subseteq, Hin.
Qed.

(* one disciplined client event keeps the client invariant *)
Lemma cev_CINV c e : CINV c -> disciplined (snd c).*1 e -> CINV (fst (cev_run c e)).
Proof.
  destruct c as [a hs]. intros (HI & Hh & Hn1 & Hn2) Hd. cbn [fst snd] in *.
  destruct e as [o|i|k v|k|k]; cbn [cev_run disciplined] in *.
  - pose proof (cop_refines a o HI) as H. destruct (cop_run a o) as [a' xs].
    destruct (run (aabs a) (cop_sops (aabs a) o)) as [s' ys]. destruct H as (H1 & _ & _ & H4).
    unfold CINV; cbn [fst snd]. split; [exact H1|]. split; [|auto].
    rewrite Forall_forall in *. intros h Hin. apply H4; [apply Hh, Hin|].
    intros k Hk E. apply (Hd k Hk). rewrite <- E. apply elem_of_list_fmap. exists h. auto.
  - destruct Hd as [Hu Hni].
    pose proof (a_retrieve_refines a i HI) as H. pose proof (fun h => a_retrieve_hinv a i h HI) as Hhs.
    destruct (a_retrieve a i) as [a1 r]. destruct (retrieve (aabs a) i) as [s1 y]. cbn [fst] in Hhs.
    destruct H as (H1 & _ & _ & _ & _ & _ & H7).
    assert (Hh1 : Forall (hinv a1) hs) by (eapply Forall_impl; [exact Hh|exact Hhs]).
    destruct r as [x|]; unfold CINV; cbn [fst snd]; [|split; [exact H1|auto]].
    assert (Hlx : live a1 i = Some (Some x)) by (apply H7; reflexivity).
    split; [exact H1|]. split; [|split].
    + apply Forall_app. split; [exact Hh1|]. constructor; [|constructor].
      split; [exact Hu|]. destruct (live_allocated a1 i x (proj1 (proj1 H1)) Hlx) as [w Hw].
      exists w. split; [exact Hw|]. split.
      * unfold aview. cbn [fst snd]. rewrite Hlx. exact Hw.
      * intros j Hj. destruct H1 as [_ Ho1]. apply (Ho1 j i x Hj Hlx).
    + rewrite fmap_app. apply NoDup_app. split; [exact Hn1|]. split; [|cbn; apply NoDup_singleton].
      intros j Hj. cbn. intros Hji. apply elem_of_list_singleton in Hji. subst j. auto.
    + rewrite fmap_app. apply NoDup_app. split; [exact Hn2|]. split; [|cbn; apply NoDup_singleton].
      intros z Hz. cbn. intros Hzx. apply elem_of_list_singleton in Hzx. subst z.
      apply elem_of_list_fmap in Hz. destruct Hz as (h & E & Hin).
      rewrite Forall_forall in Hh1. destruct (Hh1 h Hin) as (_ & ? & _ & _ & Hl3).
      apply Hni. apply elem_of_list_fmap. exists h. split; [|exact Hin]. apply Hl3. rewrite <- E. exact Hlx.
  - destruct (hs !! k) as [h|] eqn:Hk; unfold CINV; cbn [fst snd]; [|split; [exact HI|split; [exact Hh|split; assumption]]].
    assert (Hin : hinv a h) by (rewrite Forall_forall in Hh; apply Hh; eapply elem_of_list_lookup_2; eauto).
    destruct (handle_update_refines a h v HI Hin) as (H1 & _ & H3 & H4).
    split; [exact H1|]. split; [|auto].
    apply Forall_forall. intros h' Hin'.
    apply elem_of_list_lookup in Hin'. destruct Hin' as [k' Hk'].
    destruct (decide (k' = k)) as [->|Hne]; [replace h' with h by congruence; exact H3|].
    apply H4.
    + rewrite Forall_forall in Hh. apply Hh. eapply elem_of_list_lookup_2; eauto.
    + intros E. apply Hne. unfold handle in *. apply (NoDup_lookup _ _ _ (fst h) Hn1); rewrite list_lookup_fmap; [rewrite Hk'|rewrite Hk]; cbn; congruence.
    + intros E. apply Hne. unfold handle in *. apply (NoDup_lookup _ _ _ (snd h) Hn2); rewrite list_lookup_fmap; [rewrite Hk'|rewrite Hk]; cbn; congruence.
  - destruct (hs !! k); unfold CINV; cbn [fst snd]; (split; [exact HI|split; [exact Hh|split; assumption]]).
  - unfold CINV; cbn [fst snd]. split; [exact HI|]. split; [apply Forall_delete, Hh|].
    rewrite !list_fmap_delete. split; apply NoDup_delete; assumption.
Qed.

(** * Two clients that see the same *)

Lemma csame_same_view c1 c2 : csame c1 c2 -> same_view (aabs (fst c1)) (aabs (fst c2)).
Proof.
  intros ((H1 & _) & (H2 & _) & _ & Hv).
  split; [apply aabs_coherent, H1|]. split; [apply aabs_coherent, H2|].
  intros i. rewrite !aview_abs by (apply H1 || apply H2). apply Hv.
Qed.

Lemma client_run_same ops : Forall (fun o => is_client o = true) ops -> forall s1 s2,
  same_view s1 s2 ->
  snd (run s1 ops) = snd (run s2 ops) /\ same_view (fst (run s1 ops)) (fst (run s2 ops)).
Proof.
  induction 1 as [|o ops Ho _ IH]; intros s1 s2 Hsv; cbn [run]; [auto|].
  destruct (client_step_same_view s1 s2 o Hsv Ho) as [Hout Hsv'].
  destruct (step s1 o) as [s1' x1]. destruct (step s2 o) as [s2' x2]. cbn [fst snd] in *.
  destruct (IH _ _ Hsv') as [I1 I2].
  destruct (run s1' ops) as [sa xa]. destruct (run s2' ops) as [sb xb]. cbn [fst snd] in *.
  split; [congruence|exact I2].
Qed.

Lemma cop_sops_client s o : Forall (fun o => is_client o = true) (cop_sops s o).
Proof.
  destruct o as [i|i v|i v|i|i j v w|i j v]; cbn [cop_sops];
    repeat match goal with |- context [if ?b then _ else _] => destruct b end;
    repeat match goal with |- context [match ?b with Some _ => _ | None => _ end] => destruct b end;
    repeat constructor.
Qed.

Lemma cop_sops_same s1 s2 o : same_view s1 s2 -> cop_sops s1 o = cop_sops s2 o.
Proof.
  intros (H1 & H2 & Hv).
  assert (E : forall i, snd (retrieve s1 i) = snd (retrieve s2 i)).
  { intros i. destruct (retrieve_view s1 i H1) as [-> _]. destruct (retrieve_view s2 i H2) as [-> _]. apply Hv. }
  destruct o as [i|i v|i v|i|i j v w|i j v]; cbn [cop_sops]; rewrite ?E; reflexivity.
Qed.

Lemma same_view_of a1 a2 : INV a1 -> INV a2 -> same_view (aabs a1) (aabs a2) -> forall i, aview a1 i = aview a2 i.
Proof. intros H1 H2 (_ & _ & Hv) i. rewrite <- !aview_abs by (apply H1 || apply H2). apply Hv. Qed.

Lemma lookup_same_ids (hs1 hs2 : list handle) k :
  hs1.*1 = hs2.*1 ->
  match hs1 !! k, hs2 !! k with
  | Some h1, Some h2 => fst h1 = fst h2
  | None, None => True
  | _, _ => False
  end.
Proof.
  intros E. assert (E' : hs1.*1 !! k = hs2.*1 !! k) by (rewrite E; reflexivity).
  rewrite !list_lookup_fmap in E'. unfold handle in *.
  destruct (hs1 !! k) as [[? ?]|], (hs2 !! k) as [[? ?]|]; cbn in *; first [exact I | congruence].
Qed.

Theorem cev_same c1 c2 e :
  csame c1 c2 -> disciplined (snd c2).*1 e ->
  snd (cev_run c1 e) = snd (cev_run c2 e) /\ csame (fst (cev_run c1 e)) (fst (cev_run c2 e)).
Proof.
  intros Hs Hd. pose proof (csame_same_view c1 c2 Hs) as Hsv.
  pose proof Hs as (C1 & C2 & Hids & Hv).
  assert (Hd1 : disciplined (snd c1).*1 e) by (rewrite Hids; exact Hd).
  pose proof (cev_CINV c1 e C1 Hd1) as C1'. pose proof (cev_CINV c2 e C2 Hd) as C2'.
  destruct c1 as [a1 hs1], c2 as [a2 hs2]. cbn [fst snd] in *.
  pose proof C1 as (I1 & F1 & _). pose proof C2 as (I2 & F2 & _). cbn [fst snd] in *.
  destruct e as [o|i|k v|k|k]; cbn [cev_run] in *.
  - (* operation *)
    pose proof (cop_refines a1 o I1) as R1. pose proof (cop_refines a2 o I2) as R2.
    rewrite <- (cop_sops_same _ _ o Hsv) in R2.
    destruct (client_run_same (cop_sops (aabs a1) o) (cop_sops_client _ _) _ _ Hsv) as [O1 O2].
    destruct (cop_run a1 o) as [a1' xs1]. destruct (cop_run a2 o) as [a2' xs2].
    destruct (run (aabs a1) (cop_sops (aabs a1) o)) as [s1' ys1].
    destruct (run (aabs a2) (cop_sops (aabs a1) o)) as [s2' ys2].
    destruct R1 as (R11 & R12 & R13 & _). destruct R2 as (R21 & R22 & R23 & _). cbn [fst snd] in *.
    split; [congruence|]. split; [exact C1'|]. split; [exact C2'|]. split; [exact Hids|].
    cbn [fst]. apply same_view_of; [exact R11|exact R21|]. rewrite R12, R22. exact O2.
  - (* open *)
    pose proof (a_retrieve_refines a1 i I1) as R1. pose proof (a_retrieve_refines a2 i I2) as R2.
    destruct (retrieve_view _ i (proj1 Hsv)) as [V1 V1']. destruct (retrieve_view _ i (proj1 (proj2 Hsv))) as [V2 V2'].
    destruct (a_retrieve a1 i) as [a1' r1]. destruct (a_retrieve a2 i) as [a2' r2].
    destruct (retrieve (aabs a1) i) as [s1' y1]. destruct (retrieve (aabs a2) i) as [s2' y2].
    destruct R1 as (R11 & R12 & R13 & _ & _ & _ & R17). destruct R2 as (R21 & R22 & R23 & _ & _ & _ & R27).
    cbn [fst snd] in *.
    assert (Ey : y1 = y2) by (rewrite V1, V2; apply Hsv).
    assert (Hvw : forall j, aview a1' j = aview a2' j).
    { apply same_view_of; [exact R11|exact R21|]. rewrite R12, R22.
      destruct Hsv as (Q1 & Q2 & Q3).
      split; [rewrite <- R12; apply aabs_coherent, R11|]. split; [rewrite <- R22; apply aabs_coherent, R21|].
      intros j. rewrite V1', V2'. apply Q3. }
    destruct r1 as [x1|], r2 as [x2|].
    + split; [cbn [snd]; rewrite R13, R23, Ey; reflexivity|]. split; [exact C1'|]. split; [exact C2'|]. cbn [fst snd].
      split; [rewrite !fmap_app, Hids; reflexivity|exact Hvw].
    + exfalso. destruct (live_allocated a1' i x1 (proj1 (proj1 R11)) (R17 _ eq_refl)) as [w Hw].
      cbn in R13, R23. congruence.
    + exfalso. destruct (live_allocated a2' i x2 (proj1 (proj1 R21)) (R27 _ eq_refl)) as [w Hw].
      cbn in R13, R23. congruence.
    + split; [reflexivity|]. split; [exact C1'|]. split; [exact C2'|]. cbn [fst snd]. split; [exact Hids|exact Hvw].
  - (* update through a handle *)
    pose proof (lookup_same_ids hs1 hs2 k Hids) as Hk.
    destruct (hs1 !! k) as [h1|] eqn:K1, (hs2 !! k) as [h2|] eqn:K2; try contradiction.
    2:{ split; [reflexivity|]. split; [exact C1'|]. split; [exact C2'|]. split; [exact Hids|exact Hv]. }
    assert (Hh1 : hinv a1 h1) by (rewrite Forall_forall in F1; apply F1; eapply elem_of_list_lookup_2; eauto).
    assert (Hh2 : hinv a2 h2) by (rewrite Forall_forall in F2; apply F2; eapply elem_of_list_lookup_2; eauto).
    destruct (handle_update_refines a1 h1 v I1 Hh1) as (U11 & U12 & _).
    destruct (handle_update_refines a2 h2 v I2 Hh2) as (U21 & U22 & _).
    split; [reflexivity|]. split; [exact C1'|]. split; [exact C2'|]. cbn [fst snd]. split; [exact Hids|].
    apply same_view_of; [exact U11|exact U21|]. rewrite U12, U22, Hk.
    destruct Hsv as (Q1 & Q2 & Q3).
    assert (Hu : is_undefined (fst h2) = false) by apply Hh2.
    split; [rewrite <- Hk, <- U12; apply aabs_coherent, U11|]. split; [rewrite <- U22; apply aabs_coherent, U21|].
    intros j. rewrite !store_view by assumption. destruct (decide (j = fst h2)); [reflexivity|apply Q3].
  - (* read through a handle *)
    pose proof (lookup_same_ids hs1 hs2 k Hids) as Hk.
    destruct (hs1 !! k) as [h1|] eqn:K1, (hs2 !! k) as [h2|] eqn:K2; try contradiction.
    2:{ split; [reflexivity|]. split; [exact C1'|]. split; [exact C2'|]. split; [exact Hids|exact Hv]. }
    assert (Hh1 : hinv a1 h1) by (rewrite Forall_forall in F1; apply F1; eapply elem_of_list_lookup_2; eauto).
    assert (Hh2 : hinv a2 h2) by (rewrite Forall_forall in F2; apply F2; eapply elem_of_list_lookup_2; eauto).
    split; [|split; [exact C1'|split; [exact C2'|split; [exact Hids|exact Hv]]]].
    cbn [snd]. unfold handle_read. destruct Hh1 as (_ & w1 & -> & A1 & _). destruct Hh2 as (_ & w2 & -> & A2 & _).
    rewrite Hk, Hv, A2 in A1. congruence.
  - (* close *)
    split; [reflexivity|]. split; [exact C1'|]. split; [exact C2'|]. cbn [fst snd].
    split; [rewrite !list_fmap_delete, Hids; reflexivity|exact Hv].
Qed.

(** * Scheduled client histories *)

Inductive ev : Type := Cl (e : cev) | Sc (o : aop).

Definition ev_run (c : cst) (e : ev) : cst * list sout :=
  match e with
  | Cl e => cev_run c e
  | Sc o => ((fst (astep (fst c) o), snd c), [])     (* answers of schedule operations are not client-visible *)
  end.

Fixpoint evs_run (c : cst) (es : list ev) : cst * list sout :=
  match es with
  | [] => (c, [])
  | e :: r => let '(c1, x) := ev_run c e in let '(c2, xs) := evs_run c1 r in (c2, x ++ xs)
  end.

Inductive ascheduled : cst -> list cev -> list ev -> Prop :=
| asch_nil c : ascheduled c [] []
| asch_client c e es ses :
    disciplined (snd c).*1 e -> ascheduled (fst (cev_run c e)) es ses -> ascheduled c (e :: es) (Cl e :: ses)
| asch_sched c o es ses :
    is_asched (fst c) o = true -> ascheduled (fst (ev_run c (Sc o))) es ses -> ascheduled c es (Sc o :: ses).

Lemma sched_csame c1 c2 o :
  csame c1 c2 -> is_asched (fst c2) o = true -> csame c1 (fst (ev_run c2 (Sc o))).
Proof.
  intros (C1 & (I2 & F2 & N1 & N2) & Hids & Hv) Hs. cbn [ev_run fst].
  destruct (asched_refines (fst c2) o I2 Hs) as (so & _ & _ & J1 & _ & J3 & J4).
  split; [exact C1|]. split; [|split; [exact Hids|]].
  - split; [exact J1|]. split; [|split; assumption]. cbn [fst snd]. eapply Forall_impl; [exact F2|exact J4].
  - intros i. cbn [fst]. rewrite J3. apply Hv.
Qed.

Theorem alias_schedule_transparent c2 es ses : ascheduled c2 es ses -> forall c1,
  csame c1 c2 ->
  snd (evs_run c1 (map Cl es)) = snd (evs_run c2 ses) /\
  csame (fst (evs_run c1 (map Cl es))) (fst (evs_run c2 ses)).
Proof.
  induction 1 as [c|c e es ses Hd Hsch IH|c o es ses Ho Hsch IH]; intros c1 Hs.
  - cbn. auto.
  - destruct (cev_same c1 c e Hs Hd) as [Hout Hs']. specialize (IH _ Hs').
    cbn [map evs_run ev_run]. destruct (cev_run c1 e) as [c1' x1]. destruct (cev_run c e) as [c' x2].
    cbn [fst snd] in *. destruct (evs_run c1' (map Cl es)) as [ca xa]. destruct (evs_run c' ses) as [cb xb].
    cbn [fst snd] in *. destruct IH as [IH1 IH2]. split; [congruence|exact IH2].
  - pose proof (sched_csame c1 c o Hs Ho) as Hs'. specialize (IH _ Hs').
    cbn [evs_run]. destruct (ev_run c (Sc o)) as [c' x] eqn:E.
    assert (Ex : x = []) by (cbn in E; congruence). subst x. cbn [fst] in *.
    destruct (evs_run c' ses) as [cb xb]. cbn [fst snd app] in *. exact IH.
Qed.

(* ... and a final commit leaves the same owned registers *)
Theorem alias_same_registers c1 c2 : csame c1 c2 -> forall i, is_temp i = false ->
  abase (fst (astep (fst c1) (AFastCommit None))) !! i = abase (fst (astep (fst c2) (AFastCommit None))) !! i.
Proof.
  intros Hs i Hi. pose proof (csame_same_view c1 c2 Hs) as Hsv. destruct Hs as ((I1 & _) & (I2 & _) & _).
  pose proof (astep_refines (fst c1) (AFastCommit None) _ I1 eq_refl I) as R1.
  pose proof (astep_refines (fst c2) (AFastCommit None) _ I2 eq_refl I) as R2.
  pose proof (schedule_same_registers _ _ Hsv i Hi) as H.
  destruct (astep (fst c1) (AFastCommit None)) as [a1' x1]. destruct (astep (fst c2) (AFastCommit None)) as [a2' x2].
  destruct (step (aabs (fst c1)) (SFastCommit None)) as [s1' y1]. destruct (step (aabs (fst c2)) (SFastCommit None)) as [s2' y2].
  destruct R1 as (_ & R1 & _). destruct R2 as (_ & R2 & _). cbn [fst] in *. subst s1' s2'. exact H.
Qed.

(** * Reachability: every disciplined scheduled history keeps the client invariant *)

Theorem ascheduled_CINV c es ses : ascheduled c es ses -> CINV c -> CINV (fst (evs_run c ses)).
Proof.
  induction 1 as [c|c e es ses Hd Hsch IH|c o es ses Ho Hsch IH]; intros HC.
  - exact HC.
  - cbn [evs_run ev_run]. pose proof (cev_CINV c e HC Hd) as HC'. specialize (IH HC').
    destruct (cev_run c e) as [c' x]. cbn [fst] in *. destruct (evs_run c' ses) as [cb xb]. exact IH.
  - cbn [evs_run]. destruct HC as (I2 & F2 & N1 & N2).
    destruct (asched_refines (fst c) o I2 Ho) as (so & _ & _ & J1 & _ & _ & J4).
    assert (HC' : CINV (fst (ev_run c (Sc o)))).
    { cbn [ev_run fst]. split; [exact J1|]. split; [|split; assumption]. cbn [fst snd].
      eapply Forall_impl; [exact F2|exact J4]. }
    specialize (IH HC'). destruct (ev_run c (Sc o)) as [c' x]. cbn [fst] in *.
    destruct (evs_run c' ses) as [cb xb]. exact IH.
Qed.

(** * DropDeltas: objects are not rolled back *)

(* every cache entry, shadowed or not, denotes the register's content *)
Definition lit_clean (a : ast) : Prop :=
  forall i r, acache a !! i = Some r -> deref a r = abase a !! i.

Lemma lit_clean_no_deltas a : clean a -> adeltas a = ∅ -> lit_clean a.
Proof. intros Hc He i r Hi. apply (Hc i r Hi). rewrite He. apply lookup_empty. Qed.

Theorem dropdeltas_refines a :
  ainv a -> lit_clean a ->
  ainv (fst (astep a ADropDeltas)) /\ aabs (fst (astep a ADropDeltas)) = fst (step (aabs a) SDropDeltas).
Proof.
  intros (Hw & Hc & Ht) Hl. cbn [astep step fst]. split.
  - split; [|split; [|exact Ht]].
    + destruct Hw as (H1 & H2 & H3). split; [|split; assumption]. intros i x; cbn. rewrite lookup_empty. discriminate.
    + intros i r; cbn. intros Hi _. apply (Hl i r Hi).
  - apply st_eq; cbn [aabs deltas cache base]; [| |reflexivity].
    + unfold abs_deltas; cbn. apply fmap_empty.
    + apply map_eq. intros i. rewrite !abs_cache_lookup. cbn [set_deltas acache adeltas abase].
      rewrite lookup_empty. destruct (acache a !! i) as [r|] eqn:Hi; [|reflexivity]. f_equal.
      destruct (adeltas a !! i); [|reflexivity]. apply (Hl i r Hi).
Qed.

(** * What is true of a cache entry shadowed by a pending change *)

(* Retrieve and RetrieveIfLoaded never look at it *)
Theorem shadowed_cache_not_consulted a i r c' :
  adeltas a !! i = Some r ->
  a_retrieve (set_cache a c') i = (set_cache a c', r) /\ a_retrieve_if_loaded (set_cache a c') i = r.
Proof. intros Hd. unfold a_retrieve, a_retrieve_if_loaded; cbn. rewrite Hd. auto. Qed.

(* the next successful write of the identifier replaces it by the pending object *)
Theorem shadowed_cache_replaced_by_commit a i r :
  wf a -> adeltas a !! i = Some r -> acache (a_apply_one a i) !! i = Some r /\ adeltas (a_apply_one a i) !! i = None.
Proof.
  intros (H1 & _) Hd. unfold a_apply_one. rewrite Hd. destruct r as [x|].
  - destruct (H1 _ _ Hd) as [v ->]. cbn. rewrite lookup_insert, lookup_delete. auto.
  - cbn. rewrite lookup_insert, lookup_delete. auto.
Qed.

(** * Negative witnesses (computed): which aliasing patterns break transparency *)

Local Notation V n := (mkval n 3).
Local Notation A := (1, 1)%N.
Local Notation B := (1, 2)%N.

(* the same two objects throughout: object 0 is created and committed under A (so it is the cached
   object of A) *)
Definition w_committed : ast :=
  fst (arun ast_init [ANew (V 7); AStore A 0; AFastCommit None]).

(* W1 — mutate without Store: the cached object differs from the register, nothing is pending
   (invariant [clean] broken), and a cache drop changes what Retrieve answers. *)
Definition w1_keep : list aout := snd (arun w_committed [AMutate 0 (V 8); ARetrieve A]).
Definition w1_drop : list aout := snd (arun w_committed [AMutate 0 (V 8); ADropCache; ARetrieve A]).

Lemma w1_unrecorded_mutation_breaks_transparency :
  cleanb (fst (arun w_committed [AMutate 0 (V 8)])) = false /\
  map out_val w1_keep = [OOk; ORet (Some (V 8))] /\
  map out_val w1_drop = [OOk; OOk; ORet (Some (V 7))] /\
  abase (fst (arun w_committed [AMutate 0 (V 8); AFastCommit None])) !! A = Some (V 7).
Proof. vm_compute. repeat split. Qed.

(* W2 — keep an object across DropCache, then mutate it AND Store it (what a container handle
   does): harmless.  The invariant holds, the view is the new value, commit writes it. *)
Lemma w2_handle_across_dropcache_is_harmless :
  let a := fst (arun w_committed [ADropCache; AMutate 0 (V 8); AStore A 0]) in
  cleanb a = true /\ aview a A = Some (V 8) /\
  abase (fst (astep a (AFastCommit None))) !! A = Some (V 8) /\
  (* also when somebody re-read the root in between (a second, clean object 1 in the cache) *)
  let a' := fst (arun w_committed [ADropCache; ARetrieve A; AMutate 0 (V 8); AStore A 0]) in
  cleanb a' = true /\ aview a' A = Some (V 8) /\ acache a' !! A = Some (Some 1) /\ adeltas a' !! A = Some (Some 0).
Proof. vm_compute. repeat split. Qed.

(* W3 — two holders of the same slab after a cache drop (two wrappers of one container): the
   handle keeps object 0, a second reader obtains object 1 and updates through it; the handle's
   object is stale, and a later update through the handle silently overwrites the other one. *)
Lemma w3_two_holders_diverge :
  let a := fst (arun w_committed [ADropCache; ARetrieve A; AMutate 1 (V 9); AStore A 1]) in
  aview a A = Some (V 9) /\ handle_read a (A, 0) = Some (V 7) /\
  aview (handle_update a (A, 0) (V 8)) A = Some (V 8).
Proof. vm_compute. repeat split. Qed.

(* W4 — the cache-bypassing read of an identifier whose CACHED object was modified in place (and
   stored, as the discipline demands) returns the pending content, not the committed one; after
   a cache drop it returns the committed one.  The value model always answers the committed one. *)
Lemma w4_rid_returns_pending_object :
  let a := fst (cop_run w_committed (CUpdate A (V 8))) in
  map out_val (snd (arun a [ARetrieveIgnoringDeltas A true])) = [ORet (Some (V 8))] /\
  map out_val (snd (arun a [ADropCache; ARetrieveIgnoringDeltas A true])) = [OOk; ORet (Some (V 7))] /\
  snd (step (aabs a) (SRetrieveIgnoringDeltas A true)) = ORet (Some (V 7)) /\
  cleanb a = true.
Proof. vm_compute. repeat split. Qed.

(* W5 — DropDeltas after a disciplined in-place update: the write set is gone but the cached
   object keeps the modification: Retrieve answers the dropped value, the invariant is broken,
   and only a cache drop reverts to the last commit.  The value model answers the committed one. *)
Lemma w5_dropdeltas_does_not_roll_back :
  let a := fst (cop_run w_committed (CUpdate A (V 8))) in
  let a' := fst (astep a ADropDeltas) in
  cleanb a' = false /\ aview a' A = Some (V 8) /\
  view (fst (step (aabs a) SDropDeltas)) A = Some (V 7) /\
  aview (fst (astep a' ADropCache)) A = Some (V 7).
Proof. vm_compute. repeat split. Qed.

(* W6 — cache and write set of one identifier may hold DIFFERENT objects (a preload of a
   shadowed identifier); both invariants hold, Retrieve answers the pending one. *)
Lemma w6_cache_and_deltas_differ :
  let a := fst (arun (fst (cop_run w_committed (CUpdate A (V 8)))) [ABatchPreload [A]]) in
  acache a !! A = Some (Some 1) /\ adeltas a !! A = Some (Some 0) /\ cleanb a = true /\
  aview a A = Some (V 8).
Proof. vm_compute. repeat split. Qed.

(* W7 — storing ONE object under two identifiers (not what containers do): a disciplined update of
   one identifier silently changes the other. *)
Lemma w7_shared_object_two_ids :
  let a := fst (arun w_committed [AStore B 0]) in
  let a' := fst (cop_run a (CUpdate A (V 8))) in
  aview a B = Some (V 7) /\ aview a' B = Some (V 8).
Proof. vm_compute. repeat split. Qed.

(** * The boolean invariant reported by the engine is the invariant *)

Lemma cleanb_spec a : cleanb a = true <-> clean a.
Proof.
  unfold cleanb, clean. rewrite forallb_forall. split.
  - intros H i r Hi Hd. specialize (H (i, r)). cbn [fst snd] in H. rewrite Hd in H.
    eapply bool_decide_eq_true_1. apply H. apply elem_of_list_In, elem_of_map_to_list, Hi.
  - intros H [i r] Hin. cbn [fst snd]. apply elem_of_list_In, elem_of_map_to_list in Hin.
    destruct (adeltas a !! i) eqn:Hd; [reflexivity|]. apply bool_decide_eq_true_2. apply (H i r Hin Hd).
Qed.

(** * A checker for scheduled histories (for the examples) *)

Global Instance cop_eq_dec : EqDecision cop.
Proof. solve_decision. Defined.
Global Instance cev_eq_dec : EqDecision cev.
Proof. solve_decision. Defined.

Definition disciplinedb (ids : list sid) (e : cev) : bool :=
  match e with
  | EOp o => forallb (fun k => bool_decide (k ∉ ids)) (cop_writes o)
  | EOpen i => negb (is_undefined i) && bool_decide (i ∉ ids)
  | _ => true
  end.

Lemma disciplinedb_sound ids e : disciplinedb ids e = true -> disciplined ids e.
Proof.
  destruct e as [o|i|k v|k|k]; cbn; try (intros; exact I).
  - rewrite forallb_forall. intros H k Hk. eapply bool_decide_eq_true_1, H, elem_of_list_In, Hk.
  - intros H. apply andb_prop in H. destruct H as [H1 H2]. split.
    + destruct (is_undefined i); [discriminate|reflexivity].
    + eapply bool_decide_eq_true_1, H2.
Qed.

Fixpoint aschedb (c : cst) (es : list cev) (ses : list ev) : bool :=
  match ses with
  | [] => match es with [] => true | _ => false end
  | Cl e :: ses' =>
    match es with
    | e' :: es' => bool_decide (e = e') && disciplinedb (snd c).*1 e && aschedb (fst (cev_run c e)) es' ses'
    | [] => false
    end
  | Sc o :: ses' => is_asched (fst c) o && aschedb (fst (ev_run c (Sc o))) es ses'
  end.

Lemma aschedb_sound ses : forall c es, aschedb c es ses = true -> ascheduled c es ses.
Proof.
  induction ses as [|[e|o] ses IH]; intros c es H; cbn [aschedb] in H.
  - destruct es; [constructor|discriminate].
  - destruct es as [|e' es]; [discriminate|].
    apply andb_prop in H. destruct H as [H H3]. apply andb_prop in H. destruct H as [H1 H2].
    apply bool_decide_eq_true in H1. subst e'.
    apply asch_client; [apply disciplinedb_sound, H2|apply IH, H3].
  - apply andb_prop in H. destruct H as [H1 H2]. apply asch_sched; [exact H1|apply IH, H2].
Qed.
