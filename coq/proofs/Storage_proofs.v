(* Storage_proofs.v — PersistentSlabStorage (model) refines the overlay specification. *)
From stdpp Require Import gmap sorting.
From Coq Require Import ZArith NArith Lia.
From AtreeModel Require Import Storage StorageSpec.
Local Open Scope N_scope.

(** * sid_le is a total preorder with unique sorted lists *)

Global Instance sid_le_total : Total sid_le.
Proof. intros [a i] [b j]. unfold sid_le; cbn. lia. Qed.
Global Instance sid_le_trans : Transitive sid_le.
Proof. intros [a i] [b j] [c k]. unfold sid_le; cbn. lia. Qed.
Global Instance sid_le_antisym : AntiSymm eq sid_le.
Proof. intros [a i] [b j]. unfold sid_le; cbn. intros H1 H2. f_equal; lia. Qed.
Global Instance sid_le_refl : Reflexive sid_le.
Proof. intros [a i]. unfold sid_le; cbn. lia. Qed.

(** * apply_one / apply_writes commute with abstraction *)

Lemma owned_keys_abs s : owned_delta_keys s = sp_owned_keys (abs s).
Proof. reflexivity. Qed.

Lemma call_of_abs s i : call_of s i = sp_call_of (abs s) i.
Proof. reflexivity. Qed.

Lemma apply_one_abs s i : abs (fst (apply_one s i)) = sp_apply_one (abs s) i.
Proof.
  unfold apply_one, sp_apply_one, abs; cbn.
  destruct (deltas s !! i) as [[v|]|]; reflexivity.
Qed.

Lemma apply_one_coherent s i :
  coherent s -> is_temp i = false -> coherent (fst (apply_one s i)).
Proof.
  intros [Hc Ht] Hi. unfold apply_one.
  destruct (deltas s !! i) as [[v|]|] eqn:Hd; cbn; [| |split; assumption].
  - split; cbn.
    + intros j x. destruct (decide (j = i)) as [->|Hne].
      * rewrite !lookup_insert. congruence.
      * rewrite !lookup_insert_ne by congruence. apply Hc.
    + intros j Hj. rewrite lookup_insert_ne by (intros ->; congruence). apply Ht, Hj.
  - split; cbn.
    + intros j x. destruct (decide (j = i)) as [->|Hne].
      * rewrite lookup_insert, lookup_delete. congruence.
      * rewrite lookup_insert_ne, lookup_delete_ne by congruence. apply Hc.
    + intros j Hj. rewrite lookup_delete_ne by (intros ->; congruence). apply Ht, Hj.
Qed.

Lemma apply_writes_abs ids : forall fail s log,
  let '(s', ok, l) := apply_writes ids fail s log in
  sp_apply_writes ids fail (abs s) log = (abs s', ok, l).
Proof.
  induction ids as [|i r IH]; intros fail s log; cbn [apply_writes sp_apply_writes]; [reflexivity|].
  rewrite <- call_of_abs. destruct (call_of s i) as [c|]; [|apply IH].
  destruct fail as [[|k]|]; [reflexivity| |].
  - rewrite <- apply_one_abs. apply IH.
  - rewrite <- apply_one_abs. apply IH.
Qed.

Lemma apply_writes_coherent ids : forall fail s log,
  coherent s -> Forall (fun i => is_temp i = false) ids ->
  coherent (fst (fst (apply_writes ids fail s log))).
Proof.
  induction ids as [|i r IH]; intros fail s log Hs Hall; cbn [apply_writes]; [exact Hs|].
  inversion Hall as [|? ? Hi Hr]; subst.
  destruct (call_of s i) as [c|]; [|apply IH; assumption].
  destruct fail as [[|k]|]; [exact Hs| |]; apply IH; try assumption; apply apply_one_coherent; assumption.
Qed.

Lemma owned_keys_owned s : Forall (fun i => is_temp i = false) (owned_delta_keys s).
Proof.
  unfold owned_delta_keys. apply Forall_forall. intros i Hi.
  apply elem_of_list_filter in Hi. tauto.
Qed.

Lemma sorted_owned_keys_owned s : Forall (fun i => is_temp i = false) (sorted_owned_delta_keys s).
Proof.
  unfold sorted_owned_delta_keys. rewrite merge_sort_Permutation. apply owned_keys_owned.
Qed.

Lemma order_ok_abs s order c : order_ok s order c = sp_order_ok (abs s) order c.
Proof. reflexivity. Qed.

Lemma order_ok_owned s order c :
  order_ok s order c = true -> Forall (fun i => is_temp i = false) order.
Proof.
  unfold order_ok. intros H.
  apply andb_prop in H; destruct H as [H _].
  apply andb_prop in H; destruct H as [H _].
  apply andb_prop in H; destruct H as [_ H].
  apply Forall_forall. intros i Hi.
  rewrite forallb_forall in H. specialize (H i (proj1 (elem_of_list_In _ _) Hi)).
  apply bool_decide_eq_true in H.
  pose proof (owned_keys_owned s) as Ho. rewrite Forall_forall in Ho. apply Ho, H.
Qed.

(** * preload and reads *)

Lemma preload_one_props s i :
  coherent s -> coherent (preload_one s i) /\ abs (preload_one s i) = abs s.
Proof.
  intros [Hc Ht]. unfold preload_one. destruct (base s !! i) as [v|] eqn:Hb; [|split; [split|]; auto].
  split; [split|reflexivity]; cbn; [|exact Ht].
  intros j x. destruct (decide (j = i)) as [->|Hne].
  - rewrite lookup_insert. congruence.
  - rewrite lookup_insert_ne by congruence. apply Hc.
Qed.

Lemma batch_preload_props ids : forall s,
  coherent s -> coherent (batch_preload s ids) /\ abs (batch_preload s ids) = abs s.
Proof.
  unfold batch_preload. induction ids as [|i r IH]; intros s Hs; cbn [fold_left]; [auto|].
  destruct (preload_one_props s i Hs) as [H1 H2].
  destruct (IH _ H1) as [H3 H4]. split; [exact H3|congruence].
Qed.

Lemma rid_props s i c :
  coherent s ->
  let '(s', r) := retrieve_ignoring_deltas s i c in
  coherent s' /\ abs s' = abs s /\ r = base s !! i.
Proof.
  intros [Hc Ht]. unfold retrieve_ignoring_deltas.
  destruct (cache s !! i) as [x|] eqn:Hci.
  - split; [split; assumption|]. split; [reflexivity|]. apply Hc, Hci.
  - destruct (base s !! i) as [v|] eqn:Hb; [|split; [split; assumption|auto]].
    destruct c; [|split; [split; assumption|auto]].
    split; [|auto]. split; cbn; [|exact Ht].
    intros j x. destruct (decide (j = i)) as [->|Hne].
    + rewrite lookup_insert. congruence.
    + rewrite lookup_insert_ne by congruence. apply Hc.
Qed.

Lemma view_abs s i : coherent s -> view s i = spec_view (abs s) i.
Proof.
  intros [Hc _]. unfold view, spec_view, abs; cbn.
  destruct (deltas s !! i); [reflexivity|].
  destruct (cache s !! i) eqn:Hci; [apply Hc, Hci|reflexivity].
Qed.

(** * one step *)

Lemma step_refines s o :
  coherent s ->
  let '(s', m) := step s o in
  let '(a', sp) := spec_step (abs s) o in
  coherent s' /\ abs s' = a' /\ out_match (abs s) o m sp.
Proof.
  intros Hs. pose proof Hs as [Hc Ht].
  destruct o as [i v|i|i|i|i c|fail|order fail| | |ids| |a| |i]; cbn [step spec_step out_match].
  - (* store *) destruct (is_undefined i); (split; [split; assumption|auto]).
  - (* remove *) destruct (is_undefined i); (split; [split; assumption|auto]).
  - (* retrieve *)
    unfold retrieve. destruct (deltas s !! i) as [x|] eqn:Hd.
    + split; [exact Hs|]. split; [reflexivity|]. unfold spec_view, abs; cbn. rewrite Hd. reflexivity.
    + pose proof (rid_props s i true Hs) as H.
      destruct (retrieve_ignoring_deltas s i true) as [s' r]. destruct H as (H1 & H2 & H3).
      split; [exact H1|]. split; [exact H2|]. unfold spec_view, abs; cbn. rewrite Hd. congruence.
  - (* retrieve if loaded *)
    split; [exact Hs|]. split; [reflexivity|].
    unfold retrieve_if_loaded, spec_view, abs; cbn.
    destruct (deltas s !! i) as [x|] eqn:Hd; [left; reflexivity|].
    destruct (cache s !! i) as [x|] eqn:Hci; [left; f_equal; apply Hc, Hci|].
    right. auto.
  - (* retrieve ignoring deltas *)
    pose proof (rid_props s i c Hs) as H.
    destruct (retrieve_ignoring_deltas s i c) as [s' r]. destruct H as (H1 & H2 & H3).
    split; [exact H1|]. split; [exact H2|]. rewrite H3. reflexivity.
  - (* fast commit *)
    unfold fast_commit, sorted_owned_delta_keys. rewrite owned_keys_abs.
    pose proof (apply_writes_abs (merge_sort sid_le (sp_owned_keys (abs s))) fail s []) as Ha.
    pose proof (apply_writes_coherent (merge_sort sid_le (sp_owned_keys (abs s))) fail s [] Hs
                  (sorted_owned_keys_owned s)) as Hco.
    destruct (apply_writes _ fail s []) as [[s' ok] l]. rewrite Ha. cbn in Hco. auto.
  - (* nondet commit *)
    unfold nondet_commit. rewrite <- order_ok_abs.
    destruct (order_ok s order _) eqn:Hok; [|split; [exact Hs|auto]].
    pose proof (apply_writes_abs order fail s []) as Ha.
    pose proof (apply_writes_coherent order fail s [] Hs (order_ok_owned _ _ _ Hok)) as Hco.
    destruct (apply_writes order fail s []) as [[s' ok] l]. rewrite Ha. cbn in Hco. auto.
  - (* drop deltas *) split; [split; assumption|auto].
  - (* drop cache *) split; [|auto]. split; cbn; [|exact Ht]. intros j x. rewrite lookup_empty. discriminate.
  - (* preload *) destruct (batch_preload_props ids s Hs) as [H1 H2]. auto.
  - (* observe *) split; [exact Hs|auto].
  - (* has unsaved *) split; [exact Hs|auto].
  - (* recreate *) split; [|auto]. split; cbn; [|exact Ht]. intros j x. rewrite lookup_empty. discriminate.
  - (* base get *) split; [exact Hs|auto].
Qed.

Lemma coherent_init : coherent st_init.
Proof. split; intros; cbn in *; rewrite ?lookup_empty in *; congruence. Qed.

Lemma run_refines ops : forall s,
  coherent s ->
  let '(s', ms) := run s ops in
  let '(a', sps) := spec_run (abs s) ops in
  coherent s' /\ abs s' = a' /\ outs_match ops ms sps.
Proof.
  induction ops as [|o r IH]; intros s Hs; cbn [run spec_run outs_match]; [auto|].
  pose proof (step_refines s o Hs) as H1.
  destruct (step s o) as [s1 m]. destruct (spec_step (abs s) o) as [a1 sp].
  destruct H1 as (Hc1 & Ha1 & Hm1). subst a1.
  specialize (IH s1 Hc1).
  destruct (run s1 r) as [s2 ms]. destruct (spec_run (abs s1) r) as [a2 sps].
  destruct IH as (Hc2 & Ha2 & Hm2). cbn [outs_match]. auto.
Qed.

Theorem storage_refines_overlay ops :
  let '(s', ms) := run st_init ops in
  let '(a', sps) := spec_run spec_init ops in
  coherent s' /\ abs s' = a' /\ (forall i, view s' i = spec_view a' i) /\ outs_match ops ms sps.
Proof.
  pose proof (run_refines ops st_init coherent_init) as H.
  destruct (run st_init ops) as [s' ms]. change (abs st_init) with spec_init in H.
  destruct (spec_run spec_init ops) as [a' sps]. destruct H as (H1 & H2 & H3).
  split; [assumption|]. split; [assumption|]. split; [|assumption].
  intros i. rewrite view_abs by assumption. rewrite H2. reflexivity.
Qed.
