(* Nested_base.v — list / association-list / forest-access lemmas for Nested.v *)
From Coq Require Import ZArith NArith List Bool Lia Arith.
From AtreeGen Require Import Consts.
From AtreeModel Require Import Nested.
Import ListNotations.
Local Open Scope N_scope.

(* ---------- association lists ---------- *)
Section assoc.
  Context {A : Type}.
  Implicit Types l : list (N * A).

  Lemma aget_aset_eq l v x : aget (aset l v x) v = Some x.
  Proof.
    induction l as [|[k y] r IH]; cbn.
    - now rewrite N.eqb_refl.
    - destruct (k =? v) eqn:E; cbn; rewrite E; auto.
  Qed.

  Lemma aget_aset_ne l v w x : v <> w -> aget (aset l v x) w = aget l w.
  Proof.
    intros Hne. induction l as [|[k y] r IH]; cbn.
    - destruct (v =? w) eqn:E; auto. apply N.eqb_eq in E. contradiction.
    - destruct (k =? v) eqn:E; cbn.
      + apply N.eqb_eq in E. subst k. destruct (v =? w) eqn:E2; auto. apply N.eqb_eq in E2. contradiction.
      + destruct (k =? w); auto.
  Qed.

  Lemma aset_same_id l v x : aget l v = Some x -> aset l v x = l.
  Proof.
    induction l as [|[k y] r IH]; cbn; [discriminate|].
    destruct (k =? v) eqn:E; intros H.
    - injection H as ->. reflexivity.
    - now rewrite IH.
  Qed.

  Lemma aget_adel_eq l v : aget (adel l v) v = None.
  Proof.
    induction l as [|[k y] r IH]; cbn; auto.
    destruct (k =? v) eqn:E; cbn; auto. now rewrite E.
  Qed.

  Lemma aget_adel_ne l v w : v <> w -> aget (adel l v) w = aget l w.
  Proof.
    intros Hne. induction l as [|[k y] r IH]; cbn; auto.
    destruct (k =? v) eqn:E; cbn.
    - apply N.eqb_eq in E. subst k. destruct (v =? w) eqn:E2; auto. apply N.eqb_eq in E2. contradiction.
    - destruct (k =? w); auto.
  Qed.

  Lemma aget_map_snd {B} (h : A -> B) (l : list (N * A)) v :
    aget (map (fun p => (fst p, h (snd p))) l) v = option_map h (aget l v).
  Proof.
    induction l as [|[k y] r IH]; cbn; auto. destruct (k =? v); auto.
  Qed.
End assoc.

Lemma aget_map_cond (h : N * nat -> N * nat) (l : list (N * nat)) v :
  (forall p, fst (h p) = fst p) ->
  aget (map h l) v = option_map (fun j => snd (h (v, j))) (aget l v).
Proof.
  intros Hk. induction l as [|[k y] r IH]; cbn; auto.
  specialize (Hk (k, y)) as Hk1. destruct (h (k, y)) as [k' y'] eqn:E. cbn in Hk1. subst k'.
  destruct (k =? v) eqn:E2; auto. apply N.eqb_eq in E2. subst k. cbn. now rewrite E.
Qed.

(* ---------- forest access ---------- *)
Lemma fget_fset_eq f v c : fget (fset f v c) v = Some c.
Proof. apply aget_aset_eq. Qed.
Lemma fget_fset_ne f v w c : v <> w -> fget (fset f v c) w = fget f w.
Proof. apply aget_aset_ne. Qed.
Lemma fget_flog f v b w : fget (flog f v b) w = fget f w.
Proof. reflexivity. Qed.
Lemma fset_same_id f v c : fget f v = Some c -> fset f v c = f.
Proof. intros H. destruct f as [cs lg]. unfold fset, fget in *. cbn in *. now rewrite aset_same_id. Qed.
Lemma dirty_fset f v c w : dirty (fset f v c) w = dirty f w.
Proof. reflexivity. Qed.
Lemma dirty_flog_eq f v b : dirty (flog f v b) v = Some b.
Proof. unfold dirty, flog. cbn. now rewrite N.eqb_refl. Qed.
Lemma dirty_flog_ne f v b w : v <> w -> dirty (flog f v b) w = dirty f w.
Proof. intros H. unfold dirty, flog. cbn. destruct (v =? w) eqn:E; auto. apply N.eqb_eq in E. contradiction. Qed.

Lemma fget_fset f v c w : fget (fset f v c) w = if v =? w then Some c else fget f w.
Proof.
  destruct (v =? w) eqn:E.
  - apply N.eqb_eq in E. subst. apply fget_fset_eq.
  - apply N.eqb_neq in E. now apply fget_fset_ne.
Qed.

(* record eta *)
Lemma with_upd_id c u : c_upd c = u -> with_upd c u = c.
Proof. destruct c. cbn. now intros ->. Qed.
Lemma with_idx_id c i : c_idx c = i -> with_idx c i = c.
Proof. destruct c. cbn. now intros ->. Qed.
Lemma with_inl_id c b : c_inl c = b -> with_inl c b = c.
Proof. destruct c. cbn. now intros ->. Qed.
Lemma with_slots_id c : with_slots c (c_slots c) (c_csize c) (c_idx c) = c.
Proof. now destruct c. Qed.

(* ---------- list helpers ---------- *)
Section lists.
  Context {A : Type}.
  Implicit Types l : list A.

  Lemma replace_nth_length i x l : length (replace_nth i x l) = length l.
  Proof. revert i; induction l; intros [|i]; cbn; auto. Qed.

  Lemma nth_error_replace_nth_eq i x l y : nth_error l i = Some y -> nth_error (replace_nth i x l) i = Some x.
  Proof. revert i; induction l; intros [|i]; cbn; try discriminate; auto. Qed.

  Lemma nth_error_replace_nth_ne i j x l : i <> j -> nth_error (replace_nth i x l) j = nth_error l j.
  Proof. revert i j; induction l; intros [|i] [|j] H; cbn; auto; try congruence. Qed.

  Lemma replace_nth_same_id i x l : nth_error l i = Some x -> replace_nth i x l = l.
  Proof.
    revert i; induction l; intros [|i]; cbn; try discriminate.
    - now intros [= ->].
    - intros H. now rewrite IHl.
  Qed.

  Lemma insert_nth_length i x l : (i <= length l)%nat -> length (insert_nth i x l) = S (length l).
  Proof. revert l; induction i; intros [|y l] H; cbn in *; auto; try lia. rewrite IHi; auto. lia. Qed.

  Lemma nth_error_insert_nth_eq i x l : (i <= length l)%nat -> nth_error (insert_nth i x l) i = Some x.
  Proof. revert l; induction i; intros [|y l] H; cbn in *; auto; try lia. apply IHi. lia. Qed.

  Lemma nth_error_insert_nth_lt i j x l : (j < i)%nat -> (i <= length l)%nat -> nth_error (insert_nth i x l) j = nth_error l j.
  Proof.
    revert l j; induction i; intros [|y l] [|j] H1 H2; cbn in *; auto; try lia.
    apply IHi; lia.
  Qed.

  Lemma nth_error_insert_nth_gt i j x l : (i <= j)%nat -> (i <= length l)%nat -> nth_error (insert_nth i x l) (S j) = nth_error l j.
  Proof.
    revert l j; induction i; intros l j H1 H2.
    - reflexivity.
    - destruct l as [|y l]; cbn in *; try lia. destruct j; try lia. cbn. apply IHi; lia.
  Qed.

  Lemma nth_error_remove_nth_lt i j l : (j < i)%nat -> nth_error (remove_nth i l) j = nth_error l j.
  Proof. revert i j; induction l; intros [|i] [|j] H; cbn; auto; try lia. apply IHl. lia. Qed.

  Lemma nth_error_remove_nth_ge i j l : (i <= j)%nat -> nth_error (remove_nth i l) j = nth_error l (S j).
  Proof.
    revert i j; induction l; intros [|i] [|j] H; cbn; auto; try lia.
    apply IHl. lia.
  Qed.

  Lemma remove_nth_length i l x : nth_error l i = Some x -> S (length (remove_nth i l)) = length l.
  Proof. revert i; induction l; intros [|i]; cbn; try discriminate; auto. Qed.
End lists.

Lemma find_key_nth l k i : find_key l k = Some i -> exists s, nth_error l i = Some s /\ s_kid s = k.
Proof.
  revert i; induction l as [|s r IH]; cbn; intros i; [discriminate|].
  destruct (s_kid s =? k) eqn:E.
  - intros [= <-]. exists s. split; auto. now apply N.eqb_eq.
  - destruct (find_key r k) eqn:F; cbn; [|discriminate]. intros [= <-]. now apply IH.
Qed.

Lemma find_key_none l k : find_key l k = None -> forall s, In s l -> s_kid s <> k.
Proof.
  induction l as [|s r IH]; cbn; intros H x Hin; [contradiction|].
  destruct (s_kid s =? k) eqn:E; [discriminate|].
  destruct (find_key r k) eqn:F; cbn in H; [discriminate|].
  destruct Hin as [<-|Hin]; [now apply N.eqb_neq|auto].
Qed.

Lemma find_key_nodup l i s : NoDup (map s_kid l) -> nth_error l i = Some s -> find_key l (s_kid s) = Some i.
Proof.
  revert i; induction l as [|x r IH]; intros [|i] Hnd H; cbn in *; try discriminate.
  - injection H as ->. now rewrite N.eqb_refl.
  - inversion Hnd as [|? ? Hnotin Hnd']; subst.
    destruct (s_kid x =? s_kid s) eqn:E.
    + apply N.eqb_eq in E. exfalso. apply Hnotin. rewrite E. apply in_map. eapply nth_error_In; eauto.
    + rewrite (IH i); auto.
Qed.

Lemma nth_error_app_last {A} (l : list A) x : nth_error (l ++ [x]) (length l) = Some x.
Proof. induction l; cbn; auto. Qed.

Lemma nth_error_app_lt {A} (l : list A) x j : (j < length l)%nat -> nth_error (l ++ [x]) j = nth_error l j.
Proof. intros H. now rewrite nth_error_app1. Qed.

Lemma nth_error_app_inv {A} (l : list A) x j y :
  nth_error (l ++ [x]) j = Some y -> (j = length l /\ y = x) \/ ((j < length l)%nat /\ nth_error l j = Some y).
Proof.
  intros H. destruct (Nat.lt_ge_cases j (length l)) as [Hlt|Hge].
  - right. split; auto. now rewrite nth_error_app1 in H.
  - left. rewrite nth_error_app2 in H by lia. destruct (j - length l)%nat as [|k] eqn:E.
    + cbn in H. injection H as <-. split; auto. lia.
    + cbn in H. destruct k; discriminate.
Qed.
