(* Nested_proofs.v — C10 / C11 over the forest model Nested.v. *)
From Coq Require Import ZArith NArith List Bool Lia Arith.
From AtreeGen Require Import Consts.
From AtreeModel Require Import Nested.
From AtreeProofs Require Import Nested_base Nested_resync Nested_chain Nested_edit Nested_ops Nested_steps.
Import ListNotations.
Local Open Scope N_scope.

(* ---------- the invariant only reads container states ---------- *)
Lemma fwf_fget_ext n g f f' : (forall x, fget f' x = fget f x) -> fwf n g f -> fwf n g f'.
Proof.
  intros H (HS & Hi & Hc & Hio).
  assert (Hss : same_struct f f').
  { intros x. rewrite H. destruct (fget f x); auto. }
  split; [eapply same_struct_fstruct; eauto|]. split; [eapply same_struct_idx_ok; eauto|]. split.
  - intros x c Hx. rewrite H in Hx. rewrite (Hc x c Hx). symmetry. apply data_size_ext.
    intros. apply child_size_get. apply H.
  - intros v. eapply inl_ok_transfer; eauto.
Qed.

Lemma empty_fwf n g : (0 < n)%nat -> fwf n g empty_forest.
Proof.
  intros Hn. split; [split|split; [|split]].
  - intros p c i s v w H. discriminate.
  - intros p c H. discriminate.
  - exists (fun _ => 0%nat). split; auto. intros p i s v w (c & H & _). discriminate.
  - intros p c H. discriminate.
  - intros x c H. discriminate.
  - intros v p c i s w cv H. discriminate.
Qed.

(* ---------- the remaining operations ---------- *)
Lemma new_fwf n g f v k : fwf n g f -> fget f v = None -> fwf n g (new_container f v k).
Proof.
  intros (HS & Hi & Hc & Hio) Hnone.
  set (f' := new_container f v k).
  assert (Hget : forall x, fget f' x = if v =? x then Some (mkC k [] false (base k) None []) else fget f x).
  { intros x. unfold f', new_container. rewrite fget_flog. apply fget_fset. }
  assert (Hedge : forall p i s v' w, edge f' p i s v' w -> edge f p i s v' w).
  { intros p i s v' w (c & Hp & Hn & Hv). rewrite Hget in Hp. destruct (N.eqb_spec v p) as [->|].
    - injection Hp as <-. destruct i; discriminate.
    - exists c. auto. }
  assert (Hchild : forall p i s v' w, edge f p i s v' w -> v' <> v /\ p <> v).
  { intros p i s v' w E. destruct (hooked_edge _ _ _ HS _ _ _ _ _ E) as (c & cv & Hp & _ & Hcv & _). split; congruence. }
  assert (Hcsz : forall x, x <> v -> child_size f' x = child_size f x).
  { intros x Hx. apply child_size_get. rewrite Hget. destruct (N.eqb_spec v x); [congruence|auto]. }
  split; [split|split; [|split]].
  - intros p c i s v' w Hp Hn Hv.
    assert (E : edge f p i s v' w) by (apply Hedge; exists c; auto).
    destruct (Hchild _ _ _ _ _ E) as (Hv'v & Hpv).
    rewrite Hget in Hp. destruct (N.eqb_spec v p); [congruence|].
    destruct (st_hooked _ _ _ HS p c i s v' w Hp Hn Hv) as (cv & Hcv & Hu & Hix).
    exists cv. rewrite Hget. destruct (N.eqb_spec v v'); [congruence|]. repeat split; auto.
  - intros p c Hp Hk. rewrite Hget in Hp. destruct (N.eqb_spec v p).
    + injection Hp as <-. constructor.
    + eapply st_keys; eauto.
  - destruct (st_ranked _ _ _ HS) as (lvl & Hl & Hb). exists lvl. split; auto. intros. eapply Hl. eauto.
  - intros p c Hp. rewrite Hget in Hp. destruct (N.eqb_spec v p).
    + injection Hp as <-. cbn. split; auto. intros ? ? [].
    + exact (Hi p c Hp).
  - intros x c Hx. rewrite Hget in Hx. destruct (N.eqb_spec v x).
    + injection Hx as <-. cbn. unfold data_size. cbn. lia.
    + rewrite (Hc x c Hx). symmetry. apply data_size_ext. intros s v' w Hin Hv. apply Hcsz.
      destruct (In_edge _ _ _ _ _ _ Hx Hin Hv) as (i & E). now destruct (Hchild _ _ _ _ _ E).
  - intros v0 p c i s w cv Hp Hn Hv Hcv.
    assert (E : edge f p i s v0 w) by (apply Hedge; exists c; auto).
    destruct (Hchild _ _ _ _ _ E) as (Hv0 & Hpv).
    rewrite Hget in Hp, Hcv. destruct (N.eqb_spec v p); [congruence|]. destruct (N.eqb_spec v v0); [congruence|].
    eapply Hio; eauto.
Qed.

Lemma get_child_id n g f p loc f' ok : fwf n g f -> get_child g f p loc = (f', ok) -> f' = f.
Proof.
  intros (HS & _) H. unfold get_child in H. destruct (fget f p) as [c|] eqn:Hc; [|now injection H as <- _].
  destruct (match c_kind c with KArr => Some (N.to_nat loc) | KMap => find_key (c_slots c) loc end) as [i|]; [|now injection H as <- _].
  destruct (nth_error (c_slots c) i) as [s|] eqn:Hn; [|now injection H as <- _].
  injection H as <- _. destruct (s_val s) as [id z|v w] eqn:Ev.
  - eapply set_callback_scalar; eauto.
  - apply (set_callback_hooked n g f p i s v w HS). exists c. auto.
Qed.

Lemma touch_res n g f v f' ok :
  fwf n g f -> op_ok n f (OTouch v) -> touch n g f v = (f', ok) ->
  exists c, fget f v = Some c /\ ok = true /\
    ((c_inl c = true /\ op_result n g f f' v (c_slots c) (fun _ => False)) \/
     (c_inl c = false /\ f' = flog f v true)).
Proof.
  intros Hwf (c & Hc) Hstep. exists c. split; auto.
  destruct (fwf_parts _ _ _ Hwf) as (HS & Hidx & Hcs & Hio).
  unfold touch in Hstep. rewrite Hc in Hstep. destruct (c_inl c) eqn:Hinl.
  - (* inlined: notify *)
    assert (X : ectx n g f f v c (c_slots c) (c_idx c) None).
    { split; auto; [|intros j s v' w' Hj Hv'|intros Hk; eapply st_keys; eauto|discriminate].
      - split; [|split; auto]. rewrite Hc. f_equal. destruct c; cbn in *. f_equal; auto. apply (Hcs v _ Hc).
      - destruct (st_hooked _ _ _ HS v c j s v' w' Hc Hj Hv') as (_ & _ & _ & Hix). split; eauto. }
    pose proof (edit_master2 n g f f v c (c_slots c) (c_idx c) None f' ok None false X Hwf Hstep) as HM.
    cbn [post_steps idx_fin] in HM. destruct HM as (-> & Hres).
    { congruence. }
    { auto. }
    { discriminate. }
    { intros v0 j0 Hin. exact (proj1 (Hidx v c Hc) v0 j0 Hin). }
    { exact (proj2 (Hidx v c Hc)). }
    split; auto. left. split; auto. destruct Hres as (A & B & C & D & E). split; auto. split; auto. split; auto. split; auto.
      intros Hna. destruct (E Hna) as (E1 & E2). split; auto. intros x Hx _. apply E1; auto.
      intros [(? & ? & ? & H)|(? & H)]; discriminate.
  - injection Hstep as <- <-. auto.
Qed.

Lemma flog_fwf n g f v b : fwf n g f -> fwf n g (flog f v b).
Proof. apply fwf_fget_ext. reflexivity. Qed.

(* ---------- every operation preserves the invariant ---------- *)
Lemma op_result_fwf n g f f' t l' tch : op_result n g f f' t l' tch -> fwf n g f'.
Proof. intros (H & _). exact H. Qed.

Lemma step_fwf n g f o f' ok : fwf n g f -> op_ok n f o -> step n g f o = (f', ok) -> ok = true /\ fwf n g f'.
Proof.
  intros Hwf Hok Hstep. destruct o; cbn [step] in Hstep.
  - injection Hstep as <- <-. split; auto. now apply new_fwf.
  - destruct (arr_insert_res _ _ _ _ _ _ _ _ Hwf Hok Hstep) as (c & _ & -> & Hr). split; auto. eapply op_result_fwf; eauto.
  - destruct (arr_set_res _ _ _ _ _ _ _ _ Hwf Hok Hstep) as (c & s & _ & _ & -> & Hr & _). split; auto. eapply op_result_fwf; eauto.
  - destruct (arr_remove_res _ _ _ _ _ _ _ Hwf Hok Hstep) as (c & s & _ & _ & -> & Hr & _). split; auto. eapply op_result_fwf; eauto.
  - destruct (pop_res _ _ _ _ _ _ Hwf Hok Hstep) as (-> & Hr). split; auto. eapply op_result_fwf; eauto.
  - destruct (map_set_res _ _ _ _ _ _ _ _ _ Hwf Hok Hstep) as (c & l' & tch & _ & -> & _ & _ & Hr & _). split; auto. eapply op_result_fwf; eauto.
  - destruct (map_remove_res _ _ _ _ _ _ _ Hwf Hok Hstep) as (c & i & s & _ & _ & _ & -> & Hr & _). split; auto. eapply op_result_fwf; eauto.
  - assert (f' = f) by (eapply get_child_id; eauto). subst f'. split; auto.
    destruct Hok as (c & i & s & Hc & Hi & Hn). unfold get_child in Hstep. rewrite Hc, Hi, Hn in Hstep. now injection Hstep as _ <-.
  - destruct (touch_res _ _ _ _ _ _ Hwf Hok Hstep) as (c & _ & -> & [(_ & Hr)|(_ & ->)]); split; auto.
    + eapply op_result_fwf; eauto.
    + now apply flog_fwf.
  - injection Hstep as <- <-. split; auto. apply (fwf_fget_ext n g f (commit f)); auto.
  - destruct Hok.
Qed.

(* ====================================================================================== *)
(* C10 *)

Theorem C10_index_tracking_l n g f p c v i :
  fwf n g f -> fget f p = Some c -> aget (c_idx c) v = Some i ->
  exists s w, nth_error (c_slots c) i = Some s /\ s_val s = NChild v w.
Proof.
  intros (_ & Hi & _) Hc Ha. apply (proj1 (Hi p c Hc)). now apply aget_In.
Qed.

Theorem C10_inline_iff_fits_l n g f p c i s v w cv :
  fwf n g f -> fget f p = Some c -> nth_error (c_slots c) i = Some s -> s_val s = NChild v w -> fget f v = Some cv ->
  (c_inl cv = true <-> inl_size cv <= slot_lim g (c_kind c) (s_ksz s) w).
Proof. intros (_ & _ & _ & Hio). apply Hio. Qed.

Theorem C10_reachable_l n g f : (0 < n)%nat -> reach n g f -> fwf n g f.
Proof.
  intros Hn H. induction H.
  - now apply empty_fwf.
  - destruct (step_fwf _ _ _ _ _ _ IHreach H0 H1). auto.
Qed.

(* the element list an operation through handle h leaves, per operation *)
Lemma child_step_result n g f h o f' ok :
  fwf n g f -> op_ok n f (cop_nop h o) -> child_step n g f h o = (f', ok) ->
  exists c, fget f h = Some c /\ ok = true /\
    ((exists tch : N -> Prop,
        (forall x, tch x -> new_child o x \/ exists i s w, edge f h i s x w) /\
        op_result n g f f' h (slots_after o (c_slots c)) tch) \/
     (o = CTouch /\ c_inl c = false /\ f' = flog f h true)).
Proof.
  intros Hwf Hok Hstep. unfold child_step in Hstep. destruct o; cbn [cop_nop step] in *.
  - destruct (arr_insert_res _ _ _ _ _ _ _ _ Hwf Hok Hstep) as (c & Hc & -> & Hr). exists c. split; auto. split; auto.
    left. eexists. split; [|exact Hr]. intros x [(w & i0 & s0 & Hnc)|(w0 & Hod)]; [|discriminate].
    left. unfold nc_of in Hnc. cbn in Hnc. destruct e; [discriminate|]. injection Hnc as <- _ _ _. reflexivity.
  - destruct (arr_set_res _ _ _ _ _ _ _ _ Hwf Hok Hstep) as (c & s & Hc & Hn & -> & Hr & _). exists c. split; auto. split; auto.
    left. cbn [slots_after]. rewrite Hn. eexists. split; [|exact Hr].
    intros x [(w & i0 & s0 & Hnc)|(w0 & Hod)].
    + left. unfold nc_of in Hnc. cbn in Hnc. destruct e; [discriminate|]. injection Hnc as <- _ _ _. reflexivity.
    + right. unfold od_of in Hod. destruct (s_val s) as [|v0 w1] eqn:Eo; [discriminate|]. injection Hod as <- <-.
      exists i, s, w1, c. auto.
  - destruct (arr_remove_res _ _ _ _ _ _ _ Hwf Hok Hstep) as (c & s & Hc & Hn & -> & Hr & _). exists c. split; auto. split; auto.
    left. eexists. split; [|exact Hr].
    intros x [(w & i0 & s0 & Hnc)|(w0 & Hod)]; [discriminate|].
    right. unfold od_of in Hod. destruct (s_val s) as [|v0 w1] eqn:Eo; [discriminate|]. injection Hod as <- <-.
    exists i, s, w1, c. auto.
  - destruct Hok as (c & Hc). destruct (pop_res _ _ _ _ _ _ Hwf (ex_intro _ c Hc) Hstep) as (-> & Hr). exists c. split; auto. split; auto.
    left. eexists. split; [|exact Hr]. intros x [(w & i0 & s0 & Hnc)|(w0 & Hod)]; discriminate.
  - destruct (map_set_res _ _ _ _ _ _ _ _ _ Hwf Hok Hstep) as (c & l' & tch & Hc & -> & -> & Ht & Hr & _). exists c. split; auto. split; auto.
    left. exists tch. auto.
  - destruct (map_remove_res _ _ _ _ _ _ _ Hwf Hok Hstep) as (c & i & s & Hc & Hfk & Hn & -> & Hr & _). exists c. split; auto. split; auto.
    left. cbn [slots_after]. rewrite Hfk. eexists. split; [|exact Hr].
    intros x [(w & i0 & s0 & Hnc)|(w0 & Hod)]; [discriminate|].
    right. unfold od_of in Hod. destruct (s_val s) as [|v0 w1] eqn:Eo; [discriminate|]. injection Hod as <- <-.
    exists i, s, w1, c. auto.
  - destruct (touch_res _ _ _ _ _ _ Hwf Hok Hstep) as (c & Hc & -> & [(Hi & Hr)|(Hi & ->)]); exists c; split; auto; split; auto.
    left. exists (fun _ => False). split; [intros x []|exact Hr].
Qed.

Theorem C10_visible_and_persisted_l n g f h o f' ok p i s w :
  fwf n g f -> edge f p i s h w -> op_ok n f (cop_nop h o) -> child_step n g f h o = (f', ok) ->
  ok = true /\
  (exists c c', fget f h = Some c /\ fget f' h = Some c' /\ c_slots c' = slots_after o (c_slots c)) /\
  edge f' p i s h w /\
  fwf n g f' /\
  (forall k s0, enclosing k f' h = Some s0 -> dirty f' s0 = Some true).
Proof.
  intros Hwf E Hok Hstep.
  destruct (child_step_result _ _ _ _ _ _ _ Hwf Hok Hstep) as (c & Hc & -> & [(tch & _ & Hr)|(-> & Hi & ->)]).
  - destruct Hr as (Hwf' & (c' & Hc' & Hsl) & Hedge & Hd & _). split; auto. split; [eauto|]. split; [now apply Hedge|auto].
  - split; auto. split; [exists c, c; auto|]. split; [exact E|]. split; [now apply flog_fwf|].
    intros [|k] s0; cbn [enclosing]; [discriminate|]. change (fget (flog f h true) h) with (fget f h). rewrite Hc, Hi.
    intros [= <-]. apply dirty_flog_eq.
Qed.

(* ====================================================================================== *)
(* C11 *)

Theorem C11_detached_l n g f h o f' ok :
  fwf n g f -> detached f h -> op_ok n f (cop_nop h o) -> child_step n g f h o = (f', ok) ->
  ok = true /\
  (* frame: nothing but h, a child given to the operation and the children of h changes *)
  (forall x, x <> h -> ~ new_child o x -> (forall i s w, ~ edge f h i s x w) ->
             fget f' x = fget f x /\ dirty f' x = dirty f x) /\
  (* the stale callback is dropped by the first lookup that misses *)
  (forall ct ct', fget f h = Some ct -> fget f' h = Some ct' ->
     c_upd ct' = None \/
     (c_upd ct' = c_upd ct /\ c_inl ct' = false /\
      (o <> CTouch -> exists u, c_upd ct = Some u /\ ~ inl_size ct' <= u_lim u))) /\
  (* intact: still standalone, in no slot, written to storage, invariant holds *)
  detached f' h /\ fwf n g f' /\ dirty f' h = Some true.
Proof.
  intros Hwf ((ch & Hch & Hinl) & Hna) Hok Hstep.
  destruct (child_step_result _ _ _ _ _ _ _ Hwf Hok Hstep) as (c & Hc & -> & [(tch & Htch & Hr)|(-> & Hi & ->)]).
  - rewrite Hch in Hc. injection Hc as <-.
    destruct Hr as (Hwf' & (c' & Hc' & Hsl) & Hedge & Hd & Hun). destruct (Hun Hna) as (Hfr & Hupd).
    destruct (Hupd ch c' Hch Hc') as (Hinl' & Hu').
    split; auto. split; [|split; [|split; [|split]]]; auto.
    + intros x Hxh Hnew Hnch. apply Hfr; auto. intros Ht. destruct (Htch x Ht) as [?|(i & s & w & E)]; auto. eapply Hnch; eauto.
    + intros ct ct' H1 H2. rewrite Hch in H1. injection H1 as <-. rewrite Hc' in H2. injection H2 as <-.
      destruct Hu' as [?|(u & A & B & C & D)]; auto. right. repeat split; try congruence. intros _. eauto.
    + split; [exists c'; split; auto; congruence|]. intros (q & i & s & w & E). apply Hna. exists q, i, s, w. now apply Hedge.
    + apply (Hd 1%nat h). cbn [enclosing]. rewrite Hc'. now rewrite Hinl', Hinl.
  - split; auto. split; [|split; [|split; [|split]]].
    + intros x Hxh _ _. split; auto. apply dirty_flog_ne. congruence.
    + intros ct ct' H1 H2. change (fget (flog f h true) h) with (fget f h) in H2. rewrite H1 in H2. injection H2 as <-.
      rewrite Hch in H1. injection H1 as <-. destruct (c_upd ch) eqn:Eu; auto. right. repeat split; auto. congruence.
    + split; [exists ch; auto|]. exact Hna.
    + now apply flog_fwf.
    + apply dirty_flog_eq.
Qed.

(* removal / overwriting turns the child into a detached container *)
Theorem C11_detach_l n g f p o f' ok i s h w :
  fwf n g f -> edge f p i s h w -> op_ok n f (cop_nop p o) -> child_step n g f p o = (f', ok) ->
  (o = CRemove i \/ (exists e, o = CSet i e) \/ o = CMRemove (s_kid s) \/ (exists ksz e, o = CMSet (s_kid s) ksz e)) ->
  detached f' h.
Proof.
  intros Hwf E Hok Hstep Ho. pose proof E as (c & Hc & Hn & Hv).
  pose proof (proj1 Hwf) as HS.
  unfold child_step in Hstep.
  destruct Ho as [->|[(e & ->)|[->|(ksz & e & ->)]]]; cbn [cop_nop step] in *.
  - destruct (arr_remove_res _ _ _ _ _ _ _ Hwf Hok Hstep) as (c0 & s0 & Hc0 & Hn0 & _ & _ & Hdet).
    rewrite Hc in Hc0. injection Hc0 as <-. rewrite Hn in Hn0. injection Hn0 as <-. eauto.
  - destruct (arr_set_res _ _ _ _ _ _ _ _ Hwf Hok Hstep) as (c0 & s0 & Hc0 & Hn0 & _ & _ & Hdet).
    rewrite Hc in Hc0. injection Hc0 as <-. rewrite Hn in Hn0. injection Hn0 as <-. eauto.
  - destruct Hok as (c1 & i1 & Hc1 & Hk1 & Hfk1).
    destruct (map_remove_res _ _ _ _ _ _ _ Hwf (ex_intro _ c1 (ex_intro _ i1 (conj Hc1 (conj Hk1 Hfk1)))) Hstep)
      as (c0 & i0 & s0 & Hc0 & Hfk & Hn0 & _ & _ & Hdet).
    rewrite Hc in Hc0. injection Hc0 as <-. rewrite Hc in Hc1. injection Hc1 as <-.
    rewrite (find_key_nodup _ _ _ (st_keys _ _ _ HS p c Hc Hk1) Hn) in Hfk. injection Hfk as <-.
    rewrite Hn in Hn0. injection Hn0 as <-. eauto.
  - destruct Hok as ((c1 & Hc1 & Hk1) & Hel).
    destruct (map_set_res _ _ _ _ _ _ _ _ _ Hwf (conj (ex_intro _ c1 (conj Hc1 Hk1)) Hel) Hstep)
      as (c0 & l' & tch & Hc0 & _ & _ & _ & _ & Hdet).
    rewrite Hc in Hc0. injection Hc0 as <-. rewrite Hc in Hc1. injection Hc1 as <-.
    eapply Hdet; eauto. apply find_key_nodup; auto. eapply st_keys; eauto.
Qed.
