(* Iter_proofs.v — loaded-value iteration (theories/Iter.v) against the full enumeration to_list. *)
From Coq Require Import NArith ZArith List Bool Lia.
From AtreeModel Require Import Settings ArrayTree ArrayInv Iter.
Import ListNotations.
Local Open Scope N_scope.

(** * induction principle for the nested tree type *)
Section anode_ind.
  Variable Pn : anode -> Prop.
  Hypothesis HD : forall h nx es, Pn (AD h nx es).
  Hypothesis HM : forall h hs sums cs, Forall Pn cs -> Pn (AM h hs sums cs).
  Fixpoint anode_ind' (n : anode) : Pn n :=
    match n with
    | AD h nx es => HD h nx es
    | AM h hs sums cs =>
      HM h hs sums cs ((fix go (l : list anode) : Forall Pn l :=
                          match l with [] => Forall_nil _ | c :: r => Forall_cons c (anode_ind' c) (go r) end) cs)
    end.
End anode_ind.

(** * sublist algebra *)
Lemma sublist_refl {A} (l : list A) : sublist l l.
Proof. induction l; [apply sl_nil|apply sl_cons; auto]. Qed.
Lemma sublist_nil_l {A} (l : list A) : sublist [] l.
Proof. induction l; [apply sl_nil|apply sl_skip; auto]. Qed.
Lemma sublist_app {A} (a b c d : list A) : sublist a b -> sublist c d -> sublist (a ++ c) (b ++ d).
Proof. induction 1; intros Hcd; cbn [app]; auto; [apply sl_skip|apply sl_cons]; auto. Qed.
Lemma sublist_app_r {A} (a b c : list A) : sublist a c -> sublist a (b ++ c).
Proof. intros H. induction b; cbn [app]; auto. apply sl_skip; auto. Qed.
Lemma sublist_filter {A} (f : A -> bool) (l : list A) : sublist (filter f l) l.
Proof. induction l as [|x l IH]; cbn [filter]; [apply sl_nil|]. destruct (f x); [apply sl_cons|apply sl_skip]; auto. Qed.
Lemma sublist_length {A} (a b : list A) : sublist a b -> (length a <= length b)%nat.
Proof. induction 1; cbn [length]; lia. Qed.
Lemma sublist_In {A} (a b : list A) x : sublist a b -> In x a -> In x b.
Proof. induction 1; cbn [In]; intuition. Qed.
Lemma sublist_trans {A} (a b c : list A) : sublist a b -> sublist b c -> sublist a c.
Proof.
  intros H1 H2. revert a H1. induction H2; intros a H1.
  - exact H1.
  - apply sl_skip. auto.
  - inversion H1; subst; [apply sl_skip|apply sl_cons]; auto.
Qed.
(* a sublist of a duplicate-free list is duplicate-free: "exactly once" carries over *)
Lemma sublist_NoDup {A} (a b : list A) : sublist a b -> NoDup b -> NoDup a.
Proof.
  induction 1; intros N; auto.
  - inversion N; auto.
  - inversion N; subst. constructor; auto. intros I. eauto using sublist_In.
Qed.

(** * partially loaded: an in-order subsequence *)
Lemma visit_children_sublist {B} ld (f : hdr -> anode -> list B) (g : anode -> list B) : forall cs hs,
  Forall (fun c => forall h, sublist (f h c) (g c)) cs ->
  sublist (visit_children ld f hs cs) (flat_map g cs).
Proof.
  induction cs as [|c r IH]; intros hs HF.
  - cbn. apply sl_nil.
  - destruct hs as [|h hs]; [cbn [visit_children flat_map]; apply sublist_nil_l|].
    cbn [visit_children flat_map].
    pose proof (Forall_inv HF) as H1. pose proof (Forall_inv_tail HF) as H2.
    apply sublist_app; [|apply IH; exact H2].
    destruct (ld h); [apply H1|apply sublist_nil_l].
Qed.

Lemma iter_loaded_sublist loaded n : sublist (iter_loaded loaded n) (to_list n).
Proof.
  induction n as [h nx es|h hs sums cs IH] using anode_ind'; cbn [iter_loaded to_list].
  - apply sublist_filter.
  - apply visit_children_sublist. eapply Forall_impl; [|exact IH]. cbn beta. intros c H _. exact H.
Qed.

(** * everything loaded: the full enumeration *)
Lemma hdrs_agree_children cs :
  (fix go (l : list anode) : Prop := match l with [] => True | c :: r => hdrs_agree c /\ go r end) cs
  <-> Forall hdrs_agree cs.
Proof.
  induction cs as [|c r IH]; split; intros H; auto.
  - destruct H as [H1 H2]. constructor; [exact H1|apply IH; exact H2].
  - split; [exact (Forall_inv H)|apply IH; exact (Forall_inv_tail H)].
Qed.

Lemma hdrs_agree_AM h hs sums cs :
  hdrs_agree (AM h hs sums cs) -> length hs = length cs /\ Forall hdrs_agree cs.
Proof.
  cbn [hdrs_agree]. intros [Hids Hch]. split; [|apply hdrs_agree_children; exact Hch].
  apply (f_equal (@length N)) in Hids. rewrite !map_length in Hids. exact Hids.
Qed.

Lemma filter_all {A} (f : A -> bool) l : (forall x, f x = true) -> filter f l = l.
Proof. intros H. induction l as [|x l IH]; cbn [filter]; [reflexivity|]. rewrite H, IH. reflexivity. Qed.

(* all children visited, each expanded as [g] says *)
Lemma visit_children_all {B} ld (f : hdr -> anode -> list B) (g : anode -> list B) : forall cs hs,
  length hs = length cs -> (forall h, ld h = true) ->
  Forall (fun c => forall h, f h c = g c) cs ->
  visit_children ld f hs cs = flat_map g cs.
Proof.
  induction cs as [|c r IH]; intros hs Hlen HL HF; [reflexivity|].
  destruct hs as [|h hs]; [discriminate|]. cbn [visit_children flat_map].
  rewrite HL, (Forall_inv HF h). f_equal. apply IH; auto.
  exact (Forall_inv_tail HF).
Qed.

Lemma iter_loaded_all loaded n :
  (forall id, loaded id = true) -> hdrs_agree n -> iter_loaded loaded n = to_list n.
Proof.
  intros HL.
  induction n as [h nx es|h hs sums cs IH] using anode_ind'; intros HA; cbn [iter_loaded to_list].
  - apply filter_all. intros e. unfold elem_loaded. rewrite HL. apply orb_true_r.
  - apply hdrs_agree_AM in HA. destruct HA as [Hlen Hch].
    apply visit_children_all; auto.
    rewrite Forall_forall in *. intros c Hin _. apply IH; auto.
Qed.

(** * exact characterisation (the harness oracle): yielded <=> path and element loaded *)
Lemma reach_false loaded n : map fst (filter snd (reach loaded false n)) = [].
Proof.
  induction n as [h nx es|h hs sums cs IH] using anode_ind'; cbn [reach].
  - induction es as [|e r IHe]; cbn; auto.
  - cbn [andb]. revert hs. induction cs as [|c r IHr]; intros hs; [reflexivity|].
    destruct hs as [|h0 hs]; [reflexivity|].
    cbn [visit_children]. rewrite filter_app, map_app.
    rewrite (Forall_inv IH). cbn [app]. apply IHr. exact (Forall_inv_tail IH).
Qed.

Lemma iter_loaded_reach loaded n :
  iter_loaded loaded n = map fst (filter snd (reach loaded true n)).
Proof.
  induction n as [h nx es|h hs sums cs IH] using anode_ind'; cbn [iter_loaded reach].
  - induction es as [|e r IHe]; cbn [filter map]; [reflexivity|].
    cbn [andb snd]. destruct (elem_loaded loaded e); cbn [map fst]; rewrite IHe; reflexivity.
  - revert hs. induction cs as [|c r IHr]; intros hs; [reflexivity|].
    destruct hs as [|h0 hs]; [reflexivity|].
    cbn [visit_children]. rewrite filter_app, map_app.
    rewrite (IHr (Forall_inv_tail IH)). f_equal. cbn [andb].
    destruct (loaded (h_id h0)); [exact (Forall_inv IH)|symmetry; apply reach_false].
Qed.

Lemma reach_to_list loaded ok n : hdrs_agree n -> map fst (reach loaded ok n) = to_list n.
Proof.
  revert ok.
  induction n as [h nx es|h hs sums cs IH] using anode_ind'; intros ok HA; cbn [reach to_list].
  - rewrite map_map. cbn [fst]. apply map_id.
  - apply hdrs_agree_AM in HA. destruct HA as [Hlen Hch].
    revert hs Hlen. induction cs as [|c r IHr]; intros hs Hlen; [reflexivity|].
    destruct hs as [|h0 hs]; [discriminate|].
    cbn [visit_children flat_map]. rewrite map_app.
    rewrite (Forall_inv IH _ (Forall_inv Hch)). f_equal.
    apply (IHr (Forall_inv_tail IH) (Forall_inv_tail Hch)). cbn [length] in Hlen. lia.
Qed.

(** * the array invariant provides [hdrs_agree] *)
Lemma wfn_hdrs_agree c : forall d n, wfn c d n -> hdrs_agree n.
Proof.
  intros d n. revert d.
  induction n as [h nx es|h hs sums cs IH] using anode_ind'; intros d H; cbn [hdrs_agree]; [exact I|].
  inversion H as [|d' ? ? ? ? Hcs _ Hhs _ _ _]; subst. split.
  - rewrite map_map. reflexivity.
  - apply hdrs_agree_children. clear H. induction cs as [|c0 r IHr]; constructor.
    + exact (Forall_inv IH _ (Forall_inv Hcs)).
    + exact (IHr (Forall_inv_tail IH) (Forall_inv_tail Hcs)).
Qed.

Lemma wf_root_hdrs_agree c n : wf_root c n -> hdrs_agree n.
Proof.
  intros H. inversion H; subst; [exact I|]. eapply wfn_hdrs_agree; eassumption.
Qed.
