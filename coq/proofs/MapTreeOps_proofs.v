(* MapTreeOps_proofs.v — one operation on a subtree of the map slab tree (MapTree.n_set, n_remove):
   for every legal slab size, every digest assignment and every subtree satisfying the invariant
   [mwfn], the operation through the index slabs does exactly what the ELEMENT level does on the one
   logical hkeyElements of the subtree ([gtree n] = [elems_of_tree n]): it fails exactly when the
   element level fails (same error: key not found, collision limit), otherwise the outputs (previous
   value, removed pair) are the element level's, the resulting subtree's logical hkeyElements IS the
   element level's result, and the subtree is again well-formed, of the same height, with the same
   identity and sibling link, and at most one element cost / one header above its old size.
     1. the logical hkeyElements of a subtree;
     2. routing (M2): Set's and Get/Remove's binary searches pick the child whose key range
        contains the digest;
     3. locality of the element-level Set / Remove on a sorted hkeyElements;
     4. leaves; 5. subtrees by induction on the height (M3). *)
From Coq Require Import ZArith NArith List Bool Arith Lia ZifyBool ZifyN ZifyNat Sorted.
From AtreeGen Require Import Consts.
From AtreeModel Require Import Settings MapElems MapElemsInv MapTree MapTreeInv.
From AtreeProofs Require Import Settings_proofs ArrayList_lemmas MapElems_proofs MapTree_proofs
  MapRebalance_proofs MapFixup_proofs.
Import ListNotations.
Local Open Scope N_scope.
Ltac Zify.zify_post_hook ::= Z.div_mod_to_equations.

(** * 1. the logical hkeyElements of a subtree *)
Definition gtree (n : mnode) : melems :=
  HKey 0 (keys_of n) (elems_flat n) (hk_recompute (elems_flat n)).

Lemma flat_map_flat_map {A B C} (f : B -> list C) (g : A -> list B) l :
  flat_map f (flat_map g l) = flat_map (fun a => flat_map f (g a)) l.
Proof. induction l as [|a l IH]; [reflexivity|]. cbn [flat_map]. rewrite flat_map_app, IH. reflexivity. Qed.

Lemma flat_map_ext_Forall {A B} (f g : A -> list B) l : Forall (fun a => f a = g a) l -> flat_map f l = flat_map g l.
Proof. induction 1 as [|a l Ha _ IH]; [reflexivity|]. cbn [flat_map]. rewrite Ha, IH. reflexivity. Qed.

Lemma op_fuel_S' levels : op_fuel levels = S (3 * levels + 3).
Proof. unfold op_fuel. lia. Qed.

Lemma hkr_app a b : hk_recompute (a ++ b) + HP = hk_recompute a + hk_recompute b.
Proof. rewrite !hk_recompute_eq, map_app, Nsum_app. unfold HP. lia. Qed.
Lemma hkr_cons e a : hk_recompute (e :: a) = hk_recompute a + ecost e.
Proof. rewrite !hk_recompute_eq. cbn [map]. rewrite Nsum_cons. unfold ecost. lia. Qed.
Lemma hkr_mid a e b : hk_recompute (a ++ e :: b) = hk_recompute (a ++ b) + ecost e.
Proof. rewrite !hk_recompute_eq, !map_app. cbn [map]. rewrite !Nsum_app, Nsum_cons. unfold ecost. lia. Qed.
Lemma hkr_ge a : HP <= hk_recompute a.
Proof. rewrite hk_recompute_eq. unfold HP. lia. Qed.

(** * 2. routing *)
Lemma route_bs_ans : forall fuel hs hk i j ans,
  route_bs fuel hs hk i j ans = match route_bs fuel hs hk i j None with Some p => Some p | None => ans end.
Proof.
  induction fuel as [|f IH]; intros hs hk i j ans; cbn [route_bs]; [reflexivity|].
  destruct (i <? j)%nat; [|reflexivity].
  destruct (hk <? mh_first (nth ((i + j) / 2) hs (mkmhdr 0 0 0))).
  - apply IH.
  - rewrite (IH hs hk (S ((i + j) / 2)) j (Some ((i + j) / 2)%nat)).
    destruct (route_bs f hs hk (S ((i + j) / 2)) j None); reflexivity.
Qed.

Lemma route_set_get hs hk : route_set hs hk = match route_get hs hk with Some p => p | None => 0%nat end.
Proof. unfold route_set, route_get. rewrite route_bs_ans. destruct (route_bs _ _ _ _ _ None); reflexivity. Qed.

Section WithT.
Variable dg : N -> nat -> N.
Variable levels : nat.
Variable T : N.
Hypothesis HT : valid_T T.
Hypothesis Hlv : (0 < levels)%nat.
Variable limit : N.
Local Notation c := (set_threshold T).
Local Notation M := (cinl_melem (set_threshold T)).
Local Notation mwfn := (mwfn dg levels c).
Local Notation in_band := (in_band c).
Local Notation kids_ok := (kids_ok dg levels T).
Local Notation slack := (slack T).
Local Notation ewf_e := (ewf_e dg levels).
Local Notation ewf_g := (ewf_g dg levels).
Local Notation fix_good := (fix_good dg levels T).
Local Notation set_elems := (set_elems dg levels M limit).
Local Notation set_elem := (set_elem dg levels M limit).
Local Notation remove_elems := (remove_elems dg levels).
Local Notation remove_elem := (remove_elem dg levels).
Local Notation n_set := (n_set dg levels M limit c).
Local Notation n_remove := (n_remove dg levels c).

Local Notation nfacts := (nfacts dg levels T HT Hlv).
Local Notation mwfn_0_inv := (mwfn_0_inv dg levels T).
Local Notation mwfn_S_inv := (mwfn_S_inv dg levels T HT Hlv).

(* what the invariant says about the flattened contents of a subtree *)
Lemma mwfn_flat : forall d n, mwfn d n ->
  Forall2 (ewf_e 0) (keys_of n) (elems_flat n) /\ Forall (elem_ok c) (elems_flat n) /\ Nsum (map (fun g => msize g - HP) (leaves n)) + HP = hk_recompute (elems_flat n) /\ to_list_tree n = flat_map to_list_e (elems_flat n).
Proof.
  induction d as [|d IH]; intros n Hw.
  - destruct (mwfn_0_inv _ Hw) as (h & nx & hks & els & -> & Hs & HF & He & Hf & Hsz).
    cbn [keys_of elems_flat g_hkeys g_elems leaves map msize to_list_tree to_list].
    repeat split; auto. rewrite Nsum_cons. change (Nsum []) with 0. pose proof (hkr_ge els). lia.
  - destruct (mwfn_S_inv _ _ Hw) as (h & cs & -> & (Hws & Hbs) & Hne & Hsz & Hf & Hs).
    cbn [keys_of elems_flat leaves to_list_tree].
    assert (Hall : Forall (fun ch => Forall2 (ewf_e 0) (keys_of ch) (elems_flat ch) /\ Forall (elem_ok c) (elems_flat ch) /\ Nsum (map (fun g => msize g - HP) (leaves ch)) + HP = hk_recompute (elems_flat ch) /\ to_list_tree ch = flat_map to_list_e (elems_flat ch)) cs).
    { eapply Forall_impl; [|exact Hws]. intros a Ha. apply IH, Ha. }
    clear - Hall. induction Hall as [|ch r (A1 & A2 & A3 & A4) _ (B1 & B2 & B3 & B4)].
    + cbn. repeat split; constructor.
    + cbn [flat_map]. repeat split.
      * apply Forall2_app; assumption.
      * apply Forall_app; split; assumption.
      * rewrite map_app, Nsum_app. pose proof (hkr_app (elems_flat ch) (flat_map elems_flat r)). lia.
      * rewrite flat_map_app, A4, B4. reflexivity.
Qed.

Lemma elems_of_tree_gtree d n : mwfn d n -> elems_of_tree n = gtree n.
Proof.
  intros Hw. destruct (mwfn_flat d n Hw) as (_ & _ & Hz & _).
  unfold elems_of_tree, elems_of_leaves, gtree. rewrite leaves_keys, leaves_elems. f_equal.
  rewrite (fold_left_Nsum (fun g => msize g - HP)). lia.
Qed.

Lemma gtree_wf d n : mwfn d n -> ewf_g 0 (gtree n).
Proof.
  intros Hw. destruct (mwfn_flat d n Hw) as (HF & _). destruct (nfacts d n Hw) as (_ & Hs & _).
  unfold gtree. constructor; auto.
Qed.

Lemma gtree_to_list n : to_list (gtree n) = flat_map to_list_e (elems_flat n).
Proof. reflexivity. Qed.

Lemma to_list_tree_gtree d n : mwfn d n -> to_list_tree n = to_list (gtree n).
Proof. intros Hw. apply (mwfn_flat d n Hw). Qed.

Lemma flat_len d cs : Forall (mwfn d) cs -> length (flat_map keys_of cs) = length (flat_map elems_flat cs).
Proof. intros H. apply (flat_lengths c). eapply Forall_impl; [|exact H]. intros a Ha. apply (nfacts d a Ha). Qed.

(* M2: the child picked by Set's binary search ([route_set]; Get/Remove: [route_get]) is the one
   whose key range contains the digest: every digest stored left of it is smaller, every digest
   stored right of it is larger; "not found" by [route_get] means the digest is below every stored
   digest, and Set then goes to child 0 *)
Lemma route_split d cs hk :
  kids_ok d cs -> cs <> [] -> ssorted (flat_map keys_of cs) ->
  exists pre ch post, cs = pre ++ ch :: post /\ route_set (map hdr_of cs) hk = length pre /\ Forall (fun y => y < hk) (flat_map keys_of pre) /\ Forall (fun y => hk < y) (flat_map keys_of post) /\ (route_get (map hdr_of cs) hk = Some (length pre) \/
     (route_get (map hdr_of cs) hk = None /\ pre = [] /\ Forall (fun y => hk < y) (keys_of ch))).
Proof.
  intros (Hws & Hbs) Hne HS.
  assert (HF : Forall (node_facts c) cs) by (eapply kids_facts; eassumption).
  pose proof (firsts_sorted c cs HF Hbs HS) as HFS.
  assert (Hmono : forall a b, (a < b < length (map hdr_of cs))%nat ->
                              firstk (map hdr_of cs) a <= firstk (map hdr_of cs) b).
  { intros a b Hab. rewrite !firstk_map. rewrite map_length in Hab.
    pose proof (ssorted_nth _ HFS a b) as Hlt. rewrite map_length in Hlt. specialize (Hlt Hab). lia. }
  pose proof (route_get_spec (map hdr_of cs) hk Hmono) as HR.
  rewrite route_set_get.
  destruct (route_get (map hdr_of cs) hk) as [p|].
  - destruct HR as (Hp & Hlo & Hhi). rewrite map_length in Hp, Hhi.
    destruct (split_at cs p Hp) as (C1 & ch & C3 & -> & HlC).
    exists C1, ch, C3. split; [reflexivity|]. split; [symmetry; exact HlC|].
    apply Forall_app in HF. destruct HF as [HF1 HF23].
    pose proof (Forall_inv HF23) as Fch. pose proof (Forall_inv_tail HF23) as HF3.
    apply Forall_app in Hbs. destruct Hbs as [HB1 HB23].
    pose proof (Forall_inv HB23) as Bch. pose proof (Forall_inv_tail HB23) as HB3.
    destruct Fch as (Lch & Sch & F1 & N1). specialize (N1 Bch).
    rewrite flat_map_app in HS. cbn [flat_map] in HS.
    assert (Efp : firstk (map hdr_of (C1 ++ ch :: C3)) p = hd 0 (keys_of ch)).
    { unfold firstk. rewrite map_app. cbn [map]. rewrite <- HlC, <- (map_length hdr_of C1).
      rewrite app_nth2 by lia. rewrite Nat.sub_diag. cbn [nth]. exact F1. }
    rewrite Efp in Hlo.
    split; [|split; [|left; rewrite HlC; reflexivity]].
    + rewrite Forall_forall. intros y Hy.
      pose proof (ssorted_app_lt _ _ HS y (hd 0 (keys_of ch)) Hy) as Hlt.
      specialize (Hlt ltac:(apply in_or_app; left; apply hd_In; assumption)). lia.
    + rewrite Forall_forall. intros y Hy. destruct C3 as [|c3 C3']; [destruct Hy|].
      destruct (ssorted_app_inv2 _ _ HS) as [_ HS2]. destruct (ssorted_app_inv2 _ _ HS2) as [_ HS3].
      pose proof (ssorted_hd_le _ _ HS3 Hy) as Hle.
      destruct (Forall_inv HF3) as (_ & _ & F3 & N3). specialize (N3 (Forall_inv HB3)).
      cbn [flat_map] in Hle. rewrite hd_app_ne in Hle by assumption.
      specialize (Hhi (S p)). rewrite app_length in Hhi. cbn [length] in Hhi. specialize (Hhi ltac:(lia)).
      assert (Efs : firstk (map hdr_of (C1 ++ ch :: c3 :: C3')) (S p) = hd 0 (keys_of c3)).
      { unfold firstk. rewrite map_app. cbn [map]. rewrite <- HlC, <- (map_length hdr_of C1).
        rewrite app_nth2 by lia. replace (S (length (map hdr_of C1)) - length (map hdr_of C1))%nat with 1%nat by lia.
        cbn [nth]. exact F3. }
      rewrite Efs in Hhi. lia.
  - destruct cs as [|c0 r]; [congruence|]. exists [], c0, r. split; [reflexivity|]. split; [reflexivity|].
    destruct (Forall_inv HF) as (_ & S0 & F0 & N0). specialize (N0 (Forall_inv Hbs)).
    specialize (HR 0%nat). cbn [map length] in HR. specialize (HR ltac:(lia)).
    unfold firstk in HR. cbn [nth map] in HR. rewrite F0 in HR.
    cbn [flat_map] in HS.
    assert (Hall : Forall (fun y => hk < y) (keys_of c0 ++ flat_map keys_of r)).
    { rewrite Forall_forall. intros y Hy. pose proof (ssorted_hd_le _ _ HS Hy) as Hle.
      rewrite hd_app_ne in Hle by assumption. lia. }
    apply Forall_app in Hall. destruct Hall as (Ha & Hb).
    split; [constructor|]. split; [exact Hb|]. right. auto.
Qed.

(** * 3. locality of the element-level Set / Remove on a sorted hkeyElements: the digests A left of
    the block [hks] are smaller than the key's digest, the digests B right of it larger *)
Lemma split_len {A} (els : list A) n m : length els = (n + m)%nat ->
  exists E1 E3, els = E1 ++ E3 /\ length E1 = n /\ length E3 = m.
Proof.
  intros H. exists (firstn n els), (skipn n els). split; [symmetry; apply firstn_skipn|].
  rewrite firstn_length, skipn_length. lia.
Qed.

Lemma sorted_block A hks B : ssorted (A ++ hks ++ B) -> ssorted hks.
Proof. intros Hs. apply ssorted_app_inv2 in Hs. destruct Hs as (_ & Hs). apply ssorted_app_inv2 in Hs. tauto. Qed.

Lemma set_elems_local f A hks B EA els EB k v a :
  ssorted (A ++ hks ++ B) -> length EA = length A -> length els = length hks -> length EB = length B ->
  Forall (fun y => y < dg (kid k) 0) A -> Forall (fun y => dg (kid k) 0 < y) B ->
  set_elems (S f) (HKey 0 (A ++ hks ++ B) (EA ++ els ++ EB) (hk_recompute (EA ++ els ++ EB))) 0 k v a =
  match set_elems (S f) (HKey 0 hks els (hk_recompute els)) 0 k v a with
  | inl e => inl e
  | inr (g', prev, a', evs) =>
    inr (HKey 0 (A ++ g_hkeys g' ++ B) (EA ++ g_elems g' ++ EB) (hk_recompute (EA ++ g_elems g' ++ EB)), prev, a', evs)
  end.
Proof.
  intros Hs LA Le LB FA FB. set (h := dg (kid k) 0) in *.
  pose proof (sorted_block _ _ _ Hs) as Hs'.
  destruct (hks_split h hks Hs') as [(H1 & H3 & ->)|(H1 & H3 & -> & F1 & F3)].
  - destruct (split_len els (length H1) (S (length H3))) as (E1 & E3' & -> & L1 & L3).
    { rewrite Le, app_length. reflexivity. }
    destruct E3' as [|e E3]; [discriminate|].
    replace (A ++ (H1 ++ h :: H3) ++ B) with ((A ++ H1) ++ h :: (H3 ++ B)) in * by (rewrite <- !app_assoc; reflexivity).
    replace (EA ++ (E1 ++ e :: E3) ++ EB) with ((EA ++ E1) ++ e :: (E3 ++ EB)) by (rewrite <- !app_assoc; reflexivity).
    rewrite (set_HKey_found dg levels M limit f 0 (A ++ H1) h (H3 ++ B) (EA ++ E1) e (E3 ++ EB));
      [|assumption|assumption|rewrite !app_length; lia|reflexivity].
    rewrite (set_HKey_found dg levels M limit f 0 H1 h H3 E1 e E3); [|assumption|assumption|assumption|reflexivity].
    destruct (limit_check dg levels limit f 0 e 0 (kid k)); [reflexivity|].
    destruct (set_elem f e 0 k v a) as [|[[[e' prev] a'] evs]]; [reflexivity|].
    cbn [g_hkeys g_elems]. rewrite <- !app_assoc. reflexivity.
  - destruct (split_len els (length H1) (length H3)) as (E1 & E3 & -> & L1 & L3).
    { rewrite Le, app_length. reflexivity. }
    replace (A ++ (H1 ++ H3) ++ B) with ((A ++ H1) ++ (H3 ++ B)) in * by (rewrite <- !app_assoc; reflexivity).
    replace (EA ++ (E1 ++ E3) ++ EB) with ((EA ++ E1) ++ (E3 ++ EB)) by (rewrite <- !app_assoc; reflexivity).
    rewrite (set_HKey_notfound dg levels M limit f 0 (A ++ H1) (H3 ++ B) (EA ++ E1) (E3 ++ EB));
      [|assumption|assumption|rewrite !app_length; lia|rewrite !app_length; lia
       |apply Forall_app; split; assumption|apply Forall_app; split; assumption].
    rewrite (set_HKey_notfound dg levels M limit f 0 H1 H3 E1 E3); try assumption.
    cbn [g_hkeys g_elems]. fold h.
    replace (A ++ (H1 ++ h :: H3) ++ B) with ((A ++ H1) ++ h :: (H3 ++ B)) by (rewrite <- !app_assoc; reflexivity).
    replace (EA ++ (E1 ++ ESingle k v :: E3) ++ EB) with ((EA ++ E1) ++ ESingle k v :: (E3 ++ EB)) by (rewrite <- !app_assoc; reflexivity).
    rewrite (hkr_mid (EA ++ E1)). unfold ecost. cbn [esize].
    replace (ssize k v + c_digestSize) with (c_digestSize + ssize k v) by lia. reflexivity.
Qed.

Lemma remove_elems_local f A hks B EA els EB k :
  ssorted (A ++ hks ++ B) -> length EA = length A -> length els = length hks -> length EB = length B ->
  Forall (fun y => y < dg k 0) A -> Forall (fun y => dg k 0 < y) B ->
  remove_elems (S f) (HKey 0 (A ++ hks ++ B) (EA ++ els ++ EB) (hk_recompute (EA ++ els ++ EB))) 0 k =
  match remove_elems (S f) (HKey 0 hks els (hk_recompute els)) 0 k with
  | inl e => inl e
  | inr (g', kvp, evs) =>
    inr (HKey 0 (A ++ g_hkeys g' ++ B) (EA ++ g_elems g' ++ EB) (hk_recompute (EA ++ g_elems g' ++ EB)), kvp, evs)
  end.
Proof.
  intros Hs LA Le LB FA FB. set (h := dg k 0) in *.
  pose proof (sorted_block _ _ _ Hs) as Hs'.
  destruct (hks_split h hks Hs') as [(H1 & H3 & ->)|(H1 & H3 & -> & F1 & F3)].
  - destruct (split_len els (length H1) (S (length H3))) as (E1 & E3' & -> & L1 & L3).
    { rewrite Le, app_length. reflexivity. }
    destruct E3' as [|e E3]; [discriminate|].
    replace (A ++ (H1 ++ h :: H3) ++ B) with ((A ++ H1) ++ h :: (H3 ++ B)) in * by (rewrite <- !app_assoc; reflexivity).
    replace (EA ++ (E1 ++ e :: E3) ++ EB) with ((EA ++ E1) ++ e :: (E3 ++ EB)) by (rewrite <- !app_assoc; reflexivity).
    rewrite (remove_HKey_found dg levels f 0 (A ++ H1) h (H3 ++ B) (EA ++ E1) e (E3 ++ EB));
      [|assumption|assumption|rewrite !app_length; lia|reflexivity].
    rewrite (remove_HKey_found dg levels f 0 H1 h H3 E1 e E3); [|assumption|assumption|assumption|reflexivity].
    destruct (remove_elem f e 0 k) as [|[[[e'|] kvp] evs]]; [reflexivity| |].
    + cbn [g_hkeys g_elems].
      replace (A ++ (H1 ++ h :: H3) ++ B) with ((A ++ H1) ++ h :: (H3 ++ B)) by (rewrite <- !app_assoc; reflexivity).
      replace (EA ++ (E1 ++ e' :: E3) ++ EB) with ((EA ++ E1) ++ e' :: (E3 ++ EB)) by (rewrite <- !app_assoc; reflexivity).
      rewrite !(hkr_mid (EA ++ E1)). unfold ecost.
      replace (hk_recompute ((EA ++ E1) ++ E3 ++ EB) + (esize e + c_digestSize) + esize e' - esize e)
        with (hk_recompute ((EA ++ E1) ++ E3 ++ EB) + (esize e' + c_digestSize)) by lia.
      reflexivity.
    + cbn [g_hkeys g_elems].
      replace (A ++ (H1 ++ H3) ++ B) with ((A ++ H1) ++ (H3 ++ B)) by (rewrite <- !app_assoc; reflexivity).
      replace (EA ++ (E1 ++ E3) ++ EB) with ((EA ++ E1) ++ (E3 ++ EB)) by (rewrite <- !app_assoc; reflexivity).
      rewrite (hkr_mid (EA ++ E1)). unfold ecost.
      replace (hk_recompute ((EA ++ E1) ++ E3 ++ EB) + (esize e + c_digestSize) - (c_digestSize + esize e))
        with (hk_recompute ((EA ++ E1) ++ E3 ++ EB)) by lia.
      reflexivity.
  - replace (A ++ (H1 ++ H3) ++ B) with ((A ++ H1) ++ (H3 ++ B)) in * by (rewrite <- !app_assoc; reflexivity).
    rewrite (remove_HKey_notfound dg levels f 0 (A ++ H1) (H3 ++ B));
      [|assumption|assumption|apply Forall_app; split; assumption|apply Forall_app; split; assumption].
    rewrite (remove_HKey_notfound dg levels f 0 H1 H3); try assumption. reflexivity.
Qed.

(* below every stored digest: nothing to remove *)
Lemma remove_elems_below f hks els sz k :
  ssorted hks -> Forall (fun y => dg k 0 < y) hks ->
  remove_elems (S f) (HKey 0 hks els sz) 0 k = inl EKeyNotFound.
Proof.
  intros Hs HF. apply (remove_HKey_notfound dg levels f 0 [] hks); auto.
Qed.

(** * 4. leaves *)
(* [ks]: the encoded size of a key is a function of the key (keys are compared by identity in the
   model); a stored pair respects the single-element limit maxInlineMapElementSize *)
Variable ks : N -> N.
Definition pair_ok (p : kv * kv) : Prop :=
  ksz (fst p) = ks (kid (fst p)) /\ ssize (fst p) (snd p) <= M.
Definition pairs_ok (d : dict) : Prop := Forall pair_ok d.

Lemma d_replace_pairs d k v : pairs_ok d -> pair_ok (k, v) -> pairs_ok (d_replace d (kid k) v).
Proof.
  intros Hd (Hk1 & Hk2). cbn [fst snd] in *. induction Hd as [|p d Hp Hd IH]; cbn [d_replace]; [constructor|].
  destruct (kid (fst p) =? kid k) eqn:E.
  - apply N.eqb_eq in E. constructor; [|exact Hd]. destruct Hp as (Hp1 & Hp2). split; cbn [fst snd]; [exact Hp1|].
    unfold ssize in *. rewrite Hp1, E, <- Hk1. exact Hk2.
  - constructor; assumption.
Qed.

Lemma d_set_from_pairs n l d k v : pairs_ok d -> pair_ok (k, v) -> pairs_ok (d_set_from dg n l d k v).
Proof.
  intros Hd Hk. unfold d_set_from. destruct (d_get d (kid k)).
  - apply d_replace_pairs; assumption.
  - apply d_ins_from_Forall; assumption.
Qed.

Lemma M_ge : 21 <= M.
Proof. mcfg_lia. Qed.

Lemma elem_ok_of es : Forall (inl_ok_e M) es -> pairs_ok (flat_map to_list_e es) -> Forall (elem_ok c) es.
Proof.
  induction 1 as [|e es He _ IH]; intros Hp; [constructor|]. cbn [flat_map] in Hp.
  apply Forall_app in Hp. destruct Hp as (Hpe & Hpr). constructor; [|apply IH, Hpr].
  unfold elem_ok. destruct e as [k v|[id|] g]; cbn [esize].
  - cbn [to_list_e] in Hpe. apply Forall_inv in Hpe. apply Hpe.
  - pose proof M_ge. unfold c_externalCollisionGroupPrefixSize, c_slabIDStorableSize. lia.
  - exact He.
Qed.

Lemma inl_ok_of es : Forall (elem_ok c) es -> Forall (inl_ok_e M) es.
Proof.
  apply Forall_impl. intros e He. destruct e as [k v|[id|] g]; cbn [inl_ok_e]; try exact I. exact He.
Qed.

Lemma ecost_le e : elem_ok c e -> ecost e <= Emax c.
Proof. unfold elem_ok, ecost, Emax. lia. Qed.

Lemma set_size_slack f hks els k v a g' prev a' evs :
  ssorted hks -> length els = length hks ->
  set_elems (S f) (HKey 0 hks els (hk_recompute els)) 0 k v a = inr (g', prev, a', evs) ->
  Forall (elem_ok c) (g_elems g') -> msize g' <= hk_recompute els + Emax c.
Proof.
  intros Hs Le E Hok. set (h := dg (kid k) 0) in *.
  destruct (hks_split h hks Hs) as [(H1 & H3 & ->)|(H1 & H3 & -> & F1 & F3)].
  - destruct (split_len els (length H1) (S (length H3))) as (E1 & E3' & -> & L1 & L3).
    { rewrite Le, app_length. reflexivity. }
    destruct E3' as [|e E3]; [discriminate|].
    rewrite (set_HKey_found dg levels M limit f 0 H1 h H3 E1 e E3) in E; [|assumption|assumption|assumption|reflexivity].
    destruct (limit_check dg levels limit f 0 e 0 (kid k)); [discriminate|].
    destruct (set_elem f e 0 k v a) as [|[[[e' prev'] a''] evs']]; [discriminate|].
    injection E as <- _ _ _. unfold msize, g_elems in *. rewrite !hkr_mid.
    apply Forall_app in Hok. destruct Hok as (_ & Hok). apply Forall_inv in Hok. pose proof (ecost_le _ Hok). lia.
  - destruct (split_len els (length H1) (length H3)) as (E1 & E3 & -> & L1 & L3).
    { rewrite Le, app_length. reflexivity. }
    rewrite (set_HKey_notfound dg levels M limit f 0 H1 H3 E1 E3) in E; try assumption.
    set (sz' := hk_recompute (E1 ++ E3) + (c_digestSize + ssize k v)) in E.
    injection E as <- _ _ _. unfold msize, g_elems in *. subst sz'.
    apply Forall_app in Hok. destruct Hok as (_ & Hok). apply Forall_inv in Hok. apply ecost_le in Hok.
    unfold ecost in Hok. change (esize (ESingle k v)) with (ssize k v) in Hok. lia.
Qed.

Lemma remove_size_slack f hks els k g' kvp evs :
  ssorted hks -> length els = length hks ->
  remove_elems (S f) (HKey 0 hks els (hk_recompute els)) 0 k = inr (g', kvp, evs) ->
  Forall (elem_ok c) (g_elems g') -> msize g' <= hk_recompute els + Emax c.
Proof.
  intros Hs Le E Hok. set (h := dg k 0) in *.
  destruct (hks_split h hks Hs) as [(H1 & H3 & ->)|(H1 & H3 & -> & F1 & F3)].
  - destruct (split_len els (length H1) (S (length H3))) as (E1 & E3' & -> & L1 & L3).
    { rewrite Le, app_length. reflexivity. }
    destruct E3' as [|e E3]; [discriminate|].
    rewrite (remove_HKey_found dg levels f 0 H1 h H3 E1 e E3) in E; [|assumption|assumption|assumption|reflexivity].
    destruct (remove_elem f e 0 k) as [|[[[e'|] kvp'] evs']]; [discriminate| |].
    + injection E as <- _ _. unfold msize, g_elems in *. rewrite !hkr_mid.
      apply Forall_app in Hok. destruct Hok as (_ & Hok). apply Forall_inv in Hok. apply ecost_le in Hok.
      unfold ecost in *. lia.
    + set (sz' := hk_recompute (E1 ++ e :: E3) - (c_digestSize + esize e)) in E.
      injection E as <- _ _. unfold msize. subst sz'. lia.
  - rewrite (remove_HKey_notfound dg levels f 0 H1 H3) in E; try assumption. discriminate.
Qed.

Lemma leaf_set_ok pfx h nx hks els k v alloc :
  ssorted hks -> Forall2 (ewf_e 0) hks els -> Forall (elem_ok c) els ->
  pairs_ok (flat_map to_list_e els) -> pair_ok (k, v) ->
  match set_elems (op_fuel levels) (HKey 0 hks els (hk_recompute els)) 0 k v (alloc + 1) with
  | inl e => leaf_set dg levels M limit pfx h nx (HKey 0 hks els (hk_recompute els)) k v alloc = TErr (TElem e)
  | inr (g', prev, a', evs) =>
    exists hks' els', g' = HKey 0 hks' els' (hk_recompute els') /\
      leaf_set dg levels M limit pfx h nx (HKey 0 hks els (hk_recompute els)) k v alloc =
        TOk (MD (mkmhdr (mh_id h) (pfx + hk_recompute els') (hd 0 hks')) nx g', prev, a' - 1, evs ++ [WStore (mh_id h)]) /\
      ssorted hks' /\ Forall2 (ewf_e 0) hks' els' /\ Forall (elem_ok c) els' /\
      pairs_ok (flat_map to_list_e els') /\
      hk_recompute els' <= hk_recompute els + Emax c
  end.
Proof.
  intros Hs HF He Hp Hkv. unfold leaf_set.
  assert (Hg : ewf_g 0 (HKey 0 hks els (hk_recompute els))) by (constructor; auto).
  destruct (set_elems (op_fuel levels) (HKey 0 hks els (hk_recompute els)) 0 k v (alloc + 1))
    as [e|[[[g' prev] a'] evs]] eqn:E; [reflexivity|].
  destruct (set_spec dg levels M limit (op_fuel levels)) as [_ SG].
  destruct (SG _ 0%nat k v (alloc + 1) ltac:(unfold op_fuel; lia) Hg) as [(_ & Eq & _)|(g'' & a'' & evs'' & Eq & Wg & TL & _)];
    [rewrite Eq in E; discriminate|].
  rewrite Eq in E. injection E as <- _ <- <-.
  pose proof (root_set_inl_ok dg levels M limit _ _ _ _ _ _ _ _ _ Hg (inl_ok_of _ He) Eq) as Hi.
  assert (Hp' : pairs_ok (to_list g'')) by (rewrite TL; apply d_set_from_pairs; assumption).
  inversion Wg as [l' hks' els' sz' Hl' Hs' Hsz' HF'|kvs' sz' Hsz' Hnd' Elv]; [subst|exfalso; clear - Hlv Elv; lia].
  cbn [MapElemsInv.inl_ok] in Hi. cbn [to_list] in Hp'.
  pose proof (elem_ok_of _ Hi Hp') as He'.
  exists hks', els'. split; [reflexivity|]. cbn [msize]. rewrite efirst_hd. split; [reflexivity|].
  repeat split; auto.
  rewrite op_fuel_S' in Eq.
  apply (set_size_slack _ _ _ _ _ _ _ _ _ _ Hs (eq_sym (Forall2_len _ _ _ HF)) Eq He').
Qed.

Lemma leaf_remove_ok pfx h nx hks els k :
  ssorted hks -> Forall2 (ewf_e 0) hks els -> Forall (elem_ok c) els ->
  pairs_ok (flat_map to_list_e els) ->
  match remove_elems (op_fuel levels) (HKey 0 hks els (hk_recompute els)) 0 k with
  | inl e => leaf_remove dg levels pfx h nx (HKey 0 hks els (hk_recompute els)) k = TErr (TElem e)
  | inr (g', kvp, evs) =>
    exists hks' els', g' = HKey 0 hks' els' (hk_recompute els') /\
      leaf_remove dg levels pfx h nx (HKey 0 hks els (hk_recompute els)) k =
        TOk (MD (mkmhdr (mh_id h) (pfx + hk_recompute els') (hd 0 hks')) nx g', kvp, evs ++ [WStore (mh_id h)]) /\
      ssorted hks' /\ Forall2 (ewf_e 0) hks' els' /\ Forall (elem_ok c) els' /\
      pairs_ok (flat_map to_list_e els') /\
      hk_recompute els' <= hk_recompute els + Emax c
  end.
Proof.
  intros Hs HF He Hp. unfold leaf_remove.
  assert (Hg : ewf_g 0 (HKey 0 hks els (hk_recompute els))) by (constructor; auto).
  destruct (remove_elems (op_fuel levels) (HKey 0 hks els (hk_recompute els)) 0 k)
    as [e|[[g' kvp] evs]] eqn:E; [reflexivity|].
  destruct (remove_spec dg levels limit (op_fuel levels)) as [_ RG].
  specialize (RG _ 0%nat k ltac:(unfold op_fuel; lia) Hg).
  destruct (d_get (to_list (HKey 0 hks els (hk_recompute els))) k) as [p|] eqn:D; [|rewrite RG in E; discriminate].
  destruct RG as (g'' & evs'' & Eq & Wg & TL). rewrite Eq in E. injection E as <- <- <-.
  assert (Hfuel : (3 * levels + 3 <= op_fuel levels)%nat) by (unfold op_fuel; lia).
  pose proof (root_remove_inl_ok dg levels M limit _ _ _ _ _ _ Hfuel Hg (inl_ok_of _ He) Eq) as Hi.
  assert (Hp' : pairs_ok (to_list g'')) by (rewrite TL; apply d_remove_Forall; exact Hp).
  inversion Wg as [l' hks' els' sz' Hl' Hs' Hsz' HF'|kvs' sz' Hsz' Hnd' Elv]; [subst|exfalso; clear - Hlv Elv; lia].
  cbn [MapElemsInv.inl_ok] in Hi. cbn [to_list] in Hp'.
  pose proof (elem_ok_of _ Hi Hp') as He'.
  exists hks', els'. split; [reflexivity|]. cbn [msize]. rewrite efirst_hd. split; [reflexivity|].
  repeat split; auto.
  rewrite op_fuel_S' in Eq.
  apply (remove_size_slack _ _ _ _ _ _ _ Hs (eq_sym (Forall2_len _ _ _ HF)) Eq He').
Qed.

(** * 5. subtrees, by induction on the height (M3) *)
Definition kids2 (n : mnode) : Prop :=
  match n with MD _ _ _ => True | MM _ _ cs => (2 <= length cs)%nat end.

Lemma in_band_kids2 d n : mwfn d n -> in_band n -> kids2 n.
Proof.
  intros Hw Hb. destruct d.
  - destruct (mwfn_0_inv _ Hw) as (h & nx & hks & els & -> & _). exact I.
  - destruct (mwfn_S_inv _ _ Hw) as (h & cs & -> & _). cbn [kids2].
    eapply (in_band_index_two dg levels T HT Hlv); eauto.
Qed.

Definition pairs (n : mnode) : Prop := pairs_ok (flat_map to_list_e (elems_flat n)).

Lemma pairs_mid h hs pre ch post : pairs (MM h hs (pre ++ ch :: post)) -> pairs ch.
Proof.
  unfold pairs, pairs_ok. cbn [elems_flat]. rewrite flat_mid1, !flat_map_app, !Forall_app. tauto.
Qed.

(* the subtree after the operation: same height, identity and sibling link; at most one element
   cost (data slab) / one header (index slab) larger *)
Definition upd_post (d : nat) (n n' : mnode) : Prop :=
  mwfn d n' /\ mh_id (hdr_of n') = mh_id (hdr_of n) /\ last_next n' = last_next n /\
  mh_size (hdr_of n') <= mh_size (hdr_of n) + slack n.

Definition set_spec_t (d : nat) (n : mnode) : Prop :=
  forall k v alloc, pair_ok (k, v) ->
  match set_elems (op_fuel levels) (gtree n) 0 k v (alloc + 1) with
  | inl e => n_set P n k v alloc = TErr (TElem e)
  | inr (g', prev, a', evs) =>
    exists n' alloc' lg, n_set P n k v alloc = TOk (n', prev, alloc', lg) /\ gtree n' = g' /\ upd_post d n n'
  end.

Lemma n_set_MM pfx h hs cs k v alloc :
  n_set pfx (MM h hs cs) k v alloc =
  match on_kth (fun ch => n_set P ch k v alloc) cs (route_set hs (dg (kid k) 0)) with
  | None => TErr TSlabNotFound
  | Some (TErr x) => TErr x
  | Some (TOk (ch', prev, alloc', lg)) =>
    match fix_child c h hs cs (route_set hs (dg (kid k) 0)) ch' alloc' with
    | TErr x => TErr x
    | TOk (n', alloc'', lg') => TOk (n', prev, alloc'', lg ++ lg')
    end
  end.
Proof. reflexivity. Qed.

Lemma n_remove_MM pfx h hs cs k alloc :
  n_remove pfx (MM h hs cs) k alloc =
  match route_get hs (dg k 0) with
  | None => TErr (TElem EKeyNotFound)
  | Some i =>
    match on_kth (fun ch => n_remove P ch k alloc) cs i with
    | None => TErr TSlabNotFound
    | Some (TErr x) => TErr x
    | Some (TOk (ch', kvp, alloc', lg)) =>
      match fix_child c h hs cs i ch' alloc' with
      | TErr x => TErr x
      | TOk (n', alloc'', lg') => TOk (n', kvp, alloc'', lg ++ lg')
      end
    end
  end.
Proof. reflexivity. Qed.

Lemma last_next_mid pre ch ch' post :
  last_next ch' = last_next ch ->
  last (map last_next (pre ++ ch' :: post)) 0 = last (map last_next (pre ++ ch :: post)) 0.
Proof. intros H. rewrite !map_app. cbn [map]. rewrite H. reflexivity. Qed.

Lemma two_sib {A} (pre : list A) ch post : (2 <= length (pre ++ ch :: post))%nat -> pre <> [] \/ post <> [].
Proof.
  rewrite app_length. cbn [length]. intros H.
  destruct pre; [right; destruct post; [cbn in H; lia|discriminate]|left; discriminate].
Qed.

Theorem n_set_ok : forall d n, mwfn d n -> kids2 n -> pairs n -> set_spec_t d n.
Proof.
  induction d as [|d IH]; intros n Hw H2 Hp k v alloc Hkv.
  - destruct (mwfn_0_inv _ Hw) as (h & nx & hks & els & -> & Hs & HF & He & Hf & Hsz).
    unfold gtree, pairs in *. cbn [keys_of elems_flat g_hkeys g_elems] in *.
    pose proof (leaf_set_ok P h nx hks els k v alloc Hs HF He Hp Hkv) as L.
    destruct (set_elems (op_fuel levels) (HKey 0 hks els (hk_recompute els)) 0 k v (alloc + 1))
      as [e|[[[g' prev] a'] evs]]; [exact L|].
    destruct L as (hks' & els' & -> & EL & Hs' & HF' & He' & Hp' & Hsl).
    do 3 eexists. split; [exact EL|]. split; [reflexivity|].
    unfold upd_post. cbn [hdr_of mh_id mh_size last_next slack is_data].
    repeat split; auto.
    + apply (mwfn_0_intro dg levels T); auto.
    + rewrite Hsz. lia.
  - destruct (mwfn_S_inv _ _ Hw) as (h & cs & -> & Hk & Hne & Hsz & Hf & Hs).
    cbn [kids2] in H2. rewrite n_set_MM.
    destruct (route_split d cs (dg (kid k) 0) Hk Hne Hs) as (pre & ch & post & -> & Hr & FA & FB & _).
    rewrite Hr, on_kth_app.
    destruct Hk as (Hws & Hbs).
    destruct (kids_split dg levels T d pre ch post Hws Hbs) as (Kpre & Wch & Bch & Kpost).
    pose proof (IH ch Wch (in_band_kids2 d ch Wch Bch) (pairs_mid _ _ _ _ _ Hp) k v alloc Hkv) as IHch.
    (* the element level on the whole subtree, through the block of the routed child *)
    pose proof (gtree_wf _ _ Hw) as Hgw.
    unfold gtree in *. cbn [keys_of elems_flat] in *. rewrite !flat_mid1 in *.
    rewrite op_fuel_S' in *.
    destruct (nfacts d ch Wch) as (Lch & _).
    pose proof (set_elems_local (3 * levels + 3) (flat_map keys_of pre) (keys_of ch) (flat_map keys_of post)
                  (flat_map elems_flat pre) (elems_flat ch) (flat_map elems_flat post) k v (alloc + 1) Hs
                  (eq_sym (flat_len d pre (proj1 Kpre))) (eq_sym Lch) (eq_sym (flat_len d post (proj1 Kpost))) FA FB) as EL.
    destruct (MapElems.set_elems dg levels M limit (S (3 * levels + 3)) (HKey 0 (keys_of ch) (elems_flat ch) (hk_recompute (elems_flat ch))) 0 k v (alloc + 1))
      as [e|[[[g' prev] a'] evs]] eqn:Ech.
    + rewrite EL, IHch. reflexivity.
    + rewrite EL. destruct IHch as (ch' & alloc' & lg & En & Eg & Wch' & Hid & Hln & Hsz').
      rewrite En. cbv beta iota. subst g'. cbn [g_hkeys g_elems] in *.
      (* the whole-level result is well-formed, hence sorted *)
      destruct (set_spec dg levels M limit (S (3 * levels + 3))) as [_ SG].
      destruct (SG _ 0%nat k v (alloc + 1) ltac:(lia) Hgw) as [(_ & Eq & _)|(g'' & a'' & evs'' & Eq & Wg & _)];
        [rewrite Eq in EL; discriminate|].
      rewrite EL in Eq. injection Eq as <- _ _ _.
      inversion Wg as [l' hks' els' sz' Hl' Hs' Hsz0 HF'|]; subst.
      rewrite <- (flat_mid1 keys_of pre ch' post) in Hs'.
      assert (Hhi : mh_size (hdr_of ch') <= cmax c + slack ch').
      { rewrite (slack_eq dg levels T d ch ch' Wch Wch'). destruct Bch as (_ & BX). lia. }
      destruct (fix_child_ok dg levels T HT Hlv d h pre ch ch' post alloc' Kpre Kpost Wch' (two_sib _ _ _ H2) Hs' Hsz Hf Hhi)
        as (n' & alloc'' & lg' & Ef & (G1 & G2 & G3 & G4 & G5) & _ & _ & Hup & _).
      rewrite Ef. exists n', alloc'', (lg ++ lg'). split; [reflexivity|]. split.
      * rewrite G2, G3, !flat_mid1. reflexivity.
      * unfold upd_post. cbn [hdr_of last_next slack is_data]. repeat split; auto.
        rewrite G5. apply last_next_mid. exact Hln.
Qed.

(** ** Remove *)
Definition remove_spec_t (d : nat) (n : mnode) : Prop :=
  forall k alloc,
  match remove_elems (op_fuel levels) (gtree n) 0 k with
  | inl e => n_remove P n k alloc = TErr (TElem e)
  | inr (g', kvp, evs) =>
    exists n' alloc' lg, n_remove P n k alloc = TOk (n', kvp, alloc', lg) /\ gtree n' = g' /\ upd_post d n n'
  end.

Theorem n_remove_ok : forall d n, mwfn d n -> kids2 n -> pairs n -> remove_spec_t d n.
Proof.
  induction d as [|d IH]; intros n Hw H2 Hp k alloc.
  - destruct (mwfn_0_inv _ Hw) as (h & nx & hks & els & -> & Hs & HF & He & Hf & Hsz).
    unfold gtree, pairs in *. cbn [keys_of elems_flat g_hkeys g_elems] in *.
    pose proof (leaf_remove_ok P h nx hks els k Hs HF He Hp) as L.
    cbn [MapTree.n_remove].
    destruct (remove_elems (op_fuel levels) (HKey 0 hks els (hk_recompute els)) 0 k)
      as [e|[[g' kvp] evs]]; [rewrite L; reflexivity|].
    destruct L as (hks' & els' & -> & EL & Hs' & HF' & He' & Hp' & Hsl).
    rewrite EL. do 3 eexists. split; [reflexivity|]. split; [reflexivity|].
    unfold upd_post. cbn [hdr_of mh_id mh_size last_next slack is_data].
    repeat split; auto.
    + apply (mwfn_0_intro dg levels T); auto.
    + rewrite Hsz. lia.
  - destruct (mwfn_S_inv _ _ Hw) as (h & cs & -> & Hk & Hne & Hsz & Hf & Hs).
    cbn [kids2] in H2. rewrite n_remove_MM.
    pose proof (gtree_wf _ _ Hw) as Hgw.
    destruct (route_split d cs (dg k 0) Hk Hne Hs) as (pre & ch & post & -> & Hr & FA & FB & [Hg|(Hg & -> & Fch)]).
    + rewrite Hg, on_kth_app.
      destruct Hk as (Hws & Hbs).
      destruct (kids_split dg levels T d pre ch post Hws Hbs) as (Kpre & Wch & Bch & Kpost).
      pose proof (IH ch Wch (in_band_kids2 d ch Wch Bch) (pairs_mid _ _ _ _ _ Hp) k alloc) as IHch.
      unfold gtree in *. cbn [keys_of elems_flat] in *. rewrite !flat_mid1 in *.
      rewrite op_fuel_S' in *.
      destruct (nfacts d ch Wch) as (Lch & _).
      pose proof (remove_elems_local (3 * levels + 3) (flat_map keys_of pre) (keys_of ch) (flat_map keys_of post)
                    (flat_map elems_flat pre) (elems_flat ch) (flat_map elems_flat post) k Hs
                    (eq_sym (flat_len d pre (proj1 Kpre))) (eq_sym Lch) (eq_sym (flat_len d post (proj1 Kpost))) FA FB) as EL.
      destruct (MapElems.remove_elems dg levels (S (3 * levels + 3)) (HKey 0 (keys_of ch) (elems_flat ch) (hk_recompute (elems_flat ch))) 0 k)
        as [e|[[g' kvp] evs]] eqn:Ech.
      * rewrite EL, IHch. reflexivity.
      * rewrite EL. destruct IHch as (ch' & alloc' & lg & En & Eg & Wch' & Hid & Hln & Hsz').
        rewrite En. cbv beta iota. subst g'. cbn [g_hkeys g_elems] in *.
        destruct (remove_spec dg levels limit (S (3 * levels + 3))) as [_ RG].
        specialize (RG _ 0%nat k ltac:(lia) Hgw).
        destruct (d_get _ k) as [p|]; [|rewrite RG in EL; discriminate].
        destruct RG as (g'' & evs'' & Eq & Wg & _).
        rewrite EL in Eq. injection Eq as <- _ _.
        inversion Wg as [l' hks' els' sz' Hl' Hs' Hsz0 HF'|]; subst.
        rewrite <- (flat_mid1 keys_of pre ch' post) in Hs'.
        assert (Hhi : mh_size (hdr_of ch') <= cmax c + slack ch').
        { rewrite (slack_eq dg levels T d ch ch' Wch Wch'). destruct Bch as (_ & BX). lia. }
        destruct (fix_child_ok dg levels T HT Hlv d h pre ch ch' post alloc' Kpre Kpost Wch' (two_sib _ _ _ H2) Hs' Hsz Hf Hhi)
          as (n' & alloc'' & lg' & Ef & (G1 & G2 & G3 & G4 & G5) & _ & _ & Hup & _).
        rewrite Ef. exists n', alloc'', (lg ++ lg'). split; [reflexivity|]. split.
        -- rewrite G2, G3, !flat_mid1. reflexivity.
        -- unfold upd_post. cbn [hdr_of last_next slack is_data]. repeat split; auto.
           rewrite G5. apply last_next_mid. exact Hln.
    + (* below the first child's firstKey: key not found on both sides *)
      rewrite Hg. unfold gtree. cbn [keys_of elems_flat]. rewrite op_fuel_S'.
      rewrite remove_elems_below; [reflexivity|exact Hs|].
      cbn [app flat_map]. apply Forall_app. split; assumption.
Qed.

(* the prefix argument only matters for a data slab *)
Lemma n_set_pfx_MM pfx h hs cs k v alloc : n_set pfx (MM h hs cs) k v alloc = n_set P (MM h hs cs) k v alloc.
Proof. reflexivity. Qed.
Lemma n_remove_pfx_MM pfx h hs cs k alloc : n_remove pfx (MM h hs cs) k alloc = n_remove P (MM h hs cs) k alloc.
Proof. reflexivity. Qed.

End WithT.
