(* NestedDurable_chain.v — what the notification chain (resync = notify, Nested_resync.v) writes:
   every container whose inlined flag it flips is logged, the log stays consistent with the flags,
   and every register that embeds the start of the chain or the parent of a flipped container is
   logged. *)
From Coq Require Import ZArith NArith List Bool Lia Arith.
From AtreeGen Require Import Consts.
From AtreeModel Require Import Nested NestedDurable.
From AtreeProofs Require Import Nested_base Nested_resync Nested_chain NestedDurable_base.
Import ListNotations.
Local Open Scope N_scope.

Definition dmono (f f' : forest) : Prop := forall x, dirty f' x = None -> dirty f x = None.
Definition lok (f : forest) : Prop := forall v b, dirty f v = Some b -> flag f v = Some (negb b).

Lemma log_ok_lok f : log_ok f <-> lok f.
Proof.
  unfold log_ok, lok, flag. split; intros H v b Hd; specialize (H v b Hd).
  - destruct H as (c & -> & Hi). cbn. now rewrite Hi.
  - destruct (fget f v) as [c|]; cbn in H; [|discriminate]. injection H as H. eauto.
Qed.

Lemma dmono_refl f : dmono f f.
Proof. intros x H. exact H. Qed.
Lemma dmono_trans f1 f2 f3 : dmono f1 f2 -> dmono f2 f3 -> dmono f1 f3.
Proof. intros A B x H. auto. Qed.
Lemma dmono_not_none f f' x : dmono f f' -> dirty f x <> None -> dirty f' x <> None.
Proof. intros A B C. apply B. auto. Qed.

Lemma dirty_flog f v b x : dirty (flog f v b) x = if v =? x then Some b else dirty f x.
Proof. reflexivity. Qed.

(* ---------- Storable(): Inline / Uninline ---------- *)
Lemma storable_flag f t lim x :
  flag (storable f t lim) x = if x =? t then option_map (fun c => inl_size c <=? lim) (fget f t) else flag f x.
Proof.
  unfold flag. rewrite storable_get. destruct (x =? t); auto. destruct (fget f t); auto.
Qed.

Lemma storable_log f t lim :
  storable f t lim = f \/
  exists ct, fget f t = Some ct /\ c_inl ct = negb (inl_size ct <=? lim) /\
    forall x, dirty (storable f t lim) x = if t =? x then Some (negb (inl_size ct <=? lim)) else dirty f x.
Proof.
  unfold storable. destruct (fget f t) as [ct|] eqn:Ect; auto.
  destruct (inl_size ct <=? lim) eqn:Ef, (c_inl ct) eqn:Ei; auto; right; exists ct; rewrite Ef; repeat split; auto.
Qed.

Lemma storable_dmono f t lim : dmono f (storable f t lim).
Proof.
  destruct (storable_log f t lim) as [->|(ct & _ & _ & Hd)]; [apply dmono_refl|].
  intros x. rewrite Hd. destruct (t =? x); [discriminate|auto].
Qed.

Lemma storable_lok f t lim : lok f -> lok (storable f t lim).
Proof.
  intros H. destruct (storable_log f t lim) as [->|(ct & Hct & Hi & Hd)]; auto.
  intros x b. rewrite Hd, storable_flag. rewrite (N.eqb_sym x t). destruct (N.eqb_spec t x) as [<-|Hne].
  - intros [= <-]. rewrite Hct. cbn. now rewrite negb_involutive.
  - apply H.
Qed.

Lemma storable_flip f t lim x : flag (storable f t lim) x <> flag f x -> x = t /\ dirty (storable f t lim) x <> None.
Proof.
  destruct (storable_log f t lim) as [->|(ct & Hct & Hi & Hd)]; [congruence|].
  rewrite storable_flag. destruct (N.eqb_spec x t) as [->|]; [|congruence].
  intros _. split; auto. rewrite Hd, N.eqb_refl. discriminate.
Qed.

(* ---------- the parent's size update ---------- *)
Lemma set_csize_log_flag g f p x : flag (set_csize_log g f p) x = flag f x.
Proof.
  unfold flag. rewrite set_csize_log_get. destruct (N.eqb_spec x p) as [->|]; auto. destruct (fget f p); auto.
Qed.

Lemma set_csize_log_dirty g f p x :
  dirty (set_csize_log g f p) x =
  match fget f p with
  | Some c => if negb (c_inl c) && (p =? x) then Some true else dirty f x
  | None => dirty f x
  end.
Proof.
  unfold set_csize_log. destruct (fget f p) as [c|]; auto. destruct (c_inl c); cbn [negb andb]; auto.
Qed.

Lemma set_csize_log_dmono g f p : dmono f (set_csize_log g f p).
Proof.
  intros x. rewrite set_csize_log_dirty. destruct (fget f p) as [c|]; auto.
  destruct (negb (c_inl c) && (p =? x)); [discriminate|auto].
Qed.

Lemma set_csize_log_lok g f p : lok f -> lok (set_csize_log g f p).
Proof.
  intros H x b. rewrite set_csize_log_dirty, set_csize_log_flag. destruct (fget f p) as [c|] eqn:Ec; [|apply H].
  destruct (c_inl c) eqn:Ei; cbn [negb andb]; [apply H|].
  destruct (N.eqb_spec p x) as [<-|]; [|apply H]. intros [= <-]. unfold flag. rewrite Ec. cbn. now rewrite Ei.
Qed.

Lemma clear_upd_flag f t x : flag (clear_upd f t) x = flag f x.
Proof.
  unfold flag. rewrite clear_upd_get. destruct (N.eqb_spec x t) as [->|]; auto. destruct (fget f t); auto.
Qed.

Lemma clear_upd_lok f t : lok f -> lok (clear_upd f t).
Proof. intros H x b. rewrite clear_upd_dirty, clear_upd_flag. apply H. Qed.

(* ---------- the chain ---------- *)
Lemma optb_dec (a b : option bool) : a = b \/ a <> b.
Proof. destruct a as [[|]|], b as [[|]|]; auto; right; discriminate. Qed.

Lemma ianc_parent f x t : ianc f x t -> x <> t -> exists p i s w, edge f p i s t w /\ inlined f t /\ ianc f x p.
Proof. intros A Hne. destruct A; [congruence|]. eauto 8. Qed.

Lemma stored_flag_eq f f' x : flag f' x = flag f x -> stored f x -> stored f' x.
Proof. intros H Hs. apply flag_stored. rewrite H. now apply flag_stored. Qed.
Lemma inlined_flag_eq f f' x : flag f' x = flag f x -> inlined f x -> inlined f' x.
Proof. intros H Hs. apply flag_inlined. rewrite H. now apply flag_inlined. Qed.

Lemma resync_log n g (lvl : N -> nat) :
  forall m f t f',
    fstruct n g f ->
    (forall p i s v w, edge f p i s v w -> (lvl p < lvl v)%nat) ->
    resync m g f t = (f', true) ->
    dmono f f' /\
    (lok f -> lok f') /\
    (forall v, flag f' v <> flag f v ->
       dirty f' v <> None /\ anc f v t /\
       exists p i s w, edge f p i s v w /\ forall x, stored f x -> ianc f x p -> dirty f' x <> None) /\
    (forall x, stored f x -> ianc f x t -> x <> t -> dirty f' x <> None).
Proof.
  induction m as [|m IH]; intros f t f' HS Hl; cbn [resync]; [discriminate|].
  (* the cases where nothing but (possibly) the callback changes *)
  assert (Hstop : forall f0, (forall x, dirty f0 x = dirty f x) -> (forall x, flag f0 x = flag f x) ->
            ~ (exists p i s w, edge f p i s t w /\ inlined f t) ->
            dmono f f0 /\ (lok f -> lok f0) /\
            (forall v, flag f0 v <> flag f v ->
               dirty f0 v <> None /\ anc f v t /\
               exists p i s w, edge f p i s v w /\ forall x, stored f x -> ianc f x p -> dirty f0 x <> None) /\
            (forall x, stored f x -> ianc f x t -> x <> t -> dirty f0 x <> None)).
  { intros f0 Hd Hf Hno. split; [|split; [|split]].
    - intros x. now rewrite Hd.
    - intros H x b. rewrite Hd, Hf. apply H.
    - intros v Hv. exfalso. apply Hv. apply Hf.
    - intros x _ A Hne. exfalso. apply Hno. destruct (ianc_parent _ _ _ A Hne) as (p & i & s & w & E & Hi & _). eauto 8. }
  destruct (fget f t) as [ct|] eqn:Ect.
  2:{ intros [= <-]. apply Hstop; auto. intros (p & i & s & w & _ & (c & Hc & _)). congruence. }
  destruct (c_upd ct) as [u|] eqn:Eu.
  2:{ intros [= <-]. apply Hstop; auto. intros (p & i & s & w & E & _).
      destruct (hooked_edge _ _ _ HS _ _ _ _ _ E) as (c0 & cv & _ & _ & Hcv & Hu & _). congruence. }
  destruct (negb (c_inl ct) && negb (inl_size ct <=? u_lim u)) eqn:Ee.
  { intros [= <-]. apply Hstop; auto. intros (p & i & s & w & _ & (c & Hc & Hi)).
    apply andb_true_iff in Ee. destruct Ee as [Ee _]. apply negb_true_iff in Ee. congruence. }
  assert (Hclr : ~ attached f t ->
            dmono f (clear_upd f t) /\ (lok f -> lok (clear_upd f t)) /\
            (forall v, flag (clear_upd f t) v <> flag f v ->
               dirty (clear_upd f t) v <> None /\ anc f v t /\
               exists p i s w, edge f p i s v w /\ forall x, stored f x -> ianc f x p -> dirty (clear_upd f t) x <> None) /\
            (forall x, stored f x -> ianc f x t -> x <> t -> dirty (clear_upd f t) x <> None)).
  { intros Hna. apply Hstop.
    - intros x. apply clear_upd_dirty.
    - intros x. apply clear_upd_flag.
    - intros (p & i & s & w & E & _). apply Hna. now exists p, i, s, w. }
  destruct (fget f (u_par u)) as [pc|] eqn:Epc.
  2:{ intros [= <-]. apply Hclr. eapply lookup_fail_unattached; eauto. }
  destruct (find_child pc t u) as [i|] eqn:Efc.
  2:{ intros [= <-]. apply Hclr. eapply lookup_fail_unattached; eauto. }
  intros Hr.
  destruct (lookup_edge _ _ _ _ _ _ Epc Efc) as (s & w & E).
  set (p := u_par u) in *.
  set (f1 := storable f t (u_lim u)) in *.
  set (f2 := set_csize_log g f1 p) in *.
  assert (Hne : t <> p).
  { intros Heq'. rewrite <- Heq' in E. exact (no_self_edge _ _ _ HS _ _ _ _ E). }
  assert (Hs12 : same_struct f f2).
  { eapply same_struct_trans; [apply storable_same_struct|apply set_csize_log_same_struct]. }
  assert (HS2 : fstruct n g f2) by (eapply same_struct_fstruct; eauto).
  assert (Hl2 : forall p0 i0 s0 v0 w0, edge f2 p0 i0 s0 v0 w0 -> (lvl p0 < lvl v0)%nat).
  { intros. eapply Hl. eapply same_struct_edge; [apply same_struct_sym|]; eauto. }
  destruct (IH f2 p f' HS2 Hl2 Hr) as (Hm2 & Hlok2 & Hfl2 & Hup2).
  pose proof (Hl _ _ _ _ _ E) as Hlpt.
  assert (Hm12 : dmono f f2).
  { eapply dmono_trans; [apply storable_dmono|apply set_csize_log_dmono]. }
  assert (Hflag2 : forall x, x <> t -> flag f2 x = flag f x).
  { intros x Hx. unfold f2. rewrite set_csize_log_flag. unfold f1. rewrite storable_flag.
    destruct (N.eqb_spec x t); [congruence|auto]. }
  assert (Hpc1 : fget f1 p = Some pc).
  { unfold f1. rewrite storable_get. destruct (N.eqb_spec p t); [congruence|auto]. }
  (* every register that embeds p is logged *)
  assert (Hp_logged : forall x, stored f x -> ianc f x p -> dirty f' x <> None).
  { intros x Hsx Ax.
    assert (Hlx : (lvl x <= lvl p)%nat) by (eapply anc_lvl; [exact Hl|]; now apply ianc_anc).
    assert (Hxt : x <> t) by (intros ->; lia).
    destruct (N.eq_dec x p) as [->|Hxp].
    - apply (dmono_not_none f2 f' p Hm2). unfold f2. rewrite set_csize_log_dirty, Hpc1.
      destruct Hsx as (c0 & Hc0 & Hi0). rewrite Epc in Hc0. injection Hc0 as <-. rewrite Hi0, N.eqb_refl. discriminate.
    - apply Hup2; auto.
      + eapply stored_flag_eq; [apply Hflag2|]; auto.
      + eapply ianc_transport; [| |exact Ax].
        * intros z p0 i0 s0 w0 _ E0. eapply same_struct_edge; eauto.
        * intros z Az Hiz. eapply inlined_flag_eq; [apply Hflag2|auto].
          intros ->. pose proof (anc_lvl _ lvl _ _ Hl Az). lia. }
  split; [eapply dmono_trans; eauto|]. split; [|split].
  - intros H. apply Hlok2. unfold f2. apply set_csize_log_lok. unfold f1. now apply storable_lok.
  - intros v Hv. destruct (optb_dec (flag f2 v) (flag f v)) as [Heq|Hneq].
    + (* flipped later in the chain *)
      rewrite <- Heq in Hv. destruct (Hfl2 v Hv) as (Hd & Av & p' & i' & s' & w' & E' & Hx).
      assert (Av' : anc f v p) by (eapply anc_su; [apply same_struct_su; exact Hs12|exact Av]).
      split; auto. split; [econstructor; eauto|].
      assert (E0 : edge f p' i' s' v w') by (eapply same_struct_edge; [apply same_struct_sym; exact Hs12|exact E']).
      exists p', i', s', w'. split; auto.
      intros x Hsx Ax.
      pose proof (anc_lvl _ lvl _ _ Hl Av') as Hlv. pose proof (Hl _ _ _ _ _ E0) as Hlp'.
      assert (Hlx : (lvl x <= lvl p')%nat) by (eapply anc_lvl; [exact Hl|]; now apply ianc_anc).
      apply Hx.
      * eapply stored_flag_eq; [apply Hflag2|]; auto. intros ->. lia.
      * eapply ianc_transport; [| |exact Ax].
        -- intros z p0 i0 s0 w0 _ E1. eapply same_struct_edge; eauto.
        -- intros z Az Hiz. eapply inlined_flag_eq; [apply Hflag2|auto].
           intros ->. pose proof (anc_lvl _ lvl _ _ Hl Az). lia.
    + (* flipped here: v = t *)
      assert (Hvt : v = t /\ dirty f1 v <> None).
      { apply storable_flip. unfold f2 in Hneq. rewrite set_csize_log_flag in Hneq. exact Hneq. }
      destruct Hvt as (-> & Hd1). split.
      * apply (dmono_not_none f2 f' t Hm2). apply (dmono_not_none f1 f2 t); [apply set_csize_log_dmono|auto].
      * split; [constructor|]. exists p, i, s, w. split; auto.
  - intros x Hsx Ax Hxt.
    destruct (ianc_parent _ _ _ Ax Hxt) as (p0 & i0 & s0 & w0 & E0 & _ & Ap).
    destruct (edge_unique _ _ _ HS _ _ _ _ _ _ _ _ _ E E0) as (<- & _). auto.
Qed.
