(* Nested_resync.v — the callback chain: under the structural invariant, notifyParentIfNeeded is a
   pure re-synchronisation of cached sizes / inline flags along the ancestor chain. *)
From Coq Require Import ZArith NArith List Bool Lia Arith.
From AtreeGen Require Import Consts.
From AtreeModel Require Import Nested.
From AtreeProofs Require Import Nested_base.
Import ListNotations.
Local Open Scope N_scope.

(* ---------- sizes over an arbitrary child-size function ---------- *)
Definition esize_w (g : ncfg) (cs : N -> N) (e : elem) : N :=
  match e with NScalar _ sz => sz | NChild v w => wp g w + cs v end.
Definition slot_size_w g cs (k : kind) (s : slot) : N :=
  match k with
  | KArr => esize_w g cs (s_val s)
  | KMap => c_digestSize + c_singleElementPrefixSize + s_ksz s + esize_w g cs (s_val s)
  end.
Fixpoint sum_w g cs k (l : list slot) : N :=
  match l with [] => 0 | s :: r => slot_size_w g cs k s + sum_w g cs k r end.

Lemma sum_slots_w g f k l : sum_slots g f k l = sum_w g (child_size f) k l.
Proof. induction l; cbn; auto. rewrite IHl. destruct k, (s_val a); reflexivity. Qed.

Lemma slot_size_w_ext g cs cs' k s :
  (forall v w, s_val s = NChild v w -> cs v = cs' v) -> slot_size_w g cs k s = slot_size_w g cs' k s.
Proof.
  intros H. unfold slot_size_w, esize_w. destruct (s_val s) as [id sz|v w] eqn:E; auto.
  rewrite (H v w eq_refl). reflexivity.
Qed.

Lemma sum_w_ext g cs cs' k l :
  (forall s v w, In s l -> s_val s = NChild v w -> cs v = cs' v) -> sum_w g cs k l = sum_w g cs' k l.
Proof.
  induction l as [|s r IH]; cbn; intros H; auto.
  rewrite IH by (intros; eapply H; eauto).
  rewrite (slot_size_w_ext g cs cs') by (intros; eapply H; eauto). reflexivity.
Qed.

Lemma slot_size_eq_w g f k s : slot_size g f k s = slot_size_w g (child_size f) k s.
Proof. destruct k, (s_val s) eqn:E; unfold slot_size, slot_size_w, esize, esize_w; rewrite E; reflexivity. Qed.

Lemma child_size_ext f f' v : fget f' v = fget f v -> child_size f' v = child_size f v.
Proof. unfold child_size. now intros ->. Qed.

(* ---------- edges ---------- *)
Lemma edge_In f p i s v w : edge f p i s v w -> exists c, fget f p = Some c /\ In s (c_slots c).
Proof. intros (c & Hc & Hn & _). exists c. split; auto. eapply nth_error_In; eauto. Qed.

Definition same_struct (f f' : forest) : Prop :=
  forall x, match fget f x, fget f' x with
            | Some c, Some c' => c_kind c = c_kind c' /\ c_slots c = c_slots c' /\ c_upd c = c_upd c' /\ c_idx c = c_idx c'
            | None, None => True
            | _, _ => False
            end.

Lemma same_struct_refl f : same_struct f f.
Proof. intros x. destruct (fget f x); auto. Qed.

Lemma same_struct_trans f1 f2 f3 : same_struct f1 f2 -> same_struct f2 f3 -> same_struct f1 f3.
Proof.
  intros H1 H2 x. specialize (H1 x). specialize (H2 x).
  destruct (fget f1 x), (fget f2 x), (fget f3 x); try tauto.
  destruct H1 as (?&?&?&?), H2 as (?&?&?&?). repeat split; congruence.
Qed.

Lemma same_struct_edge f f' p i s v w : same_struct f f' -> edge f p i s v w -> edge f' p i s v w.
Proof.
  intros H (c & Hc & Hn & Hv). specialize (H p). rewrite Hc in H.
  destruct (fget f' p) as [c'|] eqn:E; [|contradiction]. destruct H as (_ & Hs & _).
  exists c'. rewrite <- Hs. auto.
Qed.

Lemma same_struct_sym f f' : same_struct f f' -> same_struct f' f.
Proof.
  intros H x. specialize (H x). destruct (fget f x), (fget f' x); try tauto.
  destruct H as (?&?&?&?). repeat split; congruence.
Qed.

Lemma same_struct_fstruct n g f f' : same_struct f f' -> fstruct n g f -> fstruct n g f'.
Proof.
  intros H [Hh Hk Hr]. split.
  - intros p c' i s v w Hc' Hn Hv.
    pose proof (H p) as Hp. rewrite Hc' in Hp. destruct (fget f p) as [c|] eqn:Ec; [|contradiction].
    destruct Hp as (Hkd & Hsl & _ & Hix).
    destruct (Hh p c i s v w Ec) as (cv & Hcv & Hu & Hi); [congruence|auto|].
    pose proof (H v) as Hvv. rewrite Hcv in Hvv. destruct (fget f' v) as [cv'|] eqn:Ev; [|contradiction].
    destruct Hvv as (_ & _ & Hup & _).
    exists cv'. split; auto. split; [congruence|]. intros Hka. rewrite <- Hix. apply Hi. congruence.
  - intros p c' Hc' Hkm. pose proof (H p) as Hp. rewrite Hc' in Hp.
    destruct (fget f p) as [c|] eqn:Ec; [|contradiction]. destruct Hp as (Hkd & Hsl & _).
    rewrite <- Hsl. eapply Hk; eauto. congruence.
  - destruct Hr as (lvl & Hl & Hb). exists lvl. split; auto.
    intros p i s v w He. eapply Hl. eapply same_struct_edge; [apply same_struct_sym|]; eauto.
Qed.

Lemma same_struct_idx_ok f f' : same_struct f f' -> idx_ok f -> idx_ok f'.
Proof.
  intros H Hi p c' Hc'. pose proof (H p) as Hp. rewrite Hc' in Hp.
  destruct (fget f p) as [c|] eqn:Ec; [|contradiction]. destruct Hp as (Hkd & Hsl & _ & Hix).
  destruct (Hi p c Ec) as [H1 H2]. rewrite <- Hsl, <- Hix, <- Hkd. split; auto.
Qed.

(* ---------- what the primitive updates do ---------- *)
Lemma storable_get f t lim x :
  fget (storable f t lim) x =
  if x =? t then option_map (fun c => with_inl c (inl_size c <=? lim)) (fget f t) else fget f x.
Proof.
  unfold storable. destruct (fget f t) as [c|] eqn:Ec.
  - cbn [option_map]. rewrite (N.eqb_sym x t).
    destruct (inl_size c <=? lim) eqn:Ef, (c_inl c) eqn:Ei.
    + destruct (N.eqb_spec t x) as [<-|]; auto. rewrite Ec, with_inl_id; auto.
    + rewrite fget_flog. apply fget_fset.
    + rewrite fget_flog. apply fget_fset.
    + destruct (N.eqb_spec t x) as [<-|]; auto. rewrite Ec, with_inl_id; auto.
  - destruct (N.eqb_spec x t) as [->|Hne]; [now rewrite Ec|auto].
Qed.

Lemma storable_same_struct f t lim : same_struct f (storable f t lim).
Proof.
  intros x. rewrite storable_get. destruct (N.eqb_spec x t) as [->|Hne].
  - destruct (fget f t) as [c|]; cbn; auto.
  - destruct (fget f x); auto.
Qed.

Lemma storable_dirty_ne f t lim x : x <> t -> dirty (storable f t lim) x = dirty f x.
Proof.
  intros Hne. unfold storable. destruct (fget f t) as [c|]; auto.
  destruct (inl_size c <=? lim), (c_inl c); auto; rewrite dirty_flog_ne by congruence; apply dirty_fset.
Qed.

Definition set_csize_log (g : ncfg) (f : forest) (p : N) : forest :=
  match fget f p with
  | Some c =>
    let f1 := fset f p (with_csize c (data_size g f (c_kind c) (c_slots c))) in
    if c_inl c then f1 else flog f1 p true
  | None => f
  end.

Lemma set_csize_log_get g f p x :
  fget (set_csize_log g f p) x =
  if x =? p then option_map (fun c => with_csize c (data_size g f (c_kind c) (c_slots c))) (fget f p) else fget f x.
Proof.
  unfold set_csize_log. destruct (fget f p) as [c|] eqn:Ec.
  - cbn [option_map]. rewrite (N.eqb_sym x p).
    destruct (c_inl c); rewrite ?fget_flog; apply fget_fset.
  - destruct (N.eqb_spec x p) as [->|]; [now rewrite Ec|auto].
Qed.

Lemma set_csize_log_same_struct g f p : same_struct f (set_csize_log g f p).
Proof.
  intros x. rewrite set_csize_log_get. destruct (N.eqb_spec x p) as [->|Hne].
  - destruct (fget f p) as [c|]; cbn; auto.
  - destruct (fget f x); auto.
Qed.

Lemma set_csize_log_dirty_ne g f p x : x <> p -> dirty (set_csize_log g f p) x = dirty f x.
Proof.
  intros Hne. unfold set_csize_log. destruct (fget f p) as [c|]; auto.
  destruct (c_inl c); [apply dirty_fset|]. rewrite dirty_flog_ne by congruence. apply dirty_fset.
Qed.

Lemma clear_upd_get f t x :
  fget (clear_upd f t) x = if x =? t then option_map (fun c => with_upd c None) (fget f t) else fget f x.
Proof.
  unfold clear_upd. destruct (fget f t) as [c|] eqn:Ec.
  - rewrite fget_fset, (N.eqb_sym x t). destruct (t =? x); auto.
  - destruct (N.eqb_spec x t) as [->|]; [now rewrite Ec|auto].
Qed.

(* ---------- consequences of the structural invariant ---------- *)
Section hooked.
  Variables (n : nat) (g : ncfg) (f : forest).
  Hypothesis HS : fstruct n g f.

  Lemma hooked_edge p i s v w :
    edge f p i s v w ->
    exists c cv, fget f p = Some c /\ nth_error (c_slots c) i = Some s /\ fget f v = Some cv /\
                 c_upd cv = Some (upd_for g p (c_kind c) s w) /\ (c_kind c = KArr -> aget (c_idx c) v = Some i).
  Proof.
    intros (c & Hc & Hn & Hv). destruct (st_hooked _ _ _ HS p c i s v w Hc Hn Hv) as (cv & ? & ? & ?).
    exists c, cv. auto.
  Qed.

  Lemma edge_unique p i s w p' i' s' w' v :
    edge f p i s v w -> edge f p' i' s' v w' -> p = p' /\ i = i' /\ s = s' /\ w = w'.
  Proof.
    intros E1 E2.
    destruct (hooked_edge _ _ _ _ _ E1) as (c & cv & Hc & Hn & Hcv & Hu & Hi).
    destruct (hooked_edge _ _ _ _ _ E2) as (c' & cv' & Hc' & Hn' & Hcv' & Hu' & Hi').
    rewrite Hcv in Hcv'. injection Hcv' as <-. rewrite Hu in Hu'. injection Hu' as Hp Hk _ Hw.
    subst p' w'. rewrite Hc in Hc'. injection Hc' as <-.
    assert (i = i').
    { destruct (c_kind c) eqn:Ek.
      - specialize (Hi eq_refl). specialize (Hi' eq_refl). congruence.
      - pose proof (st_keys _ _ _ HS p c Hc Ek) as Hnd.
        pose proof (find_key_nodup _ _ _ Hnd Hn) as F1. pose proof (find_key_nodup _ _ _ Hnd Hn') as F2.
        rewrite Hk in F1. congruence. }
    subst i'. repeat split; auto. congruence.
  Qed.

  Lemma no_self_edge p i s w : ~ edge f p i s p w.
  Proof.
    intros E. destruct (st_ranked _ _ _ HS) as (lvl & Hl & _). specialize (Hl _ _ _ _ _ E). lia.
  Qed.

  Lemma hooked_lookup p i s v w c cv :
    edge f p i s v w -> fget f p = Some c -> fget f v = Some cv ->
    exists u, c_upd cv = Some u /\ u = upd_for g p (c_kind c) s w /\ find_child c v u = Some i.
  Proof.
    intros E Hc Hcv.
    destruct (hooked_edge _ _ _ _ _ E) as (c0 & cv0 & Hc0 & Hn & Hcv0 & Hu & Hi).
    rewrite Hc in Hc0. injection Hc0 as <-. rewrite Hcv in Hcv0. injection Hcv0 as <-.
    eexists. split; [eassumption|]. split; [reflexivity|].
    destruct E as (c1 & Hc1 & _ & Hv). rewrite Hc in Hc1. injection Hc1 as <-.
    unfold find_child, upd_for. cbn [u_key].
    destruct (c_kind c) eqn:Ek.
    - rewrite (Hi eq_refl), Hn. unfold holds. rewrite Hv, N.eqb_refl. reflexivity.
    - rewrite (find_key_nodup _ _ _ (st_keys _ _ _ HS p c Hc Ek) Hn), Hn. unfold holds. rewrite Hv, N.eqb_refl. reflexivity.
  Qed.
End hooked.

Lemma lookup_edge f p c v u i : fget f p = Some c -> find_child c v u = Some i -> exists s w, edge f p i s v w.
Proof.
  intros Hc. unfold find_child.
  destruct (match c_kind c with KArr => aget (c_idx c) v | KMap => find_key (c_slots c) (u_key u) end) as [j|]; [|discriminate].
  destruct (nth_error (c_slots c) j) as [s|] eqn:Hn; [|discriminate].
  unfold holds. destruct (s_val s) as [|v' w] eqn:Hv; [discriminate|].
  destruct (N.eqb_spec v' v) as [->|]; [|discriminate]. intros [= <-].
  exists s, w, c. auto.
Qed.

(* ---------- the pure re-synchronisation ---------- *)
Fixpoint resync (m : nat) (g : ncfg) (f : forest) (t : N) : forest * bool :=
  match m with
  | O => (f, false)
  | S m' =>
    match fget f t with
    | None => (f, true)
    | Some c =>
      match c_upd c with
      | None => (f, true)
      | Some u =>
        if negb (c_inl c) && negb (inl_size c <=? u_lim u) then (f, true) else
        match fget f (u_par u) with
        | None => (clear_upd f t, true)
        | Some pc =>
          match find_child pc t u with
          | None => (clear_upd f t, true)
          | Some _ => resync m' g (set_csize_log g (storable f t (u_lim u)) (u_par u)) (u_par u)
          end
        end
      end
    end
  end.

Lemma slot_eta s e : s_val s = e -> mkSlot (s_kid s) (s_ksz s) e = s.
Proof. destruct s. cbn. now intros ->. Qed.

Lemma set_callback_hooked n g f p i s v w :
  fstruct n g f -> edge f p i s v w -> set_callback g f p i s = f.
Proof.
  intros HS E. destruct (hooked_edge _ _ _ HS _ _ _ _ _ E) as (c & cv & Hc & Hn & Hcv & Hu & Hi).
  destruct E as (c0 & Hc0 & _ & Hv). rewrite Hc in Hc0. injection Hc0 as <-.
  unfold set_callback. rewrite Hv, Hc.
  assert (Hf1 : match c_kind c with KArr => fset f p (with_idx c (aset (c_idx c) v i)) | KMap => f end = f).
  { destruct (c_kind c) eqn:Ek; auto. rewrite aset_same_id by auto. rewrite with_idx_id by auto. now apply fset_same_id. }
  rewrite Hf1, Hcv. rewrite with_upd_id by exact Hu. now apply fset_same_id.
Qed.

Lemma notify_resync n g : forall m f t, fstruct n g f -> notify m g f t = resync m g f t.
Proof.
  induction m as [|m IH]; intros f t HS; [reflexivity|].
  cbn [notify resync]. destruct (fget f t) as [ct|] eqn:Ect; auto.
  destruct (c_upd ct) as [u|] eqn:Eu; auto.
  destruct (negb (c_inl ct) && negb (inl_size ct <=? u_lim u)); auto.
  destruct (fget f (u_par u)) as [pc|] eqn:Epc; auto.
  destruct (find_child pc t u) as [i|] eqn:Efc; auto.
  destruct (lookup_edge _ _ _ _ _ _ Epc Efc) as (s & w & E).
  destruct (hooked_lookup _ _ _ HS _ _ _ _ _ _ _ E Epc Ect) as (u' & Hu' & Heq & _).
  rewrite Eu in Hu'. injection Hu' as <-.
  assert (Hne : t <> u_par u).
  { intros Heq'. rewrite <- Heq' in E. eapply no_self_edge; eauto. }
  destruct E as (c0 & Hc0 & Hn & Hv). rewrite Epc in Hc0. injection Hc0 as <-.
  unfold cset_body. rewrite Epc, Hn. cbn [storable_elem].
  assert (Hw : u_w u = w) by (rewrite Heq; reflexivity).
  assert (Hlim : slot_lim g (c_kind pc) (s_ksz s) (u_w u) = u_lim u) by (rewrite Heq; reflexivity).
  rewrite Hlim.
  set (f1 := storable f t (u_lim u)).
  assert (Hpc1 : fget f1 (u_par u) = Some pc).
  { unfold f1. rewrite storable_get. destruct (N.eqb_spec (u_par u) t); [congruence|auto]. }
  rewrite Hpc1. rewrite Hw, (slot_eta s (NChild t w) Hv).
  rewrite (replace_nth_same_id _ _ _ Hn).
  assert (HS1 : fstruct n g f1) by (eapply same_struct_fstruct; [apply storable_same_struct|auto]).
  assert (Hcommit : commit_slots f1 (u_par u) pc (c_slots pc) (data_size g f1 (c_kind pc) (c_slots pc)) (c_idx pc)
                    = set_csize_log g f1 (u_par u)).
  { unfold commit_slots, set_csize_log. rewrite Hpc1. reflexivity. }
  rewrite Hcommit.
  set (f2 := set_csize_log g f1 (u_par u)).
  assert (HS2 : fstruct n g f2) by (eapply same_struct_fstruct; [apply set_csize_log_same_struct|auto]).
  assert (E2 : edge f2 (u_par u) i s t w).
  { eapply same_struct_edge; [apply set_csize_log_same_struct|].
    eapply same_struct_edge; [apply storable_same_struct|]. exists pc. auto. }
  rewrite (set_callback_hooked _ _ _ _ _ _ _ _ HS2 E2).
  rewrite IH by auto. destruct (resync m g f2 (u_par u)). reflexivity.
Qed.
